"""C16 — Miller conversions, plane normals, centering conversions, index utilities, family identification."""
from __future__ import annotations

import ast
import math
import random
from fractions import Fraction
from itertools import product

from .. import common as cm
from ..translate import TranslationError, get_function, strip_doc, lit

PROP = 'C16'
THEOREMS = [
    # 3 <-> 4 index notations
    'C16.plane34_roundtrip', 'C16.plane43_int_roundtrip', 'C16.vector34_roundtrip', 'C16.vector4_same_direction',
    'C16.sumIsZero_int', 'C16.plane4_api',
    # arrays of four-index sets: one guard for the whole array = every row's own guard
    'C16.guardAll_iff', 'C16.plane4to3Arr_eq_mapM', 'C16.vector4to3Arr_eq_mapM', 'C16.plane4to3Arr_int',
    # plane normal = reciprocal-lattice direction, zone law
    'C16.idx_cross_parallel', 'C16.planeInPlane_zero', 'C16.cross_of_lattice_vectors', 'C16.normal_is_reciprocal',
    'C16.normal_unit_along_reciprocal', 'C16.normal_left_handed', 'C16.recip_dot_lattice', 'C16.normal_perp_iff_zone',
    # cells in any orientation: V -> V.R rotates vectors and normals along (mirror images flip the normal)
    'C16.rot_rows_cross', 'C16.cross_vecMul_rot', 'C16.normal_rotation_covariant', 'C16.normal_reflection_flips',
    'C16.vector_rotation_covariant', 'C16.det_mul', 'C16.normal_unit_along_reciprocal_rotated', 'C16.normal_cubic_rotated',
    # the Box OBJECT: answers depend on the current cell only, reciprocal_vects cache valid after any history,
    # vectors/normals/family do not see the origin, a vector is a difference of positions
    'C16.BoxObj.cacheValid_run', 'C16.BoxObj.reciprocalVects_run', 'C16.BoxObj.queries_after_set',
    'C16.BoxObj.queries_origin_independent', 'C16.BoxObj.vector_is_position_difference',
    # the CALLER's memory: a call touches no existing array (the argument included), its value is a function of the
    # argument's contents, it is stored at a fresh address; call -> caller overwrites results -> identical call gives
    # the identical value (true by construction in a functional model: spelt out for histories, tied by _corr_memory)
    'C16.Mem.call_frame', 'C16.Mem.call_result', 'C16.Mem.call_error', 'C16.Mem.size_step_le', 'C16.Mem.step_frame',
    'C16.Mem.run_frame', 'C16.Mem.call_scribble_call', 'C16.Mem.two_results_distinct',
    # arrays of planes: accepted iff every row is a plane on its own (zero row / non-integer row rejects the array)
    'C16.planeArr_ok_iff', 'C16.planeArr_rows', 'C16.planeRow_zero',
    # counts and thresholds: a long array evaluated in blocks = evaluated whole (any cut), the in-plane vectors are exact
    # (zone law, no truncation loss), the four-index form of an unsigned plane needs a negative index
    'C16.planeArr_append', 'C16.guardAll_append', 'C16.plane4to3Arr_append', 'C16.vector4to3Arr_append',
    'C16.inplane_zone', 'C16.plane3to4_third_negative',
    # centering tables (generated from miller.py)
    'C16.centering_inverse', 'C16.centering_det',
    # reduce_indices / all_indices
    'C16.gcdList_spec', 'C16.reduce_coprime', 'C16.reduce_same_direction', 'C16.reduce_zero',
    'C16.allIndices_complete', 'C16.allIndices_sound', 'C16.allIndices_reduce_complete', 'C16.allIndices_reduce_coprime',
    # order of the rows of an array of planes (round 5)
    'C16.planeArr_cons', 'C16.planeArr_reverse', 'C16.planeArr_perm',
    # fromstring: index strings parse to the numbers they show
    'C16.parseInt_renderInt', 'C16.fromString_render', 'C16.fromString_renderW',
    # family identification
    'C16.isclose_iff', 'C16.identify_cubic', 'C16.identify_hexagonal', 'C16.identify_tetragonal',
    'C16.identify_rhombohedral', 'C16.identify_orthorhombic', 'C16.identify_monoclinic', 'C16.identify_triclinic',
    'C16.identify_iff_pred',
    # source tie (Generated/MillerSource.lean regenerated from miller.py / Box.py / crystalsystem.py; Proofs/C16_Source.lean)
    'C16.gen_plane3to4_eq_model', 'C16.gen_plane4to3_eq_model', 'C16.gen_vector3to4_eq_model',
    'C16.gen_vector4to3_eq_model', 'C16.gen_planeInPlane_eq_model', 'C16.gen_normalOf_eq_model',
    'C16.gen_planeNormalUnnorm_eq_model', 'C16.gen_planeResult_eq_model', 'C16.gen_vectorResult_eq_model',
    'C16.gen_vectorResult4_eq_model', 'C16.gen_reduceIndices_eq_model', 'C16.gen_bracketPairs_eq_model',
    'C16.gen_allIndicesDefaults_eq_model', 'C16.gen_box_isCubic_eq_model', 'C16.gen_box_isHexagonal_eq_model',
    'C16.gen_box_isTetragonal_eq_model', 'C16.gen_box_isRhombohedral_eq_model', 'C16.gen_box_isOrthorhombic_eq_model',
    'C16.gen_box_isMonoclinic_eq_model', 'C16.gen_box_isTriclinic_eq_model', 'C16.gen_box_identifyFamily_eq_model',
    'C16.gen_box_defaults_eq_model', 'C16.gen_cs_isCubic_eq_model', 'C16.gen_cs_isHexagonal_eq_model',
    'C16.gen_cs_isTetragonal_eq_model', 'C16.gen_cs_isRhombohedral_eq_model', 'C16.gen_cs_isOrthorhombic_eq_model',
    'C16.gen_cs_isMonoclinic_eq_model', 'C16.gen_cs_isTriclinic_eq_model', 'C16.gen_cs_identifyFamily_eq_model',
    'C16.gen_cs_defaults_eq_model', 'C16.gen_pin_plane_crystal_to_cartesian',
    'C16.gen_pin_vector_crystal_to_cartesian', 'C16.gen_pin_all_indices', 'C16.gen_pin_fromstring_rest',
    'C16.gen_pin_Box_vector_crystal_to_cartesian', 'C16.gen_pin_Box_plane_crystal_to_cartesian',
    # np.unique(axis=0) as modelled: strictly increasing rows
    'C16.lexLt_irrefl', 'C16.lexLt_trans', 'C16.lexLt_total', 'C16.insertUniq_sorted', 'C16.sortUniq_sorted', 'C16.sortUniq_nodup',
    'C16.allIndices_reduce_sorted',
    # family clause and the length unit
    'C16.isclose_scale_atol0', 'C16.identify_scale_atol0',
    # end to end over the generated definitions; scale invariance
    'C16.normal_nonzero', 'C16.IsNormAt.pos', 'C16.IsNormAt.smul', 'C16.gen_normal_perp_iff_zone',
    'C16.gen_normal_unit_along_reciprocal', 'C16.normal_scale', 'C16.gen_normal_scale_invariant',
    'C16.gen_vector_scale', 'C16.gen_plane34_roundtrip', 'C16.gen_vector34_roundtrip', 'C16.gen_box_cs_agree',
    'C16.gen_identify_iff_pred',
    # statement audit: the centering theorems cover the whole regenerated table; identification without the window hypothesis
    'C16.centering_settings_exhaustive', 'C16.identify_iff_pred_exact',
]
PARTIAL = {}
GENERATED = ['MillerTables', 'MillerSource']

SETTINGS = ['p', 'a', 'b', 'c', 'i', 'f', 't1', 't2']


# ----------------------------------------------------------------------------------------
# translator: the two centering tables of miller.py -> Lean (exact rationals, generic K)
# ----------------------------------------------------------------------------------------
def _num(node) -> Fraction:
    if isinstance(node, ast.Constant) and isinstance(node.value, (int, float)) and not isinstance(node.value, bool):
        return Fraction(node.value)
    if isinstance(node, ast.UnaryOp) and isinstance(node.op, ast.USub):
        return -_num(node.operand)
    if isinstance(node, ast.UnaryOp) and isinstance(node.op, ast.UAdd):
        return _num(node.operand)
    raise TranslationError(f'table entry is not a numeric literal: {ast.unparse(node)}')


def _matrix(node):
    """np.array([[..],[..],[..]]) optionally `/ c` or `* c` with a numeric literal c."""
    if isinstance(node, ast.BinOp) and isinstance(node.op, (ast.Div, ast.Mult)):
        m = _matrix(node.left)
        c = _num(node.right)
        if isinstance(node.op, ast.Div):
            if c == 0:
                raise TranslationError('table divided by zero')
            return [[v / c for v in r] for r in m]
        return [[v * c for v in r] for r in m]
    if not (isinstance(node, ast.Call) and ast.unparse(node.func) in ('np.array', 'np.asarray', 'numpy.array')
            and len(node.args) == 1 and not node.keywords and isinstance(node.args[0], ast.List)):
        raise TranslationError(f'table is not an np.array literal: {ast.unparse(node)[:60]}')
    rows = node.args[0].elts
    if len(rows) != 3 or not all(isinstance(r, ast.List) and len(r.elts) == 3 for r in rows):
        raise TranslationError('table is not 3x3')
    return [[_num(e) for e in r.elts] for r in rows]


def _table(src, fname):
    fn = get_function(src, fname)
    args = [a.arg for a in fn.args.args]
    if args != ['indices', 'setting']:
        raise TranslationError(f'{fname}: unexpected signature {args}')
    tables = {}
    saw_lookup = saw_return = False
    for st in strip_doc(fn.body):
        u = ast.unparse(st)
        if isinstance(st, ast.Assign) and len(st.targets) == 1 and isinstance(st.targets[0], ast.Subscript) \
                and ast.unparse(st.targets[0].value) == 'lattice_vectors':
            key = st.targets[0].slice
            if not (isinstance(key, ast.Constant) and isinstance(key.value, str)):
                raise TranslationError(f'{fname}: non-literal table key')
            if key.value in tables:
                raise TranslationError(f'{fname}: table {key.value} assigned twice')
            tables[key.value] = _matrix(st.value)
        elif u == 'lattice_vectors = {}':
            continue
        elif u == 'indices = np.asarray(indices)':
            continue
        elif isinstance(st, ast.If) and ast.unparse(st.test) == 'indices.shape[-1] != 3' \
                and len(st.body) == 1 and isinstance(st.body[0], ast.Raise) and not st.orelse:
            continue
        elif isinstance(st, ast.Try):
            if len(st.body) == 1 and ast.unparse(st.body[0]) == 'lat = lattice_vectors[setting]' \
                    and len(st.handlers) == 1 and len(st.handlers[0].body) == 1 \
                    and isinstance(st.handlers[0].body[0], ast.Raise) \
                    and ast.unparse(st.handlers[0].body[0].exc.func) == 'ValueError' \
                    and not st.orelse and not st.finalbody:
                saw_lookup = True
            else:
                raise TranslationError(f'{fname}: unexpected try block')
        elif isinstance(st, ast.Return):
            if u != 'return indices.dot(lat)':
                raise TranslationError(f'{fname}: result is not indices.dot(lat): {u}')
            saw_return = True
        else:
            raise TranslationError(f'{fname}: unsupported statement {u[:70]}')
    if not (saw_lookup and saw_return):
        raise TranslationError(f'{fname}: lookup/return pattern not found')
    return tables


def _lean_m3(m):
    rows = ['⟨' + ', '.join(lit(v) for v in r) + '⟩' for r in m]
    return '⟨' + ',\n   '.join(rows) + '⟩'


def _ident(key):
    if not key.isidentifier():
        raise TranslationError(f'table key {key!r} is not an identifier')
    return key


def translate():
    src = cm.source('atomman/tools/miller.py')
    parts = ['/- GENERATED by harness/props/c16.py from atomman/tools/miller.py — do not edit. -/',
             'import Atomman.Prelude', 'namespace Atomman.Gen',
             'variable {K : Type} [NatCast K] [Div K] [Neg K]', '']
    for fname, pre, look, doc in (
            ('vector_primitive_to_conventional', 'p2c', 'primToConv?',
             'lattice_vectors of vector_primitive_to_conventional (rows; result is indices.dot(lat))'),
            ('vector_conventional_to_primitive', 'c2p', 'convToPrim?',
             'lattice_vectors of vector_conventional_to_primitive')):
        tables = _table(src, fname)
        for key, m in tables.items():
            parts.append(f'/-- {doc}, setting {key!r}. -/')
            parts.append(f'def {pre}_{_ident(key)} : M3 K :=\n  {_lean_m3(m)}\n')
        parts.append(f'/-- the dictionary lookup `lattice_vectors[setting]` of {fname} (`none` = ValueError). -/')
        body = ''.join(f'  if setting = "{key}" then some {pre}_{_ident(key)} else\n' for key in tables)
        parts.append(f'def {look} (setting : String) : Option (M3 K) :=\n{body}  none\n')
    parts.append('end Atomman.Gen\n')
    return {'MillerTables': '\n'.join(parts), 'MillerSource': _translate_source()}


# ----------------------------------------------------------------------------------------
# translator 2: the function BODIES of miller.py / Box.py / crystalsystem.py -> Generated/MillerSource.lean
# (formulas and branch trees as Lean definitions proved equal to the model in Proofs/C16_Source.lean; sequencing of numpy
# calls as normalised statement pins)
# ----------------------------------------------------------------------------------------
_FIELDS3 = ['x', 'y', 'z']
_FIELDS4 = ['a', 'b', 'c', 'd']


def _u(node):
    return ast.unparse(node)


def _is_ellipsis_index(sub, arrname):
    """`arr[..., i]` -> i (int) or None"""
    if isinstance(sub, ast.Subscript) and isinstance(sub.value, ast.Name) and sub.value.id == arrname \
            and isinstance(sub.slice, ast.Tuple) and len(sub.slice.elts) == 2 \
            and isinstance(sub.slice.elts[0], ast.Constant) and sub.slice.elts[0].value is Ellipsis \
            and isinstance(sub.slice.elts[1], ast.Constant) and isinstance(sub.slice.elts[1].value, int):
        return sub.slice.elts[1].value
    return None


def _conv_expr(node, invar, infields, outs, fname):
    """arithmetic over indices[..., i] / newindices[..., j] / numeric literals -> Lean term over K"""
    i = _is_ellipsis_index(node, 'indices')
    if i is not None:
        if not 0 <= i < len(infields):
            raise TranslationError(f'{fname}: indices[..., {i}] out of range')
        return f'{invar}.{infields[i]}'
    j = _is_ellipsis_index(node, 'newindices')
    if j is not None:
        if j not in outs:
            raise TranslationError(f'{fname}: newindices[..., {j}] read before it is assigned')
        return outs[j]
    if isinstance(node, ast.Constant) and isinstance(node.value, (int, float)) and not isinstance(node.value, bool):
        return lit(Fraction(node.value))
    if isinstance(node, ast.UnaryOp) and isinstance(node.op, ast.USub):
        return f'(-{_conv_expr(node.operand, invar, infields, outs, fname)})'
    if isinstance(node, ast.BinOp) and isinstance(node.op, (ast.Add, ast.Sub, ast.Mult, ast.Div)):
        op = {ast.Add: '+', ast.Sub: '-', ast.Mult: '*', ast.Div: '/'}[type(node.op)]
        return f'({_conv_expr(node.left, invar, infields, outs, fname)} {op} {_conv_expr(node.right, invar, infields, outs, fname)})'
    raise TranslationError(f'{fname}: unsupported expression {_u(node)[:60]}')


def _raises_value_error(st):
    return isinstance(st, ast.Raise) and st.exc is not None and isinstance(st.exc, ast.Call) and _u(st.exc.func) == 'ValueError'


def _tr_conv(src, fname, nin, nout, guard):
    """one of plane3to4 / plane4to3 / vector3to4 / vector4to3 -> Lean definition text"""
    fn = get_function(src, fname)
    if [a.arg for a in fn.args.args] != ['indices'] or fn.args.defaults or fn.args.kwonlyargs:
        raise TranslationError(f'{fname}: unexpected signature')
    body = strip_doc(fn.body)
    infields = _FIELDS3 if nin == 3 else _FIELDS4
    invar = 'p' if nin == 3 else 'q'
    want = ['indices = np.asarray(indices)']
    pos = 0
    if not (pos < len(body) and _u(body[pos]) == want[0]):
        raise TranslationError(f'{fname}: first statement is not {want[0]}')
    pos += 1
    st = body[pos]
    if not (isinstance(st, ast.If) and _u(st.test) == f'indices.shape[-1] != {nin}' and len(st.body) == 1
            and _raises_value_error(st.body[0]) and not st.orelse):
        raise TranslationError(f'{fname}: width check not found')
    pos += 1
    if guard:
        st = body[pos]
        if not (isinstance(st, ast.If) and _u(st.test) == 'not np.allclose(indices[..., :3].sum(axis=-1), 0.0)'
                and len(st.body) == 1 and _raises_value_error(st.body[0]) and not st.orelse):
            raise TranslationError(f'{fname}: sum guard not found / changed: {_u(st)[:80]}')
        pos += 1
    if _u(body[pos]) != f'newindices = np.empty(indices.shape[:-1] + ({nout},))':
        raise TranslationError(f'{fname}: result allocation changed: {_u(body[pos])[:80]}')
    pos += 1
    outs = {}
    while pos < len(body) - 1:
        st = body[pos]
        if not (isinstance(st, ast.Assign) and len(st.targets) == 1):
            raise TranslationError(f'{fname}: unsupported statement {_u(st)[:70]}')
        j = _is_ellipsis_index(st.targets[0], 'newindices')
        if j is None or j in outs or not 0 <= j < nout:
            raise TranslationError(f'{fname}: unsupported assignment {_u(st)[:70]}')
        outs[j] = _conv_expr(st.value, invar, infields, outs, fname)
        pos += 1
    if sorted(outs) != list(range(nout)) or _u(body[-1]) != 'return newindices':
        raise TranslationError(f'{fname}: not every result column assigned once / result is not newindices')
    # strip one pair of outer parentheses for readability is not needed: Lean parses both
    res = '⟨' + ', '.join(outs[j] for j in range(nout)) + '⟩'
    lname = {'plane3to4': 'plane3to4', 'plane4to3': 'plane4to3', 'vector3to4': 'vector3to4', 'vector4to3': 'vector4to3'}[fname]
    tin, tout = ('V3 K' if nin == 3 else 'V4 K'), ('V3 K' if nout == 3 else 'V4 K')
    if guard:
        s3 = f'{invar}.a + {invar}.b + {invar}.c'
        return (f'/-- {fname} of miller.py: the guard `not np.allclose(indices[..., :3].sum(axis=-1), 0.0)` (numpy default '
                f'tolerances; `atol` is numpy\'s), then the columns of `newindices`. -/\n'
                f'def {lname} (atol : K) ({invar} : {tin}) : Except Err ({tout}) :=\n'
                f'  if sumIsZero atol ({s3}) then .ok {res} else .error .value\n')
    return (f'/-- {fname} of miller.py: the columns of `newindices`. -/\n'
            f'def {lname} ({invar} : {tin}) : {tout} :=\n  {res}\n')


_IDX = {0: 'h', 1: 'k', 2: 'l'}


def _pl_index(node):
    """indices[i] -> 'h' | 'k' | 'l'"""
    if isinstance(node, ast.Subscript) and isinstance(node.value, ast.Name) and node.value.id == 'indices' \
            and isinstance(node.slice, ast.Constant) and node.slice.value in _IDX:
        return _IDX[node.slice.value]
    return None


def _pl_prod(node):
    """product of indices -> Lean Int term"""
    v = _pl_index(node)
    if v:
        return v
    if isinstance(node, ast.BinOp) and isinstance(node.op, ast.Mult):
        return f'{_pl_prod(node.left)} * {_pl_prod(node.right)}'
    raise TranslationError(f'plane_cryst_2_cart: sign argument is not a product of indices: {_u(node)}')


def _pl_m(node):
    if isinstance(node, ast.Constant) and node.value == 1 and not isinstance(node.value, bool):
        return '1'
    if isinstance(node, ast.Call) and not node.keywords:
        f = _u(node.func)
        if f == 'np.lcm' and len(node.args) == 2:
            a, b = (_pl_index(x) for x in node.args)
            if a and b:
                return f'((Int.lcm {a} {b} : Nat) : Int)'
        if f == 'np.lcm.reduce' and len(node.args) == 1 and isinstance(node.args[0], ast.List) and len(node.args[0].elts) >= 2:
            xs = [_pl_index(x) for x in node.args[0].elts]
            if all(xs):
                t = f'((Int.lcm {xs[0]} {xs[1]} : Nat) : Int)'
                for x in xs[2:]:
                    t = f'((Int.lcm {t} {x} : Nat) : Int)'
                return t
    raise TranslationError(f'plane_cryst_2_cart: m is not 1 / np.lcm(i, j) / np.lcm.reduce([...]): {_u(node)}')


def _pl_entry(node):
    """one entry of np.array([...], dtype=int): 0 | 1 | m / indices[i] | -m / indices[i] (true division, truncated)"""
    if isinstance(node, ast.Constant) and node.value in (0, 1) and not isinstance(node.value, (bool, float)):
        return str(node.value)
    if isinstance(node, ast.BinOp) and isinstance(node.op, ast.Div):
        d = _pl_index(node.right)
        if d:
            if isinstance(node.left, ast.Name) and node.left.id == 'm':
                return f'Int.tdiv m {d}'
            if isinstance(node.left, ast.UnaryOp) and isinstance(node.left.op, ast.USub) \
                    and isinstance(node.left.operand, ast.Name) and node.left.operand.id == 'm':
                return f'Int.tdiv (-m) {d}'
    raise TranslationError(f'plane_cryst_2_cart: unsupported in-plane vector entry {_u(node)}')


def _pl_vec(node):
    if not (isinstance(node, ast.Call) and _u(node.func) == 'np.array' and len(node.args) == 1
            and isinstance(node.args[0], ast.List) and len(node.args[0].elts) == 3
            and len(node.keywords) == 1 and node.keywords[0].arg == 'dtype' and _u(node.keywords[0].value) == 'int'):
        raise TranslationError(f'plane_cryst_2_cart: in-plane vector is not np.array([., ., .], dtype=int): {_u(node)[:70]}')
    return '⟨' + ', '.join(_pl_entry(e) for e in node.args[0].elts) + '⟩'


def _pl_leaf(stmts, ind):
    if len(stmts) == 1 and _raises_value_error(stmts[0]):
        return f'{ind}.error .value'
    names = ['m', 's', 'a_uvw', 'b_uvw']
    if len(stmts) != 4 or not all(isinstance(s, ast.Assign) and len(s.targets) == 1 and isinstance(s.targets[0], ast.Name)
                                  and s.targets[0].id == n for s, n in zip(stmts, names)):
        raise TranslationError('plane_cryst_2_cart: a branch does not assign exactly m, s, a_uvw, b_uvw: '
                               + '; '.join(_u(s)[:40] for s in stmts))
    m = _pl_m(stmts[0].value)
    sv = stmts[1].value
    if not (isinstance(sv, ast.Call) and _u(sv.func) == 'np.sign' and len(sv.args) == 1 and not sv.keywords):
        raise TranslationError(f'plane_cryst_2_cart: s is not np.sign(...): {_u(sv)}')
    s = f'Int.sign ({_pl_prod(sv.args[0])})'
    a, b = _pl_vec(stmts[2].value), _pl_vec(stmts[3].value)
    return (f'{ind}let m : Int := {m}\n{ind}let s : Int := {s}\n{ind}let _ := m\n{ind}.ok ({a}, {b}, s)')


def _pl_tree(stmts, ind='  '):
    """the if / elif / else tree on `indices[i] != 0`"""
    if len(stmts) == 1 and isinstance(stmts[0], ast.If):
        st = stmts[0]
        t = st.test
        if not (isinstance(t, ast.Compare) and len(t.ops) == 1 and isinstance(t.ops[0], ast.NotEq)
                and isinstance(t.comparators[0], ast.Constant) and t.comparators[0].value == 0
                and not isinstance(t.comparators[0].value, bool) and _pl_index(t.left)):
            raise TranslationError(f'plane_cryst_2_cart: branch condition is not indices[i] != 0: {_u(t)}')
        if not st.orelse:
            raise TranslationError('plane_cryst_2_cart: a branch without else')
        return (f'{ind}if {_pl_index(t.left)} ≠ 0 then\n{_pl_tree(st.body, ind + "  ")}\n{ind}else\n'
                f'{_pl_tree(st.orelse, ind + "  ")}')
    return _pl_leaf(stmts, ind)


def _tr_plane_normal(src):
    fn = get_function(src, 'plane_cryst_2_cart', inside='plane_crystal_to_cartesian')
    if [a.arg for a in fn.args.args] != ['indices', 'box']:
        raise TranslationError('plane_cryst_2_cart: unexpected signature')
    body = strip_doc(fn.body)
    if len(body) != 3 or not isinstance(body[0], ast.If):
        raise TranslationError('plane_cryst_2_cart: body is not [branch tree, planenormal = ..., return ...]: '
                               + ' | '.join(_u(s)[:60] for s in body[1:]))
    tree = _pl_tree([body[0]])
    # planenormal = s * np.cross(a_uvw.dot(box.vects), b_uvw.dot(box.vects))
    st = body[1]

    def dotv(node):
        if isinstance(node, ast.Call) and isinstance(node.func, ast.Attribute) and node.func.attr == 'dot' \
                and isinstance(node.func.value, ast.Name) and node.func.value.id in ('a_uvw', 'b_uvw') \
                and len(node.args) == 1 and _u(node.args[0]) == 'box.vects' and not node.keywords:
            return f'(M3.vecMul (castV {node.func.value.id[0]}) V)'
        raise TranslationError(f'plane_cryst_2_cart: not <in-plane vector>.dot(box.vects): {_u(node)}')
    ok = (isinstance(st, ast.Assign) and len(st.targets) == 1 and _u(st.targets[0]) == 'planenormal'
          and isinstance(st.value, ast.BinOp) and isinstance(st.value.op, ast.Mult)
          and isinstance(st.value.left, ast.Name) and st.value.left.id == 's'
          and isinstance(st.value.right, ast.Call) and _u(st.value.right.func) == 'np.cross'
          and len(st.value.right.args) == 2 and not st.value.right.keywords)
    if not ok:
        raise TranslationError(f'plane_cryst_2_cart: planenormal is not s * np.cross(., .): {_u(st)[:90]}')
    cross = f'V3.cross {dotv(st.value.right.args[0])} {dotv(st.value.right.args[1])}'
    if _u(body[2]) != 'return planenormal / np.linalg.norm(planenormal)':
        raise TranslationError(f'plane_cryst_2_cart: result is not planenormal / np.linalg.norm(planenormal): {_u(body[2])[:90]}')
    return (
        '/-- the branch tree of `plane_cryst_2_cart` (inner function of plane_crystal_to_cartesian): conditions `indices[i] != 0`\n'
        '    in source order; per branch `m` (np.lcm), `s` (np.sign of a product), and the entries of the two in-plane vectors\n'
        '    (`np.array([...], dtype=int)` of true quotients: truncation). -/\n'
        'def planeInPlane (h k l : Int) : Except Err (V3 Int × V3 Int × Int) :=\n' + tree + '\n\n'
        '/-- `planenormal = s * np.cross(a_uvw.dot(box.vects), b_uvw.dot(box.vects))`. -/\n'
        'def normalOf (V : M3 K) (a b : V3 Int) (s : Int) : V3 K :=\n'
        f'  V3.smul (s : K) ({cross})\n\n'
        '/-- the body of `plane_cryst_2_cart` up to the final division: branch tree, then `planenormal`. -/\n'
        'def planeNormalUnnorm (V : M3 K) (h k l : Int) : Except Err (V3 K) :=\n'
        '  match planeInPlane h k l with\n  | .ok (a, b, s) => .ok (normalOf V a b s)\n  | .error e => .error e\n\n'
        '/-- `return planenormal / np.linalg.norm(planenormal)`: `norm` is numpy\'s. -/\n'
        'def planeResult (norm : V3 K → K) (n : V3 K) : V3 K := normalise n (norm n)\n')


def _pin(name, stmts, doc):
    """normalised statement pin: the `ast.unparse` text of each statement (docstrings and messages of raise dropped)."""
    out = []
    for s in stmts:
        out.append(_pin_text(s))
    items = ',\n   '.join('"' + t.replace('\\', '\\\\').replace('"', '\\"').replace('\n', '\\n') + '"' for t in out)
    return f'/-- {doc} -/\ndef pin_{name} : List String :=\n  [{items}]\n'


def _pin_text(s):
    class Strip(ast.NodeTransformer):
        def visit_Raise(self, node):
            if node.exc is not None and isinstance(node.exc, ast.Call):
                return ast.Raise(exc=ast.Call(func=node.exc.func, args=[], keywords=[]), cause=None)
            return node

        def visit_Assert(self, node):
            return ast.Assert(test=node.test, msg=None)

        def visit_FunctionDef(self, node):
            return ast.Expr(value=ast.Name(id=f'<def {node.name}>', ctx=ast.Load()))
    import copy
    t = Strip().visit(copy.deepcopy(s))
    ast.fix_missing_locations(t)
    # canonical text of the statement; line breaks and the (canonical, 4-blank) indentation are kept, so that moving a
    # statement into / out of a block changes the pin
    return ast.unparse(t)


def _tr_pins(src):
    parts = []
    fn = get_function(src, 'plane_crystal_to_cartesian')
    if [a.arg for a in fn.args.args] != ['indices', 'box'] or fn.args.defaults:
        raise TranslationError('plane_crystal_to_cartesian: unexpected signature')
    parts.append(_pin('plane_crystal_to_cartesian', strip_doc(fn.body),
                      'plane_crystal_to_cartesian around the per-row function: asarray; 4 indices -> box.ishexagonal() (default '
                      'tolerances) -> plane4to3 | ValueError; width check; integer test np.allclose(indices, int cast) -> cast | '
                      'ValueError; apply_along_axis over the last axis'))
    fn = get_function(src, 'vector_crystal_to_cartesian')
    if [a.arg for a in fn.args.args] != ['indices', 'box'] or fn.args.defaults:
        raise TranslationError('vector_crystal_to_cartesian: unexpected signature')
    body = strip_doc(fn.body)
    if _u(body[-1]) != 'return indices.dot(box.vects)':
        raise TranslationError(f'vector_crystal_to_cartesian: result is not indices.dot(box.vects): {_u(body[-1])[:80]}')
    parts.append(_pin('vector_crystal_to_cartesian', body,
                      'vector_crystal_to_cartesian: np.array; 4 indices -> box.ishexagonal() -> vector4to3 | ValueError; width '
                      'check; indices.dot(box.vects)'))
    parts.append('/-- `return indices.dot(box.vects)` for one index set. -/\n'
                 'def vectorResult (p : V3 K) (V : M3 K) : V3 K := M3.vecMul p V\n')
    fn = get_function(src, 'all_indices')
    args = [a.arg for a in fn.args.args]
    dflt = [_u(d) for d in fn.args.defaults]
    if args != ['maxindex', 'reduce'] or len(dflt) != 2 or not dflt[0].lstrip('-').isdigit() or dflt[1] not in ('True', 'False'):
        raise TranslationError(f'all_indices: unexpected signature {args} {dflt}')
    parts.append(f'/-- defaults of all_indices(maxindex, reduce). -/\ndef allIndicesDefaults : Int × Bool := ({dflt[0]}, {dflt[1].lower()})\n')
    parts.append(_pin('all_indices', strip_doc(fn.body),
                      'all_indices: arange(-maxindex, maxindex+1); meshgrid(i, i, i) (xy indexing) stacked as columns u, v, w; zero row '
                      'removed by the sum of absolute values; with reduce: reduce_indices then np.unique(axis=0)'))
    return parts


def _tr_reduce(src):
    fn = get_function(src, 'reduce_indices')
    if [a.arg for a in fn.args.args] != ['indices'] or fn.args.defaults:
        raise TranslationError('reduce_indices: unexpected signature')
    body = strip_doc(fn.body)
    if len(body) != 5 or _u(body[0]) != 'indices = np.asarray(indices)':
        raise TranslationError('reduce_indices: body is not [asarray, width check, n = ..., red_indices = ..., return]')
    st = body[1]
    widths = []
    if isinstance(st, ast.If) and isinstance(st.test, ast.BoolOp) and isinstance(st.test.op, ast.And) and len(st.body) == 1 \
            and _raises_value_error(st.body[0]) and not st.orelse:
        for c in st.test.values:
            if isinstance(c, ast.Compare) and _u(c.left) == 'indices.shape[-1]' and len(c.ops) == 1 \
                    and isinstance(c.ops[0], ast.NotEq) and isinstance(c.comparators[0], ast.Constant) \
                    and isinstance(c.comparators[0].value, int):
                widths.append(c.comparators[0].value)
    if len(widths) < 1 or len(widths) != len(getattr(st.test, 'values', [])):
        raise TranslationError(f'reduce_indices: width check is not `shape[-1] != a and shape[-1] != b`: {_u(st.test)[:80]}')
    if _u(body[2]) != 'n = np.gcd.reduce(indices, axis=-1)':
        raise TranslationError(f'reduce_indices: n is not np.gcd.reduce(indices, axis=-1): {_u(body[2])[:80]}')
    st = body[3]
    if not (isinstance(st, ast.Assign) and _u(st.targets[0]) == 'red_indices' and isinstance(st.value, ast.BinOp)
            and _u(st.value.left) == 'indices' and _u(st.value.right) == 'np.asarray(n)[..., np.newaxis]'):
        raise TranslationError(f'reduce_indices: unexpected quotient {_u(st)[:80]}')
    op = {ast.FloorDiv: 'Int.fdiv', ast.Div: None}.get(type(st.value.op))
    if op is None:
        raise TranslationError(f'reduce_indices: the quotient is not a floor division: {_u(st)[:80]}')
    if _u(body[4]) != 'return red_indices':
        raise TranslationError('reduce_indices: result is not red_indices')
    cond = ' ∨ '.join(f'l.length = {w}' for w in widths)
    return ['/-- reduce_indices for one index set: width check, `n = np.gcd.reduce(indices, axis=-1)`, `indices // n`. -/\n'
            'def reduceIndices (l : List Int) : Except Err (List Int) :=\n'
            f'  if {cond} then\n    let n : Int := (gcdList l : Nat)\n    .ok (l.map (fun x => {op} x n))\n  else .error .value\n']


def _tr_brackets(src):
    fn = get_function(src, 'fromstring')
    if [a.arg for a in fn.args.args] != ['value']:
        raise TranslationError('fromstring: unexpected signature')
    body = strip_doc(fn.body)
    st = body[0]
    pairs = []
    while True:
        if not isinstance(st, ast.If):
            raise TranslationError('fromstring: bracket search is not an if / elif chain')
        t = st.test
        ok = (isinstance(t, ast.Compare) and len(t.ops) == 1 and isinstance(t.ops[0], ast.Gt) and _u(t.comparators[0]) == '-1'
              and isinstance(t.left, ast.Call) and _u(t.left.func) == 'value.find' and len(t.left.args) == 1
              and isinstance(t.left.args[0], ast.Constant) and isinstance(t.left.args[0].value, str) and len(t.left.args[0].value) == 1)
        if not ok or len(st.body) != 2:
            raise TranslationError(f'fromstring: unexpected bracket test {_u(t)[:60]}')
        o = t.left.args[0].value
        a1, a2 = st.body
        if _u(a1) != f'openindex = value.index({o!r})':
            raise TranslationError(f'fromstring: openindex is not value.index({o!r}): {_u(a1)}')
        if not (isinstance(a2, ast.Assign) and _u(a2.targets[0]) == 'closeindex' and isinstance(a2.value, ast.Call)
                and _u(a2.value.func) == 'value.index' and len(a2.value.args) == 1 and isinstance(a2.value.args[0], ast.Constant)
                and isinstance(a2.value.args[0].value, str) and len(a2.value.args[0].value) == 1):
            raise TranslationError(f'fromstring: closeindex is not value.index(<char>): {_u(a2)}')
        pairs.append((o, a2.value.args[0].value))
        if len(st.orelse) == 1 and isinstance(st.orelse[0], ast.If):
            st = st.orelse[0]
            continue
        if len(st.orelse) != 1 or _u(st.orelse[0]) != 'openindex = -1':
            raise TranslationError('fromstring: the chain does not end in openindex = -1')
        break
    items = ', '.join(f"('{o}', '{c}')" for o, c in pairs)
    return [f'/-- fromstring: the bracket kinds looked for, in source order, each with the closing character searched. -/\n'
            f'def bracketPairs : List (Char × Char) := [{items}]\n',
            _pin('fromstring_rest', body[1:],
                 'fromstring after the bracket search: leading fraction (`openindex > 0`, one `/`, float / float), legacy reader, '
                 'np.fromstring(sep=\' \') of the bracket contents, 3 or 4 entries, fraction * array')]


_PARAM = {'a': 'p.a', 'b': 'p.b', 'c': 'p.c', 'alpha': 'p.alpha', 'beta': 'p.beta', 'gamma': 'p.gamma'}
_PREDS = [('iscubic', 'isCubic', 'cubic'), ('ishexagonal', 'isHexagonal', 'hexagonal'), ('istetragonal', 'isTetragonal', 'tetragonal'),
          ('isrhombohedral', 'isRhombohedral', 'rhombohedral'), ('isorthorhombic', 'isOrthorhombic', 'orthorhombic'),
          ('ismonoclinic', 'isMonoclinic', 'monoclinic'), ('istriclinic', 'isTriclinic', 'triclinic')]


def _fam_defaults(fn, first):
    args = [a.arg for a in fn.args.args]
    if args != [first, 'rtol', 'atol'] or len(fn.args.defaults) != 2:
        raise TranslationError(f'{fn.name}: unexpected signature {args}')
    try:
        return [Fraction(_u(d)) for d in fn.args.defaults]
    except Exception:  # noqa
        raise TranslationError(f'{fn.name}: default tolerances are not numeric literals')


def _fam_term(node, obj, fname):
    neg = False
    if isinstance(node, ast.UnaryOp) and isinstance(node.op, ast.Not):
        neg, node = True, node.operand
    ok = (isinstance(node, ast.Call) and _u(node.func) == 'np.isclose' and len(node.args) == 2
          and sorted((k.arg, _u(k.value)) for k in node.keywords) == [('atol', 'atol'), ('rtol', 'rtol')])
    if not ok:
        raise TranslationError(f'{fname}: a term is not [not] np.isclose(x, y, atol=atol, rtol=rtol): {_u(node)[:80]}')

    def operand(x):
        if isinstance(x, ast.Attribute) and isinstance(x.value, ast.Name) and x.value.id == obj and x.attr in _PARAM:
            return _PARAM[x.attr]
        if isinstance(x, ast.Constant) and isinstance(x.value, (int, float)) and not isinstance(x.value, bool):
            return lit(Fraction(x.value))
        raise TranslationError(f'{fname}: unsupported operand {_u(x)}')
    t = f'isclose rtol atol {operand(node.args[0])} {operand(node.args[1])}'
    return ('!' + t) if neg else t


def _tr_family(src, obj, prefix, inside=None, warn=False):
    """the seven predicates + identifyfamily of Box.py (methods, obj = 'self') / crystalsystem.py (functions, obj = 'box')"""
    parts = []
    tree = ast.parse(src)
    if inside:
        cls = [n for n in tree.body if isinstance(n, ast.ClassDef) and n.name == inside]
        if len(cls) != 1:
            raise TranslationError(f'class {inside} not found')
        fns = {n.name: n for n in cls[0].body if isinstance(n, ast.FunctionDef)}
    else:
        fns = {n.name: n for n in tree.body if isinstance(n, ast.FunctionDef)}
    defaults = []
    for py, lean, _fam in _PREDS:
        fn = fns.get(py)
        if fn is None:
            raise TranslationError(f'{prefix}: {py} not found')
        defaults.append((py, _fam_defaults(fn, obj)))
        body = strip_doc(fn.body)
        if warn:
            if not body or _u(body[0]) != 'warnings.warn(warnmsg, PendingDeprecationWarning)':
                raise TranslationError(f'{prefix}.{py}: unexpected first statement')
            body = body[1:]
        if len(body) != 1 or not isinstance(body[0], ast.Return) or not isinstance(body[0].value, ast.BoolOp) \
                or not isinstance(body[0].value.op, ast.And):
            raise TranslationError(f'{prefix}.{py}: body is not `return (t1 and t2 and ...)`')
        terms = [_fam_term(t, obj, f'{prefix}.{py}') for t in body[0].value.values]
        parts.append(f'/-- {prefix}.{py}: the conjunction as coded. -/\ndef {prefix}_{lean} (rtol atol : K) (p : CellParams K) : Bool :=\n  '
                     + ' && '.join(terms) + '\n')
    fn = fns.get('identifyfamily')
    if fn is None:
        raise TranslationError(f'{prefix}: identifyfamily not found')
    defaults.append(('identifyfamily', _fam_defaults(fn, obj)))
    body = strip_doc(fn.body)
    if warn:
        if not body or _u(body[0]) != 'warnings.warn(warnmsg, PendingDeprecationWarning)':
            raise TranslationError(f'{prefix}.identifyfamily: unexpected first statement')
        body = body[1:]
    if len(body) != 1 or not isinstance(body[0], ast.If):
        raise TranslationError(f'{prefix}.identifyfamily: body is not one if / elif chain')
    st = body[0]
    chain = []
    by_py = {py: (lean, fam) for py, lean, fam in _PREDS}
    while True:
        call = (f'self.{{}}(rtol=rtol, atol=atol)' if obj == 'self' else '{}(box, rtol=rtol, atol=atol)')
        hit = [py for py in by_py if _u(st.test) == call.format(py)]
        if len(hit) != 1 or len(st.body) != 1 or not isinstance(st.body[0], ast.Return) \
                or not isinstance(st.body[0].value, ast.Constant) or not isinstance(st.body[0].value.value, str):
            raise TranslationError(f'{prefix}.identifyfamily: unexpected branch {_u(st.test)[:70]}')
        name = st.body[0].value.value
        if name not in [f for _, _, f in _PREDS]:
            raise TranslationError(f'{prefix}.identifyfamily: unknown family name {name!r}')
        chain.append((by_py[hit[0]][0], name))
        if len(st.orelse) == 1 and isinstance(st.orelse[0], ast.If):
            st = st.orelse[0]
            continue
        if not (len(st.orelse) == 1 and _u(st.orelse[0]) in ('None', 'return None')) and st.orelse:
            raise TranslationError(f'{prefix}.identifyfamily: the chain does not end in None')
        break
    lines = ''.join(f'  {"if" if i == 0 else "else if"} {prefix}_{lean} rtol atol p then some .{fam}\n' for i, (lean, fam) in enumerate(chain))
    parts.append(f'/-- {prefix}.identifyfamily: the if / elif chain in source order, each predicate with the name it returns. -/\n'
                 f'def {prefix}_identifyFamily (rtol atol : K) (p : CellParams K) : Option Family :=\n{lines}  else none\n')
    if len({tuple(d) for _, d in defaults}) != 1:
        raise TranslationError(f'{prefix}: the predicates do not share one pair of default tolerances: {defaults}')
    r, a = defaults[0][1]
    parts.append(f'/-- default `rtol`, `atol` of all eight signatures of {prefix}. -/\n'
                 f'def {prefix}_defaultRtol : K := {lit(r)}\ndef {prefix}_defaultAtol : K := {lit(a)}\n')
    return parts


def _tr_box_entry(boxsrc):
    parts = []
    tree = ast.parse(boxsrc)
    cls = [n for n in tree.body if isinstance(n, ast.ClassDef) and n.name == 'Box'][0]
    fns = {n.name: n for n in cls.body if isinstance(n, ast.FunctionDef)}
    for name in ('vector_crystal_to_cartesian', 'plane_crystal_to_cartesian'):
        fn = fns.get(name)
        if fn is None or [a.arg for a in fn.args.args] != ['self', 'indices']:
            raise TranslationError(f'Box.{name}: not found / unexpected signature')
        parts.append(_pin('Box_' + name, strip_doc(fn.body), f'Box.{name}: hands over to the function of miller.py with itself as the box'))
    return parts


def _translate_source():
    src = cm.source('atomman/tools/miller.py')
    boxsrc = cm.source('atomman/core/Box.py')
    cssrc = cm.source('atomman/tools/crystalsystem.py')
    parts = ['/- GENERATED by harness/props/c16.py from atomman/tools/miller.py, atomman/core/Box.py, atomman/tools/crystalsystem.py\n'
             '   — do not edit.  Every definition is proved equal to the hand model in Proofs/C16_Source.lean. -/',
             'import Atomman.C16', 'namespace Atomman.C16.Src',
             'variable {K : Type} [Zero K] [Add K] [Sub K] [Mul K] [Div K] [Neg K] [NatCast K] [IntCast K] [LT K] [DecidableLT K] [LE K] [DecidableLE K]',
             '']
    parts.append(_tr_conv(src, 'plane3to4', 3, 4, False))
    parts.append(_tr_conv(src, 'plane4to3', 4, 3, True))
    parts.append(_tr_conv(src, 'vector3to4', 3, 4, False))
    parts.append(_tr_conv(src, 'vector4to3', 4, 3, True))
    parts.append(_tr_plane_normal(src))
    parts += _tr_pins(src)
    parts += _tr_reduce(src)
    parts += _tr_brackets(src)
    parts += _tr_family(boxsrc, 'self', 'box', inside='Box')
    parts += _tr_family(cssrc, 'box', 'cs', warn=True)
    parts += _tr_box_entry(boxsrc)
    parts.append('end Atomman.C16.Src\n')
    return '\n'.join(parts)


# ----------------------------------------------------------------------------------------
# shared generators
# ----------------------------------------------------------------------------------------
RULE = ('CELLS: every crystal family from its Box constructor (generic parameters; triclinic also with one right angle) in 4 '
        'orientations: as built (LAMMPS), every cell vector rotated by an exact rational rotation (integer quaternion, rounded '
        'to double), Cartesian axes permuted/sign-flipped properly (exact), mirrored (left-handed: sense of the normal not '
        'asserted); dyadic and float triclinic cells likewise; box origin non-zero in 80 % of the cells. OBJECTS: fresh, or an '
        'object that held 1-3 other cells (unrelated, a small stretch/shear of the target, the unit cell) and was asked '
        'everything (identifyfamily at default and non-default tolerances, is<family>, reciprocal_vects, plane normals and '
        'vectors of the index sets tested afterwards, singly and as arrays) before each setter: vects=/origin=, set(vects), '
        'set(avect..), set(a..gamma), set(), Box.model(model), System.box_set with and without scale. ENTRY POINTS: '
        'atomman.tools.miller.* and crystalsystem.* given the box, and the Box methods. Then: '
        'exhaustive integer triples |h|,|k|,|l| <= N (N=6 quick, 12 thorough) incl. zeros and negatives for '
        'plane3to4/vector3to4/plane normals/reduce_indices, quadruples with i = -(h+k) and i off by one (guard), '
        'cells: one of every crystal family from the Box constructors with generic parameters, random dyadic '
        'right-handed triclinic cells (exact regime), random float triclinic cells; all 8 centering settings plus '
        'unknown keys; all_indices(m, reduce) for small m; index strings over the 4 bracket kinds with optional '
        'p/q prefix, indices of 1-6 digits with sign, spacing variants (search: own generator + own reader of the text) '
        'plus malformed strings; arrays of quadruples with offending rows whose sums cancel; 11 leading shapes x 9 '
        'functions; family predicates on constructor cells and on '
        'duck-typed parameter sets and real Box objects near the isclose boundary of the tolerances asked for (keyword, '
        'positional, swapped keyword order); fractional three-index vectors. CALLER MEMORY: every function of the property '
        'is called on index sets (with common factors, thirds, halves) held as int64 / int32 / float64 arrays that are '
        'contiguous, rows / columns / every other row of a larger table, reversed (negative stride), Fortran-ordered, '
        'read-only, or plain lists, with leading shapes (), (1,), (3,), (4,), (2,2): the whole allocation, shape/strides/dtype '
        'and the Box are snapshotted bitwise before and after; the returned array is overwritten by the caller and the '
        'identical call repeated (fromstring on repeated strings, all_indices(0..3), Box.vects/origin/reciprocal_vects '
        'included); histories alloc / call on an input or on an earlier RESULT / caller write into any array, with the whole '
        'memory compared with the model after each step. ALSO: fractional, float-held and huge (to 1e12; reduce_indices to '
        '2^62) indices through the 3<->4 conversions, plane indices to 40, arrays of planes with one zero or non-integer row '
        '(fractional parts cancelling within a row or across rows), limiting rhombohedral angles (60, 109.47, 70.53, 30, 119, '
        '89, 91), hexagonal cells with c = a within tolerance and ideal c/a, all_indices(0), strings with commas / '
        'typographic minus / swapped or unmatched brackets (model and code must both refuse). COUNTS AND THRESHOLDS: integer '
        'index sets held as uint8 / uint16 / uint32 / uint64 / int8 / int16 / int32 arrays (small values and values at the ends '
        'of the dtype range; uint64 to 2^52, plane indices to 10^4) through every function, in the memory-layout cases and in '
        'the memory sessions; ONE call with 1000 ... 131073 index sets (2^10..2^15 -1/+0/+1, 1000, 1001, 2001, 5001, 10001, two '
        'of 50001 / 65535 / 65536 / 65537 / 70001 / 100001 / 131073; entries to 9 / 40 / 300 / 3000 / 10^6; int64, int32, '
        'float64) compared with the same rows given singly and in blocks of 509, a single bad row anywhere refuses the array; '
        'plane normals of ~1000-2000, ~4100-8200 (both entry points, also against the model planearr) and 65536-70001 planes '
        'per call on non-diagonal cells; plane indices beyond the exhaustive bound: float-division trap values (k with '
        'k*(1/k) != 1: 49, 98, 103, 107, ... below 1000) and their multiples next to small indices in every zero pattern, '
        'random indices to 10^4; arrays with no index set in them; all_indices at 8, 10, 12, 16, 20, the default, reduce as '
        '1 / numpy.True_ / 0; numerals of 8-15 digits; family-shaped parameter sets with coincidences in the slots no '
        'predicate compares (b == c, beta == gamma: correspondence only, outside the quantifier). ROUND 5 (dtype x magnitude, '
        'order, larger counts): plane indices held in an int32 / int16 / int8 / uint array whose product or lcm does not fit '
        'that dtype (int32: three indices in 1291..2^17, two in 46341..2^26, values around the square / cube root of the '
        'limit, powers of two multiplying to 2^31 / 2^32, every zero pattern and sign) on every cell, both entry points and '
        'through the model; four-index sets in narrow dtypes whose first three indices sum to +-2^bits (wraps to 0 in the '
        'dtype: must be refused); arrays of planes of mixed zero patterns with each of the 7 patterns FIRST in turn, ordered '
        'pairs of patterns, neighbouring rows that are equal / negated / sign-flipped / multiples / permutations of each other, '
        'held as list / int64 / int32 / float64 / int8 / int16, result dtype floating; one call with 100001-131073 planes per '
        'run on a cell with a non-symmetric reciprocal matrix (262145 and 300001 when thorough); the vectorised functions at '
        'one of 262145 / 300001 / 500001 / 524289 / 1000001 and at 1048577 rows in every run with entries to 2^40 (2^31 - 1 in '
        'int32); all_indices at 53, one of 37 / 41 / 43 / 47 and one bound in 21..36 per run (59 ... 101 when thorough) with '
        'a vectorised oracle (coprime rows, every direction once, lexicographic order); SCALES: half of the cells of every '
        'generator (search and correspondence) have all lattice parameters and the origin multiplied by an exact power of two '
        '(2^-40..2^40) or of ten (1e-12..1e+12), and every family + triclinic + dyadic cell goes through ALL 48 scales per run '
        '(exact unit normal per plane, normal at scale s = normal at scale 1, vectors scale along, family identified; family '
        'clause asked with atol scaled like the cell below 1e-6); distinct = distinct canonical '
        'driver line; non-trivial = not the zero index vector / not an error case')
ASSUMPTIONS = [
    'numpy.linalg.norm of the un-normalised normal n is the non-negative root of n.n (IsNormAt: asked of that one vector '
    'only; that n is never zero, so the root is positive, is proved: normal_nonzero); the model returns the unnormalised exact '
    'normal, the harness normalises it in float',
    'IEEE double rounding of the implementation is bounded by 16*2^-53*(|a||b| row-norm bound)/|a x b| on plane '
    'normals, 1e-14 relative elsewhere; dyadic cells are compared with the same bound (arithmetic exact there)',
    'numpy gcd/lcm/sign/dot/cross/apply_along_axis, str.index/split and np.fromstring(sep=" ") behave as documented',
    'Python float() numerals are modelled for the integer grammar only (sign, digits, surrounding blanks)',
    'Box.a..gamma (sqrt/arccos) are inputs of the family model: the measured six parameters are sent exactly '
    '(the search checks them against the exact Gram matrix of box.vects: params:lengths-angles)',
    'numpy array semantics (views, strides, in-place operators, np.asarray not copying) are not modelled: the model '
    'Mem says WHAT must hold of the caller\'s arrays (calls touch none, results are new); that the real functions '
    'behave so is observed by the memory correspondence and the oracle clauses *:input-modified / *:result-not-fresh, '
    'not proved',
    'the model object is told the state the real object reports after each setter (vects, origin, a..gamma); that the '
    'object reports what it was set to is checked separately (object:readback, entries the setter cleans to zero exempt)',
]
TRUSTED = ['numpy', 'fractions.Fraction oracle in search()',
           'the two translators of harness/props/c16.py (ast -> Generated/MillerTables.lean, Generated/MillerSource.lean): they '
           'refuse (TranslationError) what they do not recognise; statement pins are ast.unparse text with docstrings and '
           'exception messages dropped']

U = 2.0 ** -53
ATOL_GUARD = 1e-8       # numpy.allclose default atol (the h+k+i guard)
FAMILIES = ['cubic', 'hexagonal', 'tetragonal', 'rhombohedral', 'orthorhombic', 'monoclinic', 'triclinic']


def _np():
    import numpy as np
    return np


def _errclass(e):
    if isinstance(e, AssertionError):
        return 'err:assert'
    if isinstance(e, ZeroDivisionError):
        return 'err:zerodiv'
    if isinstance(e, ValueError):
        return 'err:value'
    return 'err:other:' + type(e).__name__


def _call(f, *a, **k):
    """-> (result, None) or (None, error-class)"""
    np = _np()
    try:
        with np.errstate(all='ignore'):
            return f(*a, **k), None
    except Exception as e:  # noqa
        return None, _errclass(e)


def _vcall(f, arr, *args):
    """vectorised call -> (rows [(result, errclass)], flat result or None); when the call raises or returns the
    wrong leading shape, fall back to one call per row (so that a raising implementation is reported per input)."""
    np = _np()
    try:
        with np.errstate(all='ignore'):
            res = np.asarray(f(arr, *args))
        if res.shape[:1] != (len(arr),):
            raise ValueError('shape')
        return [(r, None) for r in res], res
    except Exception:  # noqa
        return [_call(f, np.asarray(row).tolist(), *args) for row in arr], None


def _triples(N):
    r = range(-N, N + 1)
    return [(h, k, l) for h in r for k in r for l in r]


def _ref_vector3to4(t):
    """harness-side [uvw] -> [u' v' t w] in double arithmetic (only to *generate* non-integer quadruples)."""
    np = _np()
    u = (2 * t[0] - t[1]) / 3
    v = (2 * t[1] - t[0]) / 3
    return np.array([u, v, -(u + v), float(t[2])])


def _generic_lengths(rng):
    while True:
        v = sorted(rng.uniform(2.0, 9.0) for _ in range(3))
        if v[1] / v[0] > 1.03 and v[2] / v[1] > 1.03:
            rng.shuffle(v)
            return v


def _tri_angles(rng):
    """realisable, pairwise different (> 1.5 deg), away from 90."""
    while True:
        al, be, ga = (rng.uniform(55.0, 125.0) for _ in range(3))
        if min(abs(al - be), abs(al - ga), abs(be - ga)) < 1.5:
            continue
        if min(abs(al - 90), abs(be - 90), abs(ga - 90)) < 1.5:
            continue
        ca, cb, cg = (math.cos(math.radians(x)) for x in (al, be, ga))
        vol2 = 1 - ca * ca - cb * cb - cg * cg + 2 * ca * cb * cg
        if vol2 > 0.15:
            return al, be, ga


def _family_cells(rng, scale=1.0):
    """one Box per crystal family from the family constructors, generic parameters (lengths times `scale`)
    -> [(family, args, box)]"""
    import atomman as am
    a, b, c = (x * scale for x in _generic_lengths(rng))
    out = []
    out.append(('cubic', (a,), am.Box.cubic(a)))
    hargs = _ctor_args(rng, 'hexagonal')[0]
    hargs = (hargs[0] * scale, hargs[1] * scale)
    out.append(('hexagonal', hargs, am.Box.hexagonal(*hargs)))
    out.append(('tetragonal', (a, c), am.Box.tetragonal(a, c)))
    rargs = _ctor_args(rng, 'rhombohedral')[0]
    rargs = (rargs[0] * scale, rargs[1])
    out.append(('rhombohedral', rargs, am.Box.trigonal(*rargs)))
    out.append(('orthorhombic', (a, b, c), am.Box.orthorhombic(a, b, c)))
    be = rng.uniform(92.0, 135.0)
    out.append(('monoclinic', (a, b, c, be), am.Box.monoclinic(a, b, c, be)))
    al, be, ga = _tri_angles(rng)
    out.append(('triclinic', (a, b, c, al, be, ga), am.Box.triclinic(a, b, c, al, be, ga)))
    return out


def _det3(v):
    return (v[0][0] * (v[1][1] * v[2][2] - v[1][2] * v[2][1])
            - v[0][1] * (v[1][0] * v[2][2] - v[1][2] * v[2][0])
            + v[0][2] * (v[1][0] * v[2][1] - v[1][1] * v[2][0]))


def _dyadic_cell(rng):
    """right-handed cell with entries multiples of 1/8 in [-4, 4], det >= 1 (exact double arithmetic)."""
    import atomman as am
    while True:
        v = [[cm.dyadic(rng, -4, 4, 3) for _ in range(3)] for _ in range(3)]
        d = _det3(v)
        if abs(d) < 1.0:
            continue
        if d < 0:
            v[1], v[2] = v[2], v[1]
        if any(max(abs(x) for x in row) == 0 for row in v):
            continue
        return am.Box(vects=v)


def _float_cell(rng, scale=1.0):
    """random float triclinic cell (LAMMPS-normal form via a,b,c,angles), right-handed."""
    import atomman as am
    a, b, c = _generic_lengths(rng)
    al, be, ga = _tri_angles(rng)
    return am.Box(a=a * scale, b=b * scale, c=c * scale, alpha=al, beta=be, gamma=ga)


# ---- rigidly moved cells, origins, object histories -------------------------------------------
def _signed_perms():
    """the 48 signed permutation matrices (exact in double), split into proper (det +1) and improper (det -1)."""
    from itertools import permutations
    prop, improp = [], []
    for perm in permutations(range(3)):
        for sg in product((1, -1), repeat=3):
            m = [[0] * 3 for _ in range(3)]
            for i in range(3):
                m[i][perm[i]] = sg[i]
            (prop if _det3(m) == 1 else improp).append(m)
    return prop, improp


def _rot_matrix(rng):
    """exact rational proper rotation from an integer quaternion (not the identity, not a signed permutation
    in general) -> 3x3 list of Fractions with R R^T = 1, det R = 1."""
    while True:
        w, x, y, z = (rng.randint(-4, 4) for _ in range(4))
        n = w * w + x * x + y * y + z * z
        if n == 0 or (x, y, z) == (0, 0, 0):
            continue
        m = [[w * w + x * x - y * y - z * z, 2 * (x * y - w * z), 2 * (x * z + w * y)],
             [2 * (x * y + w * z), w * w - x * x + y * y - z * z, 2 * (y * z - w * x)],
             [2 * (x * z - w * y), 2 * (y * z + w * x), w * w - x * x - y * y + z * z]]
        if sum(1 for r in m for v in r if v != 0) == 3:
            continue            # a signed permutation: generated separately
        return [[Fraction(v, n) for v in r] for r in m]


def _move(vects, M):
    """every cell vector mapped by M (rows of vects times M), double arithmetic -> nested list of floats."""
    np = _np()
    return (np.asarray(vects, dtype=float) @ np.array([[float(v) for v in r] for r in M])).tolist()


def _gen_origin(rng, scale=1.0):
    if rng.random() < 0.2:
        return [0.0, 0.0, 0.0]
    return [cm.dyadic(rng, -8, 8, 2) * scale for _ in range(3)]


def _ctor_args(rng, fam):
    """generic constructor parameters of one family -> (args, a..gamma keyword dict of Box(a=...))."""
    a, b, c = _generic_lengths(rng)
    if fam == 'cubic':
        return (a,), dict(a=a, b=a, c=a, alpha=90, beta=90, gamma=90)
    if fam == 'hexagonal':
        r = rng.random()
        if r < 0.2:
            # c equal to a within the default tolerances: still a hexagonal cell (gamma = 120); the constructor only
            # refuses c == a exactly
            c = a * (1 + rng.choice([2e-6, -3e-6, 1e-9, 2.0 ** -40]))
        elif r < 0.3:
            c = a * math.sqrt(8.0 / 3.0)            # ideal c/a
        return (a, c), dict(a=a, b=a, c=c, alpha=90, beta=90, gamma=120)
    if fam == 'tetragonal':
        return (a, c), dict(a=a, b=a, c=c, alpha=90, beta=90, gamma=90)
    if fam == 'rhombohedral':
        if rng.random() < 0.35:                     # limiting angles: primitive cells of fcc (60) and bcc (109.47), ...
            al = rng.choice(RHOMB_SPECIAL)
            return (a, al), dict(a=a, b=a, c=a, alpha=al, beta=al, gamma=al)
        while True:
            al = rng.uniform(40.0, 118.0)
            if abs(al - 90) > 1.5:
                return (a, al), dict(a=a, b=a, c=a, alpha=al, beta=al, gamma=al)
    if fam == 'orthorhombic':
        return (a, b, c), dict(a=a, b=b, c=c, alpha=90, beta=90, gamma=90)
    if fam == 'monoclinic':
        be = rng.uniform(92.0, 135.0)
        return (a, b, c, be), dict(a=a, b=b, c=c, alpha=90, beta=be, gamma=90)
    al, be, ga = _tri_angles(rng)
    r = rng.random()
    if r < 0.15:            # a triclinic cell may have ONE right angle (not alpha and gamma both: that is monoclinic)
        be = 90.0
    elif r < 0.25:
        ga = 90.0
    elif r < 0.35:
        al = 90.0
    ca, cb, cg = (math.cos(math.radians(x)) for x in (al, be, ga))
    if 1 - ca * ca - cb * cb - cg * cg + 2 * ca * cb * cg < 0.1:
        al, be, ga = _tri_angles(rng)
    return (a, b, c, al, be, ga), dict(a=a, b=b, c=c, alpha=al, beta=be, gamma=ga)


# the cell's overall LENGTH SCALE (the unit the lattice parameters are written in): exact powers of two and of ten from
# ~1e-12 (metres written for picometre cells) to ~1e+12.  Nothing the property talks about depends on it (unit normals, index
# conversions) or it scales along (Cartesian vectors); absolute tolerances hidden in the code show only away from 1
POW2_SCALES = [2.0 ** k for k in (-40, -36, -33, -30, -27, -23, -20, -17, -13, -10, -7, -3, 3, 7, 10, 13, 17, 20, 23, 27, 30, 33, 36, 40)]
POW10_SCALES = [10.0 ** k for k in range(-12, 13) if k != 0]
N_LENGTHS = {'cubic': 1, 'hexagonal': 2, 'tetragonal': 2, 'rhombohedral': 1, 'orthorhombic': 3, 'monoclinic': 3, 'triclinic': 3}
# below this scale two generic lattice parameters (>= 3 % apart, >= 2 units long) are no longer apart by more than the DEFAULT
# absolute tolerance 1e-8 of the family predicates (candidate family:absolute-atol-small-units, see docs): the family clause
# is then asked with the absolute tolerance scaled like the cell
FAMILY_DEFAULT_TOL_FROM = 1e-6


def _pick_scale(rng, pow2_only=False):
    return rng.choice(POW2_SCALES if pow2_only else POW2_SCALES + POW10_SCALES)


def _family_tol(scale):
    """tolerances with which the family-identification clause is asked on a cell whose lengths were multiplied by `scale`:
    None = the defaults; for small-number cells [rtol, atol] with the absolute part scaled like the lengths."""
    return None if scale >= FAMILY_DEFAULT_TOL_FROM else [1e-5, 1e-8 * scale]


def _scaled_args(fam, args, abc, scale):
    n = N_LENGTHS[fam]
    args = tuple(x * scale if i < n else x for i, x in enumerate(args))
    abc = dict(abc, a=abc['a'] * scale, b=abc['b'] * scale, c=abc['c'] * scale)
    return args, abc


RHOMB_SPECIAL = [60.0, 109.47122063449069, 70.52877936550931, 30.0, 45.0, 100.0, 119.0, 89.0, 91.0, 33.5573097619207]

CTOR = {'cubic': 'cubic', 'hexagonal': 'hexagonal', 'tetragonal': 'tetragonal', 'rhombohedral': 'trigonal',
        'orthorhombic': 'orthorhombic', 'monoclinic': 'monoclinic', 'triclinic': 'triclinic'}
ORIENTS = ['std', 'rot', 'perm', 'refl']


def _gen_cell(rng, kind=None, orient=None, origin=None, scale=None):
    """one cell of the property's quantifier as plain data:
    scale  = overall length scale (all lattice parameters and the origin multiplied by it): None = 1 for half of the cells,
             one of POW2_SCALES / POW10_SCALES (1e-12 ... 1e+12) for the other half
    kind   = one of FAMILIES (built by the family constructor with generic parameters) | 'dyadic' | 'float-triclinic'
    orient = 'std' (as the constructor gives it: LAMMPS orientation) | 'rot' (every cell vector rotated by an exact
             rational rotation, rounded to double) | 'perm' (proper signed permutation of the Cartesian axes: exact) |
             'refl' (improper signed permutation: the mirror image, LEFT-handed)
    -> dict(label, family (None when not built as a family), vects, origin, abc (a..gamma kwargs when orient = std), hand)"""
    import atomman as am
    kind = kind or rng.choice(FAMILIES + ['dyadic', 'float-triclinic'])
    orient = orient or rng.choice(ORIENTS)
    abc = None
    fam = None
    args = None
    if scale is None:
        scale = 1.0 if rng.random() < 0.5 else _pick_scale(rng, pow2_only=(kind == 'dyadic'))
    if kind == 'dyadic':
        base = (_np().array(_dyadic_cell(rng).vects) * scale).tolist()      # scale a power of two: stays dyadic
        if orient == 'rot':
            orient = 'perm'             # stay on the dyadic grid
    elif kind == 'float-triclinic':
        base = _float_cell(rng, scale).vects.tolist()
    else:
        fam = kind
        args, abc = _ctor_args(rng, fam)
        args, abc = _scaled_args(fam, args, abc, scale)
        base = getattr(am.Box, CTOR[fam])(*args).vects.tolist()
    prop, improp = _signed_perms()
    if orient == 'std':
        vects = base
    elif orient == 'rot':
        vects = _move(base, _rot_matrix(rng))
    elif orient == 'perm':
        vects = _move(base, rng.choice(prop[1:]))
    else:
        vects = _move(base, rng.choice(improp))
    return {'label': f'{kind}/{orient}' + ('' if scale == 1.0 else f'/x{scale:g}'), 'family': fam,
            'args': None if args is None else list(args),
            'vects': vects, 'origin': _gen_origin(rng, scale) if origin is None else list(origin),
            'abc': abc if orient == 'std' else None, 'hand': 'left' if orient == 'refl' else 'right',
            'scale': scale, 'ftol': _family_tol(scale)}


SETTERS = ['vects=', 'set', 'set_vectors', 'box_set', 'box_set_scale', 'model']


def _step_to(rng, cell):
    """one state-changing step that takes an existing Box object to `cell` -> {'op', 'kw'} (plain data)."""
    ops = list(SETTERS)
    if cell.get('abc'):
        ops += ['set_abc', 'set_abc']
    op = rng.choice(ops)
    if op == 'set_abc':
        return {'op': op, 'kw': dict(cell['abc'], origin=cell['origin'])}
    return {'op': op, 'kw': {'vects': cell['vects'], 'origin': cell['origin']}}


def _near_cell(rng, cell):
    """a slightly different cell (one lattice vector stretched by ~1e-3..1e-2, or sheared a little): the 'small change'
    of set -> read -> small change -> read sequences."""
    v = [list(r) for r in cell['vects']]
    r = rng.random()
    i = rng.randrange(3)
    if r < 0.5:
        f = 1.0 + rng.choice([2.0 ** -10, 2.0 ** -7, -2.0 ** -8])
        v[i] = [x * f for x in v[i]]
    else:
        j = (i + 1 + rng.randrange(2)) % 3
        f = rng.choice([2.0 ** -9, -2.0 ** -7])
        v[i] = [x + f * y for x, y in zip(v[i], v[j])]
    return {'label': cell['label'] + '/near', 'family': None, 'args': None, 'vects': v,
            'origin': _gen_origin(rng, cell.get('scale', 1.0)), 'abc': None, 'hand': cell['hand'],
            'scale': cell.get('scale', 1.0), 'ftol': cell.get('ftol')}


def _gen_spec(rng, cell, history=None):
    """how a Box object comes to hold `cell`: built fresh, or an object that held other cells before (each earlier
    state is queried through every function of the property before the next setter is applied).
    -> {'new': kwargs, 'then': [{'op','kw'}...]}"""
    history = history if history is not None else rng.choice([0, 1, 1, 1, 2, 3])
    if history == 0:
        if cell.get('abc') and rng.random() < 0.5:
            return {'new': dict(cell['abc'], origin=cell['origin']), 'then': []}
        return {'new': {'vects': cell['vects'], 'origin': cell['origin']}, 'then': []}
    prevs = []
    for h in range(history):
        r = rng.random()
        if r < 0.35:
            prevs.append(_near_cell(rng, cell))
        elif r < 0.5:
            prevs.append({'unit': True})
        else:
            prevs.append(_gen_cell(rng))
    first = prevs[0]
    spec = {'new': {} if first.get('unit') else {'vects': first['vects'], 'origin': first['origin']}, 'then': []}
    for pc in prevs[1:]:
        spec['then'].append({'op': 'set()', 'kw': {}} if pc.get('unit') else _step_to(rng, pc))
    spec['then'].append(_step_to(rng, cell))
    return spec


PREDS = ['iscubic', 'ishexagonal', 'istetragonal', 'isrhombohedral', 'isorthorhombic', 'ismonoclinic', 'istriclinic']
ALT_TOL = (2.0 ** -9, 2.0 ** -12)


def _query_all(box, probes):
    """ask an object everything the property talks about (results discarded; exceptions are not ours to report
    here): whatever it remembers from these answers must not leak into the answers about its next cell."""
    np = _np()
    calls = [lambda: box.identifyfamily(), lambda: box.identifyfamily(rtol=ALT_TOL[0], atol=ALT_TOL[1]),
             lambda: box.identifyfamily(1e-5, 1e-8), lambda: box.reciprocal_vects,
             lambda: [getattr(box, p)() for p in PREDS], lambda: (box.a, box.b, box.c, box.alpha, box.beta, box.gamma),
             lambda: box.position_cartesian_to_relative([0.5, 0.25, 0.125])]
    for key, meth in (('planes', 'plane_crystal_to_cartesian'), ('vectors', 'vector_crystal_to_cartesian')):
        rows = [list(r) for r in (probes or {}).get(key, [])]
        rows = rows or [[1, 1, 1], [1, -2, 3], [0, 1, 0]]
        for k in (3, 4):
            rk = [r for r in rows if len(r) == k]
            if rk:
                calls.append(lambda rk=rk, meth=meth: getattr(box, meth)(np.array(rk)))
                for r in rk[:24]:
                    calls.append(lambda r=r, meth=meth: getattr(box, meth)(r))
    for f in calls:
        try:
            with np.errstate(all='ignore'):
                f()
        except Exception:  # noqa
            pass


def _apply_step(box, st):
    """apply one recorded setter to the object -> the object to go on with (System.box for the box_set forms)."""
    import atomman as am
    op, kw = st['op'], dict(st['kw'])
    if op == 'vects=':
        box.vects = kw['vects']
        box.origin = kw['origin']
    elif op in ('set', 'set_abc'):
        box.set(**kw)
    elif op == 'set()':
        box.set()
    elif op == 'set_vectors':
        box.set(avect=kw['vects'][0], bvect=kw['vects'][1], cvect=kw['vects'][2], origin=kw['origin'])
    elif op in ('box_set', 'box_set_scale'):
        system = am.System(atoms=am.Atoms(pos=[[0.25, 0.5, 0.125], [0.0, 0.0, 0.0]]), box=box, scale=True)
        system.box_set(vects=kw['vects'], origin=kw['origin'], scale=(op == 'box_set_scale'))
        box = system.box
    elif op == 'model':
        box.model(model=am.Box(vects=kw['vects'], origin=kw['origin']).model())
    else:
        raise cm.InfraError(f'harness: unknown setter {op}')
    return box


def _build(spec, probes=None):
    """execute a spec on the real class -> Box object (exceptions of the implementation propagate to the caller,
    which reports them with the spec)."""
    import atomman as am
    box = am.Box(**spec['new'])
    for st in spec.get('then', []):
        _query_all(box, probes)
        box = _apply_step(box, st)
    return box


def _spec_of(r):
    """replay files: new ones carry the object's whole history ('spec'), old ones only 'vects'."""
    if 'spec' in r:
        return r['spec']
    return {'new': {'vects': r['vects']}, 'then': []}


def _hist(spec):
    return 'fresh' if not spec.get('then') else '->'.join(st['op'] for st in spec['then'])


def _params(box):
    return [float(box.a), float(box.b), float(box.c), float(box.alpha), float(box.beta), float(box.gamma)]


def _fam_line(params, rtol=1e-5, atol=1e-8):
    return 'fam ' + cm.fr(rtol) + ' ' + cm.fr(atol) + ' ' + ' '.join(cm.fr(x) for x in params)


def _codes(s):
    return 'fromstr ' + ' '.join(str(ord(ch)) for ch in s)


def _render(rng, frac, kind, idx, messy=False):
    o, c = kind
    sp = lambda: ' ' * rng.choice([1, 1, 2, 3]) if messy else ' '   # noqa
    body = sp().join(str(i) for i in idx)
    if messy:
        body = ' ' * rng.choice([0, 1]) + body + ' ' * rng.choice([0, 1])
    s = o + body + c
    if frac is not None:
        p, q = frac
        pre = f'{p}/{q}'
        if messy:
            pre = ' ' * rng.choice([0, 1]) + pre
            s = pre + ' ' * rng.choice([0, 1, 2]) + s
        else:
            s = pre + ' ' + s
    return s


BRACKETS = [('[', ']'), ('(', ')'), ('<', '>'), ('{', '}')]


# ----------------------------------------------------------------------------------------
# correspondence: Lean model driver vs the real functions on identical exact inputs
# ----------------------------------------------------------------------------------------
class _Batch:
    """collect (line, impl result or error class, comparer, info) and diff against the driver in one go."""

    def __init__(self, ctx):
        self.ctx = ctx
        self.items = []

    def add(self, kind, line, impl, err, cmp, info, nontrivial=True, sample=None):
        self.items.append((kind, line, impl, err, cmp, info))
        self.ctx.stats.case(kind, line, nontrivial=nontrivial and err is None, sample=sample)

    def run(self):
        outs = self.ctx.driver.ask_many([it[1] for it in self.items])
        for (kind, line, impl, err, cmp, info), out in zip(self.items, outs):
            if err is not None or out.startswith('err:'):
                if err != out:
                    self.ctx.disagree(kind + ':error', f'{kind}: implementation {err or "returned a value"} '
                                      f'but model {out if out.startswith("err:") else "returned a value"} on {info}',
                                      {'op': kind, 'line': line, 'input': info, 'impl': err or _tolist(impl),
                                       'model': out})
                continue
            msg = cmp(impl, out)
            if msg:
                self.ctx.disagree(kind, f'{kind}: {msg} on {info}',
                                  {'op': kind, 'line': line, 'input': info, 'impl': _tolist(impl), 'model': out})
        self.items = []


def _tolist(x):
    np = _np()
    if isinstance(x, np.ndarray):
        return x.tolist()
    return x


def _cmp_exact(impl, out):
    model = cm.unfrs(out)
    vals = list(_np().asarray(impl).ravel().tolist())
    if len(vals) != len(model) or any(Fraction(v) != m for v, m in zip(vals, model)):
        return f'implementation {vals} != model {[str(m) for m in model]} (exact)'
    return None


def _cmp_close(rtol, atol):
    def f(impl, out):
        model = cm.unfrs(out)
        vals = list(_np().asarray(impl).ravel().tolist())
        if not cm.allclose(vals, model, rtol=rtol, atol=atol):
            return f'implementation {vals} != model {[float(m) for m in model]}'
        return None
    return f


def _cmp_ints(impl, out):
    np = _np()
    arr = np.asarray(impl)
    if arr.dtype.kind not in 'iu':
        return f'implementation returned dtype {arr.dtype} (values {arr.ravel().tolist()}), model returns integers {out}'
    model = [int(t) for t in out.split()]
    if arr.ravel().tolist() != model:
        return f'implementation {arr.ravel().tolist()} != model {model}'
    return None


def _plane_tol(V, a, b, nvec):
    """rounding bound of s*cross(a.V, b.V)/norm derived from the model's in-plane vectors (see ASSUMPTIONS)."""
    rown = [math.sqrt(sum(float(x) ** 2 for x in r)) for r in V]
    Aa = sum(abs(ai) * rn for ai, rn in zip(a, rown))
    Ab = sum(abs(bi) * rn for bi, rn in zip(b, rown))
    nn = math.sqrt(sum(float(x) ** 2 for x in nvec))
    return 16 * U * (Aa * Ab / nn) + 16 * U


def _cmp_plane(V):
    def f(impl, out):
        left, right = out.split('|')
        ints = [int(t) for t in left.split()]
        a, b = ints[1:4], ints[4:7]
        n = cm.unfrs(right)
        nn = math.sqrt(float(sum(x * x for x in n)))
        unit = [float(x) / nn for x in n]
        tol = _plane_tol(V, a, b, n)
        vals = _np().asarray(impl).ravel().tolist()
        if len(vals) != 3 or any(not (abs(v - m) <= tol) for v, m in zip(vals, unit)):
            return f'implementation normal {vals} != model {unit} (tol {tol:.2e}; model a={a} b={b} s={ints[0]})'
        return None
    return f


def _cmp_plane_arr(V, rows):
    """array of planes: the model's unnormalised normals, row by row; rounding bound as in `_plane_tol` with the in-plane
    index vectors bounded by 2*lcm of the row's indices."""
    def f(impl, out):
        model = cm.unfrs(out)
        vals = _np().asarray(impl, dtype=float).reshape(-1, 3).tolist()
        if len(model) != 3 * len(rows) or len(vals) != len(rows):
            return f'implementation returns {len(vals)} normals, model {len(model) // 3} for {len(rows)} planes'
        rown = [math.sqrt(sum(float(x) ** 2 for x in r)) for r in V]
        for j, row in enumerate(rows):
            n = model[3 * j:3 * j + 3]
            nn = math.sqrt(float(sum(x * x for x in n)))
            m = 1
            for x in row:
                x = abs(int(x))
                if x:
                    m = m * x // math.gcd(m, x)
            tol = 16 * U * (2 * m * max(rown)) ** 2 / nn + 16 * U
            unit = [float(x) / nn for x in n]
            if any(not (abs(v - u) <= tol) for v, u in zip(vals[j], unit)):
                return f'row {j} {row}: implementation normal {vals[j]} != model {unit} (tol {tol:.2e})'
        return None
    return f


def _cmp_fam(impl, out):
    """impl = (identify, [7 predicate bools])"""
    toks = out.split()
    name = None if toks[0] == 'none' else toks[0]
    bits = [t == '1' for t in toks[1:]]
    if impl[0] != name or [bool(x) for x in impl[1]] != bits:
        return f'implementation identify={impl[0]} predicates={[int(bool(x)) for x in impl[1]]} != model {out}'
    return None


def correspond(ctx):
    np = _np()
    import atomman as am
    from atomman.tools import miller, crystalsystem
    rng = ctx.rng
    N = ctx.n(6, 12)
    B = _Batch(ctx)
    tri = _triples(N)
    T = np.array(tri)
    atol_s = cm.fr(ATOL_GUARD)

    # ---- A. 3 <-> 4 conversions ---------------------------------------------------------
    p34r, p34 = _vcall(miller.plane3to4, T)
    v34r, v34 = _vcall(miller.vector3to4, T)
    for t, (r1, e1), (r2, e2) in zip(tri, p34r, v34r):
        B.add('plane3to4', 'p34 %d %d %d' % t, r1, e1, _cmp_exact, list(t), sample={'op': 'plane3to4', 'hkl': list(t)})
        B.add('vector3to4', 'v34 %d %d %d' % t, r2, e2, _cmp_close(1e-14, 1e-15), list(t),
              sample={'op': 'vector3to4', 'uvw': list(t)})
    # shape variants of the same calls (list, single, nested leading shapes)
    _shape_variants(ctx, 'plane3to4', miller.plane3to4, T, p34)
    _shape_variants(ctx, 'vector3to4', miller.vector3to4, T, v34)
    # the same numbers held in unsigned / narrow integer arrays (the model's integers have no dtype): small triples and
    # triples at the ends of the dtype's range
    for dtype in NARROW:
        for regime in ('small', 'limit'):
            rows = _narrow_rows(rng, dtype, 3, ctx.n(40, 300), regime)
            A = np.array(rows, dtype=dtype)
            for name, f, op, cmp in (('plane3to4', miller.plane3to4, 'p34', _cmp_exact),
                                     ('vector3to4', miller.vector3to4, 'v34', None),
                                     ('reduce_indices', miller.reduce_indices, 'reduce', _cmp_ints)):
                res, _flat = _vcall(f, A)
                for t, (r, e) in zip(rows, res):
                    c = cmp or _cmp_close(1e-14, 4 * U * max(abs(x) for x in t) + 1e-15)
                    B.add(name + ':dtype', f'{op} %d %d %d' % tuple(t), r, e, c, {'indices': list(t), 'dtype': dtype})
    # 4 -> 3: valid quadruples exhaustively (vectorised + per row), guard violations per row
    M = min(N, ctx.n(5, 8))
    quads_ok = [(h, k, -(h + k), l) for h in range(-M, M + 1) for k in range(-M, M + 1) for l in range(-M, M + 1)]
    Q = np.array(quads_ok)
    p43r, p43 = _vcall(miller.plane4to3, Q)
    v43r, v43 = _vcall(miller.vector4to3, Q)
    for q, (r1, e1), (r2, e2) in zip(quads_ok, p43r, v43r):
        B.add('plane4to3', f'p43 {atol_s} %d %d %d %d' % q, r1, e1, _cmp_exact, list(q),
              sample={'op': 'plane4to3', 'hkil': list(q)})
        B.add('vector4to3', f'v43 {atol_s} %d %d %d %d' % q, r2, e2, _cmp_exact, list(q),
              sample={'op': 'vector4to3', 'uvtw': list(q)})
    _shape_variants(ctx, 'plane4to3', miller.plane4to3, Q, p43)
    _shape_variants(ctx, 'vector4to3', miller.vector4to3, Q, v43)
    for q in rng.sample(quads_ok, ctx.n(300, 3000)):
        for d in (1, -1, rng.randint(2, 9)):
            bad = (q[0], q[1], q[2] + d, q[3])
            for name, f, op in (('plane4to3', miller.plane4to3, 'p43'), ('vector4to3', miller.vector4to3, 'v43')):
                r, e = _call(f, list(bad))
                B.add(name + ':guard', f'{op} {atol_s} %d %d %d %d' % bad, r, e, _cmp_exact, list(bad), nontrivial=False)
    # arrays of four-index sets (model ops p43arr / v43arr: one guard for the whole array): all rows valid, some rows
    # off (offsets may cancel across rows), several leading shapes
    for it in range(ctx.n(120, 1200)):
        shape = rng.choice([None, None, (2, 2), (2, 3), (3, 1), (1, 2, 2)])
        cnt = rng.randint(1, 7)
        if shape is not None:
            cnt = 1
            for d in shape:
                cnt *= d
        rows = [list(q) for q in rng.sample(quads_ok, cnt)]
        offs, kind = ([0] * cnt, 'valid') if (it % 3 == 0 or cnt < 2) else _guard_offsets(rng, cnt)
        for j, d in enumerate(offs):
            rows[j][2] += d
        arr = np.array(rows)
        if shape is not None:
            arr = arr.reshape(shape + (4,))
        flat = ' '.join(str(x) for q in rows for x in q)
        for name, f, op in (('plane4to3', miller.plane4to3, 'p43arr'), ('vector4to3', miller.vector4to3, 'v43arr')):
            r, e = _call(f, arr)
            if e is None and np.asarray(r).shape != arr.shape[:-1] + (3,):
                ctx.disagree(name + ':array', f'{name}: result shape {np.asarray(r).shape} for input shape {arr.shape}',
                             {'op': name + ':array', 'input': arr.tolist()})
                continue
            B.add(name + ':array', f'{op} {atol_s} {flat}', r, e, _cmp_exact,
                  {'array': arr.tolist(), 'rows_off_by': offs}, nontrivial=(kind == 'valid'),
                  sample={'op': name, 'array': arr.tolist()})
    # non-integer four-index vectors: images of vector3to4 (thirds), tiny and small guard offsets
    for t in rng.sample(tri, ctx.n(300, 3000)):
        q = _ref_vector3to4(t)
        for off in (0.0, 1e-10, -1e-12, 1e-6, -1e-3):
            qq = q.copy()
            qq[2] += off
            for name, f, op in (('vector4to3', miller.vector4to3, 'v43'), ('plane4to3', miller.plane4to3, 'p43')):
                r, e = _call(f, qq)
                B.add(name + ':float', f'{op} {atol_s} ' + cm.frs(qq), r, e, _cmp_close(1e-14, 1e-14),
                      {'quad': qq.tolist()}, nontrivial=(off == 0.0))
    B.run()

    # ---- cells ---------------------------------------------------------------------------
    cells = []
    for fam, args, box in _family_cells(rng):
        cells.append((fam, box))
    for _ in range(ctx.n(2, 8)):
        cells.append(('dyadic', _dyadic_cell(rng)))
    for _ in range(ctx.n(1, 6)):
        cells.append(('float-triclinic', _float_cell(rng)))
    for j, (fam, box) in enumerate(cells):         # non-zero origins on the constructor cells too
        if j % 2 == 1:
            box.origin = _gen_origin(rng)
    moved = []
    for fam in FAMILIES:                            # every family: rotated (right-handed) + axis-permuted or mirrored
        for orient in ('rot', rng.choice(['perm', 'refl'])):
            moved.append(_gen_cell(rng, fam, orient))
    moved.append(_gen_cell(rng, 'dyadic', 'perm'))
    moved.append(_gen_cell(rng, 'dyadic', 'refl'))
    moved.append(_gen_cell(rng, 'float-triclinic', 'rot'))
    for c in moved:
        cells.append((c['label'], am.Box(vects=c['vects'], origin=c['origin'])))
    ctx.extra['cells'] = [c[0] for c in cells]

    # ---- G. family predicates on the constructor cells (several per family) -----------------
    fam_boxes = [(fam, box) for fam, box in cells]
    for _ in range(ctx.n(6, 60)):
        fam_boxes.extend((fam, box) for fam, args, box in _family_cells(rng))
    preds_box = ['iscubic', 'ishexagonal', 'istetragonal', 'isrhombohedral', 'isorthorhombic', 'ismonoclinic',
                 'istriclinic']
    for fam, box in fam_boxes:
        par = _params(box)
        for rtol, atol in ((1e-5, 1e-8), (2.0 ** -9, 2.0 ** -12)):
            impl, e = _call(lambda: (box.identifyfamily(rtol=rtol, atol=atol),
                                     [getattr(box, p)(rtol=rtol, atol=atol) for p in preds_box]))
            B.add('family:Box', _fam_line(par, rtol, atol), impl, e, _cmp_fam, {'cell': fam, 'params': par},
                  sample={'op': 'identifyfamily', 'cell': fam, 'params': par})
            impl2, e = _call(lambda: (crystalsystem.identifyfamily(box, rtol=rtol, atol=atol),
                                      [getattr(crystalsystem, p)(box, rtol=rtol, atol=atol) for p in preds_box]))
            B.add('family:crystalsystem', _fam_line(par, rtol, atol), impl2, e, _cmp_fam,
                  {'cell': fam, 'params': par})
    # duck-typed parameter sets near the isclose boundary (stand-alone predicates read box.a .. box.gamma)
    from types import SimpleNamespace
    for _ in range(ctx.n(400, 6000)):
        rtol, atol = rng.choice([(2.0 ** -10, 2.0 ** -20), (1e-5, 1e-8), (2.0 ** -6, 2.0 ** -3)])

        def near(x):
            tol = atol + rtol * abs(x)
            return x + rng.choice([0.0, 0.5, 0.98, 1.02, 2.0, 40.0, -0.5, -0.98, -1.02, -2.0, -40.0]) * tol
        a = cm.dyadic(rng, 2, 9, 4)
        b = rng.choice([near(a), near(a), cm.dyadic(rng, 2, 9, 4)])
        c = rng.choice([near(a), near(a), cm.dyadic(rng, 2, 9, 4), near(b)])      # near(b): b == c, a slot no predicate compares
        al = rng.choice([near(90.0), near(90.0), cm.dyadic(rng, 50, 130, 2)])
        be = rng.choice([near(90.0), near(al), cm.dyadic(rng, 50, 130, 2)])
        ga = rng.choice([near(90.0), near(120.0), near(al), cm.dyadic(rng, 50, 130, 2), near(be)])
        duck = SimpleNamespace(a=a, b=b, c=c, alpha=al, beta=be, gamma=ga)
        par = [a, b, c, al, be, ga]
        impl, e = _call(lambda: (crystalsystem.identifyfamily(duck, rtol=rtol, atol=atol),
                                 [getattr(crystalsystem, p)(duck, rtol=rtol, atol=atol) for p in preds_box]))
        B.add('family:boundary', _fam_line(par, rtol, atol), impl, e, _cmp_fam,
              {'params': par, 'rtol': rtol, 'atol': atol})
    # coincidences in the slots the predicates do NOT compare (b == c, beta == gamma) and in the ones they do, on cells
    # shaped like each of the low-symmetry families: outside the property's quantifier ("generic, non-coincident
    # parameters"), so no clause is claimed; the model (the comparisons as coded) must answer as the code does, through the
    # stand-alone functions on parameter sets and through the methods of a real Box with these parameters
    for it in range(ctx.n(240, 2400)):
        rtol, atol = rng.choice([(1e-5, 1e-8), (1e-5, 1e-8), (2.0 ** -10, 2.0 ** -20), (2.0 ** -6, 2.0 ** -3)])

        def near(x):
            tol = atol + rtol * abs(x)
            return x + rng.choice([0.0, 0.0, 0.5, -0.5, 0.98, 1.02, -0.98, -1.02, 40.0]) * tol
        a, b0, c0 = (cm.dyadic(rng, 2, 9, 4) for _ in range(3))
        b, c = rng.choice([(b0, near(b0)), (b0, near(b0)), (b0, near(a)), (near(a), c0), (near(a), near(a)), (b0, c0)])
        shape = it % 3
        if shape == 0:
            al, be, ga = near(90.0), near(90.0), near(90.0)
        elif shape == 1:
            al, be, ga = near(90.0), cm.dyadic(rng, 95, 125, 2), near(90.0)
        else:
            al = cm.dyadic(rng, 65, 85, 2)
            be0, ga0 = cm.dyadic(rng, 95, 115, 2), cm.dyadic(rng, 95, 115, 2)
            be, ga = rng.choice([(be0, near(be0)), (be0, near(be0)), (near(al), ga0), (be0, near(al)), (be0, ga0)])
        par = [a, b, c, al, be, ga]
        if it % 2 == 0:
            duck = SimpleNamespace(a=a, b=b, c=c, alpha=al, beta=be, gamma=ga)
            impl, e = _call(lambda: (crystalsystem.identifyfamily(duck, rtol=rtol, atol=atol),
                                     [getattr(crystalsystem, p)(duck, rtol=rtol, atol=atol) for p in preds_box]))
        else:
            box, e0 = _call(lambda: am.Box(a=a, b=b, c=c, alpha=al, beta=be, gamma=ga))
            if e0 is not None:
                continue
            par = _params(box)
            impl, e = _call(lambda: (box.identifyfamily(rtol=rtol, atol=atol),
                                     [getattr(box, p)(rtol=rtol, atol=atol) for p in preds_box]))
        B.add('family:coincident-slots', _fam_line(par, rtol, atol), impl, e, _cmp_fam,
              {'params': par, 'rtol': rtol, 'atol': atol}, nontrivial=False)
    B.run()

    # real Box objects (any orientation) near the isclose boundary, non-default tolerances through the METHODS
    for it in range(ctx.n(250, 3000)):
        rtol, atol = rng.choice([(2.0 ** -10, 2.0 ** -20), (1e-5, 1e-8), (2.0 ** -6, 2.0 ** -3), (2.0 ** -7, 2.0 ** -9)])

        def near(x):
            tol = atol + rtol * abs(x)
            return x + rng.choice([0.0, 0.5, 0.9, 1.1, 2.0, 40.0, -0.5, -0.9, -1.1, -2.0, -40.0]) * tol
        a = cm.dyadic(rng, 2, 9, 4)
        b = rng.choice([near(a), near(a), cm.dyadic(rng, 2, 9, 4)])
        c = rng.choice([near(a), near(a), cm.dyadic(rng, 2, 9, 4), near(b)])      # near(b): b == c, a slot no predicate compares
        al = rng.choice([near(90.0), near(90.0), cm.dyadic(rng, 60, 120, 2)])
        be = rng.choice([near(90.0), near(al), cm.dyadic(rng, 60, 120, 2)])
        ga = rng.choice([near(90.0), near(120.0), near(60.0), near(al), cm.dyadic(rng, 60, 120, 2), near(be)])
        ca, cb, cg = (math.cos(math.radians(x)) for x in (al, be, ga))
        if 1 - ca * ca - cb * cb - cg * cg + 2 * ca * cb * cg < 0.05:
            continue
        box, e0 = _call(lambda: am.Box(a=a, b=b, c=c, alpha=al, beta=be, gamma=ga))
        if e0 is not None:
            continue
        if it % 3 == 1:
            box = am.Box(vects=_move(box.vects, _rot_matrix(rng)), origin=_gen_origin(rng))
        par = _params(box)
        style = it % 3
        if style == 0:
            impl, e = _call(lambda: (box.identifyfamily(rtol=rtol, atol=atol),
                                     [getattr(box, p)(rtol=rtol, atol=atol) for p in preds_box]))
        elif style == 1:
            impl, e = _call(lambda: (box.identifyfamily(rtol, atol), [getattr(box, p)(rtol, atol) for p in preds_box]))
        else:
            impl, e = _call(lambda: (box.identifyfamily(atol=atol, rtol=rtol),
                                     [getattr(box, p)(atol=atol, rtol=rtol) for p in preds_box]))
        B.add('family:Box-boundary', _fam_line(par, rtol, atol), impl, e, _cmp_fam,
              {'params': par, 'rtol': rtol, 'atol': atol, 'vects': box.vects.tolist()})
    B.run()

    # ---- H. ONE Box object through a history of setters; every function of the property asked after each -------
    _corr_objects(ctx, B, rng, quads_ok, atol_s)

    # ---- I. the CALLER's memory: calls touch no existing array, results are new arrays -----------------------
    _corr_memory(ctx, rng, atol_s)

    # ---- B/C. Cartesian vectors and plane normals per cell ------------------------------------
    exhaustive_cells = ctx.n(9, 14)
    for ci, (label, box) in enumerate(cells):
        V = box.vects
        Vs = cm.frs(V)
        Vfr = [[Fraction(float(x)) for x in row] for row in V]
        ishex_model = ctx.driver.ask(_fam_line(_params(box))).split()[2] == '1'
        hx = '1' if ishex_model else '0'
        sel = tri if ci < exhaustive_cells else rng.sample(tri, ctx.n(300, 2000))
        S = np.array(sel)
        nz = [t for t in sel if t != (0, 0, 0)]
        nrows, normals = _vcall(box.plane_crystal_to_cartesian, np.array(nz))
        for t, (r, e) in zip(nz, nrows):
            B.add('plane_normal', f'plane {hx} {atol_s} {Vs} %d %d %d' % t, r, e, _cmp_plane(Vfr),
                  {'cell': label, 'vects': V.tolist(), 'hkl': list(t)},
                  sample={'op': 'plane_crystal_to_cartesian', 'cell': label, 'vects': V.tolist(), 'hkl': list(t)})
        r, e = _call(box.plane_crystal_to_cartesian, [0, 0, 0])
        B.add('plane_normal:zero', f'plane {hx} {atol_s} {Vs} 0 0 0', r, e, _cmp_plane(Vfr), {'cell': label}, nontrivial=False)
        # beyond the exhaustive bound: float-division trap indices (49, 98, 103, 107, ...) and random indices to 10^4 (the
        # model decides them exactly; the rounding bound of the comparison is derived from the model's in-plane vectors)
        for j, t in enumerate(_trap_triples(rng, ctx.n(30, 250))):
            f = box.plane_crystal_to_cartesian if j % 3 else (lambda x: miller.plane_crystal_to_cartesian(x, box))
            r, e = _call(f, list(t))
            B.add('plane_normal:large', f'plane {hx} {atol_s} {Vs} %d %d %d' % t, r, e, _cmp_plane(Vfr),
                  {'cell': label, 'vects': V.tolist(), 'hkl': list(t)})
        # the same held in a NARROW integer array whose dtype holds the indices but not their product / lcm
        for j, (t, held) in enumerate(_overflow_triples(rng, ctx.n(12, 100))):
            f = box.plane_crystal_to_cartesian if j % 3 else (lambda x: miller.plane_crystal_to_cartesian(x, box))
            r, e = _call(f, np.array(t, dtype=np.dtype(held)) if held else list(t))
            B.add('plane_normal:overflow', f'plane {hx} {atol_s} {Vs} %d %d %d' % t, r, e, _cmp_plane(Vfr),
                  {'cell': label, 'vects': V.tolist(), 'hkl': list(t), 'held_as': held or 'list'})
        # the other entry point (stand-alone functions of atomman.tools.miller given the box)
        for t in rng.sample(nz, ctx.n(60, 400)):
            r, e = _call(miller.plane_crystal_to_cartesian, list(t), box)
            B.add('plane_normal:miller', f'plane {hx} {atol_s} {Vs} %d %d %d' % t, r, e, _cmp_plane(Vfr),
                  {'cell': label, 'vects': V.tolist(), 'origin': box.origin.tolist(), 'hkl': list(t)})
            r, e = _call(miller.vector_crystal_to_cartesian, list(t), box)
            B.add('vector_cart:miller', f'vc2c {hx} {atol_s} {Vs} %d %d %d' % t, r, e, _cmp_close(1e-14, _vect_atol(V, 24.0)),
                  {'cell': label, 'vects': V.tolist(), 'origin': box.origin.tolist(), 'uvw': list(t)})
        _shape_variants(ctx, 'plane_crystal_to_cartesian', box.plane_crystal_to_cartesian, np.array(nz), normals,
                        extra={'cell': label})
        # ARRAYS of planes (model op planearr): all rows planes, or one row that is none (zero vector / not integers)
        for it in range(ctx.n(10, 80)):
            shape = rng.choice([(2,), (3,), (5,), (2, 2), (1, 3), (2, 1, 2)])
            cnt = 1
            for d in shape:
                cnt *= d
            four = ishex_model and it % 4 == 3
            if four:
                rows = [list(q) for q in rng.sample([q for q in quads_ok if (q[0], q[1], q[3]) != (0, 0, 0)], cnt)]
            elif it % 3 == 0:           # mixed zero patterns, each pattern first in turn
                pats = [PATTERNS[(it // 3 + ci) % 7]] + [rng.choice(PATTERNS) for _ in range(cnt - 1)]
                rows = [_pattern_row(rng, p_) for p_ in pats]
            else:
                rows = [list(t) for t in rng.sample(nz, cnt)]
            kind = rng.choice(['valid', 'valid', 'zero', 'half', 'half-cancel', 'guard'])
            if it % 3 == 0 and not four and cnt > 1:
                kind = rng.choice(['valid', 'valid', 'valid', 'half'])
            j = rng.randrange(cnt)
            k_ = len(rows[0])
            if kind == 'zero':
                rows[j] = [0] * k_
            elif kind == 'half':
                rows[j][rng.choice([0, 1, k_ - 1])] += 0.5
            elif kind == 'half-cancel':
                rows[j][0] += 0.5
                rows[(j + 1) % cnt][0] -= 0.5
            elif kind == 'guard':
                if not four:
                    kind = 'valid'
                else:
                    rows[j][2] += 1
                    if cnt > 1 and rng.random() < 0.5:
                        rows[(j + 1) % cnt][2] -= 1
            arr = np.array(rows).reshape(shape + (k_,))
            if arr.dtype.kind in 'iu' and it % 2:
                arr = arr.astype(float)
            r, e = _call(box.plane_crystal_to_cartesian if it % 3 else (lambda x: miller.plane_crystal_to_cartesian(x, box)), arr)
            if e is None and np.asarray(r).shape != arr.shape[:-1] + (3,):
                ctx.disagree('plane_normal:array', f'plane_crystal_to_cartesian: result shape {np.asarray(r).shape} for input shape '
                             f'{arr.shape}', {'op': 'plane_normal:array', 'input': arr.tolist(), 'vects': V.tolist()})
                continue
            B.add('plane_normal:array', f'planearr {hx} {atol_s} {k_} {Vs} ' + ' '.join(cm.fr(float(v)) for row in rows for v in row),
                  r, e, _cmp_plane_arr(Vfr, [[row[0], row[1], row[-1]] for row in rows]),
                  {'cell': label, 'vects': V.tolist(), 'array': arr.tolist(), 'kind': kind}, nontrivial=(kind == 'valid'))
        crows, carts = _vcall(box.vector_crystal_to_cartesian, S)
        for t, (r, e) in zip(sel[::ctx.n(7, 3)], crows[::ctx.n(7, 3)]):
            B.add('vector_cart', f'vc2c {hx} {atol_s} {Vs} %d %d %d' % t, r, e,
                  _cmp_close(1e-14, _vect_atol(V, 24.0)), {'cell': label, 'vects': V.tolist(), 'uvw': list(t)},
                  sample={'op': 'vector_crystal_to_cartesian', 'cell': label, 'uvw': list(t)})
        # fractional three-index vectors (what fromstring('1/2 [1 1 0]') hands over): halves, thirds, quarters, sixths
        for _ in range(ctx.n(25, 200)):
            x = [rng.randint(-12, 12) / rng.choice([1, 2, 3, 4, 6]) for _ in range(3)]
            f = box.vector_crystal_to_cartesian if rng.random() < 0.5 else (lambda y: miller.vector_crystal_to_cartesian(y, box))
            r, e = _call(f, x)
            B.add('vector_cart:frac', f'vc2c {hx} {atol_s} {Vs} ' + cm.frs(x), r, e, _cmp_close(1e-14, _vect_atol(V, 24.0)),
                  {'cell': label, 'vects': V.tolist(), 'uvw': x})
        # four-index input: hexagonal cells accept (guard), all others raise
        for q in rng.sample(quads_ok, ctx.n(60, 400)):
            for d in (0, 0, 0, 1):
                qq = (q[0], q[1], q[2] + d, q[3])
                r, e = _call(box.vector_crystal_to_cartesian, list(qq))
                B.add('vector_cart:4', f'vc2c {hx} {atol_s} {Vs} %d %d %d %d' % qq, r, e, _cmp_close(1e-14, _vect_atol(V, 24.0)),
                      {'cell': label, 'vects': V.tolist(), 'uvtw': list(qq)})
                if (qq[0], qq[1], qq[3]) != (0, 0, 0):
                    r, e = _call(box.plane_crystal_to_cartesian, list(qq))
                    B.add('plane_normal:4', f'plane {hx} {atol_s} {Vs} %d %d %d %d' % qq, r, e, _cmp_plane(Vfr),
                          {'cell': label, 'vects': V.tolist(), 'hkil': list(qq)})
        if ishex_model:
            for t in rng.sample(tri, ctx.n(100, 800)):
                q = _ref_vector3to4(t)
                r, e = _call(box.vector_crystal_to_cartesian, q)
                B.add('vector_cart:4float', f'vc2c {hx} {atol_s} {Vs} ' + cm.frs(q), r, e, _cmp_close(1e-13, _vect_atol(V, 24.0)),
                      {'cell': label, 'uvtw': q.tolist()})
        # wrong number of indices
        for bad in ([1, 2], [1, 2, 3, 4, 5]):
            r, e = _call(box.vector_crystal_to_cartesian, bad)
            B.add('vector_cart:shape', f'vc2c {hx} {atol_s} {Vs} ' + ' '.join(map(str, bad)), r, e, _cmp_exact,
                  {'idx': bad}, nontrivial=False)
            r, e = _call(box.plane_crystal_to_cartesian, bad)
            B.add('plane_normal:shape', f'plane {hx} {atol_s} {Vs} ' + ' '.join(map(str, bad)), r, e, _cmp_exact,
                  {'idx': bad}, nontrivial=False)
        B.run()

    # ---- C'. thousands of planes in ONE call against the model's planearr (cells that are not diagonal) -------------
    nondiag = [(label, box) for label, box in cells if np.linalg.det(box.vects) > 0 and np.count_nonzero(np.abs(box.vects) > 1e-9 * _amax(box.vects)) > 3]
    for it in range(ctx.n(1, 3)):
        label, box = rng.choice(nondiag)
        V = box.vects
        Vfr = [[Fraction(float(x)) for x in row] for row in V]
        hx = ctx.driver.ask(_fam_line(_params(box))).split()[2]
        n = rng.choice([4097, 4100, 4500, 4912, 5000])
        arr = _big_rows(np, rng.getrandbits(32), n, 3, rng.choice(['int64', 'int32']), rng.choice([9, 40, 300]))
        f = box.plane_crystal_to_cartesian if it % 2 == 0 else (lambda x: miller.plane_crystal_to_cartesian(x, box))
        r, e = _call(f, arr)
        rows = arr.tolist()
        B.add('plane_normal:many-rows', f'planearr {hx} {atol_s} 3 {cm.frs(V)} ' + ' '.join(cm.fr(float(v)) for row in rows for v in row),
              r, e, _cmp_plane_arr(Vfr, rows), {'cell': label, 'vects': V.tolist(), 'rows': n, 'first': rows[:3]})
    for it in range(ctx.n(2, 6)):              # thousands of four-index sets against p43arr / v43arr; one offending row
        n = rng.choice([2049, 4097, 5001, 8193])
        arr = _big_rows(np, rng.getrandbits(32), n, 4, 'int64', rng.choice([9, 300]))
        offs = {}
        if it % 2:
            j = rng.choice([n - 1, n - 2, 2047, rng.randrange(n)])
            arr[j, 2] += rng.choice([1, -1, 3])
            offs = {'row': int(j), 'set': arr[j].tolist()}
        flat = ' '.join(str(x) for x in arr.ravel().tolist())
        for name, f, op in (('plane4to3', miller.plane4to3, 'p43arr'), ('vector4to3', miller.vector4to3, 'v43arr')):
            r, e = _call(f, arr)
            B.add(name + ':many-rows', f'{op} {atol_s} {flat}', r, e, _cmp_exact, {'rows': n, 'offending': offs, 'first': arr[:3].tolist()},
                  nontrivial=not offs)
    B.run()

    # ---- D. centering conversions ----------------------------------------------------------
    small = _triples(ctx.n(3, 5))
    S = np.array(small)
    for setting in SETTINGS + ['t', 'x', 'P', '']:
        for name, f, op in (('prim_to_conv', miller.vector_primitive_to_conventional, 'p2c'),
                            ('conv_to_prim', miller.vector_conventional_to_primitive, 'c2p')):
            res, e = _call(f, S, setting)
            if e is not None:
                if setting != '':
                    B.add(name + ':unknown', f'{op} {setting} 1 2 3', None, e, _cmp_exact, {'setting': setting},
                          nontrivial=False)
                else:
                    ctx.stats.case(name + ':unknown', 'empty', nontrivial=False)
                    if e != 'err:value':
                        ctx.disagree(name + ':unknown', 'empty setting accepted', {'op': name})
                continue
            if np.asarray(res).shape != S.shape:
                ctx.disagree(name + ':shape', f'{name}: result shape {np.asarray(res).shape} for input {S.shape}',
                             {'op': name, 'setting': setting})
                continue
            for t, r in zip(small, res):
                B.add(name, f'{op} {setting} %d %d %d' % t, r, None, _cmp_close(1e-14, 1e-15),
                      {'setting': setting, 'uvw': list(t)}, sample={'op': name, 'setting': setting, 'uvw': list(t)})
            _shape_variants(ctx, name, lambda x, f=f, setting=setting: f(x, setting), S, res, extra={'setting': setting})
            for _ in range(ctx.n(20, 200)):
                x = [rng.randint(-12, 12) / rng.choice([1, 2, 3, 4, 6]) for _ in range(3)]
                r, e2 = _call(f, x, setting)
                B.add(name + ':frac', f'{op} {setting} ' + cm.frs(x), r, e2, _cmp_close(1e-13, 1e-14),
                      {'setting': setting, 'uvw': x})
    B.run()

    # ---- E. reduce_indices / all_indices ----------------------------------------------------
    rrows, red = _vcall(miller.reduce_indices, T)
    for t, (r, e) in zip(tri, rrows):
        B.add('reduce_indices', 'reduce %d %d %d' % t, r, e, _cmp_ints, list(t), nontrivial=(t != (0, 0, 0)),
              sample={'op': 'reduce_indices', 'idx': list(t)})
    _shape_variants(ctx, 'reduce_indices', miller.reduce_indices, T, red)
    for _ in range(ctx.n(500, 5000)):
        g = rng.choice([1, 2, 3, 4, 5, 6, 7, 10, 12, -1])
        n = rng.choice([3, 4])
        base = [rng.randint(-9, 9) for _ in range(n)]
        x = [abs(g) * v for v in base]
        if n == 4 and rng.random() < 0.5:
            x[2] = -(x[0] + x[1])
        r, e = _call(miller.reduce_indices, x)
        B.add('reduce_indices:rand', 'reduce ' + ' '.join(map(str, x)), r, e, _cmp_ints, x, nontrivial=any(x))
    for _ in range(ctx.n(150, 1500)):           # huge indices (int64 range; the model's integers are unbounded)
        g = rng.choice([1, 2, 3, 6, 7, 10, 10 ** 6, 2 ** 20, 3 ** 12])
        hi = (2 ** 62) // g
        x = [g * rng.randint(-hi, hi) if rng.random() < 0.8 else g * rng.randint(-9, 9) for _ in range(rng.choice([3, 4]))]
        r, e = _call(miller.reduce_indices, np.array(x, dtype=np.int64))
        B.add('reduce_indices:huge', 'reduce ' + ' '.join(map(str, x)), r, e, _cmp_ints, x, nontrivial=any(x))
    for _ in range(ctx.n(100, 1000)):           # large integers / fractions through the 3 <-> 4 conversions
        t = [rng.randint(-10 ** 12, 10 ** 12) / rng.choice([1, 1, 2, 4, 8]) for _ in range(3)]
        r, e = _call(miller.vector3to4, t)
        # t = -(u'+v') cancels: its error is bounded by the roundings of u', v' (3 * 2^-53 * max|entry|), not by |t|
        B.add('vector3to4:large', 'v34 ' + cm.frs(t), r, e, _cmp_close(1e-14, 4 * U * max(abs(x) for x in t) + 1e-15), t)
        r, e = _call(miller.plane3to4, np.array(t))
        B.add('plane3to4:large', 'p34 ' + cm.frs(t), r, e, _cmp_exact, t)
    for bad in ([2, 4], [2, 4, 6, 8, 10]):
        r, e = _call(miller.reduce_indices, bad)
        B.add('reduce_indices:shape', 'reduce ' + ' '.join(map(str, bad)), r, e, _cmp_ints, bad, nontrivial=False)
    for m in range(0, ctx.n(5, 9)):
        for rflag in (False, True):
            arr, e = _call(miller.all_indices, m, reduce=rflag)

            def cmp_all(impl, out):
                toks = out.split()
                cnt = int(toks[0])
                flat = [int(t) for t in toks[1:]]
                a2 = np.asarray(impl)
                if a2.dtype.kind not in 'iu':
                    return f'dtype {a2.dtype}'
                if a2.shape != (cnt, 3) or a2.ravel().tolist() != flat:
                    return f'implementation lists {a2.shape[0]} rows, model {cnt}; or order/content differs'
                return None
            B.add('all_indices', f'allidx {m} {1 if rflag else 0}', arr, e, cmp_all, {'maxindex': m, 'reduce': rflag},
                  nontrivial=m > 0, sample={'op': 'all_indices', 'maxindex': m, 'reduce': rflag})
    B.run()

    # ---- F. fromstring ------------------------------------------------------------------------
    for it in range(ctx.n(1500, 20000)):
        n = rng.choice([3, 4])
        big = rng.random() < 0.2
        idx = [rng.randint(-120, 120) if big else rng.randint(-N, N) for _ in range(n)]
        frac = None
        if rng.random() < 0.6:
            frac = (rng.choice([1, 1, 1, 2, 3, 5, -1, -2, 7, 11, 12]), rng.choice([1, 2, 3, 4, 5, 6, 8, 12, 16]))
        kind = BRACKETS[it % 4]
        s = _render(rng, frac, kind, idx, messy=(it % 3 == 0))
        r, e = _call(miller.fromstring, s)
        B.add('fromstring', _codes(s), r, e, _cmp_close(4e-16, 0.0), s, sample={'op': 'fromstring', 'string': s})
    for it in range(ctx.n(200, 2000)):           # legacy form: numbers only
        idx = [rng.randint(-N, N) for _ in range(rng.choice([3, 4]))]
        s = ' '.join(map(str, idx))
        r, e = _call(miller.fromstring, s)
        B.add('fromstring:legacy', _codes(s), r, e, _cmp_close(4e-16, 0.0), s)
    for s in _malformed(rng, ctx.n(200, 2000)):
        r, e = _call(miller.fromstring, s)
        B.add('fromstring:malformed', _codes(s), r, e, _cmp_close(4e-16, 0.0), s, nontrivial=False)
    B.run()


def _cmp_ok(impl, out):
    return None if out == 'ok' else f'model answered {out}'


def _cmp_recip(impl, out):
    model = [float(x) for x in cm.unfrs(out)]
    vals = _np().asarray(impl).ravel().tolist()
    scale = max(abs(x) for x in model)
    if len(vals) != 9 or any(not (abs(v - m) <= 1e-9 * scale) for v, m in zip(vals, model)):
        return f'implementation reciprocal_vects {vals} != model {model}'
    return None


def _corr_objects(ctx, B, rng, quads_ok, atol_s):
    """the model's BoxObj (driver state) and one real Box object are taken through the same history:
    new -> queries -> setter -> queries -> ...; the model is told the state the real object reports after each setter
    (vects, origin, measured a..gamma), so what is compared is every ANSWER about the current cell: family +
    predicates (two tolerance pairs), three- and four-index vectors and plane normals, reciprocal_vects,
    position_relative_to_cartesian."""
    np = _np()
    import atomman as am

    def state(box):
        return cm.frs(box.vects) + ' ' + cm.frs(box.origin) + ' ' + ' '.join(cm.fr(x) for x in _params(box))

    def queries(box, info, probes, tolseq):
        V = box.vects
        Vfr = [[Fraction(float(x)) for x in row] for row in V]
        for rtol, atol in tolseq:
            if (rtol, atol) == (1e-5, 1e-8) and rng.random() < 0.5:
                impl, e = _call(lambda: (box.identifyfamily(), [getattr(box, p)() for p in PREDS]))
            else:
                impl, e = _call(lambda: (box.identifyfamily(rtol=rtol, atol=atol),
                                         [getattr(box, p)(rtol=rtol, atol=atol) for p in PREDS]))
            B.add('object:family', f'bfam {cm.fr(rtol)} {cm.fr(atol)}', impl, e, _cmp_fam, info)
        for t in probes['planes']:
            if any(t[:2]) or t[-1]:
                r, e = _call(box.plane_crystal_to_cartesian, list(t))
                B.add('object:plane', f'bplane {atol_s} ' + ' '.join(map(str, t)), r, e, _cmp_plane(Vfr), dict(info, hkl=list(t)))
        for t in probes['vectors']:
            r, e = _call(box.vector_crystal_to_cartesian, list(t))
            B.add('object:vector', f'bvc2c {atol_s} ' + ' '.join(map(str, t)), r, e, _cmp_close(1e-14, _vect_atol(V, 24.0)),
                  dict(info, uvw=list(t)))
        sp = [cm.dyadic(rng, -2, 2, 3) for _ in range(3)]
        r, e = _call(box.position_relative_to_cartesian, sp)
        B.add('object:position', 'bpos ' + cm.frs(sp), r, e,
              _cmp_close(1e-13, 1e-13 * max(_amax(V), _amax(box.origin, 0.0))), dict(info, relpos=sp))
        if rng.random() < 0.7:
            r, e = _call(lambda: box.reciprocal_vects)
            B.add('object:reciprocal_vects', 'brecip', None if r is None else np.array(r, copy=True), e, _cmp_recip, info)
            if e is None and rng.random() < 0.6:
                # the caller rescales what it was handed (2 pi convention) in place, then asks again
                try:
                    r *= 2 * math.pi
                    r[0, 0] = -77.0
                except Exception:  # noqa
                    pass
                r2, e2 = _call(lambda: box.reciprocal_vects)
                B.add('object:reciprocal_vects', 'brecip', None if r2 is None else np.array(r2, copy=True), e2, _cmp_recip,
                      dict(info, note='second read after the caller overwrote the array returned by the first'))

    for it in range(ctx.n(70, 600)):
        cellseq = [_gen_cell(rng)]
        for _ in range(rng.randint(1, 3)):
            r = rng.random()
            cellseq.append(_near_cell(rng, cellseq[-1]) if r < 0.3 else _gen_cell(rng))
        # the same index sets before and after every setter (an answer remembered per index set would show)
        probes = {'planes': [tuple(rng.randint(-5, 5) for _ in range(3)) for _ in range(3)] + [rng.choice(quads_ok)],
                  'vectors': [tuple(rng.randint(-5, 5) for _ in range(3)) for _ in range(2)] + [rng.choice(quads_ok)]}
        # which tolerances are asked, in which order, is fixed per object (a one-slot memo keyed on the tolerances
        # shows only when the same pair is asked before and after a setter)
        tolseq = rng.choice([[(1e-5, 1e-8)], [(1e-5, 1e-8)], [ALT_TOL], [(1e-5, 1e-8), ALT_TOL], [ALT_TOL, (1e-5, 1e-8)],
                             [(1e-5, 1e-8), ALT_TOL, (1e-5, 1e-8)]])
        first = cellseq[0]
        hist = ['new']
        box, e = _call(lambda: am.Box(vects=first['vects'], origin=first['origin']))
        if e is not None:
            ctx.disagree('object:new', f'Box(vects, origin) raised {e}', {'op': 'object', 'cells': cellseq})
            continue
        info = {'cells': [c['label'] for c in cellseq], 'history': list(hist), 'vects': box.vects.tolist(),
                'origin': box.origin.tolist()}
        B.add('object:new', 'bnew ' + state(box), 'ok', None, _cmp_ok, info, nontrivial=False)
        queries(box, info, probes, tolseq)
        for c in cellseq[1:]:
            st = _step_to(rng, c)
            if rng.random() < 0.15:                 # origin alone first
                o2 = _gen_origin(rng)
                box.origin = o2
                B.add('object:origin=', 'bseto ' + cm.frs(box.origin), 'ok', None, _cmp_ok, info, nontrivial=False)
                hist.append('origin=')
                queries(box, dict(info, history=list(hist), origin=box.origin.tolist()), probes, tolseq)
            try:
                box = _apply_step(box, st)
            except cm.InfraError:
                raise
            except Exception as ex:  # noqa
                ctx.disagree('object:setter', f'{st["op"]} raised {type(ex).__name__}: {ex}',
                             {'op': 'object', 'step': st, 'history': hist})
                break
            hist.append(st['op'])
            info = {'cells': [c2['label'] for c2 in cellseq], 'history': list(hist), 'vects': box.vects.tolist(),
                    'origin': box.origin.tolist(), 'step': st}
            if 'vects' in st['kw']:
                # the model's setters store what they are given: the object must report exactly the vects / origin it
                # was set to (entries below 1e-8 of the largest are the setter's own clean-up to zero: exempt)
                want = np.array(st['kw']['vects'], dtype=float)
                big = np.abs(want).max()
                keep = np.abs(want) > 1e-8 * big
                ctx.stats.case('object:readback', (st['op'], str(st['kw'])), nontrivial=False)
                if not (np.array_equal(box.vects[keep], want[keep]) and np.all(np.abs(box.vects[~keep]) <= 1e-8 * big)
                        and np.array_equal(box.origin, np.array(st['kw']['origin'], dtype=float))):
                    ctx.disagree('object:readback', f'after {st["op"]} the object reports vects {box.vects.tolist()} origin '
                                 f'{box.origin.tolist()}, it was set to {st["kw"]}', {'op': 'object', 'step': st, 'history': hist})
            B.add('object:' + st['op'], 'bset ' + state(box), 'ok', None, _cmp_ok, info, nontrivial=False,
                  sample={'op': 'object-history', 'history': list(hist), 'cell': c['label']})
            queries(box, info, probes, tolseq)
        B.run()


def _corr_memory(ctx, rng, atol_s):
    """the CALLER's memory (model: `Mem Rows` in the driver state; theorems `Mem.call_frame`, `run_frame`,
    `call_scribble_call`, `two_results_distinct`): one history of
        alloc (an index array of int or float dtype, contiguous or a view of a larger table) /
        call (a function of the property on an array the caller holds: an input OR an earlier result) /
        nullary call (fromstring of one of a few strings, all_indices) /
        scribble (the caller overwrites, in place, an array it holds: an input or a RESULT)
    is run on real numpy arrays and on the model; after every step the WHOLE memory (every array the caller holds) is
    compared.  The model's calls never touch an existing array and always return a new one."""
    np = _np()
    import atomman as am
    from atomman.tools import miller

    def flat(x):
        return [float(v) for v in np.asarray(x, dtype=float).ravel().tolist()]

    def rows_line(k, x):
        return f'{k} ' + ' '.join(cm.fr(v) for v in flat(x))

    for it in range(ctx.n(150, 1500)):
        # the Box the session's vector conversions refer to (model: the driver's BoxObj)
        cell = _gen_cell(rng, rng.choice(['hexagonal', 'hexagonal', None]) or rng.choice(FAMILIES + ['dyadic']),
                         rng.choice(['std', 'perm', 'rot']))
        box, e = _call(lambda: am.Box(vects=cell['vects'], origin=cell['origin']))
        if e is not None:
            continue
        state = cm.frs(box.vects) + ' ' + cm.frs(box.origin) + ' ' + ' '.join(cm.fr(x) for x in _params(box))
        lines = ['mreset', 'bnew ' + state]
        expect = [('ok', None), ('ok', None)]          # (kind, payload) per line
        real = []                                       # the arrays the caller holds, by address
        keep = []                                       # the tables the views live in (kept alive)
        hist = []
        strings = [_gen_index_string(rng, rng.randrange(64))[0] for _ in range(2)]
        fns = [('plane3to4', 3, miller.plane3to4, 'p34'), ('vector3to4', 3, miller.vector3to4, 'v34'),
               ('plane4to3', 4, miller.plane4to3, f'p43 {atol_s}'), ('vector4to3', 4, miller.vector4to3, f'v43 {atol_s}'),
               ('reduce_indices', 0, miller.reduce_indices, 'reduce'),
               ('Box.vector_crystal_to_cartesian', 0, box.vector_crystal_to_cartesian, f'bvc2c {atol_s}'),
               ('miller.vector_crystal_to_cartesian', 0, lambda x: miller.vector_crystal_to_cartesian(x, box), f'bvc2c {atol_s}')]
        st = rng.choice(SETTINGS)
        fns += [('vector_primitive_to_conventional:' + st, 3, lambda x: miller.vector_primitive_to_conventional(x, st), 'p2c ' + st),
                ('vector_conventional_to_primitive:' + st, 3, lambda x: miller.vector_conventional_to_primitive(x, st), 'c2p ' + st)]

        def snapshot():
            return [(np.asarray(a).shape, flat(a)) for a in real]

        def width(a):
            return np.asarray(a).shape[-1] if np.asarray(a).ndim else 0

        nsteps = rng.randint(5, 12)
        for stepno in range(nsteps):
            r = rng.random()
            if not real or r < 0.22:
                k = rng.choice([3, 3, 4])
                dtype = rng.choice(['int64', 'int64', 'float64', 'int32', 'uint8', 'uint16', 'uint32', 'uint64', 'int8', 'int16'])
                kind = rng.choice(['int3'] if k == 3 else ['int4', 'int4', 'any4']) if dtype != 'float64' else \
                    rng.choice(['int3', 'frac3'] if k == 3 else ['int4', 'thirds4'])
                shape = rng.choice([(), (2,), (3,), (2, 2)])
                cnt = 1
                for d in shape:
                    cnt *= d
                rows = _pure_rows(rng, kind, cnt, nonneg=dtype in UNSIGNED)
                variant = rng.choice([v for v in VARIANTS if v not in ('list', 'readonly')])
                base, view = _make_input(np, rows, shape, variant, dtype)
                keep.append(base)
                real.append(view)
                hist.append(f'a{len(real) - 1} = {dtype} array {np.asarray(view).tolist()} ({variant})')
                lines.append('malloc ' + rows_line(k, view))
                expect.append(('addr', len(real) - 1))
            elif r < 0.62:
                src = rng.randrange(len(real))
                a = real[src]
                w = width(a)
                cands = [f for f in fns if (f[1] == w or (f[1] == 0 and w in (3, 4)))
                         and not (f[0] == 'reduce_indices' and np.asarray(a).dtype.kind not in 'iu')]
                if not cands or np.asarray(a).size == 0:
                    continue
                name, _w, f, tok = rng.choice(cands)
                res, e = _call(f, a)
                hist.append(f'a{len(real)} = {name}(a{src})' + (f' -> {e}' if e else ''))
                lines.append(f'mcall {src} {tok}')
                if e is None:
                    real.append(res)
                    expect.append(('call', (len(real) - 1, name)))
                else:
                    expect.append(('err', (e, name)))
            elif r < 0.74:
                if rng.random() < 0.7:
                    s = rng.choice(strings)
                    res, e = _call(miller.fromstring, s)
                    name = f'fromstring({s!r})'
                    lines.append('mconst ' + _codes(s))
                else:
                    m, rf = rng.choice([0, 1, 1, 2]), rng.random() < 0.5
                    res, e = _call(miller.all_indices, m, reduce=rf)
                    name = f'all_indices({m}, reduce={rf})'
                    lines.append(f'mconst allidx {m} {1 if rf else 0}')
                hist.append(f'a{len(real)} = {name}' + (f' -> {e}' if e else ''))
                if e is None:
                    real.append(res)
                    expect.append(('call', (len(real) - 1, name)))
                else:
                    expect.append(('err', (e, name)))
            else:
                # the caller writes into an array it holds (results preferred: b *= a, n /= norm, t[2] = 0)
                res_addrs = [i for i, a in enumerate(real) if isinstance(a, np.ndarray) and a.flags.writeable and a.size]
                if not res_addrs:
                    continue
                dst = rng.choice(res_addrs[-3:] + res_addrs)
                a = real[dst]
                w = width(a)
                cnt = a.size // w
                kind = {3: 'int3', 4: rng.choice(['int4', 'int4', 'any4'])}.get(w)
                if kind is None:
                    continue
                new = np.array(_pure_rows(rng, kind, cnt, nonneg=(a.dtype.kind == 'u'))).reshape(a.shape)
                a[...] = new
                hist.append(f'a{dst}[...] = {new.tolist()}')
                lines.append(f'mscrib {dst} ' + rows_line(w, a))
                expect.append(('ok', None))
            lines.append('mdump')
            expect.append(('dump', (snapshot(), list(hist))))
        outs = ctx.driver.ask_many(lines)
        ctx.stats.case('memory:session', tuple(lines), nontrivial=True,
                       sample={'op': 'memory-session', 'history': list(hist)} if it < 3 else None)
        for li, (line, (kind, pay), out) in enumerate(zip(lines, expect, outs)):
            bad = None
            if kind == 'ok':
                bad = None if out == 'ok' else f'model answered {out}'
            elif kind == 'addr':
                bad = None if out == str(pay) else f'model address {out}, harness {pay}'
                if bad:
                    raise cm.InfraError('harness: memory addresses out of step: ' + bad)
            elif kind == 'err':
                if out != pay[0]:
                    ctx.disagree('memory:call', f'{pay[1]} raised {pay[0]}, model {out[:80]} (history: ' + '; '.join(hist) + ')',
                                 {'op': 'memory', 'lines': lines, 'history': hist})
                    break
            elif kind == 'call':
                if out.startswith('err:'):
                    ctx.disagree('memory:call', f'{pay[1]} returned a value, model {out} (history: ' + '; '.join(hist) + ')',
                                 {'op': 'memory', 'lines': lines, 'history': hist})
                    break
            elif kind == 'dump':
                snap, h = pay
                cells = out.split(';') if out else []
                msg = None
                if len(cells) != len(snap):
                    msg = f'the caller holds {len(snap)} arrays, the model {len(cells)}'
                else:
                    for addr, ((shape, vals), cell) in enumerate(zip(snap, cells)):
                        model = cm.unfrs(cell.split(':', 1)[1]) if cell.split(':', 1)[1].strip() else []
                        # integers exact to well beyond this; thirds / Cartesian components: roundings of a short chain
                        # of conversions, each bounded by a few 2^-53 of the largest entry of the array
                        scale = _amax(vals)
                        if len(model) != len(vals) or not cm.allclose(vals, model, 1e-13, 1e-13 * scale):
                            msg = (f'array a{addr} holds {vals}, in the model (calls touch no existing array, every result '
                                   f'is a new array) it holds {[float(x) for x in model]}')
                            break
                if msg:
                    ctx.disagree('memory:state',
                                 'caller memory after [' + '; '.join(h) + ']: ' + msg,
                                 {'op': 'memory', 'lines': lines[:li + 1], 'history': h})
                    break


def _malformed(rng, n):
    out = ['[1 0 0', '(1 0 0]', '[1 0 0)', '{1 0 0', '<1 1 -2 0', '[1 2]', '[1 2 3 4 5]', '[]', '[ ]',
           '1/0 [1 0 0]', '1/2/3 [1 0 0]', '2 [1 0 0]', '1/2 [1 0]', '1/-0 (1 1 1)', '1 2', '1 2 3 4 5', '',
           '] [1 2 3', '1/2 ] [1 2 3', '(1 2 3) [1 1 1]', '[1 1 1] (1 2 3)', '1/2 (1 2 3) [4 5 6]', '{1 1 1} <1 2 3>',
           # commas, the typographic minus sign, other separators, brackets that do not match
           '[1, 0, 0]', '[1,0,0]', '(1, 1, -2, 0)', '[\u22121 0 0]', '[1 \u22121 0]', '1/2 [1 1 \u22122 0]', '[1;0;0]',
           '1, 0, 0', '\u22121 0 0', '[1 0 0 ,]', '[1 0 0 x]', '<1 1 0)', '{1 1 0]', '(1 1 0>', '[1 1 0}', ']1 0 0[',
           ')1 0 0(', '1/2 [1 1 0', '1/2 1 1 0]', '[[1 0 0]]', '[1 0 0]]', '((1 0 0)', '[1 0 0] [0 1 0]', '[1 0 0](0 1 0)',
           '1/2[1 1 0]', '1/2  [1 1 0] ', '-1/2 <1 1 0>', '1/ 2 [1 1 0]', '1 /2 [1 1 0]', '1/2/ [1 1 0]', '/2 [1 1 0]',
           '1/ [1 1 0]', '\u22121/2 [1 1 0]']
    while len(out) < n:
        idx = [rng.randint(-9, 9) for _ in range(rng.choice([1, 2, 5, 6, 3, 4]))]
        o, c = rng.choice(BRACKETS)
        kind = rng.choice(['noclose', 'wrongclose', 'count', 'zerodiv', 'twoslash', 'noslash', 'comma', 'uminus', 'swapped'])
        body = ' '.join(map(str, idx))
        if kind == 'comma':
            out.append(o + rng.choice([', ', ',', ' ,']).join(map(str, idx)) + c)
            continue
        if kind == 'uminus':
            out.append((rng.choice(['', '1/2 ', '\u22121/2 '])) + o + body.replace('-', '\u2212') + c)
            continue
        if kind == 'swapped':
            out.append(c + body + o)
            continue
        if kind == 'noclose':
            out.append(o + body)
        elif kind == 'wrongclose':
            c2 = rng.choice([x[1] for x in BRACKETS if x[1] != c])
            out.append(o + body + c2)
        elif kind == 'count':
            out.append(o + body + c)
        elif kind == 'zerodiv':
            out.append(f'{rng.randint(-5, 5)}/0 ' + o + body + c)
        elif kind == 'twoslash':
            out.append(f'1/{rng.randint(1, 5)}/{rng.randint(1, 5)} ' + o + body + c)
        else:
            out.append(f'{rng.randint(1, 5)} ' + o + body + c)
    return out


def _shape_variants(ctx, name, f, flat_in, flat_out, extra=None):
    """numpy shape plumbing: list input, single rows, nested leading shapes give the flat result reshaped."""
    np = _np()
    if flat_out is None:
        return          # the flat call itself raised: already reported row by row
    n = flat_in.shape[0]
    n2 = (n // 6) * 6
    variants = [('list', flat_in[:n2].tolist(), flat_out[:n2]),
                ('single', flat_in[n // 2], flat_out[n // 2]),
                ('single-list', flat_in[n // 3].tolist(), flat_out[n // 3]),
                ('(2,n/2,k)', flat_in[:n2].reshape(2, n2 // 2, -1), flat_out[:n2].reshape(2, n2 // 2, -1)),
                ('(n/6,3,2,k)', flat_in[:n2].reshape(n2 // 6, 3, 2, -1), flat_out[:n2].reshape(n2 // 6, 3, 2, -1)),
                ('(1,k)', flat_in[:1], flat_out[:1])]
    for label, x, want in variants:
        got, e = _call(f, x)
        ctx.stats.case(name + ':shape', (name, label, str(extra)), nontrivial=True)
        if e is not None or np.asarray(got).shape != np.asarray(want).shape or \
                not np.array_equal(np.asarray(got), np.asarray(want), equal_nan=True):
            ctx.disagree(name + ':shape', f'{name}: input of shape variant {label} does not give the flat result reshaped '
                         f'({e or np.asarray(got).shape})', {'op': name + ':shape', 'variant': label, 'extra': extra})


# ----------------------------------------------------------------------------------------
# search: the property's own clauses on the REAL code, exact rational oracle (no Lean involved)
# ----------------------------------------------------------------------------------------
MULTIPLICITY = {'p': 1, 'a': 2, 'b': 2, 'c': 2, 'i': 2, 'f': 4, 't1': 3, 't2': 3}


def _F(x):
    return Fraction(float(x))


def _fcross(a, b):
    return [a[1] * b[2] - a[2] * b[1], a[2] * b[0] - a[0] * b[2], a[0] * b[1] - a[1] * b[0]]


def _fdot(a, b):
    return sum(x * y for x, y in zip(a, b))


def _amax(x, default=1.0):
    """largest magnitude in an array-like (the scale an absolute rounding tolerance is relative to); `default` when it is
    empty or all zero.  NOT floored at 1: cells written in small-number units have Cartesian components of 1e-10."""
    np = _np()
    a = np.abs(np.asarray(x, dtype=float))
    m = float(a.max()) if a.size else 0.0
    return m if m > 0.0 and math.isfinite(m) else default


def _vect_atol(V, idx_max=12.0):
    """absolute rounding tolerance of a Cartesian vector idx . V (three products, two additions, indices up to idx_max):
    relative to the largest cell-vector component, never to 1"""
    return 5e-14 * _amax(V)          # >= 3 * 2^-53 * 3 * 24 * max|V| with room for the rounding of thirds; 1e-13 for max|V| = 2


def _recip_dir(V, hkl):
    """exact h a* + k b* + l c* times det V (same direction for a right-handed cell) and det V."""
    a, b, c = V
    det = _fdot(a, _fcross(b, c))
    bc, ca, ab = _fcross(b, c), _fcross(c, a), _fcross(a, b)
    g = [hkl[0] * bc[i] + hkl[1] * ca[i] + hkl[2] * ab[i] for i in range(3)]
    return g, det


def _o_roundtrip34(ctx, np, miller, t):
    """round trips 3 -> 4 -> 3 and 4 -> 3 -> 4, guard behaviour."""
    t = list(t)
    p4 = miller.plane3to4(t)
    back = miller.plane4to3(p4)
    ok = [Fraction(x) for x in back.tolist()] == [Fraction(x) for x in t] and Fraction(p4[0] + p4[1] + p4[2]) == 0
    again = miller.plane3to4(back)
    ok = ok and again.tolist() == p4.tolist()
    if not ok:
        ctx.violate('plane34:roundtrip', f'plane3to4/plane4to3 round trip loses {t}: 3->4 {p4.tolist()}, back {back.tolist()}',
                    {'op': 'roundtrip34', 'idx': t})
    v4 = miller.vector3to4(t)
    want4 = [Fraction(2 * t[0] - t[1], 3), Fraction(2 * t[1] - t[0], 3), Fraction(-(t[0] + t[1]), 3), Fraction(t[2])]
    r, e = _call(miller.vector4to3, v4)
    ok = e is None and cm.allclose(v4.tolist(), want4, 1e-14, 1e-15) and cm.allclose(r.tolist(), [Fraction(x) for x in t], 1e-14, 1e-14)
    v4b = None
    if ok:
        v4b = miller.vector3to4(r)
        ok = cm.allclose(v4b.tolist(), want4, 1e-14, 1e-14)
    if not ok:
        ctx.violate('vector34:roundtrip', f'vector3to4/vector4to3 round trip loses {t}: 3->4 {v4.tolist()}, back '
                    f'{None if r is None else r.tolist()} ({e})' +
                    ('' if v4b is None else f', 3->4 of that again {v4b.tolist()}'), {'op': 'roundtrip34', 'idx': t})
    # guard: a quadruple whose first three entries do not sum to zero is rejected
    for f, nm in ((miller.plane4to3, 'plane4to3'), (miller.vector4to3, 'vector4to3')):
        bad = [t[0], t[1], -(t[0] + t[1]) + 1, t[2]]
        r, e = _call(f, bad)
        if e != 'err:value':
            ctx.violate(nm + ':guard', f'{nm} accepts {bad} although the first three indices do not sum to zero',
                        {'op': 'roundtrip34', 'idx': t})


def _o_roundtrip_frac(ctx, np, miller, t, dtype='list'):
    """[uvw] with FRACTIONAL entries (what fromstring('1/2 [1 1 0]') hands over) and integer indices held in a float
    array / huge integer indices: 3 -> 4 -> 3 is lossless, values exact (Fractions of the doubles passed)."""
    x = [float(v) for v in t]
    arg = x if dtype == 'list' else np.array(x, dtype=float)
    tf = [_F(v) for v in x]
    want4 = [(2 * tf[0] - tf[1]) / 3, (2 * tf[1] - tf[0]) / 3, -(tf[0] + tf[1]) / 3, tf[2]]
    scale = max(1.0, max(abs(v) for v in x))
    replay = {'op': 'roundtrip_frac', 'idx': x, 'dtype': dtype}
    v4, e = _call(miller.vector3to4, arg)
    r, e2 = (None, 'x') if e else _call(miller.vector4to3, v4)
    if e or e2 or not cm.allclose(np.asarray(v4).tolist(), want4, 1e-14, 1e-15 * scale) \
            or not cm.allclose(np.asarray(r).tolist(), tf, 1e-14, 1e-14 * scale):
        ctx.violate('vector34:roundtrip', f'vector3to4/vector4to3 on {x} ({dtype}): 3->4 gives '
                    f'{e or np.asarray(v4).tolist()} (exact: {[float(w) for w in want4]}), back '
                    f'{e2 if e2 else np.asarray(r).tolist()}', replay)
        return
    p4, e = _call(miller.plane3to4, arg)
    back, e2 = (None, 'x') if e else _call(miller.plane4to3, p4)
    ok = not e and not e2 and np.asarray(p4).shape == (4,) and np.asarray(back).shape == (3,)
    if ok:
        p4f = [_F(v) for v in np.asarray(p4).tolist()]
        # i = -(h+k) is one float addition: exact on integers, one rounding on fractions
        ok = [p4f[0], p4f[1], p4f[3]] == tf and abs(p4f[2] + tf[0] + tf[1]) <= Fraction(1, 2 ** 52) * (abs(tf[0]) + abs(tf[1])) \
            and [_F(v) for v in np.asarray(back).tolist()] == tf
    if not ok:
        ctx.violate('plane34:roundtrip', f'plane3to4/plane4to3 on {x} ({dtype}): 3->4 gives {e or np.asarray(p4).tolist()}, '
                    f'back {e2 if e2 else np.asarray(back).tolist()}', replay)


def _o_normal_guard_array(ctx, np, box, label, rows, badrow, kind, shape, spec=None):
    """plane normals of an ARRAY of planes in which ONE row is not a plane at all (the zero index vector) or not an
    integer plane (x + 1/2; fractional parts that cancel within the row or against another row): the array is rejected
    (ValueError) like the offending row alone, whatever the other rows are, for every leading shape."""
    rows = [[float(v) for v in r] for r in rows]
    replay = {'op': 'normal_guard_array', 'rows': rows, 'badrow': badrow, 'kind': kind, 'shape': list(shape),
              'vects': box.vects.tolist(), 'cell': label}
    if spec is not None:
        replay['spec'] = spec
    arr = np.array(rows).reshape(tuple(shape) + (3,))
    if kind == 'zero' or all(float(v).is_integer() for r in rows for v in r):
        arr = arr.astype(int) if sum(map(abs, rows[0])) % 2 == 0 else arr
    alone, e0 = _call(box.plane_crystal_to_cartesian, rows[badrow])
    if e0 != 'err:value':
        ctx.violate('plane_normal:guard-array', f'plane_crystal_to_cartesian({rows[badrow]}) on a {label} cell is accepted '
                    f'({e0 or np.asarray(alone).tolist()}): {"the zero index vector" if kind == "zero" else "not integer indices"}',
                    replay)
        return
    r, e = _call(box.plane_crystal_to_cartesian, arr)
    if e != 'err:value':
        ctx.violate('plane_normal:guard-array', f'plane_crystal_to_cartesian accepts the array {arr.tolist()} on a {label} cell '
                    f'although row {badrow} ({rows[badrow]}) is rejected when given alone (result '
                    f'{e or np.asarray(r).tolist()})', replay)


PATTERNS = ['h00', '0k0', '00l', 'hk0', 'h0l', '0kl', 'hkl']     # the seven zero patterns = the seven branches of the code


def _pattern_row(rng, pat, hi=6, nonneg=False):
    """a plane of the zero pattern `pat` (non-zero entries 1..hi, any sign)"""
    return [0 if c == '0' else rng.randint(1, hi) * (1 if nonneg else rng.choice([1, -1])) for c in pat]


def _pattern_orders(rng, n_pairs, hi=6, nonneg=False):
    """arrays of planes of MIXED zero patterns in chosen ORDERS: one plane per pattern, each pattern FIRST in turn (the rest
    shuffled), the reverse, and ordered pairs (p, q) of patterns (all 49 when n_pairs >= 49).  What a per-row loop does with
    the first row (allocate the output from its result: dtype, shape) shows only when that row is of the odd kind."""
    base = {p: _pattern_row(rng, p, hi, nonneg) for p in PATTERNS}
    out = []
    for p in PATTERNS:
        rest = [q for q in PATTERNS if q != p]
        rng.shuffle(rest)
        out.append(([p] + rest, [base[p]] + [base[q] for q in rest]))
    # neighbours that are RELATED: the same plane twice, its negative, one sign flipped, a multiple, a permutation, the
    # same again (state carried from row to row - a memo of the previous row, a running sign - shows only here)
    for _ in range(2):
        p = rng.choice(PATTERNS)
        r0 = _pattern_row(rng, p, hi, nonneg)
        seq, names = [r0], [p]
        for _j in range(rng.randint(4, 7)):
            prev = seq[-1] if rng.random() < 0.7 else r0
            kind = rng.choice(['same', 'neg', 'flip', 'double', 'perm', 'abs'])
            if nonneg and kind in ('neg', 'flip'):
                kind = 'perm'
            if kind == 'same':
                x = list(prev)
            elif kind == 'neg':
                x = [-v for v in prev]
            elif kind == 'flip':
                nzi = [i for i, v in enumerate(prev) if v]
                i = rng.choice(nzi)
                x = list(prev)
                x[i] = -x[i]
            elif kind == 'double':
                f_ = rng.choice([2, 3])
                x = [f_ * v for v in prev] if max(abs(v) for v in prev) * f_ <= 120 else list(prev)
            elif kind == 'perm':
                x = list(prev)
                rng.shuffle(x)
            else:
                x = [abs(v) for v in prev]
            seq.append(x)
            names.append(kind)
        out.append((names, seq))
    pairs = [(p, q) for p in PATTERNS for q in PATTERNS]
    if n_pairs < len(pairs):
        pairs = rng.sample(pairs, n_pairs)
    for p, q in pairs:
        out.append(([p, q], [_pattern_row(rng, p, hi, nonneg), _pattern_row(rng, q, hi, nonneg)]))
    return out


def _o_normal_rows(ctx, np, box, label, rows, shape=None, held=None, entry='Box', four=False, spec=None):
    """an ARRAY of planes in ONE call: every row of the result is the unit reciprocal-lattice direction of its row of
    indices (exact oracle, row by row), whatever the ORDER of the rows and whatever kind of plane comes first; the result is
    a floating-point array (an integer array cannot hold unit normals).  `held`: dtype of the caller's array (None: nested
    list); `four`: the rows are handed over in the four-index form (hexagonal cells)."""
    rows = [[int(v) for v in r] for r in rows]
    shape = tuple(shape) if shape else (len(rows),)
    given = [[r[0], r[1], -(r[0] + r[1]), r[2]] for r in rows] if four else rows
    k = len(given[0])
    replay = {'op': 'normal_rows', 'rows': rows, 'shape': list(shape), 'held': held, 'entry': entry, 'four': four,
              'vects': box.vects.tolist(), 'origin': box.origin.tolist(), 'cell': label}
    if spec is not None:
        replay['spec'] = spec
    arr = np.array(given, dtype=np.dtype(held) if held else np.int64).reshape(shape + (k,))
    if arr.reshape(-1, k).tolist() != given:
        raise cm.InfraError(f'harness: a {held} array does not hold {given}')
    arg = arr if held else arr.tolist()
    what = (f'plane_crystal_to_cartesian of the {len(rows)} planes {given} in one call (leading shape {list(shape)}, held as '
            f'{"a " + held + " array" if held else "a nested list"}, {entry} entry point) on a {label} cell')
    if entry == 'Box':
        got, e = _call(box.plane_crystal_to_cartesian, arg)
    else:
        from atomman.tools import miller as _m
        got, e = _call(_m.plane_crystal_to_cartesian, arg, box)
    if e is not None:
        ctx.violate('plane_normal:raises', f'{what} raised {e}; every row is a plane', replay)
        return
    got = np.asarray(got)
    if got.shape != shape + (3,):
        ctx.violate('plane_normal:shape', f'{what} returned shape {got.shape}', replay)
        return
    V = [[_F(x) for x in row] for row in box.vects]
    flat = got.reshape(-1, 3)
    for j, hkl in enumerate(rows):
        ex = _normal_expect(V, hkl)
        if ex is None:
            return
        unit, tol, det, _gn = ex
        nl = [float(v) for v in flat[j].tolist()]
        if det < 0 and sum(a * b for a, b in zip(nl, unit)) < 0:      # left-handed: the line only (see _o_normal)
            unit = [-x for x in unit]
        if not all(abs(a - b) <= tol for a, b in zip(nl, unit)):
            ctx.violate('plane_normal:reciprocal', f'{what}: row {j} = {given[j]} gives {flat[j].tolist()} (result dtype '
                        f'{got.dtype}), the unit reciprocal-lattice direction of {hkl} is {unit} (vects {box.vects.tolist()})',
                        dict(replay, row=j))
            return
    if got.dtype.kind != 'f':
        ctx.violate('plane_normal:dtype', f'{what} returned an array of dtype {got.dtype}: unit normals are not integers',
                    replay)


def _o_same_direction(ctx, np, miller, hexbox, t, spec=None):
    """[uvtw] denotes u a1 + v a2 + t a3 + w c with a3 = -a1-a2; must equal the 3-index Cartesian vector
    (whatever the orientation of the hexagonal cell, its origin, and what the object held before)."""
    t = list(t)
    V = [[_F(x) for x in row] for row in hexbox.vects]
    a1, a2, c = V
    a3 = [-(x + y) for x, y in zip(a1, a2)]
    q = _ref_vector3to4(t)
    cart4, e = _call(hexbox.vector_crystal_to_cartesian, q)
    cart3, e3 = _call(hexbox.vector_crystal_to_cartesian, t)
    if e3 is not None:
        cart3, e = np.full(3, np.nan), e3
    want3 = [t[0] * a1[i] + t[1] * a2[i] + t[2] * c[i] for i in range(3)]
    qf = [_F(x) for x in q]
    want4 = [qf[0] * a1[i] + qf[1] * a2[i] + qf[2] * a3[i] + qf[3] * c[i] for i in range(3)]
    scale = max(sum(abs(float(t[r] * V[r][i])) for r in range(3)) for i in range(3)) or _amax(hexbox.vects)
    if e is not None or not cm.allclose(cart3.tolist(), want3, 1e-13, 1e-13 * scale) \
            or not cm.allclose(cart4.tolist(), want4, 1e-12, 1e-12 * scale) \
            or not cm.allclose(cart4.tolist(), want3, 1e-12, 1e-12 * scale):
        rp = {'op': 'same_direction', 'idx': t, 'vects': hexbox.vects.tolist(), 'origin': hexbox.origin.tolist()}
        if spec is not None:
            rp['spec'] = spec
        ctx.violate('vector4:direction', f'[uvw]={t} and its four-index form {q.tolist()} give different Cartesian vectors '
                    f'{cart3.tolist()} vs {None if cart4 is None else cart4.tolist()} ({e}); exact u a+v b+w c = '
                    f'{[float(x) for x in want3]} (cell origin {hexbox.origin.tolist()}, object history '
                    f'{_hist(spec or {})})', rp)


def _o_vector_cart(ctx, np, miller, box, label, uvw, spec=None):
    """[uvw] denotes u a + v b + w c (exact), through the Box method and the stand-alone function alike; a VECTOR
    does not see the box origin."""
    uvw = list(uvw)
    V = [[_F(x) for x in row] for row in box.vects]
    want = [sum(_F(uvw[i]) * V[i][j] for i in range(3)) for j in range(3)]
    scale = max(sum(abs(float(_F(uvw[i]) * V[i][j])) for i in range(3)) for j in range(3)) or _amax(box.vects)
    replay = {'op': 'vector_cart', 'uvw': uvw, 'vects': box.vects.tolist(), 'origin': box.origin.tolist(), 'cell': label}
    if spec is not None:
        replay['spec'] = spec
    for nm, f in (('Box.vector_crystal_to_cartesian', box.vector_crystal_to_cartesian),
                  ('miller.vector_crystal_to_cartesian', lambda x: miller.vector_crystal_to_cartesian(x, box))):
        r, e = _call(f, uvw)
        if e is not None or np.asarray(r).shape != (3,) or not cm.allclose(np.asarray(r).tolist(), want, 1e-14, 1e-14 * scale):
            ctx.violate('vector_cart:value', f'{nm}({uvw}) in a {label} cell is {e or np.asarray(r).tolist()}, '
                        f'u a + v b + w c is {[float(x) for x in want]} (vects {box.vects.tolist()}, origin '
                        f'{box.origin.tolist()}, object history {_hist(spec or {})})', replay)
            return


def _normal_expect(V, hkl):
    """exact expectation for the normal of (hkl) in the cell with rows V (Fractions): -> None for a flat cell, else
    (unit, tol, det, gn): `unit` = the unit vector along sign(det V) * g, g = det V * (h a* + k b* + l c*) (for a
    right-handed cell the unit reciprocal-lattice direction, for a left-handed one its opposite), `tol` the derived
    rounding bound of the two-vector construction, gn = |g|."""
    g, det = _recip_dir(V, hkl)
    if det == 0:
        return None
    gn = math.sqrt(float(_fdot(g, g)))
    sd = 1.0 if det > 0 else -1.0
    unit = [sd * float(x) / gn for x in g]          # g = det V * (h a* + k b* + l c*)
    rown = [math.sqrt(float(_fdot(r, r))) for r in V]
    # conditioning of the two-vector construction is not visible here: bound it by the worst in-plane pair the
    # code can pick, |a|,|b| <= 2*lcm * max row norm
    m = 1
    for x in hkl:
        if x:
            m = m * abs(x) // math.gcd(m, abs(x))
    big = (2 * m * max(rown)) ** 2
    tol = 16 * U * big / gn + 1e-12
    # ... sharpened by the rounding bound of the construction from the two textbook in-plane vectors (never larger): with
    # indices in the thousands the crude bound above would hide an in-plane vector that is off by one lattice step
    tol = min(tol, _inplane_bound(hkl, V, gn) + 1e-12)
    tol = min(max(tol, 1e-12), 1e-6)
    return unit, tol, det, gn


def _o_normal(ctx, np, box, label, hkl, rng, quad=None, spec=None, entry='Box', held=None):
    """normal = unit vector along h a*+k b*+l c* (right-handed cell); perpendicular to exactly the zone-law vectors.
    With `quad` = (h k i l), i = -(h+k), on a hexagonal cell the four-index form is what is passed to the code: it
    denotes the same plane, hence the same normal.  `held`: the integer dtype of the array the caller holds the indices
    in (None: a plain list, or a float list for every fifth index set)."""
    hkl = list(hkl)
    V = [[_F(x) for x in row] for row in box.vects]
    ex = _normal_expect(V, hkl)
    if ex is None:
        return
    unit, tol, det, gn = ex
    given = hkl if quad is None else list(quad)
    shown = given
    if held is not None:
        given = np.array(given, dtype=np.dtype(held))
        if given.tolist() != shown:
            raise cm.InfraError(f'harness: a {held} array does not hold {shown}')
        shown = f'{shown} held as a {held} array'
    elif sum(abs(x) for x in hkl) % 5 == 0:
        given = [float(x) for x in given]       # integer indices held in a float array (what fromstring returns)
        shown = given
    if entry == 'Box':
        n, e = _call(box.plane_crystal_to_cartesian, given)
    else:
        from atomman.tools import miller as _m
        n, e = _call(_m.plane_crystal_to_cartesian, given, box)
    replay = {'op': 'normal', 'hkl': hkl, 'vects': box.vects.tolist(), 'origin': box.origin.tolist(), 'cell': label,
              'entry': entry}
    if held is not None:
        replay['held'] = held
    if spec is not None:
        replay['spec'] = spec
    if quad is not None:
        replay['quad'] = list(quad)
    given = shown
    if e is not None:
        ctx.violate('plane_normal:raises', f'plane_crystal_to_cartesian({given}) raised {e} on a {label} cell', replay)
        return
    if np.asarray(n).shape != (3,):
        ctx.violate('plane_normal:shape', f'plane_crystal_to_cartesian({given}) on a {label} cell returned shape '
                    f'{np.asarray(n).shape}', replay)
        return
    hand = 1.0
    if det < 0:
        # a LEFT-handed cell is outside the property's quantifier as far as the SENSE of the normal goes:
        # the line of the normal, its unit length and the zone law still apply
        hand = 1.0 if sum(a * b for a, b in zip(np.asarray(n).tolist(), unit)) >= 0 else -1.0
        unit = [hand * x for x in unit]
        det = -det
    nl = n.tolist()
    if not all(abs(a - b) <= tol for a, b in zip(nl, unit)) or abs(sum(x * x for x in nl) - 1.0) > 1e-12:
        ctx.violate('plane_normal:reciprocal', f'normal of {given} in a {label} cell ({entry} entry point) is {nl}, the unit '
                    f'reciprocal-lattice direction of {hkl} is {unit} (vects {box.vects.tolist()}, object history '
                    f'{_hist(spec or {})})', dict(replay, impl=nl, expected=unit))
        return
    # zone law on lattice vectors
    for _ in range(4):
        uvw = [rng.randint(-6, 6) for _ in range(3)]
        if rng.random() < 0.6:      # force a zone-axis vector: cross product of hkl with a random integer vector
            uvw = _fcross(hkl, uvw)
        if not any(uvw):
            continue
        z = hkl[0] * uvw[0] + hkl[1] * uvw[1] + hkl[2] * uvw[2]
        cart = [sum(uvw[i] * V[i][j] for i in range(3)) for j in range(3)]
        cn = math.sqrt(float(_fdot(cart, cart)))
        d = sum(a * float(b) for a, b in zip(nl, cart))
        want = hand * z * float(det) / gn   # n . (uvw V) = (hu+kv+lw) / |G|,  |G| = gn / det
        if abs(d - want) > (tol * 4 + 1e-12) * cn:
            ctx.violate('plane_normal:zone', f'normal of {hkl} in a {label} cell: n.[uvw]={uvw} is {d}, zone law gives '
                        f'{want} (hu+kv+lw = {z})', dict(replay, uvw=uvw))
            return


def _o_plane4_guard(ctx, np, hexbox, otherbox, otherlabel, q, hexspec=None, otherspec=None):
    """four-index planes/vectors: rejected when h+k+i != 0 and on cells that are not hexagonal."""
    q = list(q)
    bad = [q[0], q[1], q[2] + 1, q[3]]
    extra = {}
    if hexspec is not None:
        extra = {'hexspec': hexspec, 'otherspec': otherspec}
    for nm in ('plane_crystal_to_cartesian', 'vector_crystal_to_cartesian'):
        r, e = _call(getattr(hexbox, nm), bad)
        if e != 'err:value':
            ctx.violate(nm + ':guard4', f'{nm}({bad}) on a hexagonal cell is accepted ({e or np.asarray(r).tolist()}) although '
                        'h+k+i != 0', dict({'op': 'plane4_guard', 'quad': q, 'hex': hexbox.vects.tolist(),
                                            'other': otherbox.vects.tolist(), 'otherlabel': otherlabel}, **extra))
        r, e = _call(getattr(otherbox, nm), q)
        if e != 'err:value':
            ctx.violate(nm + ':nonhex4', f'{nm}({q}) on a {otherlabel} cell is accepted ({e or np.asarray(r).tolist()}): '
                        'four indices only denote something in a hexagonal cell',
                        dict({'op': 'plane4_guard', 'quad': q, 'hex': hexbox.vects.tolist(),
                              'other': otherbox.vects.tolist(), 'otherlabel': otherlabel}, **extra))


def _o_guard_array(ctx, np, miller, rows, offs, shape=None):
    """an array in which SOME rows violate the sum guard is rejected as a whole, whatever the other rows are and
    whatever the offending sums add up to (offsets `offs[j]` are added to the third index of row j; they may cancel
    across rows: +d in one row, -d in another), for every leading shape."""
    rows = [list(r) for r in rows]
    badrows = [list(r) for r in rows]
    for j, d in enumerate(offs):
        badrows[j][2] += d
    if not any(offs):
        raise cm.InfraError('harness: guard-array case without an offending row')
    arr = np.array(badrows)
    if shape is not None:
        arr = arr.reshape(tuple(shape) + (4,))
    for nm in ('plane4to3', 'vector4to3'):
        r, e = _call(getattr(miller, nm), arr)
        if e != 'err:value':
            ctx.violate(nm + ':guard-array', f'{nm} accepts the array {arr.tolist()} although the rows '
                        f'{[j for j, d in enumerate(offs) if d]} have h+k+i != 0 (result {e or np.asarray(r).tolist()})',
                        {'op': 'guard_array', 'rows': rows, 'offs': list(offs), 'shape': None if shape is None else list(shape)})


def _guard_offsets(rng, n):
    """offset patterns for n >= 2 rows: one bad row; two rows +d/-d (sums cancel); three rows summing to zero; all."""
    kind = rng.choice(['one', 'pair', 'pair', 'triple', 'all'])
    offs = [0] * n
    idx = list(range(n))
    rng.shuffle(idx)
    d = rng.choice([1, 1, 2, 3, 7])
    if kind == 'one':
        offs[idx[0]] = rng.choice([d, -d])
    elif kind == 'pair' or (kind == 'triple' and n < 3):
        offs[idx[0]], offs[idx[1]] = d, -d
    elif kind == 'triple':
        offs[idx[0]], offs[idx[1]], offs[idx[2]] = d, d, -2 * d
    else:
        offs = [rng.choice([-2, -1, 1, 2]) for _ in range(n)]
    return offs, kind


SHAPES = [(2, 2), (2, 3), (3, 2), (4,), (1,), (1, 5), (2, 2, 2), (3, 3), (2, 1, 2), (3, 1), (1, 1, 1), (3,), (2,)]


def _shape_fn(am, miller, name, extra):
    """resolve (function of one array argument, integer result?) by name for the leading-shape oracle."""
    if name in ('plane3to4', 'vector3to4', 'plane4to3', 'vector4to3', 'reduce_indices'):
        return getattr(miller, name)
    if name in ('vector_primitive_to_conventional', 'vector_conventional_to_primitive'):
        return lambda x: getattr(miller, name)(x, extra['setting'])
    box = _build(extra['spec']) if 'spec' in extra else am.Box(vects=extra['vects'])
    if name in ('vector_crystal_to_cartesian', 'plane_crystal_to_cartesian'):
        return getattr(box, name)
    if name in ('miller.vector_crystal_to_cartesian', 'miller.plane_crystal_to_cartesian'):
        return lambda x: getattr(miller, name.split('.')[1])(x, box)
    raise KeyError(name)


def _o_shape(ctx, np, am, miller, name, rows, shape, extra):
    """arrays of any leading shape: f(array) is f applied to every index set on its own, in place.
    The single-row values are what all other clauses check exactly; here only the plumbing is at stake, so rows
    are compared with the single-row call of the same function (integers exactly, floats to 1e-13)."""
    f = _shape_fn(am, miller, name, extra)
    k = len(rows[0])
    arr = np.array(rows).reshape(tuple(shape) + (k,))
    replay = {'op': 'shape', 'fn': name, 'rows': [list(map(int, r)) for r in rows], 'shape': list(shape), 'extra': extra}
    singles = []
    for r in rows:
        v, e = _call(f, list(r))
        if e is not None:
            ctx.violate(name + ':leading-shape', f'{name}({list(r)}) raised {e}', replay)
            return
        singles.append(np.asarray(v))
    got, e = _call(f, arr)
    if e is not None:
        ctx.violate(name + ':leading-shape', f'{name} raised {e} on an array of shape {arr.shape} whose rows are all '
                    f'accepted one by one: {arr.tolist()}', replay)
        return
    got = np.asarray(got)
    want = np.array(singles).reshape(tuple(shape) + singles[0].shape)
    same = got.shape == want.shape and (np.array_equal(got, want) if want.dtype.kind in 'iu' and got.dtype.kind in 'iu'
                                        else np.allclose(got, want, rtol=1e-13, atol=1e-13 * _amax(want)))
    if not same:
        ctx.violate(name + ':leading-shape', f'{name} on an array of shape {arr.shape}: {arr.tolist()} gives '
                    f'{got.tolist()}, index set by index set it gives {want.tolist()}', replay)


def _o_empty(ctx, np, am, miller, name, k, lead, extra):
    """the smallest sizes: an array with NO index set in it (leading shape with a zero extent) gives an array with no
    result in it, of the result width of the function (plane normals excepted: numpy's apply_along_axis refuses an empty
    iteration; see docs, candidate plane_normal:empty-array)."""
    f = _shape_fn(am, miller, name, extra)
    one, e1 = _call(f, [1, 1, -2, 3][:k] if k == 4 else [1, 2, 3])
    replay = {'op': 'empty', 'fn': name, 'k': k, 'lead': list(lead), 'extra': extra}
    if e1 is not None:
        return
    for dt in (int, float):
        if name == 'reduce_indices' and dt is float:
            continue
        arr = np.empty(tuple(lead) + (k,), dtype=dt)
        got, e = _call(f, arr)
        want = tuple(lead) + np.asarray(one).shape
        if e is not None or np.asarray(got).shape != want:
            ctx.violate(name + ':leading-shape', f'{name} on an array of shape {arr.shape} ({np.dtype(dt)}: no index set in it) '
                        f'gives {e or np.asarray(got).shape}; expected an empty array of shape {want}', replay)
            return


def _o_all_indices_flags(ctx, np, miller, m):
    """`reduce` is a truth value: 1 / numpy.True_ / positional True are True, 0 / numpy.False_ are False; the default
    maxindex is 10."""
    ref = {True: np.asarray(miller.all_indices(m, reduce=True)), False: np.asarray(miller.all_indices(m, reduce=False))}
    forms = [('reduce=1', lambda: miller.all_indices(m, reduce=1), True), ('reduce=np.True_', lambda: miller.all_indices(m, reduce=np.True_), True),
             ('True positionally', lambda: miller.all_indices(m, True), True), ('reduce=0', lambda: miller.all_indices(m, reduce=0), False),
             ('reduce=np.False_', lambda: miller.all_indices(m, reduce=np.bool_(False)), False),
             ('maxindex=np.int64', lambda: miller.all_indices(np.int64(m), reduce=True), True),
             ('maxindex by keyword', lambda: miller.all_indices(maxindex=m), False)]
    if m == 10:
        forms += [('defaults', lambda: miller.all_indices(), False), ('default maxindex', lambda: miller.all_indices(reduce=True), True)]
    for label, f, flag in forms:
        r, e = _call(f)
        if e is not None or np.asarray(r).shape != ref[flag].shape or not np.array_equal(np.asarray(r), ref[flag]):
            rows = None if e is not None else np.asarray(r).reshape(-1, 3)[:3].tolist()
            ctx.violate('all_indices', f'all_indices({m}) called with {label} gives {e or np.asarray(r).shape} (first rows {rows}), '
                        f'with reduce={flag} it gives {ref[flag].shape} (first rows {ref[flag][:3].tolist()})',
                        {'op': 'all_indices_flags', 'maxindex': m})
            return


def _o_centering(ctx, np, miller, setting, t):
    t = list(t)
    a, e1 = _call(miller.vector_conventional_to_primitive, t, setting)
    b, e2 = (None, 'x') if e1 else _call(miller.vector_primitive_to_conventional, a, setting)
    c, e3 = _call(miller.vector_primitive_to_conventional, t, setting)
    d, e4 = (None, 'x') if e3 else _call(miller.vector_conventional_to_primitive, c, setting)
    tf = [Fraction(x) for x in t]
    if e1 or e2 or e3 or e4 or not cm.allclose(b.tolist(), tf, 1e-13, 1e-13) or not cm.allclose(d.tolist(), tf, 1e-13, 1e-13):
        ctx.violate('centering:inverse', f"setting '{setting}': conventional->primitive->conventional of {t} gives "
                    f'{None if b is None else b.tolist()}, primitive->conventional->primitive gives '
                    f'{None if d is None else d.tolist()}', {'op': 'centering', 'setting': setting, 'idx': t})


def _o_centering_det(ctx, np, miller, setting):
    eye = np.eye(3)
    C = miller.vector_conventional_to_primitive(eye, setting)
    P = miller.vector_primitive_to_conventional(eye, setting)
    Cf = [[Fraction(x).limit_denominator(1000) for x in row] for row in C.tolist()]
    Pf = [[Fraction(x).limit_denominator(1000) for x in row] for row in P.tolist()]
    dc, dp = _det3(Cf), _det3(Pf)
    integral = all(x.denominator == 1 for row in Cf for x in row)
    ctx.stats.case('oracle:centering-det', setting)
    if not integral or dc.denominator != 1 or dc * dp != 1 or dc != MULTIPLICITY[setting]:
        ctx.violate('centering:det', f"setting '{setting}': det(conventional->primitive) = {dc}, det(primitive->conventional) "
                    f'= {dp}; expected the integer multiplicity {MULTIPLICITY[setting]} and its reciprocal',
                    {'op': 'centering_det', 'setting': setting})


def _o_reduce(ctx, np, miller, x):
    x = list(x)
    r, e = _call(miller.reduce_indices, x)
    replay = {'op': 'reduce', 'idx': x}
    if e is not None:
        ctx.violate('reduce:raises', f'reduce_indices({x}) raised {e}', replay)
        return
    arr = np.asarray(r)
    vals = arr.tolist()
    if arr.dtype.kind not in 'iu' or arr.shape != (len(x),):
        ctx.violate('reduce:integers', f'reduce_indices({x}) returned {vals} of dtype {arr.dtype}: not integer indices', replay)
        return
    g = 0
    for v in vals:
        g = math.gcd(g, abs(int(v)))
    gx = 0
    for v in x:
        gx = math.gcd(gx, abs(v))
    if g != 1 or [gx * v for v in vals] != x:
        ctx.violate('reduce:coprime', f'reduce_indices({x}) = {vals}: not the coprime indices of the same direction', replay)


def _o_reduce_shape(ctx, np, miller, rows, shape):
    """arrays of any leading shape: every row is reduced as it is alone."""
    arr = np.array(rows).reshape(shape + (len(rows[0]),))
    r, e = _call(miller.reduce_indices, arr)
    want = []
    for x in rows:
        g = 0
        for v in x:
            g = math.gcd(g, abs(v))
        want.append([v // g for v in x] if g else list(x))
    replay = {'op': 'reduce_shape', 'rows': [list(map(int, x)) for x in rows], 'shape': list(shape)}
    if e is not None or np.asarray(r).shape != arr.shape or np.asarray(r).reshape(-1, len(rows[0])).tolist() != want:
        ctx.violate('reduce:leading-shape', f'reduce_indices on an array of shape {arr.shape}: '
                    f'{e or np.asarray(r).tolist()}, row-wise reduction is {np.array(want).reshape(arr.shape).tolist()}',
                    replay)


def _o_all_indices(ctx, np, miller, m):
    allr = np.asarray(miller.all_indices(m, reduce=True))
    alln = np.asarray(miller.all_indices(m))
    want = sorted({tuple(t) for t in _triples(m) if t != (0, 0, 0)})
    wantr = sorted(t for t in want if math.gcd(math.gcd(abs(t[0]), abs(t[1])), abs(t[2])) == 1)
    if alln.shape != (len(want), 3) or allr.shape != (len(wantr), 3) or alln.dtype.kind not in 'iu' \
            or allr.dtype.kind not in 'iu' or sorted(map(tuple, alln.tolist())) != want \
            or list(map(tuple, allr.tolist())) != wantr:
        ctx.violate('all_indices', f'all_indices({m}) does not list exactly the non-zero triples / the coprime triples',
                    {'op': 'all_indices', 'maxindex': m})


BIG_BOUNDS = [37, 41, 43, 47, 53]            # the primes past any table 2..31; (2m+1)^3 - 1 = 421874 ... 1225042 rows
BIGGER_BOUNDS = [59, 61, 64, 67, 71, 73, 97, 101]


def _o_all_indices_big(ctx, np, miller, m):
    """all_indices at bounds where a Python set of tuples is too slow (m > 20): the same clause, vectorised.  Without
    `reduce`: exactly the (2m+1)^3 - 1 non-zero triples within the bound, each once.  With `reduce`: exactly the triples
    within the bound whose gcd is 1 (every direction once, no row with a common factor), in lexicographic order.  Rows are
    compared through the key ((h+m)(2m+1) + (k+m))(2m+1) + (l+m) (injective on the bound; < 2^63 for every m here)."""
    replay = {'op': 'all_indices', 'maxindex': m}
    w = 2 * m + 1
    rng_ = np.arange(-m, m + 1, dtype=np.int64)
    H, K, L = np.meshgrid(rng_, rng_, rng_, indexing='ij')
    H, K, L = H.ravel(), K.ravel(), L.ravel()                  # lexicographic order
    g = np.gcd(np.gcd(np.abs(H), np.abs(K)), np.abs(L))
    key_all = ((H + m) * w + (K + m)) * w + (L + m)
    want_n = key_all[g != 0]
    want_r = key_all[g == 1]
    for reduce, want in ((False, want_n), (True, want_r)):
        got, e = _call(lambda: miller.all_indices(m, reduce=reduce))
        what = f'all_indices({m}, reduce={reduce})'
        if e is not None:
            ctx.violate('all_indices', f'{what} raised {e}', replay)
            return
        got = np.asarray(got)
        if got.ndim != 2 or got.shape[1] != 3 or got.dtype.kind not in 'iu':
            ctx.violate('all_indices', f'{what} returned shape {got.shape}, dtype {got.dtype}', replay)
            return
        a = got.astype(np.int64)
        if a.size and int(np.abs(a).max()) > m:
            j = int(np.argmax(np.abs(a).max(axis=1)))
            ctx.violate('all_indices', f'{what}: row {j} = {a[j].tolist()} is outside the bound', replay)
            return
        keys = ((a[:, 0] + m) * w + (a[:, 1] + m)) * w + (a[:, 2] + m)
        if reduce:
            gg = np.gcd(np.gcd(np.abs(a[:, 0]), np.abs(a[:, 1])), np.abs(a[:, 2]))
            bad = np.nonzero(gg != 1)[0]
            if bad.size:
                ex = a[bad[:3]].tolist()
                ctx.violate('all_indices', f'{what} returned {len(a)} rows ({len(want)} directions have coprime indices within '
                            f'the bound); {bad.size} rows are not coprime index sets, e.g. rows {bad[:3].tolist()} = {ex}: the '
                            f'same directions as {[[v // int(gg[b]) for v in r] if gg[b] else r for b, r in zip(bad[:3], ex)]}',
                            replay)
                return
            if len(keys) > 1 and not bool((np.diff(keys) > 0).all()):
                j = int(np.nonzero(np.diff(keys) <= 0)[0][0])
                ctx.violate('all_indices', f'{what}: rows {j}, {j + 1} = {a[j:j + 2].tolist()} are repeated / not in '
                            f'lexicographic order', replay)
                return
            sk = keys
        else:
            sk = np.sort(keys)
        if len(sk) != len(want) or not np.array_equal(sk, want):
            missing = np.setdiff1d(want, sk)[:3]
            extra = np.setdiff1d(sk, want)[:3]
            unk = lambda q: [[int(x // (w * w)) - m, int((x // w) % w) - m, int(x % w) - m] for x in q]     # noqa
            ctx.violate('all_indices', f'{what} returned {len(a)} rows, {len(want)} expected; missing e.g. {unk(missing)}, '
                        f'not expected (or repeated) e.g. {unk(extra)}', replay)
            return


_OPEN = {'[': ']', '(': ')', '<': '>', '{': '}'}
_DIGITS = '0123456789'


def _gen_numeral(rng, allow_plus=True):
    """a decimal integer numeral as a string: 1..3 digits mostly, sometimes up to 6, rarely 8 / 10 / 15, no leading zeros,
    sign '-' / none / (rarely) '+'.  -> (text, class)"""
    nd = rng.choice([1, 1, 1, 2, 2, 2, 3, 3, 4, 6] * 3 + [8, 10, 15])       # up to 15 digits: still exact in a double
    digits = rng.choice('123456789') + ''.join(rng.choice(_DIGITS) for _ in range(nd - 1))
    if nd == 1 and rng.random() < 0.25:
        digits = '0'
    r = rng.random()
    sign = '-' if r < 0.45 else ('+' if allow_plus and r < 0.50 else '')
    return sign + digits, ('multi' if nd > 1 else 'single') + ('+' if sign == '+' else '')


def _gen_index_string(rng, it):
    """a well-formed index string: optional `p/q` prefix, one of the four bracket kinds, 3 or 4 integer numerals
    (signs, several digits) separated by one or more blanks, optional blanks inside the brackets / between prefix and
    bracket / after the closing bracket.  Only the TEXT is returned (+ coverage classes): what it shows is read back
    by `_read_index_string`, not remembered from here."""
    o = '[(<{'[it % 4]
    n = 3 if (it // 4) % 2 == 0 else 4
    messy = (it // 8) % 2 == 1
    toks, classes = [], set()
    for _ in range(n):
        t, c = _gen_numeral(rng)
        toks.append(t)
        classes.add(c)
    sep = (lambda: ' ' * rng.choice([1, 1, 2, 3])) if messy else (lambda: ' ')
    body = toks[0]
    for t in toks[1:]:
        body += sep() + t
    if messy:
        body = ' ' * rng.choice([0, 1, 2]) + body + ' ' * rng.choice([0, 1, 2])
    s = o + body + _OPEN[o]
    if rng.random() < 0.6:
        p, _c = _gen_numeral(rng, allow_plus=False)
        if p.lstrip('-') == '0' and rng.random() < 0.8:
            p = p.replace('0', '1')
        q = str(rng.choice([1, 2, 3, 4, 5, 6, 7, 8, 9, 10, 12, 16, 24, 100, 125]))
        s = p + '/' + q + (' ' * rng.choice([0, 1, 2, 3]) if messy else ' ') + s
        classes.add('frac')
    if messy and rng.random() < 0.3:
        s += ' '
    classes.add('n%d' % n)
    classes.add('messy' if messy else 'plain')
    return s, sorted(classes)


def _read_index_string(s):
    """independent reader of what an index string SHOWS (hand scanner, no numpy, no float, not the code's method):
    -> (Fraction prefix or None, [int], opening bracket).  Raises ValueError on anything that is not a well-formed
    index string (then the harness's generator is wrong, not atomman)."""
    n = len(s)
    i = 0

    def blanks(i):
        while i < n and s[i] == ' ':
            i += 1
        return i

    def integer(i):
        sign = 1
        if i < n and s[i] in '+-':
            sign = -1 if s[i] == '-' else 1
            i += 1
        j = i
        v = 0
        while j < n and s[j] in _DIGITS:
            v = 10 * v + _DIGITS.index(s[j])
            j += 1
        if j == i:
            raise ValueError(f'numeral expected at {i} in {s!r}')
        return sign * v, j

    i = blanks(i)
    frac = None
    if i < n and s[i] not in _OPEN:
        p, i = integer(i)
        if i >= n or s[i] != '/':
            raise ValueError(f"'/' expected at {i} in {s!r}")
        q, i = integer(i + 1)
        if q == 0:
            raise ValueError('zero denominator')
        frac = Fraction(p, q)
        i = blanks(i)
    if i >= n or s[i] not in _OPEN:
        raise ValueError(f'opening bracket expected at {i} in {s!r}')
    o = s[i]
    i += 1
    vals = []
    while True:
        i = blanks(i)
        if i < n and s[i] == _OPEN[o]:
            i += 1
            break
        v, j = integer(i)
        if j < n and s[j] != ' ' and s[j] != _OPEN[o]:
            raise ValueError(f'blank or closing bracket expected at {j} in {s!r}')
        vals.append(v)
        i = j
    if blanks(i) != n:
        raise ValueError(f'text after the closing bracket in {s!r}')
    if len(vals) not in (3, 4):
        raise ValueError(f'{len(vals)} indices in {s!r}')
    return frac, vals, o


def _o_string(ctx, np, miller, s, frac=None, idx=None):
    """clause 'index strings parse to the numbers they show': what the string shows is read from the string itself
    by `_read_index_string`; `frac`/`idx` (optional, from older replay files) are only cross-checked."""
    try:
        f, shown, _kind = _read_index_string(s)
    except ValueError as ex:
        raise cm.InfraError(f'harness: generated index string is not well-formed: {ex}')
    if idx is not None:
        f0 = None if frac is None else Fraction(frac[0], frac[1])
        if list(idx) != shown or (f0 or Fraction(1)) != (f or Fraction(1)):
            raise cm.InfraError(f'harness: generator and reader disagree on {s!r}: {frac} {idx} vs {f} {shown}')
    want = [(f if f is not None else Fraction(1)) * i for i in shown]
    r, e = _call(miller.fromstring, s)
    replay = {'op': 'string', 'string': s}
    shows = (f'{f} x ' if f is not None else '') + str(shown)
    if e is not None:
        ctx.violate('fromstring:value', f'fromstring({s!r}) raised {e}; the string shows {shows}', replay)
        return
    arr = np.asarray(r)
    if arr.ndim != 1 or arr.shape[0] != len(want) or arr.dtype.kind != 'f':
        ctx.violate('fromstring:value', f'fromstring({s!r}) = {arr.tolist()} (shape {arr.shape}, dtype {arr.dtype}); the '
                    f'string shows the {len(want)} indices {shows}', replay)
        return
    # one rounding for p/q, one for the product; exact when there is no prefix
    rtol = 0.0 if f is None else 4e-16
    if not cm.allclose(arr.tolist(), want, rtol, 0.0):
        ctx.violate('fromstring:value', f'fromstring({s!r}) = {arr.tolist()}; the string shows {shows} = '
                    f'{[str(w) for w in want]}', replay)


def _o_family(ctx, np, fam, args, box, ftol=None):
    """`ftol` = [rtol, atol] the clause is asked with on small-number cells (None: the defaults, no argument passed)"""
    kw = {} if not ftol else {'rtol': ftol[0], 'atol': ftol[1]}
    replay = {'op': 'family', 'family': fam, 'args': list(args), 'ftol': ftol}
    got, e = _call(box.identifyfamily, **kw)
    preds = {'cubic': 'iscubic', 'hexagonal': 'ishexagonal', 'tetragonal': 'istetragonal',
             'rhombohedral': 'isrhombohedral', 'orthorhombic': 'isorthorhombic', 'monoclinic': 'ismonoclinic',
             'triclinic': 'istriclinic'}
    own, e2 = _call(getattr(box, preds[fam]), **kw)
    if e is not None or e2 is not None or got != fam or not own:
        ctx.violate('family:' + fam, f'Box built as {fam}{tuple(args)} is identified as {got} (own predicate: {own}) '
                    f'{e or ""}' + (f' with {kw}' if kw else ''), replay)
    from atomman.tools import crystalsystem
    got2, e3 = _call(crystalsystem.identifyfamily, box, **kw)
    if e3 is not None or got2 != fam:
        ctx.violate('family:crystalsystem:' + fam, f'crystalsystem.identifyfamily on a {fam}{tuple(args)} cell gives {got2}'
                    + (f' with {kw}' if kw else ''), replay)


FAM_PRED = {'cubic': 'iscubic', 'hexagonal': 'ishexagonal', 'tetragonal': 'istetragonal',
            'rhombohedral': 'isrhombohedral', 'orthorhombic': 'isorthorhombic', 'monoclinic': 'ismonoclinic',
            'triclinic': 'istriclinic'}


def _o_family_obj(ctx, np, cell, spec, box):
    """a cell built as a family (in ANY orientation, at any origin, in a fresh object or in one that held other cells
    and was asked about them before) is identified as that family: by Box.identifyfamily, by its own predicate, by
    the stand-alone functions; and the object answers like a fresh Box of the same vects (both tolerance pairs)."""
    import atomman as am
    from atomman.tools import crystalsystem
    fam = cell.get('family')
    label = cell.get('label', '?')
    replay = {'op': 'family_obj', 'cell': cell, 'spec': spec}
    how = f'{label} cell, object history {_hist(spec)}, vects {box.vects.tolist()}'
    fresh, ef = _call(lambda: am.Box(vects=box.vects, origin=box.origin))
    if ef is not None:
        ctx.violate('family:object', f'Box(vects=box.vects, origin=box.origin) raised {ef} ({how})', replay)
        return
    ftol = tuple(cell.get('ftol') or ())        # small-number cells: the family clause is asked with a scaled atol
    for tol in ((), ALT_TOL) + ((ftol,) if ftol else ()):
        got, e = _call(box.identifyfamily, *tol)
        ref, e2 = _call(fresh.identifyfamily, *tol)
        bits, e3 = _call(lambda: [bool(getattr(box, p)(*tol)) for p in PREDS])
        rbits, e4 = _call(lambda: [bool(getattr(fresh, p)(*tol)) for p in PREDS])
        if e or e2 or e3 or e4:
            ctx.violate('family:object', f'identifyfamily/is<family> raised {e or e2 or e3 or e4} ({how})', replay)
            return
        if got != ref or bits != rbits:
            ctx.violate('family:object-stale', f'identifyfamily{tol} = {got!r}, predicates {[int(b) for b in bits]}; a fresh Box '
                        f'with the same vects and origin says {ref!r}, {[int(b) for b in rbits]} ({how})', replay)
            return
        if got is not None and not bits[PREDS.index(FAM_PRED[got])]:
            ctx.violate('family:object-stale', f'identifyfamily{tol} = {got!r} but {FAM_PRED[got]}{tol} is False ({how})', replay)
            return
        if got is None and any(bits):
            ctx.violate('family:object-stale', f'identifyfamily{tol} = None but predicates {[int(b) for b in bits]} ({how})', replay)
            return
        if fam is not None and tol == ftol:
            ckw = {} if not tol else {'rtol': tol[0], 'atol': tol[1]}
            got2, e5 = _call(crystalsystem.identifyfamily, box, **ckw)
            own2, e6 = _call(getattr(crystalsystem, FAM_PRED[fam]), box, **ckw)
            if got != fam or not bits[PREDS.index(FAM_PRED[fam])] or e5 or e6 or got2 != fam or not own2:
                ctx.violate('family:' + fam, f'cell built as {fam}{tuple(cell.get("args") or ())} ({how}) is identified{tol or ""} as {got!r} '
                            f'(Box.{FAM_PRED[fam]}: {bits[PREDS.index(FAM_PRED[fam])]}; crystalsystem: {got2!r}, {own2})', replay)
                return


def _exact_family(par, rtol, atol):
    """the documented predicates evaluated exactly (Fractions) on six given parameters:
    isclose(x, y) = |x - y| <= atol + rtol |y|;  -> (family or None, [7 bools]) in the documented order."""
    a, b, c, al, be, ga = (_F(x) for x in par)
    rt, at = _F(rtol), _F(atol)

    def cl(x, y):
        return abs(x - y) <= at + rt * abs(y)
    n90, n120 = Fraction(90), Fraction(120)
    bits = [cl(a, b) and cl(a, c) and cl(al, n90) and cl(be, n90) and cl(ga, n90),
            cl(a, b) and cl(al, n90) and cl(be, n90) and cl(ga, n120),
            cl(a, b) and not cl(a, c) and cl(al, n90) and cl(be, n90) and cl(ga, n90),
            cl(a, b) and cl(a, c) and cl(al, be) and cl(al, ga) and not cl(al, n90),
            not cl(a, b) and not cl(a, c) and cl(al, n90) and cl(be, n90) and cl(ga, n90),
            not cl(a, b) and not cl(a, c) and cl(al, n90) and not cl(be, n90) and cl(ga, n90),
            not cl(a, b) and not cl(a, c) and not cl(al, be) and not cl(al, ga)]
    fam = None
    for f, bit in zip(FAMILIES, bits):
        if bit:
            fam = f
            break
    return fam, bits


def _boundary_margin(par, rtol, atol):
    """smallest relative distance of any of the tested differences from its isclose threshold (to exempt cases a
    rounding of the float evaluation could flip)."""
    a, b, c, al, be, ga = (float(x) for x in par)
    m = 1.0
    for x, y in ((a, b), (a, c), (al, 90.0), (be, 90.0), (ga, 90.0), (ga, 120.0), (al, be), (al, ga)):
        thr = atol + rtol * abs(y)
        m = min(m, abs(abs(x - y) - thr) / max(thr, 1e-300))
    return m


def _o_family_boundary(ctx, np, case):
    """Box objects whose parameters lie just inside / just outside the tolerances ASKED FOR: identifyfamily and the
    seven predicates, called with those tolerances (keywords, positionally, or in the other keyword order), through
    the Box methods and the stand-alone functions, answer as the documented comparisons evaluated exactly do."""
    import atomman as am
    from atomman.tools import crystalsystem
    rtol, atol, style = case['rtol'], case['atol'], case['style']
    box, e0 = _call(lambda: am.Box(**case['abc']))
    if e0 is not None:
        return
    if case.get('rot'):
        box = am.Box(vects=_move(box.vects, [[Fraction(x) for x in r] for r in case['rot']]), origin=case['origin'])
    par = _params(box)
    if _boundary_margin(par, rtol, atol) < 1e-6:
        return
    want = _exact_family(par, rtol, atol)
    replay = {'op': 'family_boundary', 'case': case}
    if style == 0:
        kw = dict(rtol=rtol, atol=atol)
        got, e = _call(lambda: (box.identifyfamily(**kw), [bool(getattr(box, p)(**kw)) for p in PREDS]))
    elif style == 1:
        got, e = _call(lambda: (box.identifyfamily(rtol, atol), [bool(getattr(box, p)(rtol, atol)) for p in PREDS]))
    else:
        got, e = _call(lambda: (crystalsystem.identifyfamily(box, atol=atol, rtol=rtol),
                                [bool(getattr(crystalsystem, p)(box, atol=atol, rtol=rtol)) for p in PREDS]))
    who = 'Box methods' if style < 2 else 'crystalsystem functions'
    if e is not None or got[0] != want[0] or got[1] != want[1]:
        ctx.violate('family:tolerances', f'{who} with rtol={rtol}, atol={atol} on a cell with a..gamma = {par}: identifyfamily = '
                    f'{e or got[0]!r}, predicates {None if e else [int(b) for b in got[1]]}; the documented comparisons at these '
                    f'tolerances give {want[0]!r}, {[int(b) for b in want[1]]}', replay)


def _gen_boundary_case(rng, it):
    rtol, atol = rng.choice([(2.0 ** -10, 2.0 ** -20), (1e-5, 1e-8), (2.0 ** -6, 2.0 ** -3), (2.0 ** -7, 2.0 ** -9)])

    def near(x):
        tol = atol + rtol * abs(x)
        return x + rng.choice([0.0, 0.5, 0.9, 1.1, 2.0, 40.0, -0.5, -0.9, -1.1, -2.0, -40.0]) * tol
    while True:
        a = cm.dyadic(rng, 2, 9, 4)
        b = rng.choice([near(a), near(a), cm.dyadic(rng, 2, 9, 4)])
        c = rng.choice([near(a), near(a), cm.dyadic(rng, 2, 9, 4)])
        al = rng.choice([near(90.0), near(90.0), cm.dyadic(rng, 60, 120, 2)])
        be = rng.choice([near(90.0), near(al), cm.dyadic(rng, 60, 120, 2)])
        ga = rng.choice([near(90.0), near(120.0), near(60.0), near(al), cm.dyadic(rng, 60, 120, 2)])
        ca, cb, cg = (math.cos(math.radians(x)) for x in (al, be, ga))
        if 1 - ca * ca - cb * cb - cg * cg + 2 * ca * cb * cg >= 0.05:
            break
    rot = None
    if it % 3 == 1:
        rot = [[str(x) for x in r] for r in _rot_matrix(rng)]
    return {'abc': dict(a=a, b=b, c=c, alpha=al, beta=be, gamma=ga), 'rtol': rtol, 'atol': atol, 'style': it % 3,
            'rot': rot, 'origin': _gen_origin(rng)}


def _o_params(ctx, np, box, label, spec=None):
    """Box.a..gamma are the lengths of and angles between the ACTUAL cell vectors (exact Gram matrix of box.vects)."""
    V = [[_F(x) for x in row] for row in box.vects]
    G = [[_fdot(V[i], V[j]) for j in range(3)] for i in range(3)]
    got, e = _call(lambda: _params(box))
    replay = {'op': 'params', 'vects': box.vects.tolist(), 'cell': label}
    if spec is not None:
        replay['spec'] = spec
    if e is not None:
        ctx.violate('params:lengths-angles', f'Box.a..gamma raised {e} on vects {box.vects.tolist()}', replay)
        return
    ok = all(abs(got[i] ** 2 - float(G[i][i])) <= 1e-13 * float(G[i][i]) for i in range(3))
    for ang, (i, j) in zip(got[3:], ((1, 2), (0, 2), (0, 1))):
        c = float(G[i][j]) / math.sqrt(float(G[i][i]) * float(G[j][j]))
        ok = ok and abs(math.cos(math.radians(ang)) - c) <= 1e-12 and 0.0 < ang < 180.0
    if not ok:
        ctx.violate('params:lengths-angles', f'Box.a..gamma = {got} are not the lengths/angles of vects {box.vects.tolist()} '
                    f'({label} cell, object history {_hist(spec or {})})', replay)


# ---- arguments are not modified, results are fresh --------------------------------------------------------
VARIANTS = ['contiguous', 'rows-of-table', 'cols-of-table', 'every-other', 'reversed', 'fortran', 'readonly', 'list']
_DT = {'int64': 'int64', 'int32': 'int32', 'float64': 'float64', 'uint8': 'uint8', 'uint16': 'uint16', 'uint32': 'uint32',
       'uint64': 'uint64', 'int8': 'int8', 'int16': 'int16'}
# integer dtypes other than numpy's default: (smallest, largest) index the generators put into them.  uint64 stops at
# 2^52 (the float results, h + k included, are exact up to 2^53), the signed ones leave out the most negative value (its absolute
# value does not exist in the dtype: numpy's own gcd / abs overflow there)
NARROW = {'uint8': (0, 255), 'uint16': (0, 65535), 'uint32': (0, 2 ** 32 - 1), 'uint64': (0, 2 ** 52),
          'int8': (-127, 127), 'int16': (-32767, 32767), 'int32': (-(2 ** 31 - 1), 2 ** 31 - 1)}
UNSIGNED = ('uint8', 'uint16', 'uint32', 'uint64')


def _make_input(np, rows, shape, variant, dtype):
    """the index sets `rows` (leading shape `shape`) held in caller memory of one kind -> (base, view):
    `view` is what is passed to the function, `base` the whole allocation it lives in (a larger table for the sliced
    kinds); for 'list' both are the same nested list."""
    k = len(rows[0])
    dt = np.dtype(_DT[dtype])
    a = np.array(rows, dtype=dt).reshape(tuple(shape) + (k,))
    pad = 7
    if variant == 'list':
        v = a.tolist()
        return v, v
    if variant == 'contiguous':
        base = a.copy()
        view = base
    elif variant == 'rows-of-table':
        if a.ndim == 1:
            base = np.full((3, k), pad, dtype=dt)
            base[1] = a
            view = base[1]
        else:
            base = np.full((a.shape[0] + 2,) + a.shape[1:], pad, dtype=dt)
            base[1:-1] = a
            view = base[1:-1]
    elif variant == 'cols-of-table':
        base = np.full(a.shape[:-1] + (k + 3,), pad, dtype=dt)
        base[..., 2:2 + k] = a
        view = base[..., 2:2 + k]
    elif variant == 'every-other':
        if a.ndim == 1:
            base = np.full((2 * k,), pad, dtype=dt)
            base[::2] = a
            view = base[::2]
        else:
            base = np.full((2 * a.shape[0],) + a.shape[1:], pad, dtype=dt)
            base[::2] = a
            view = base[::2]
    elif variant == 'reversed':
        base = a[..., ::-1].copy()
        view = base[..., ::-1]
    elif variant == 'fortran':
        base = np.asfortranarray(a)
        view = base
    elif variant == 'readonly':
        base = a.copy()
        view = base.view()
        view.flags.writeable = False
    else:
        raise cm.InfraError(f'harness: unknown input kind {variant}')
    if view.shape != a.shape or not np.array_equal(view, a):
        raise cm.InfraError(f'harness: input kind {variant} does not hold the rows')
    return base, view


def _pure_rows(rng, kind, cnt, nonneg=False):
    """index sets that make an in-place operation SHOW: common factors (reduce_indices changes them), thirds, halves.
    `nonneg`: what an UNSIGNED integer array can hold (a valid four-index set is then [0 0 0 w])."""
    rows = []
    lo = 0 if nonneg else -6
    while len(rows) < cnt:
        g = rng.choice([1, 2, 2, 3, 5, 6])
        if kind == 'int3':
            x = [g * rng.randint(lo, 6) for _ in range(3)]
        elif kind == 'int4' and nonneg:
            x = [0, 0, 0, g * rng.randint(1, 6)]
        elif kind == 'int4':
            h, k_ = g * rng.randint(-5, 5), g * rng.randint(-5, 5)
            x = [h, k_, -(h + k_), g * rng.randint(-6, 6)]
        elif kind == 'any4':
            x = [g * rng.randint(lo, 6) for _ in range(4)]
        elif kind == 'frac3':
            x = [rng.randint(-12, 12) / rng.choice([2, 3, 4, 6]) for _ in range(3)]
        elif kind == 'thirds4':
            x = _ref_vector3to4([rng.randint(-6, 6) for _ in range(3)]).tolist()
        else:
            raise cm.InfraError(f'harness: unknown row kind {kind}')
        if any(x[i] for i in ((0, 1, 2) if len(x) == 3 else (0, 1, 3))):
            rows.append(x)
    return rows


def _pure_fn(am, miller, case):
    """-> (function of one array argument | None, nullary call | None, box | None)"""
    name, ex = case['fn'], case.get('extra') or {}
    if name == 'fromstring':
        return None, (lambda: miller.fromstring(ex['string'])), None
    if name == 'all_indices':
        return None, (lambda: miller.all_indices(ex['maxindex'], reduce=ex['reduce'])), None
    if name in ('plane3to4', 'vector3to4', 'plane4to3', 'vector4to3', 'reduce_indices'):
        return getattr(miller, name), None, None
    if name in ('vector_primitive_to_conventional', 'vector_conventional_to_primitive'):
        return (lambda x: getattr(miller, name)(x, ex['setting'])), None, None
    box = _build(ex['spec'])
    if name in ('Box.vects', 'Box.origin', 'Box.reciprocal_vects'):
        return None, (lambda: getattr(box, name.split('.')[1])), box
    if name in ('vector_crystal_to_cartesian', 'plane_crystal_to_cartesian'):
        return getattr(box, name), None, box
    if name in ('miller.vector_crystal_to_cartesian', 'miller.plane_crystal_to_cartesian'):
        return (lambda x: getattr(miller, name.split('.')[1])(x, box)), None, box
    raise cm.InfraError(f'harness: unknown function {name}')


def _same_values(np, a, b):
    a, b = np.asarray(a), np.asarray(b)
    if a.shape != b.shape:
        return False
    if a.dtype.kind in 'iub' and b.dtype.kind in 'iub':
        return bool(np.array_equal(a, b))
    return bool(np.allclose(a.astype(float), b.astype(float), rtol=1e-13, atol=1e-13 * _amax(np.nan_to_num(b.astype(float))),
                            equal_nan=True))


def _o_pure(ctx, np, am, miller, case):
    """for one function of the property and one way the caller holds the numbers:
    (a) the call does not modify its arguments (bitwise snapshot of the whole allocation the argument lives in, of its
        shape/strides/dtype, of a list argument, and of the Box: vects, origin) and gives what it gives for the same
        numbers in a plain list;
    (b) the result is fresh: the caller overwrites the returned array; that changes no argument, and the identical call
        gives the first result again;
    (c) the results of two identical calls (and a result and the argument) share no memory."""
    import copy
    name = case['fn']
    f1, f0, box = _pure_fn(am, miller, case)
    replay = {'op': 'pure', 'case': case}
    base = view = None
    if f1 is not None:
        base, view = _make_input(np, case['rows'], case['shape'], case['variant'], case['dtype'])
        plain = np.array(case['rows'], dtype=_DT[case['dtype']]).reshape(tuple(case['shape']) + (len(case['rows'][0]),)).tolist()
        r0, e0 = _call(f1, copy.deepcopy(plain))
        call = lambda: f1(view)     # noqa
        held = (f'{case["dtype"]} indices {plain} held as {case["variant"]}' +
                ('' if case['variant'] in ('contiguous', 'list') else ' (a view of a larger table)'
                 if case['variant'] in ('rows-of-table', 'cols-of-table', 'every-other') else ''))
        what = f'{name}({held})' + (f' [{ {k: v for k, v in (case.get("extra") or {}).items() if k != "spec"} }]' if case.get('extra') else '')
    else:
        call = f0
        ex = case.get('extra') or {}
        what = f'{name}({", ".join(repr(v) for k, v in ex.items() if k != "spec")})'

    def snap():
        parts = []
        if isinstance(base, list):
            parts.append(repr(base))
        elif base is not None:
            parts += [base.tobytes(), view.shape, view.strides, str(view.dtype), base.shape]
        if box is not None:
            parts += [box.vects.tobytes(), box.origin.tobytes()]
        return parts

    def show_input():
        return base if isinstance(base, list) else (None if base is None else np.asarray(view).tolist())

    s0 = snap()
    r1, e1 = _call(call)
    if snap() != s0:
        ctx.violate(name + ':input-modified', f'{what} changed its argument: after the call the caller\'s array holds '
                    f'{show_input()}' + ('' if box is None else f' / the Box holds vects {box.vects.tolist()}'), replay)
        return
    if f1 is not None:
        if e1 != e0:
            ctx.violate(name + ':input-kind', f'{what} gives {e1 or "a value"}, the same numbers as a plain list give '
                        f'{e0 or "a value"}', replay)
            return
        if e1 is None and not _same_values(np, r1, r0):
            ctx.violate(name + ':input-kind', f'{what} = {np.asarray(r1).tolist()}, the same numbers as a plain list give '
                        f'{np.asarray(r0).tolist()}', replay)
            return
    if e1 is not None or not isinstance(r1, np.ndarray):
        return
    c1 = r1.copy()
    if r1.flags.writeable:
        r1[...] = 77 if r1.dtype.kind == 'u' else -77       # (an unsigned result cannot hold -77)
        if snap() != s0:
            ctx.violate(name + ':result-aliases-input', f'{what}: writing into the returned array changed the argument '
                        f'(now {show_input()})' + ('' if box is None else f' / the Box (vects {box.vects.tolist()})'), replay)
            return
    r2, e2 = _call(call)
    if e2 is not None or not isinstance(r2, np.ndarray) or r2.shape != c1.shape or not np.array_equal(r2, c1, equal_nan=True):
        ctx.violate(name + ':result-not-fresh', f'{what}: the first call returned {c1.tolist()}; the caller overwrote the '
                    f'returned array; the identical call then returned {e2 or np.asarray(r2).tolist()}', replay)
        return
    if r2 is r1 or np.shares_memory(r2, r1):
        ctx.violate(name + ':results-share-memory', f'{what}: two identical calls return arrays that share memory', replay)
        return
    if isinstance(base, np.ndarray) and np.shares_memory(r2, base):
        ctx.violate(name + ':result-aliases-input', f'{what}: the returned array shares memory with the argument', replay)


def _pure_cases(rng, ctx, cells, broken):
    """the functions of the property x the ways a caller can hold the numbers (plain data, replayable)."""
    out = []
    shapes = [(), (3,), (2, 2), (1,), (4,)]

    def arr_cases(fn, kinds, dtypes, extra=None, reps=1, narrow=2):
        # numpy's default dtypes in every memory layout; the unsigned / narrow integer dtypes (indices read from an image,
        # an HDF5 / uint column, a compact table) in `narrow` layouts each
        plan = [(variant, dtype) for variant in VARIANTS for dtype in dtypes]
        for dtype in NARROW:
            plan += [(variant, dtype) for variant in rng.sample(VARIANTS, narrow)]
        for variant, dtype in plan:
                for _ in range(reps):
                    kind = rng.choice(kinds if dtype == 'float64' else [k_ for k_ in kinds if k_.startswith(('int', 'any'))])
                    shape = rng.choice(shapes)
                    cnt = 1
                    for d in shape:
                        cnt *= d
                    rows = _pure_rows(rng, kind, cnt, nonneg=dtype in UNSIGNED)
                    if dtype != 'float64':
                        rows = [[int(v) for v in r] for r in rows]
                    out.append({'fn': fn, 'rows': rows, 'shape': list(shape), 'variant': variant, 'dtype': dtype,
                                'extra': extra})
    ints = ['int64', 'int32']
    both = ['int64', 'float64', 'int32']
    arr_cases('plane3to4', ['int3'], both)
    arr_cases('vector3to4', ['int3', 'frac3'], both)
    arr_cases('plane4to3', ['int4'], both)
    arr_cases('vector4to3', ['int4', 'thirds4'], both)
    arr_cases('reduce_indices', ['int3'], ints, reps=2)
    arr_cases('reduce_indices', ['int4', 'any4'], ints)
    for setting in SETTINGS:
        arr_cases('vector_primitive_to_conventional', ['int3', 'frac3'], ['int64', 'float64'], {'setting': setting}, narrow=1)
        arr_cases('vector_conventional_to_primitive', ['int3', 'frac3'], ['int64', 'float64'], {'setting': setting}, narrow=1)
    hexs = [c for c in cells if c[0].startswith('hexagonal') and c[3]['hand'] == 'right']
    others = [c for c in cells if not c[0].startswith('hexagonal')]
    for label, _box, spec, _cell in rng.sample(others, min(len(others), ctx.n(3, 8))) + hexs[:2]:
        ex = {'spec': {'new': {'vects': _box.vects.tolist(), 'origin': _box.origin.tolist()}, 'then': []}, 'cell': label}
        for fn in ('vector_crystal_to_cartesian', 'miller.vector_crystal_to_cartesian'):
            arr_cases(fn, ['int3', 'frac3'], ['int64', 'float64'], ex)
        for fn in ('plane_crystal_to_cartesian', 'miller.plane_crystal_to_cartesian'):
            arr_cases(fn, ['int3'], ['int64', 'float64'], ex)
        if label.startswith('hexagonal'):
            arr_cases('vector_crystal_to_cartesian', ['int4', 'thirds4'], ['int64', 'float64'], ex)
            arr_cases('plane_crystal_to_cartesian', ['int4'], ['int64', 'float64'], ex)
        for fn in ('Box.vects', 'Box.origin', 'Box.reciprocal_vects'):
            out.append({'fn': fn, 'extra': ex})
    for it in range(ctx.n(40, 300)):
        s, _classes = _gen_index_string(rng, it)
        out.append({'fn': 'fromstring', 'extra': {'string': s}})
    for s in ('[1 0 0]', '1/2 [1 1 0]', '(1 1 1)', '1/3 <1 1 -2 0>', '{1 0 -1 2}', '1 0 0', '2 -1 -1 0'):
        out.append({'fn': 'fromstring', 'extra': {'string': s}})
    for m in range(0, 4):
        for rflag in (False, True):
            out.append({'fn': 'all_indices', 'extra': {'maxindex': m, 'reduce': rflag}})
    return out


# ---- counts and thresholds: dtypes at their limits, sizes across powers of two, float-division trap indices ----------
def _float_traps(limit=1000):
    """the integers k for which k * (1/k) != 1 in double arithmetic (49, 98, 103, 107, 161, 187, 196, 197, 206, 214, ...):
    integer bookkeeping written as m * (1/k) instead of m / k, or as np.arange(0, 1, 1/k), goes wrong exactly there."""
    return [k for k in range(1, limit + 1) if k * (1.0 / k) != 1.0]


TRAPS = _float_traps()


def _trap_triples(rng, n):
    """plane indices beyond the exhaustive bound: one index a float-division trap value (or a multiple of one) next to
    small ones, in every zero pattern with a division in it; and random indices up to 10^4, all three non-zero (lcm up to
    10^12: exact in int64 and in double)."""
    out = []
    while len(out) < n:
        r = rng.random()
        sg = lambda: rng.choice([1, -1])   # noqa
        if r < 0.45:
            t = [sg() * rng.choice(TRAPS[:24]), sg() * rng.randint(1, 12), sg() * rng.randint(1, 12)]
            rng.shuffle(t)
        elif r < 0.6:
            t = [sg() * rng.choice(TRAPS), sg() * rng.choice([1, 2, 3, 7, 49, 98]), sg() * rng.choice(TRAPS + [1, 1, 2, 5])]
            rng.shuffle(t)
        elif r < 0.75:
            t = [sg() * rng.choice(TRAPS[:24]) * rng.choice([1, 1, 2, 3]), sg() * rng.randint(1, 12), 0]
            rng.shuffle(t)
        else:
            hi = rng.choice([100, 1000, 10 ** 4])
            t = [sg() * rng.randint(1, hi) for _ in range(3)]
            if rng.random() < 0.3:
                t[rng.randrange(3)] = 0
        out.append(tuple(t))
    return out


# integer dtypes an index array can have, with the number of value bits: products / least common multiples of the indices
# formed IN that dtype wrap from 2^bits on
INT_BITS = {'int8': 7, 'int16': 15, 'int32': 31, 'uint8': 8, 'uint16': 16, 'uint32': 32, 'int64': 63}
PLANE_CAP3, PLANE_CAP2 = 2 ** 17, 2 ** 26      # three / two non-zero indices: lcm and products stay below 2^53 (exact in
#                                                 int64 AND as the doubles m / h the code forms)


def _overflow_triples(rng, n, dtypes=None):
    """plane indices that an integer array of a NARROW dtype can hold but whose product h*k*l (h*k for hk0, ...) or least
    common multiple does not fit that dtype: int32 -> three indices beyond 2^(31/3) = 1291 or two beyond 46341 (up to
    2^17 / 2^26, where everything is still exact in int64 and in doubles); int16 -> three beyond 32 / two beyond 181; int8;
    the unsigned ones likewise.  Classes: random values in that band, values just around the square / cube root of the
    dtype's limit, powers of two whose product is a multiple of 2^bits (wraps to exactly 0: (2048, 2048, 1024) in int32),
    every zero pattern with two or three non-zero indices, every sign pattern.  -> [(hkl, dtype)]"""
    out = []
    dts = dtypes or ['int32', 'int32', 'int32', 'int32', 'int16', 'int8', 'uint8', 'uint16', 'uint32', 'int64']
    while len(out) < n:
        dt = rng.choice(dts)
        bits = INT_BITS[dt]
        top = (2 ** bits - 1) if dt != 'int64' else 2 ** 31
        nzc = rng.choice([3, 3, 2, 2])
        cap = min(top, PLANE_CAP3 if nzc == 3 else PLANE_CAP2)
        root = int(round((2 ** min(bits, 31 if dt == 'int64' else bits)) ** (1.0 / nzc)))
        cls = rng.random()
        if cls < 0.4:               # the band between the root of the dtype's limit and its end
            vals = [rng.randint(min(root, cap), cap) for _ in range(nzc)]
        elif cls < 0.6:             # just around the root: the product is just below / just above the limit
            vals = [max(1, root + rng.randint(-2, 3)) for _ in range(nzc)]
        elif cls < 0.8:             # powers of two: the product is a multiple of 2^bits (wraps to 0) or hits the sign bit
            total = rng.choice([bits, bits, bits + 1, bits + 2, bits - 1, 32, 33])
            es = [total // nzc] * nzc
            for j in range(total - sum(es)):
                es[j] += 1
            for _ in range(3):      # move exponent between the indices
                a, b = rng.randrange(nzc), rng.randrange(nzc)
                d = rng.randint(0, 3)
                if es[a] - d >= 0:
                    es[a] -= d
                    es[b] += d
            vals = [min(2 ** e_, 2 ** (cap.bit_length() - 1)) for e_ in es]
        else:                       # one index at the end of the dtype (or of the cap), the others large
            vals = [cap - rng.randint(0, 2)] + [rng.randint(max(1, root // 2), cap) for _ in range(nzc - 1)]
        vals = [min(v, cap) for v in vals]
        if dt.startswith('u'):
            sg = [1] * nzc
        else:
            sg = [rng.choice([1, -1]) for _ in range(nzc)]
        t = [a * b for a, b in zip(vals, sg)]
        rng.shuffle(t)
        if nzc == 2:
            t.insert(rng.randrange(3), 0)
        out.append((tuple(t), dt if dt != 'int64' else rng.choice(['int64', None])))
    return out


def _inplane_bound(hkl, V, gn):
    """rounding bound of a plane normal built as (a.V) x (b.V) / norm from the two textbook in-plane lattice vectors of
    the zero pattern (anchor 'plane normal from two in-plane lattice vectors chosen per zero pattern'): with exact integer
    a, b the components of a.V, b.V carry <= 3u, the cross product <= 16u |a.V| |b.V|, relative to its length
    |a x_i b| / |hkl| * |det V (h a* + k b* + l c*)|.  `gn` = length of det V * (h a* + k b* + l c*)."""
    h, k, l = hkl
    nzs = [x for x in hkl if x]
    m = 1
    for x in nzs:
        m = m * abs(x) // math.gcd(m, abs(x))
    if h and k and l:
        a, b = [-m // h, m // k, 0], [-m // h, 0, m // l]
    elif h and k:
        a, b = [-m // h, m // k, 0], [0, 0, 1]
    elif h and l:
        a, b = [m // h, 0, -m // l], [0, 1, 0]
    elif k and l:
        a, b = [0, -m // k, m // l], [1, 0, 0]
    elif h:
        a, b = [0, 1, 0], [0, 0, 1]
    elif k:
        a, b = [0, 0, 1], [1, 0, 0]
    else:
        a, b = [1, 0, 0], [0, 1, 0]
    axb = _fcross(a, b)
    i = max(range(3), key=lambda j: abs(hkl[j]))
    c = abs(Fraction(axb[i], hkl[i]))                   # a x_i b = +-c (h, k, l)
    rown = [math.sqrt(float(_fdot(r, r))) for r in V]
    Aa = sum(abs(x) * rn for x, rn in zip(a, rown))
    Ab = sum(abs(x) * rn for x, rn in zip(b, rown))
    return 16 * U * Aa * Ab / (float(c) * gn) + 16 * U


def _narrow_rows(rng, dtype, k, cnt, regime, cap=None, third=False):
    """index sets an integer array of `dtype` can hold: regime 'small' (|x| <= 6) or 'limit' (entries at / near the ends
    of the dtype's range next to small ones).  `cap` bounds the magnitudes (plane normals: lcm of three indices must stay
    in int64), `third` keeps 2|u|+|v| inside the dtype (see docs: candidate vector4to3:narrow-int-overflow)."""
    lo, hi = NARROW[dtype]
    if cap is not None:
        lo, hi = max(lo, -cap), min(hi, cap)
    if third:
        lo, hi = -(abs(lo) // 3), hi // 3

    def val():
        if regime == 'small' or rng.random() < 0.3:
            return rng.randint(max(lo, -6), min(hi, 6))
        r = rng.random()
        if r < 0.45:
            return hi - rng.randint(0, 3)
        if r < 0.6:
            return hi // 2 + rng.randint(0, 2)
        if r < 0.7:
            return (hi + 1) // 2 - rng.randint(0, 1)
        if lo < 0:
            return lo + rng.randint(0, 3) if r < 0.9 else lo // 2
        return rng.randint(lo, hi)
    rows = []
    while len(rows) < cnt:
        if k == 3:
            x = [val() for _ in range(3)]
        elif lo == 0:
            x = [0, 0, 0, max(1, val())] if rng.random() < 0.7 else [val() for _ in range(4)]
        else:
            while True:
                h, k_ = val(), val()
                if lo <= -(h + k_) <= hi:
                    break
                h, k_ = h // 2, k_ // 2
                if lo <= -(h + k_) <= hi:
                    break
            x = [h, k_, -(h + k_), val()]
            if rng.random() < 0.15:
                x[2] = val()
        if any(x[i] for i in ((0, 1, 2) if k == 3 else (0, 1, 3))):
            rows.append(x)
    return rows


def _wrap_guard_rows(rng, dtype, cnt):
    """four-index sets an integer array of `dtype` can hold whose first three indices sum to +-2^bits (or twice that): NOT
    zero, so no four-index set at all, but a sum formed IN the dtype wraps to exactly 0.  One such row among valid ones."""
    lo, hi = NARROW[dtype]
    bits = {'int8': 8, 'uint8': 8, 'int16': 16, 'uint16': 16, 'int32': 32, 'uint32': 32}[dtype]
    W = 2 ** bits
    rows = []
    for _ in range(cnt):
        if lo == 0:
            rows.append([0, 0, 0, rng.randint(1, min(hi, 9))])
        else:
            h, k_ = rng.randint(-5, 5), rng.randint(-5, 5)
            rows.append([h, k_, -(h + k_), rng.randint(1, 6)])
    sgn = 1 if lo == 0 else rng.choice([1, -1])
    while True:
        a = rng.randint(W // 3, hi)
        b = rng.randint(max(0, W - a - hi), min(hi, W - a))
        c = W - a - b
        if 0 <= c <= hi:
            break
    t = [a, b, c]
    rng.shuffle(t)
    rows[rng.randrange(cnt)] = [sgn * t[0], sgn * t[1], sgn * t[2], rng.randint(1, min(hi, 6))]
    return rows


DTYPE_FNS = [('plane3to4', 3), ('vector3to4', 3), ('plane4to3', 4), ('vector4to3', 4), ('reduce_indices', 3),
             ('reduce_indices', 4), ('vector_crystal_to_cartesian', 3), ('miller.vector_crystal_to_cartesian', 3),
             ('plane_crystal_to_cartesian', 3), ('miller.plane_crystal_to_cartesian', 3),
             ('vector_primitive_to_conventional', 3), ('vector_conventional_to_primitive', 3),
             ('vector_crystal_to_cartesian', 4), ('plane_crystal_to_cartesian', 4)]


def _o_dtype(ctx, np, am, miller, case):
    """integer index sets denote the same thing whatever integer dtype the caller's array has (uint8..uint64, int8,
    int16; values up to the ends of the dtype's range): f(array of that dtype) is what f gives for the same numbers as
    Python integers (value or refusal), and the index round trips 3 -> 4 -> 3 return the numbers put in."""
    name, dtype, rows = case['fn'], case['dtype'], case['rows']
    f1, _f0, _box = _pure_fn(am, miller, case)
    replay = {'op': 'dtype', 'case': case}
    k = len(rows[0])
    arr = np.array(rows, dtype=np.dtype(dtype)).reshape(tuple(case.get('shape') or [len(rows)]) + (k,))
    if arr.reshape(-1, k).tolist() != [list(r) for r in rows]:
        raise cm.InfraError(f'harness: {dtype} array does not hold {rows}')
    plain = arr.tolist()
    want, e0 = _call(f1, plain)
    before = arr.tobytes()
    got, e1 = _call(f1, arr)
    what = f'{name}(indices {plain} held as a {dtype} array)'
    if arr.tobytes() != before:
        ctx.violate(name + ':input-modified', f'{what} changed its argument (now {arr.tolist()})', replay)
        return
    if e0 != e1:
        ctx.violate(name + ':input-dtype', f'{what} gives {e1 or np.asarray(got).tolist()}; the same numbers as Python '
                    f'integers give {e0 or np.asarray(want).tolist()}', replay)
        return
    if e1 is not None:
        return
    got, want = np.asarray(got), np.asarray(want)
    same = got.shape == want.shape
    if same and name == 'reduce_indices':
        same = got.dtype.kind in 'iu' and [int(v) for v in got.ravel().tolist()] == [int(v) for v in want.ravel().tolist()]
    elif same:
        scale = _amax(want)
        same = bool(np.allclose(got.astype(float), want.astype(float), rtol=1e-13, atol=1e-13 * scale))
    if not same:
        ctx.violate(name + ':input-dtype', f'{what} = {got.tolist()}; the same numbers as Python integers give '
                    f'{want.tolist()}', replay)
        return
    if name in ('plane3to4', 'vector3to4'):
        back, e2 = _call(getattr(miller, name.replace('3to4', '4to3')), got)
        scale = max(1.0, max(abs(v) for r in rows for v in r))
        if e2 is not None or not np.allclose(np.asarray(back, dtype=float), np.array(plain, dtype=float), rtol=1e-14,
                                             atol=1e-14 * scale):
            ctx.violate(name.replace('3to4', '34') + ':roundtrip', f'{what} = {got.tolist()}; converting back gives '
                        f'{e2 or np.asarray(back).tolist()}', replay)


def _dtype_cases(rng, ctx, cells):
    out = []
    others = [c for c in cells if c[3]['hand'] == 'right']
    for name, k in DTYPE_FNS:
        for dtype in NARROW:
            for regime in ('small', 'limit', 'limit') + (('overflow', 'overflow') if 'plane_crystal' in name and dtype in INT_BITS and k == 3
                                                         else ()) + (('wrap-guard', 'wrap-guard') if k == 4 and dtype != 'uint64'
                                                                     and name != 'reduce_indices' else ()):
                extra = None
                if 'crystal_to_cartesian' in name:
                    label, box, _spec, _cell = rng.choice([c for c in others if k == 3 or c[0].startswith('hexagonal')])
                    extra = {'spec': {'new': {'vects': box.vects.tolist(), 'origin': box.origin.tolist()}, 'then': []},
                             'cell': label}
                elif 'primitive' in name:
                    extra = {'setting': rng.choice(SETTINGS)}
                shape = rng.choice([[], [1], [2], [3], [5], [2, 2]])
                cnt = 1
                for d in shape:
                    cnt *= d
                if regime == 'wrap-guard':
                    shape = rng.choice([[], [1], [2], [3], [2, 2]])
                    cnt = 1
                    for d in shape:
                        cnt *= d
                    rows = _wrap_guard_rows(rng, dtype, cnt)
                elif regime == 'overflow':    # indices the dtype holds whose product / lcm it does not hold
                    shape = rng.choice([[2], [3], [5], [2, 2]])
                    cnt = 1
                    for d in shape:
                        cnt *= d
                    rows = [list(t) for t, _dt in _overflow_triples(rng, cnt, [dtype])]
                    if rng.random() < 0.5:
                        rows[rng.randrange(cnt)] = [rng.randint(1, 6), rng.randint(-6, 6) if not dtype.startswith('u') else 2, 1]
                else:
                    rows = _narrow_rows(rng, dtype, k, cnt, regime, cap=10 ** 4 if 'plane_crystal' in name else None,
                                        third=((name == 'vector4to3' or (k == 4 and 'vector_crystal' in name)) and dtype not in UNSIGNED))
                out.append({'fn': name, 'dtype': dtype, 'rows': rows, 'shape': shape, 'extra': extra, 'regime': regime})
    return out


BIG_SIZES = [1023, 1024, 1025, 2047, 2048, 2049, 4095, 4096, 4097, 8191, 8192, 8193,
             1000, 1001, 2001, 5001, 10001, 16383, 16384, 16385, 32767, 32768, 32769]      # 2^k -1/+0/+1 and n = k * block + 1
HUGE_SIZES = [50001, 65535, 65536, 65537, 70001, 100001, 131073]
GIANT_SIZES = [262145, 300001, 500001, 524289, 1000001, 1048577]      # vectorised functions only; the LAST one in every run


def _big_rows(np, seed, n, k, dtype, hi=9):
    """`n` index sets (k = 3 | 4) with entries in -hi..hi drawn from a numpy generator seeded with `seed` (replayable from
    these numbers); no zero index vector; four-index sets satisfy the sum guard."""
    g = np.random.default_rng(seed)
    a = g.integers(-hi, hi + 1, size=(n, k))
    if k == 4:
        a[:, 2] = -(a[:, 0] + a[:, 1])
        zero = (a[:, 0] == 0) & (a[:, 1] == 0) & (a[:, 3] == 0)
        a[zero, 3] = 1
    else:
        zero = ~a.any(axis=1)
        a[zero, 0] = 1
    return a.astype(dtype)


def _o_big(ctx, np, am, miller, case):
    """MANY index sets in one call (sizes across the powers of two, a few thousand and several tens of thousands of rows):
    f(big array) holds, row by row, what f gives for the rows in small blocks and singly; with `bad` = (row, kind) one row
    is no index set (zero plane / half-integer plane / sum guard off) and the array is refused like the row alone."""
    name, n, k, block = case['fn'], case['n'], case['k'], case.get('block', 509)
    f1, _f0, box = _pure_fn(am, miller, case)
    replay = {'op': 'big', 'case': case}
    arr = _big_rows(np, case['seed'], n, k, case['dtype'], case.get('hi', 9))
    what = (f'{name} on {n} index sets in one call ({case["dtype"]} array of shape {arr.shape}, entries up to {case.get("hi", 9)} '
            f'from default_rng({case["seed"]}))')
    if case.get('first'):       # the FIRST row of the zero pattern asked for (a per-row loop shapes its output after it)
        r0 = _pattern_row(random.Random(case['seed']), case['first'], min(case.get('hi', 9), 9))
        arr[0] = [r0[0], r0[1], -(r0[0] + r0[1]), r0[2]] if k == 4 else r0
    bad = case.get('bad')
    if bad is not None:
        j, kind = bad
        if kind == 'zero':
            arr[j] = 0
        elif kind == 'half':
            arr = arr.astype(float)
            arr[j, 0] += 0.5
        else:
            arr[j, 2] += 1
        alone, ea = _call(f1, arr[j].tolist())
        r, e = _call(f1, arr)
        if ea != 'err:value' or e != 'err:value':
            ctx.violate(name + ':guard-array', f'{what}: row {j} = {arr[j].tolist()} given alone is '
                        f'{ea or "accepted"}; the array with this row in it is {e or "accepted"}', replay)
        return
    got, e = _call(f1, arr)
    if e is not None:
        ctx.violate(name + ':many-rows', f'{what} raised {e}; every row is an index set', replay)
        return
    got = np.asarray(got)
    if got.shape[:1] != (n,):
        ctx.violate(name + ':many-rows', f'{what} returned shape {got.shape}', replay)
        return
    # singly (exactly what all other clauses verify), on a sample that includes both ends and the powers of two
    g = np.random.default_rng(case['seed'] + 1)
    sample = sorted({0, 1, n - 1, n - 2, n // 2} | {p for p in (1023, 1024, 2047, 2048, 4095, 4096, 4097, 8192, 65535, 65536) if p < n}
                    | set(g.integers(0, n, size=case.get('singles', 24)).tolist()))

    def differ(a, b):
        a, b = np.asarray(a), np.asarray(b)
        if a.shape != b.shape:
            return True
        if a.dtype.kind in 'iu' and b.dtype.kind in 'iu':
            return not np.array_equal(a, b)
        sc = _amax(b)
        return not np.allclose(a.astype(float), b.astype(float), rtol=1e-13, atol=1e-13 * sc)
    for j in sample:
        one, e1 = _call(f1, arr[j].tolist())
        if e1 is not None or differ(got[j], one):
            ctx.violate(name + ':many-rows', f'{what}: row {j} = {arr[j].tolist()} gives {got[j].tolist()} in the big call, '
                        f'{e1 or np.asarray(one).tolist()} when it is given alone', dict(replay, row=int(j)))
            return
    if case.get('blocks', True):
        for lo in range(0, n, block):
            part, e2 = _call(f1, arr[lo:lo + block].copy())
            if e2 is not None or differ(got[lo:lo + block], part):
                rowsbad = [lo]
                if e2 is None and np.asarray(part).shape == got[lo:lo + block].shape:
                    d = np.abs(np.asarray(part, dtype=float) - got[lo:lo + block].astype(float)).reshape(len(part), -1).max(axis=1)
                    rowsbad = [lo + int(np.argmax(d))]
                j = rowsbad[0]
                ctx.violate(name + ':many-rows', f'{what}: rows {lo}..{min(n, lo + block) - 1} differ from the same rows given as '
                            f'an array of {min(block, n - lo)} rows ({e2 or ""}); e.g. row {j} = {arr[j].tolist()} gives '
                            f'{got[j].tolist()} in the big call', dict(replay, row=int(j)))
                return
    if 'plane_crystal' in name and got.dtype.kind != 'f':
        ctx.violate('plane_normal:dtype', f'{what} returned an array of dtype {got.dtype}: unit normals are not integers', replay)
        return
    if 'plane_crystal' in name and box is not None:
        # all rows against the reciprocal-lattice direction (vectorised float oracle: unit(hkl . inv(V)^T), det V > 0)
        V = np.array(box.vects, dtype=float)
        if np.linalg.det(V) > 0:
            hkl = arr[:, [0, 1, 3]] if k == 4 else arr
            G = hkl.astype(float) @ np.linalg.inv(V).T
            G /= np.linalg.norm(G, axis=1)[:, None]
            d = np.abs(G - got).max(axis=1)
            j = int(np.argmax(d))
            if not d[j] <= 1e-9:
                ctx.violate('plane_normal:reciprocal', f'{what}: the normal returned for row {j} = {arr[j].tolist()} is '
                            f'{got[j].tolist()}, the unit reciprocal-lattice direction is {G[j].tolist()} (vects '
                            f'{box.vects.tolist()})', dict(replay, row=j))


def _big_cases(rng, ctx, cells, broken):
    """sizes: every vectorised function at 2^10..2^15 -1/+0/+1, at 1000 / 1001 / 2001 / 5001 / 10001 (n = k * block + 1) and at
    two of 50001 / 2^16 -1/+0/+1 / 70001 / 100001 / 2^17+1 (all of them in the thorough tier); plane normals (one Python call
    per row inside) at one size just past 1000 / 1024 / 2000 / 2048, one just past 4096 per entry point and one past 65536
    per run, on cells that are NOT diagonal."""
    out = []
    full = ctx.thorough or broken
    nondiag = [c for c in cells if c[3]['hand'] == 'right' and
               sum(1 for r in c[1].vects.tolist() for v in r if abs(v) > 1e-9 * _amax(c[1].vects)) > 3]
    hexs = [c for c in nondiag if c[0].startswith('hexagonal')]

    def ex_of(c):
        return {'spec': {'new': {'vects': c[1].vects.tolist(), 'origin': c[1].origin.tolist()}, 'then': []}, 'cell': c[0]}
    cheap = [('plane3to4', 3, None), ('vector3to4', 3, None), ('plane4to3', 4, None), ('vector4to3', 4, None),
             ('reduce_indices', 3, None), ('reduce_indices', 4, None),
             ('vector_primitive_to_conventional', 3, {'setting': rng.choice(SETTINGS)}),
             ('vector_conventional_to_primitive', 3, {'setting': rng.choice(SETTINGS)}),
             ('vector_crystal_to_cartesian', 3, ex_of(rng.choice(nondiag))),
             ('miller.vector_crystal_to_cartesian', 3, ex_of(rng.choice(nondiag)))]
    if hexs:
        cheap.append(('vector_crystal_to_cartesian', 4, ex_of(rng.choice(hexs))))
    for name, k, extra in cheap:
        sizes = (BIG_SIZES + HUGE_SIZES) if full else BIG_SIZES + rng.sample(HUGE_SIZES, 2)      # vectorised: cheap
        # a threshold "more than N rows" shows at every size above it: the largest size goes into every run
        sizes = sizes + (GIANT_SIZES if ctx.thorough else [rng.choice(GIANT_SIZES[:-1]), GIANT_SIZES[-1]])
        for n in sizes:
            dtype = rng.choice(['int64', 'int64', 'int32', 'float64'] if name != 'reduce_indices' else ['int64', 'int32'])
            hi = rng.choice([9, 9, 40, 300, 3000, 10 ** 6])
            case = {'fn': name, 'n': n, 'k': k, 'seed': rng.getrandbits(32), 'dtype': dtype, 'extra': extra, 'hi': hi}
            if n >= GIANT_SIZES[0]:
                # size x magnitude: entries beyond 2^31 (int64 / float64 arrays; exact in doubles) in the longest arrays
                case['dtype'] = dtype = rng.choice(['int64', 'int64', 'int32', 'float64'] if name != 'reduce_indices' else ['int64'])
                case['hi'] = rng.choice([9, 3000, 2 ** 31 - 1 if dtype == 'int32' else 2 ** 40, 2 ** 31 - 1 if dtype == 'int32' else 2 ** 40])
                if k == 4 and dtype == 'int32':
                    case['hi'] = min(case['hi'], 2 ** 29)       # the third index -(h+k) must fit; 2u + v is formed in the array's
                    #                                             dtype (candidate vector4to3:narrow-int-overflow)
                case['block'] = 65521
                case['singles'] = 12
            out.append(case)
        if name in ('plane4to3', 'vector4to3'):
            for n in rng.sample(BIG_SIZES, 2) + [rng.choice(HUGE_SIZES)]:
                j = rng.choice([n - 1, n - 1, 0, n // 2, min(n - 1, 4096), min(n - 1, 1024), rng.randrange(n)])
                out.append({'fn': name, 'n': n, 'k': k, 'seed': rng.getrandbits(32), 'dtype': 'int64', 'extra': extra,
                            'bad': [j, 'guard']})
    planes = [('plane_crystal_to_cartesian', 3), ('miller.plane_crystal_to_cartesian', 3)]
    plan = []
    mid = [4097, 4100, 4912, 5000, 5001, 8193]
    for name, k in planes:
        plan.append((name, k, rng.choice(nondiag), rng.choice(mid), True))
    # one call with MORE THAN 100000 planes per run (the clean code takes ~0.2 ms per plane: ~20 s), on a cell whose reciprocal
    # matrix is not symmetric; thorough: also 2^16 + 1, 2^18 + 1 and 300001 planes
    def _rel_inv(c):
        iv = _np().linalg.inv(c[1].vects / _amax(c[1].vects))
        return iv / _amax(iv)
    skew = [c for c in nondiag if not _np().allclose(_rel_inv(c), _rel_inv(c).T, rtol=1e-3, atol=1e-6)]
    plan.append((rng.choice(planes)[0], 3, rng.choice(skew or nondiag), rng.choice([100001, 100003, 102401, 110001, 131073]), False))
    if ctx.thorough:
        plan.append((rng.choice(planes)[0], 3, rng.choice(skew or nondiag), rng.choice([65537, 70001]), False))
        plan.append((rng.choice(planes)[0], 3, rng.choice(skew or nondiag), 262145, False))
        plan.append((rng.choice(planes)[0], 3, rng.choice(skew or nondiag), 300001, False))
        if hexs:
            plan.append(('plane_crystal_to_cartesian', 4, rng.choice(hexs), 100001, False))
    plan.append((rng.choice(planes)[0], 3, rng.choice(nondiag), rng.choice([1001, 1025, 2001, 2049]), True))
    if hexs:
        plan.append(('plane_crystal_to_cartesian', 4, rng.choice(hexs), rng.choice(mid), True))
    if full:
        for n in (1025, 2049, 16385):
            plan.append(('plane_crystal_to_cartesian', 3, rng.choice(nondiag), n, True))
    for name, k, c, n, blocks in plan:
        out.append({'fn': name, 'n': n, 'k': k, 'seed': rng.getrandbits(32), 'dtype': rng.choice(['int64', 'int64', 'int32', 'float64']),
                    'extra': ex_of(c), 'blocks': blocks, 'singles': 12, 'hi': rng.choice([9, 40, 300, 3000]),
                    'first': rng.choice(PATTERNS)})
    c = rng.choice(nondiag)
    for kind in ('zero', 'half'):
        n = rng.choice([4097, 4500])
        j = rng.choice([n - 1, n // 2, 4096, rng.randrange(n)]) if kind == 'half' else rng.choice([n - 1, 4096, 3000 + rng.randrange(1000)])
        out.append({'fn': rng.choice(planes)[0], 'n': n, 'k': 3, 'seed': rng.getrandbits(32), 'dtype': 'int64', 'extra': ex_of(c),
                    'bad': [j, kind]})
    return out


# ---- the cell's overall length scale ------------------------------------------------------------------------------------
def _scale_box(am, np, case, s, how):
    """the cell of `case` with every length multiplied by s: through the family constructor (scaled lattice parameters) or as
    Box(vects = s * vects, origin = s * origin)"""
    if how == 'ctor':
        n = N_LENGTHS[case['family']]
        args = [x * s if i < n else x for i, x in enumerate(case['args'])]
        return getattr(am.Box, CTOR[case['family']])(*args)
    return am.Box(vects=(np.array(case['vects'], dtype=float) * s).tolist(), origin=(np.array(case['origin'], dtype=float) * s).tolist())


def _o_scale_sweep(ctx, np, am, miller, case):
    """ONE lattice written in every length unit: the cell of `case` (lattice parameters of a few angstrom-sized numbers) with
    all lengths multiplied by each s of case['scales'] (exact powers of two and of ten, 1e-12 ... 1e+12).  At every scale
      * each plane normal is the unit vector along h a* + k b* + l c* of THAT cell (exact oracle), three- and (hexagonal
        cells) four-index form, array call and single calls, both entry points            -> plane_normal:reciprocal
      * and is the normal found at scale 1: a unit normal does not depend on the overall scale of the cell
                                                                                           -> plane_normal:scale
      * each Cartesian vector is u a + v b + w c of that cell (exact), hence s times the vector at scale 1
                                                                                           -> vector_cart:value, :scale
      * four indices are accepted on hexagonal cells at every scale                         -> *:raises
      * a family cell is identified as its family (default tolerances from 1e-6 up, absolute tolerance scaled like the cell
        below: candidate family:absolute-atol-small-units)                                  -> family:<fam>"""
    from atomman.tools import crystalsystem
    planes = [[int(v) for v in r] for r in case['planes']]
    vectors = [[float(v) for v in r] for r in case['vectors']]
    fam, label, held, entry = case.get('family'), case['label'], case.get('held'), case.get('entry', 'Box')
    ishex = fam == 'hexagonal'

    def normals(box, rows):
        arr = np.array(rows, dtype=np.dtype(held) if held else np.int64)
        arg = arr if held else arr.tolist()
        if entry == 'Box':
            return _call(box.plane_crystal_to_cartesian, arg)
        return _call(miller.plane_crystal_to_cartesian, arg, box)

    ref = {}
    for si, s in enumerate([1.0] + [float(x) for x in case['scales']]):
        how = 'ctor' if (fam and case['orient'] == 'std' and si % 2 == 1) else 'vects'
        replay = {'op': 'scale_sweep', 'case': dict(case, scales=[s])}
        box, e = _call(_scale_box, am, np, case, s, how)
        where = f'{label} cell with all lengths x {s:g} (' + ('family constructor' if how == 'ctor' else 'Box(vects=...)') + ')'
        if e is not None:
            ctx.violate('object:setter-raises', f'building the {where} raised {e}', replay)
            continue
        where += f', vects {box.vects.tolist()}'
        V = [[_F(x) for x in row] for row in box.vects]
        # -- plane normals
        forms = [('hkl', planes)] + ([('hkil', [[r[0], r[1], -(r[0] + r[1]), r[2]] for r in planes])] if ishex else [])
        for form, rows in forms:
            got, e = normals(box, rows)
            if e is not None or np.asarray(got).shape != (len(rows), 3):
                ctx.violate('plane_normal:raises', f'plane_crystal_to_cartesian({rows}) ({entry} entry point) on the {where} '
                            f'gives {e or np.asarray(got).shape}', replay)
                continue
            got = np.asarray(got, dtype=float)
            for j, hkl in enumerate(planes):
                ex = _normal_expect(V, hkl)
                if ex is None:
                    continue
                unit, tol, det, _gn = ex
                nl = got[j].tolist()
                if not all(abs(a - b) <= tol for a, b in zip(nl, unit)):
                    ctx.violate('plane_normal:reciprocal', f'normal of {rows[j]} on the {where} is {nl}; the unit reciprocal-lattice '
                                f'direction of {hkl} is {unit}', dict(replay, row=j))
                    break
                if s == 1.0:
                    ref[(form, j)] = (nl, tol)
                elif (form, j) in ref:
                    n1, t1 = ref[(form, j)]
                    if not all(abs(a - b) <= tol + t1 for a, b in zip(nl, n1)):
                        ctx.violate('plane_normal:scale', f'normal of {rows[j]} on the {where} is {nl}; on the same lattice at scale 1 '
                                    f'it is {n1}: a unit normal does not depend on the unit the lengths are written in',
                                    dict(replay, row=j))
                        break
            # the first planes singly, through the other entry point
            for j in range(min(2, len(rows))):
                one, e1 = (_call(miller.plane_crystal_to_cartesian, rows[j], box) if entry == 'Box'
                           else _call(box.plane_crystal_to_cartesian, rows[j]))
                if e1 is not None or not np.allclose(np.asarray(one, dtype=float), got[j], rtol=0, atol=1e-13):
                    ctx.violate('plane_normal:reciprocal', f'normal of {rows[j]} given alone on the {where} is '
                                f'{e1 or np.asarray(one).tolist()}, in the array call {got[j].tolist()}', dict(replay, row=j))
                    break
        # -- Cartesian vectors
        vforms = [('uvw', vectors)] + ([('uvtw', [_ref_vector3to4(r).tolist() for r in vectors])] if ishex else [])
        for form, rows in vforms:
            for nm, f in (('Box.vector_crystal_to_cartesian', box.vector_crystal_to_cartesian),
                          ('miller.vector_crystal_to_cartesian', lambda x: miller.vector_crystal_to_cartesian(x, box))):
                got, e = _call(f, np.array(rows))
                if e is not None or np.asarray(got).shape != (len(rows), 3):
                    ctx.violate('vector_cart:raises', f'{nm}({rows}) on the {where} gives {e or np.asarray(got).shape}', replay)
                    break
                got = np.asarray(got, dtype=float)
                bad = False
                for j, uvw in enumerate(vectors):
                    want = [sum(_F(uvw[i]) * V[i][c] for i in range(3)) for c in range(3)]
                    sc = max(sum(abs(float(_F(uvw[i]) * V[i][c])) for i in range(3)) for c in range(3)) or _amax(box.vects)
                    rt = 1e-14 if form == 'uvw' else 1e-12
                    if not cm.allclose(got[j].tolist(), want, rt, rt * sc):
                        ctx.violate('vector_cart:value', f'{nm}({rows[j]}) on the {where} is {got[j].tolist()}, u a + v b + w c is '
                                    f'{[float(x) for x in want]}', dict(replay, row=j))
                        bad = True
                        break
                    if s == 1.0:
                        ref[(form, nm, j)] = got[j].tolist()
                    elif (form, nm, j) in ref and how == 'vects':
                        v1 = ref[(form, nm, j)]
                        if not all(abs(a - s * b) <= 1e-12 * sc for a, b in zip(got[j].tolist(), v1)):
                            ctx.violate('vector_cart:scale', f'{nm}({rows[j]}) on the {where} is {got[j].tolist()}; at scale 1 it is '
                                        f'{v1}: not {s:g} times that', dict(replay, row=j))
                            bad = True
                            break
                if bad:
                    break
        # -- family
        if fam:
            ft = _family_tol(s)
            kw = {} if not ft else {'rtol': ft[0], 'atol': ft[1]}
            res, e = _call(lambda: (box.identifyfamily(**kw), bool(getattr(box, FAM_PRED[fam])(**kw)),
                                    crystalsystem.identifyfamily(box, **kw), bool(getattr(crystalsystem, FAM_PRED[fam])(box, **kw))))
            if e is not None or res != (fam, True, fam, True):
                ctx.violate('family:' + fam, f'the {where}, built as {fam}{tuple(case.get("args") or ())} x {s:g}: identifyfamily'
                            f'({kw or ""}), Box.{FAM_PRED[fam]}, crystalsystem.identifyfamily, crystalsystem.{FAM_PRED[fam]} = '
                            f'{e or res}', replay)


def _scale_cases(rng, ctx, broken):
    """every family + float triclinic + dyadic cell, each in one orientation per quick run (as built / rotated / axes
    permuted; all three when thorough), EVERY scale of POW2_SCALES + POW10_SCALES; planes: one per zero pattern (the seven
    branches of the code) + larger indices; held as list / int64 / int32 / int16; both entry points."""
    out = []
    kinds = FAMILIES + ['float-triclinic', 'dyadic']
    orients = ['std', 'rot', 'perm']
    for ki, kind in enumerate(kinds):
        for oi in (range(3) if (ctx.thorough or broken) else [(ki + ctx.seed) % 3]):
            cell = _gen_cell(rng, kind, orients[oi], scale=1.0)
            planes = [_pattern_row(rng, p_, rng.choice([6, 6, 40])) for p_ in PATTERNS]
            planes += [[rng.randint(-9, 9) or 1 for _ in range(3)] for _ in range(2)]
            planes += [list(_trap_triples(rng, 1)[0])]
            rng.shuffle(planes)
            vectors = [[float(rng.randint(-6, 6)) for _ in range(3)] for _ in range(3)]
            vectors.append([rng.randint(-12, 12) / rng.choice([2, 3, 4]) for _ in range(3)])
            vectors = [v for v in vectors if any(v)] or [[1.0, 0.0, 0.0]]
            big = max(abs(x) for r in planes for x in r)
            held = rng.choice([None, 'int64', 'int32'] + (['int16'] if big < 2 ** 15 else []))
            scales = POW10_SCALES + POW2_SCALES if kind != 'dyadic' else POW2_SCALES
            out.append({'label': cell['label'], 'kind': kind, 'orient': cell['label'].split('/')[1], 'family': cell['family'],
                        'args': cell['args'], 'vects': cell['vects'], 'origin': cell['origin'], 'planes': planes,
                        'vectors': vectors, 'scales': list(scales), 'held': held, 'entry': rng.choice(['Box', 'miller'])})
    return out


def _guard(ctx, key, replay, fn, *args):
    """an oracle clause must not die on a raising implementation: report the exception as the failing input."""
    try:
        with _np().errstate(all='ignore'):
            fn(*args)
    except cm.InfraError:
        raise
    except Exception as e:  # noqa
        ctx.violate(key + ':raises', f'{key}: the implementation raised {type(e).__name__}: {e} on {replay}', replay)


def _per_key_limit(ctx, limit=4):
    """`check` keeps the first 50 violations: forward at most `limit` per key so that one failing clause with
    thousands of inputs does not hide the failing inputs of the other clauses."""
    counts = {}
    orig = ctx.violate
    if getattr(orig, '_c16_limited', False):
        return

    def violate(key, what, replay):
        counts[key] = counts.get(key, 0) + 1
        if counts[key] <= limit:
            orig(key, what, replay)
    violate._c16_limited = True
    ctx.violate = violate


def search(ctx, broken):
    np = _np()
    import atomman as am
    from atomman.tools import miller
    _per_key_limit(ctx)
    rng = random.Random(ctx.seed + 16)
    mult = 3 if broken else 1
    N = ctx.n(6, 12)
    tri = _triples(N)
    # 1. round trips, exhaustive
    for t in tri:
        ctx.stats.case('oracle:roundtrip34', t)
        _guard(ctx, 'roundtrip34', {'op': 'roundtrip34', 'idx': list(t)}, _o_roundtrip34, ctx, np, miller, t)
    #    fractional [uvw] (1/2 [1 1 0]), integer indices held in float arrays, huge indices
    for it in range(ctx.n(400, 4000) * mult):
        r = it % 4
        if r == 0:
            t = [rng.randint(-12, 12) / rng.choice([2, 3, 4, 6, 8]) for _ in range(3)]
        elif r == 1:
            t = [float(rng.randint(-N, N)) for _ in range(3)]
        elif r == 2:
            t = [float(rng.randint(-10 ** rng.randint(3, 12), 10 ** rng.randint(3, 12))) for _ in range(3)]
        else:
            t = [rng.randint(-40, 40) / rng.choice([1, 2, 5, 10]) for _ in range(3)]
        dt = 'list' if it % 3 else 'float64'
        ctx.stats.case('oracle:roundtrip34-frac', (tuple(t), dt))
        _guard(ctx, 'roundtrip34', {'op': 'roundtrip_frac', 'idx': t, 'dtype': dt}, _o_roundtrip_frac, ctx, np, miller, t, dt)

    def build(cell, spec, probes):
        """the real object of a cell description; an exception of the implementation while it is brought there is
        the observation to report"""
        try:
            with np.errstate(all='ignore'):
                return _build(spec, probes)
        except cm.InfraError:
            raise
        except Exception as ex:  # noqa
            ctx.violate('object:setter-raises', f'bringing a Box object to a {cell["label"]} cell raised {type(ex).__name__}: '
                        f'{ex} (history {_hist(spec)})', {'op': 'family_obj', 'cell': cell, 'spec': spec})
            return None

    # 2. same Cartesian direction in hexagonal cells: every orientation, non-zero origins, fresh and re-used objects
    for hi in range(ctx.n(6, 16) * mult):
        cell = _gen_cell(rng, 'hexagonal', ORIENTS[hi % 4])
        spec = _gen_spec(rng, cell)
        sel = rng.sample(tri, ctx.n(80, 400))
        hb = build(cell, spec, {'vectors': [list(t) for t in sel[:40]] + [_ref_vector3to4(t).tolist() for t in sel[:40]]})
        if hb is None:
            continue
        for t in sel:
            ctx.stats.case('oracle:same_direction', (hi, cell['label'], _hist(spec), t))
            _guard(ctx, 'vector4:direction', {'op': 'same_direction', 'idx': list(t), 'spec': spec},
                   _o_same_direction, ctx, np, miller, hb, t, spec)
    # 3. plane normals / vectors: every family x every orientation (as built, rotated, axes permuted, mirrored) +
    #    dyadic + float triclinic, non-zero origins, fresh and re-used objects, both entry points;
    #    exhaustive triples on the first cells
    nz = [t for t in tri if t != (0, 0, 0)]
    descr = [_gen_cell(rng, fam, 'std', scale=(1.0 if fi < 4 else None)) for fi, fam in enumerate(FAMILIES)]
    for fam in FAMILIES:
        descr += [_gen_cell(rng, fam, o) for o in ('rot', 'perm', 'refl')]
    for _ in range(ctx.n(1, 3) * mult):
        descr += [_gen_cell(rng, 'dyadic', o) for o in ('std', 'perm', 'refl')]
        descr += [_gen_cell(rng, 'float-triclinic', o) for o in ('std', 'rot')]
    for _ in range(ctx.n(0, 2) * (mult - 1)):
        descr += [_gen_cell(rng, fam, 'rot') for fam in FAMILIES]
    cells = []
    for ci, cell in enumerate(descr):
        label = cell['label']
        spec = _gen_spec(rng, cell, 0 if ci < 4 else None)
        sel = nz if ci < ctx.n(4, 9) else rng.sample(nz, ctx.n(220, 2000))
        vsel = rng.sample(nz, ctx.n(100, 800))
        box = build(cell, spec, {'planes': [list(t) for t in sel], 'vectors': [list(t) for t in vsel]})
        if box is None:
            continue
        cells.append((label, box, spec, cell))
        entry = 'Box' if ci % 3 != 2 else 'miller'
        for t in sel:
            ctx.stats.case('oracle:normal', (label, ci, t))
            _guard(ctx, 'plane_normal', {'op': 'normal', 'hkl': list(t), 'spec': spec, 'cell': label, 'entry': entry},
                   _o_normal, ctx, np, box, label, t, rng, None, spec, entry)
        for t in vsel:
            ctx.stats.case('oracle:vector_cart', (label, ci, t))
            _guard(ctx, 'vector_cart', {'op': 'vector_cart', 'uvw': list(t), 'spec': spec, 'cell': label},
                   _o_vector_cart, ctx, np, miller, box, label, t, spec)
        for _ in range(ctx.n(20, 150)):         # fractional vectors: 1/2 [1 1 0], 1/3 [1 1 -2 0] as three indices, ...
            t = [rng.randint(-12, 12) / rng.choice([2, 3, 4, 6]) for _ in range(3)]
            ctx.stats.case('oracle:vector_cart', (label, ci, tuple(t)))
            _guard(ctx, 'vector_cart', {'op': 'vector_cart', 'uvw': list(t), 'spec': spec, 'cell': label},
                   _o_vector_cart, ctx, np, miller, box, label, t, spec)
        ctx.stats.case('oracle:params', (label, ci))
        _guard(ctx, 'params', {'op': 'params', 'spec': spec, 'cell': label}, _o_params, ctx, np, box, label, spec)
        for _ in range(ctx.n(12, 80)):          # larger plane indices (lcm up to ~6e4)
            t = tuple(rng.randint(-40, 40) for _ in range(3))
            if any(t):
                ctx.stats.case('oracle:normal', (label, ci, t))
                _guard(ctx, 'plane_normal', {'op': 'normal', 'hkl': list(t), 'spec': spec, 'cell': label, 'entry': entry},
                       _o_normal, ctx, np, box, label, t, rng, None, spec, entry)
        # indices beyond the exhaustive bound where integer bookkeeping done in floating point goes wrong: 49, 98, 103,
        # 107, ... (k * (1/k) != 1) next to small indices, every zero pattern with a division; random indices to 10^4
        for t in _trap_triples(rng, ctx.n(24, 200) * mult):
            held = rng.choice([None, None, 'int32', 'int64', 'int16' if max(map(abs, t)) < 2 ** 15 else 'int32'])
            ctx.stats.case('oracle:normal', (label, ci, t, held))
            _guard(ctx, 'plane_normal', {'op': 'normal', 'hkl': list(t), 'spec': spec, 'cell': label, 'entry': entry, 'held': held},
                   _o_normal, ctx, np, box, label, t, rng, None, spec, entry, held)
        # ... and held in a NARROW integer array with values whose product / lcm does not fit that dtype (int32: three
        # indices beyond 1291, two beyond 46341, powers of two multiplying to 2^31 / 2^32; int16, int8, unsigned likewise)
        for t, held in _overflow_triples(rng, ctx.n(16, 120) * mult):
            e2 = entry if rng.random() < 0.7 else ('miller' if entry == 'Box' else 'Box')
            ctx.stats.case('oracle:normal-overflow', (label, ci, t, held))
            _guard(ctx, 'plane_normal', {'op': 'normal', 'hkl': list(t), 'spec': spec, 'cell': label, 'entry': e2, 'held': held},
                   _o_normal, ctx, np, box, label, t, rng, None, spec, e2, held)
        for _ in range(ctx.n(6, 40)):           # arrays of planes with ONE row that is no (integer) plane
            shape = rng.choice([(2,), (3,), (4,), (2, 2), (1, 3), (3, 1), (2, 1, 2)])
            cnt = 1
            for d in shape:
                cnt *= d
            rows = [list(x) for x in rng.sample(nz, cnt)]
            badrow = rng.randrange(cnt)
            kind = rng.choice(['zero', 'half', 'half-cancel-row', 'half-cancel-rows', 'third'])
            if kind == 'zero':
                rows[badrow] = [0, 0, 0]
            elif kind == 'half':
                rows[badrow][rng.randrange(3)] += 0.5
            elif kind == 'half-cancel-row':
                i, j = rng.sample(range(3), 2)
                rows[badrow][i] += 0.5
                rows[badrow][j] -= 0.5
            elif kind == 'half-cancel-rows' and cnt > 1:
                other = (badrow + 1 + rng.randrange(cnt - 1)) % cnt
                i = rng.randrange(3)
                rows[badrow][i] += 0.5
                rows[other][i] -= 0.5
            else:
                rows[badrow][rng.randrange(3)] += rng.choice([1, 2]) / 3
            ctx.stats.case('oracle:normal-guard-array', (label, ci, str(rows)), nontrivial=False)
            _guard(ctx, 'plane_normal:guard-array', {'op': 'normal_guard_array', 'rows': rows, 'badrow': badrow, 'kind': kind,
                                                     'shape': list(shape), 'spec': spec, 'cell': label},
                   _o_normal_guard_array, ctx, np, box, label, rows, badrow, kind, shape, spec)
        # arrays of planes of mixed zero patterns, every pattern FIRST in turn, ordered pairs of patterns; every way of
        # holding them; both entry points; four-index form on hexagonal cells
        ishexcell = label.startswith('hexagonal')
        for oi, (pats, rows) in enumerate(_pattern_orders(rng, ctx.n(14, 49), hi=rng.choice([6, 6, 40]))):
            held = [None, 'int64', 'int32', 'float64', 'int8', 'int16'][(oi + ci) % 6]
            n_ = len(rows)
            shape = rng.choice([(n_,), (n_,), (1, n_), (n_, 1)])
            e2 = 'Box' if (oi + ci) % 3 else 'miller'
            four = ishexcell and oi % 4 == 1
            ctx.stats.case('oracle:normal-order', (label, ci, tuple(pats), held, shape, four))
            _guard(ctx, 'plane_normal', {'op': 'normal_rows', 'rows': rows, 'shape': list(shape), 'held': held, 'entry': e2,
                                         'four': four, 'spec': spec, 'cell': label},
                   _o_normal_rows, ctx, np, box, label, rows, shape, held, e2, four, spec)
    ctx.extra['oracle_cells'] = [f'{c[0]}:{_hist(c[2])}' for c in cells]
    # 3a. the same lattice written in every length unit (1e-12 ... 1e+12, exact powers of two and of ten): unit normals do not
    #     move, Cartesian vectors scale along, families are recognised
    for case in _scale_cases(rng, ctx, broken):
        ctx.stats.case('oracle:scale-sweep', (case['label'], str(case['planes']), case['held'], case['entry'], len(case['scales'])))
        _guard(ctx, 'scale', {'op': 'scale_sweep', 'case': case}, _o_scale_sweep, ctx, np, am, miller, case)
    ctx.extra['scales'] = {'pow2': [math.log2(x) for x in POW2_SCALES], 'pow10': [round(math.log10(x)) for x in POW10_SCALES],
                           'cells_scaled': sum(1 for c in cells if c[3].get('scale', 1.0) != 1.0)}
    r, e = _call(cells[0][1].plane_crystal_to_cartesian, [0, 0, 0])
    if e != 'err:value':
        ctx.violate('plane_normal:zero', 'the zero plane index vector is not rejected', {'op': 'normal-zero'})
    # 3b. four-index planes in hexagonal cells denote the same plane; guards
    M4 = ctx.n(4, 7)
    quads = [(h, k, -(h + k), l) for h in range(-M4, M4 + 1) for k in range(-M4, M4 + 1) for l in range(-M4, M4 + 1)
             if (h, k, l) != (0, 0, 0)]
    def _hexlike(box):       # own reading of 'hexagonal' (a = b, 90, 90, 120) to pick cells that are clearly not
        a_, b_, c_, al_, be_, ga_ = _params(box)
        return abs(a_ - b_) < 1e-3 * a_ and abs(al_ - 90) < 0.1 and abs(be_ - 90) < 0.1 and abs(ga_ - 120) < 0.1
    nonhex = [c for c in cells if not c[0].startswith('hexagonal') and not _hexlike(c[1])]
    for hi in range(ctx.n(4, 8) * mult):
        cell = _gen_cell(rng, 'hexagonal', ORIENTS[hi % 4])
        spec = _gen_spec(rng, cell, 0 if hi == 0 else None)
        qsel = quads if hi == 0 else rng.sample(quads, ctx.n(150, 1500))
        hb = build(cell, spec, {'planes': [list(q) for q in qsel]})
        if hb is None:
            continue
        for q in qsel:
            ctx.stats.case('oracle:normal4', (hi, cell['label'], q))
            _guard(ctx, 'plane_normal', {'op': 'normal', 'hkl': [q[0], q[1], q[3]], 'quad': list(q),
                                         'spec': spec, 'cell': cell['label']},
                   _o_normal, ctx, np, hb, cell['label'], (q[0], q[1], q[3]), rng, q, spec)
        for q in rng.sample(quads, ctx.n(40, 300)):
            label, ob, ospec, _c = rng.choice(nonhex)
            ctx.stats.case('oracle:guard4', (hi, cell['label'], label, q), nontrivial=False)
            _guard(ctx, 'plane4_guard', {'op': 'plane4_guard', 'quad': list(q), 'hexspec': spec, 'otherspec': ospec,
                                         'otherlabel': label},
                   _o_plane4_guard, ctx, np, hb, ob, label, q, spec, ospec)
    for _ in range(ctx.n(120, 1200) * mult):
        shape = rng.choice([None, None, (2, 2), (2, 3), (3, 1), (1, 2, 2)])
        cnt = rng.randint(2, 6)
        if shape is not None:
            cnt = 1
            for d in shape:
                cnt *= d
        rows = rng.sample(quads, cnt)
        offs, kind = _guard_offsets(rng, cnt)
        ctx.stats.case('oracle:guard-array', (tuple(rows), tuple(offs), shape), nontrivial=False)
        _guard(ctx, 'guard_array', {'op': 'guard_array', 'rows': [list(r) for r in rows], 'offs': offs,
                                    'shape': None if shape is None else list(shape)},
               _o_guard_array, ctx, np, miller, rows, offs, shape)
    # 3c. arrays of any leading shape, every function of the property
    hexb = am.Box.hexagonal(*[_generic_lengths(rng)[i] for i in (0, 2)])
    shape_targets = [('plane3to4', 3, None), ('vector3to4', 3, None), ('plane4to3', 4, None), ('vector4to3', 4, None),
                     ('reduce_indices', 3, None), ('reduce_indices', 4, None)]
    for label, box, spec_, _c in cells[:7] + rng.sample(cells[7:], min(len(cells) - 7, ctx.n(6, 12))):
        ex = {'vects': box.vects.tolist(), 'cell': label, 'spec': spec_}
        shape_targets += [('vector_crystal_to_cartesian', 3, ex), ('plane_crystal_to_cartesian', 3, ex)]
    exh = {'vects': hexb.vects.tolist(), 'cell': 'hexagonal'}
    shape_targets += [('vector_crystal_to_cartesian', 4, exh), ('plane_crystal_to_cartesian', 4, exh),
                      ('miller.vector_crystal_to_cartesian', 3, exh), ('miller.plane_crystal_to_cartesian', 4, exh)]
    for setting in SETTINGS:
        shape_targets += [('vector_primitive_to_conventional', 3, {'setting': setting}),
                          ('vector_conventional_to_primitive', 3, {'setting': setting})]
    for name, kk, extra in shape_targets:
        for shape in (SHAPES if not ctx.thorough and not broken else SHAPES * 3):
            cnt = 1
            for d in shape:
                cnt *= d
            rows = []
            while len(rows) < cnt:
                g = rng.choice([1, 1, 2, 3, 5])
                if kk == 3:
                    x = [g * rng.randint(-6, 6) for _ in range(3)]
                else:
                    h, k_ = g * rng.randint(-5, 5), g * rng.randint(-5, 5)
                    x = [h, k_, -(h + k_), g * rng.randint(-6, 6)]
                if name == 'reduce_indices' and kk == 4 and rng.random() < 0.5:
                    x[2] = g * rng.randint(-6, 6)
                if any(x[i] for i in ((0, 1, 2) if kk == 3 else (0, 1, 3))):
                    rows.append(x)
            ctx.stats.case('oracle:shape', (name, shape, str(extra), tuple(map(tuple, rows))))
            _guard(ctx, name + ':leading-shape', {'op': 'shape', 'fn': name, 'rows': rows, 'shape': list(shape), 'extra': extra},
                   _o_shape, ctx, np, am, miller, name, rows, shape, extra)
        if 'plane_crystal' not in name:
            for lead in ((0,), (2, 0), (0, 3)):
                ctx.stats.case('oracle:shape-empty', (name, kk, lead, str(extra)), nontrivial=False)
                _guard(ctx, name + ':leading-shape', {'op': 'empty', 'fn': name, 'k': kk, 'lead': list(lead), 'extra': extra},
                       _o_empty, ctx, np, am, miller, name, kk, lead, extra)
    # 3d. counts and thresholds: unsigned / narrow integer dtypes up to the ends of their range, every function
    dt_seen = {}
    for case in _dtype_cases(rng, ctx, cells):
        dt_seen[case['dtype']] = dt_seen.get(case['dtype'], 0) + 1
        ctx.stats.case('oracle:dtype', str(case))
        _guard(ctx, case['fn'] + ':input-dtype', {'op': 'dtype', 'case': case}, _o_dtype, ctx, np, am, miller, case)
    ctx.extra['dtype_cases'] = dt_seen
    #     thousands / tens of thousands of index sets in one call, sizes across the powers of two
    big_seen = []
    for case in _big_cases(rng, ctx, cells, broken):
        big_seen.append((case['fn'], case['n'], 'bad-row' if case.get('bad') else case['dtype']))
        ctx.stats.case('oracle:many-rows', str({k_: v for k_, v in case.items() if k_ != 'extra'}) + str((case.get('extra') or {}).get('cell')),
                       nontrivial=not case.get('bad'))
        _guard(ctx, case['fn'] + ':many-rows', {'op': 'big', 'case': case}, _o_big, ctx, np, am, miller, case)
    ctx.extra['many_rows'] = [list(x) for x in big_seen]
    # 4. centering
    for setting in SETTINGS:
        _guard(ctx, 'centering:det', {'op': 'centering_det', 'setting': setting}, _o_centering_det, ctx, np, miller, setting)
        for t in _triples(3):
            ctx.stats.case('oracle:centering', (setting, t))
            _guard(ctx, 'centering:inverse', {'op': 'centering', 'setting': setting, 'idx': list(t)},
                   _o_centering, ctx, np, miller, setting, t)
    # 5. reduce
    for t in tri:
        if t != (0, 0, 0):
            ctx.stats.case('oracle:reduce', t)
            _guard(ctx, 'reduce', {'op': 'reduce', 'idx': list(t)}, _o_reduce, ctx, np, miller, t)
    for _ in range(ctx.n(500, 5000) * mult):
        g = rng.choice([1, 2, 3, 4, 6, 9, 10])
        x = [g * rng.randint(-12, 12) for _ in range(rng.choice([3, 4]))]
        if any(x):
            ctx.stats.case('oracle:reduce', tuple(x))
            _guard(ctx, 'reduce', {'op': 'reduce', 'idx': list(x)}, _o_reduce, ctx, np, miller, x)
    for _ in range(ctx.n(300, 3000) * mult):       # huge indices (int64 range): the gcd and the quotients stay exact
        g = rng.choice([1, 2, 3, 6, 7, 10, 10 ** 6, 2 ** 20, 3 ** 12])
        hi = (2 ** 62) // g
        x = [g * rng.randint(-hi, hi) if rng.random() < 0.8 else g * rng.randint(-9, 9) for _ in range(rng.choice([3, 4]))]
        if any(x):
            ctx.stats.case('oracle:reduce', tuple(x))
            _guard(ctx, 'reduce', {'op': 'reduce', 'idx': list(x)}, _o_reduce, ctx, np, miller, x)
    for _ in range(ctx.n(60, 600) * mult):
        shape = rng.choice([(2, 2), (2, 3), (3, 2), (4,), (1, 5), (2, 2, 2), (3, 3)])
        cnt = 1
        for d in shape:
            cnt *= d
        k = rng.choice([3, 4])
        rows = []
        while len(rows) < cnt:
            g = rng.choice([1, 2, 3, 5, 7])
            x = [g * rng.randint(-6, 6) for _ in range(k)]
            if any(x):
                rows.append(x)
        ctx.stats.case('oracle:reduce-shape', (shape, tuple(map(tuple, rows))))
        _guard(ctx, 'reduce:leading-shape', {'op': 'reduce_shape', 'rows': rows, 'shape': list(shape)},
               _o_reduce_shape, ctx, np, miller, rows, shape)
    #    small bounds, the documented default 10, larger bounds ((2m+1)^3 - 1 rows: 4912 at 8, 35936 at 16, 68920 at 20)
    #    and bounds past every small prime: 37 ... 53 (one per quick run, all when thorough, then also 59 ... 101), one bound
    #    between 21 and 36 (vectorised oracle: coprime rows, every direction once, lexicographic order)
    bounds = list(range(0, ctx.n(4, 7))) + [8, 10, 12, 16, 20] + ([25, 32] if ctx.thorough else [])
    bounds += [rng.randint(21, 36)] + (BIG_BOUNDS + BIGGER_BOUNDS if ctx.thorough else
                                       ([rng.choice(BIG_BOUNDS[:-1]), BIG_BOUNDS[-1]] + ([rng.choice(BIGGER_BOUNDS[:6])] if broken else [])))
    ctx.extra['all_indices_bounds'] = bounds
    for m in bounds:
        ctx.stats.case('oracle:all_indices', m, nontrivial=m > 0)
        _guard(ctx, 'all_indices', {'op': 'all_indices', 'maxindex': m}, _o_all_indices if m <= 20 else _o_all_indices_big,
               ctx, np, miller, m)
        if m in (1, 2, 3, 10):
            _guard(ctx, 'all_indices', {'op': 'all_indices_flags', 'maxindex': m}, _o_all_indices_flags, ctx, np, miller, m)
    # 6. strings
    #    own generator (sign, several digits, prefix, bracket kind, 3|4 indices, blanks) and own reader of the text
    seen_classes = {}
    for it in range(ctx.n(1600, 16000) * mult):
        s, classes = _gen_index_string(rng, it)
        for c in classes:
            seen_classes[c] = seen_classes.get(c, 0) + 1
        ctx.stats.case('oracle:string', s)
        _guard(ctx, 'fromstring', {'op': 'string', 'string': s}, _o_string, ctx, np, miller, s)
    for s in ('[1 0 0]', '1/2 [1 1 0]', '[0 0 0 1]', '1/3 [1 1 -2 0]'):       # the docstring's examples
        ctx.stats.case('oracle:string', s)
        _guard(ctx, 'fromstring', {'op': 'string', 'string': s}, _o_string, ctx, np, miller, s)
    ctx.extra['string_classes'] = seen_classes
    # 6b. no function of the property modifies an argument; every result is a fresh array
    pure_seen = {}
    for case in _pure_cases(rng, ctx, cells, broken):
        pure_seen[case['fn']] = pure_seen.get(case['fn'], 0) + 1
        ctx.stats.case('oracle:pure', str(case))
        _guard(ctx, case['fn'] + ':pure', {'op': 'pure', 'case': case}, _o_pure, ctx, np, am, miller, case)
    ctx.extra['pure_cases'] = pure_seen
    # 7. families: as the constructors give them ...
    for it in range(ctx.n(25, 400) * mult):
        sc = 1.0 if it % 2 == 0 else _pick_scale(rng)       # every other set of constructor cells in another length unit
        ft = _family_tol(sc)
        for fam, args, box in _family_cells(rng, sc):
            ctx.stats.case('oracle:family', (fam, args))
            _guard(ctx, 'family:' + fam, {'op': 'family', 'family': fam, 'args': list(args), 'ftol': ft}, _o_family, ctx, np, fam,
                   args, box, ft)
    #    ... and in every orientation, at any origin, in fresh objects and in objects that held (and were asked about)
    #    other cells before: query -> setter -> query, compared with the family built, a fresh Box, the predicates
    for it in range(ctx.n(260, 3000) * mult):
        kind = (FAMILIES + ['dyadic', 'float-triclinic'])[it % 9] if it % 10 else 'cubic'
        cell = _gen_cell(rng, kind, ORIENTS[(it // 9) % 4])
        spec = _gen_spec(rng, cell, rng.choice([0, 1, 1, 1, 2, 2, 3]))
        ctx.stats.case('oracle:family-object', (cell['label'], _hist(spec), str(cell['vects'])))
        box = build(cell, spec, None)
        if box is None:
            continue
        _guard(ctx, 'family:object', {'op': 'family_obj', 'cell': cell, 'spec': spec}, _o_family_obj, ctx, np, cell, spec, box)
        if it % 5 == 0:
            _guard(ctx, 'params', {'op': 'params', 'spec': spec, 'cell': cell['label']}, _o_params, ctx, np, box,
                   cell['label'], spec)
    #    ... and at the tolerances asked for: cells just inside / outside non-default tolerances
    for it in range(ctx.n(400, 5000) * mult):
        case = _gen_boundary_case(rng, it)
        ctx.stats.case('oracle:family-tolerances', str(case))
        _guard(ctx, 'family:tolerances', {'op': 'family_boundary', 'case': case}, _o_family_boundary, ctx, np, case)


def _replay(ctx, payload):
    """re-run one stored case (oracle cases by input; model disagreements by driver line) on the current tree."""
    np = _np()
    import atomman as am
    from atomman.tools import miller
    r = payload.get('replay', {})
    op = r.get('op')
    rng = random.Random(0)
    if op == 'roundtrip34':
        _o_roundtrip34(ctx, np, miller, r['idx'])
    elif op == 'same_direction':
        t = r['idx']
        hb = _build(_spec_of(r), {'vectors': [list(t), _ref_vector3to4(t).tolist()]})
        _o_same_direction(ctx, np, miller, hb, t, r.get('spec'))
    elif op == 'normal':
        box = _build(_spec_of(r), {'planes': [r.get('quad') or r['hkl']]})
        _o_normal(ctx, np, box, r.get('cell', '?'), r['hkl'], rng, r.get('quad'), r.get('spec'), r.get('entry', 'Box'),
                  r.get('held'))
    elif op == 'vector_cart':
        box = _build(_spec_of(r), {'vectors': [r['uvw']]})
        _o_vector_cart(ctx, np, miller, box, r.get('cell', '?'), r['uvw'], r.get('spec'))
    elif op == 'plane4_guard':
        if 'hexspec' in r:
            hb, ob = _build(r['hexspec'], {'planes': [r['quad']]}), _build(r['otherspec'], {'planes': [r['quad']]})
        else:
            hb, ob = am.Box(vects=r['hex']), am.Box(vects=r['other'])
        _o_plane4_guard(ctx, np, hb, ob, r.get('otherlabel', '?'), r['quad'], r.get('hexspec'), r.get('otherspec'))
    elif op == 'family_obj':
        _o_family_obj(ctx, np, r['cell'], r['spec'], _build(r['spec'], None))
    elif op == 'family_boundary':
        _o_family_boundary(ctx, np, r['case'])
    elif op == 'scale_sweep':
        _o_scale_sweep(ctx, np, am, miller, r['case'])
    elif op == 'params':
        _o_params(ctx, np, _build(_spec_of(r), None), r.get('cell', '?'), r.get('spec'))
    elif op == 'pure':
        _o_pure(ctx, np, am, miller, r['case'])
    elif op == 'roundtrip_frac':
        _o_roundtrip_frac(ctx, np, miller, r['idx'], r.get('dtype', 'list'))
    elif op == 'dtype':
        _o_dtype(ctx, np, am, miller, r['case'])
    elif op == 'big':
        _o_big(ctx, np, am, miller, r['case'])
    elif op == 'empty':
        _o_empty(ctx, np, am, miller, r['fn'], r['k'], tuple(r['lead']), r.get('extra'))
    elif op == 'all_indices_flags':
        _o_all_indices_flags(ctx, np, miller, r['maxindex'])
    elif op == 'normal_rows':
        _o_normal_rows(ctx, np, _build(_spec_of(r), None), r.get('cell', '?'), r['rows'], r.get('shape'), r.get('held'),
                       r.get('entry', 'Box'), r.get('four', False), r.get('spec'))
    elif op == 'normal_guard_array':
        _o_normal_guard_array(ctx, np, _build(_spec_of(r), None), r.get('cell', '?'), r['rows'], r['badrow'], r['kind'],
                              tuple(r['shape']), r.get('spec'))
    elif op == 'guard_array':
        _o_guard_array(ctx, np, miller, r['rows'], r['offs'], r.get('shape'))
    elif op == 'shape':
        _o_shape(ctx, np, am, miller, r['fn'], r['rows'], tuple(r['shape']), r.get('extra'))
    elif op == 'centering':
        _o_centering(ctx, np, miller, r['setting'], r['idx'])
    elif op == 'centering_det':
        _o_centering_det(ctx, np, miller, r['setting'])
    elif op == 'reduce':
        _o_reduce(ctx, np, miller, r['idx'])
    elif op == 'all_indices':
        (_o_all_indices if r['maxindex'] <= 20 else _o_all_indices_big)(ctx, np, miller, r['maxindex'])
    elif op == 'reduce_shape':
        _o_reduce_shape(ctx, np, miller, r['rows'], tuple(r['shape']))
    elif op == 'string':
        _o_string(ctx, np, miller, r['string'], r.get('frac'), r.get('idx'))
    elif op == 'family':
        fam, args = r['family'], r['args']
        ctor = {'cubic': am.Box.cubic, 'hexagonal': am.Box.hexagonal, 'tetragonal': am.Box.tetragonal,
                'rhombohedral': am.Box.trigonal, 'orthorhombic': am.Box.orthorhombic,
                'monoclinic': am.Box.monoclinic, 'triclinic': am.Box.triclinic}[fam]
        _o_family(ctx, np, fam, args, ctor(*args), r.get('ftol'))
    else:
        if ctx.driver is not None:
            correspond(ctx)
        search(ctx, True)


def replay(ctx, payload):
    r = payload.get('replay', {})
    _guard(ctx, 'replay', r, _replay, ctx, payload)
    print(f'replay {r.get("op")}: {"still fails" if (ctx.violations or ctx.disagreements) else "passes now"}')


MANIFEST = {
    'text': 'Lean 4 theorems over an executable model of miller.py / the Box family predicates, for ALL integers and every '
            'ordered field: 3<->4 index round trips with the explicit sum guard, four-index vectors denote the same '
            'Cartesian vector, in every one of the 7 zero-pattern branches the in-plane pair gives s(a x b) = positive '
            'rational * (h,k,l), hence the returned normal is the unit vector along h a*+k b*+l c* for det>0 and the zone law '
            'n.(uvw V)=0 <-> hu+kv+lw=0; the 16 centering matrices are regenerated from miller.py on every run and proved '
            'mutually inverse with det 1/n and n; reduce_indices gives coprime indices of the same direction, all_indices '
            'lists exactly the bounded non-zero triples; every well-formed index string (optional p/q, four bracket kinds, 3 or '
            '4 integers of any size and sign, free spacing) parses to exactly the numbers it shows; an array of four-index '
            'sets is accepted iff every row passes its own guard; family predicates/identifyfamily identify every '
            'family-constructor parameter set; a cell rotated by a proper rotation R has vectors and plane normals rotated by R '
            '(normal of a rotated cubic cell = (h,k,l).R), mirrored cells flip the normal; the Box OBJECT (vects, origin, '
            'reciprocal cache, setters) answers from its current cell only, its reciprocal cache is valid after any history, '
            'vectors/normals/family ignore the origin and a vector is a difference of positions; an array of planes is '
            'accepted iff every row is a plane on its own; in the model of the CALLER\'s memory (arrays by address; alloc, call, '
            'caller write) a call changes no existing array, stores f(contents of the argument) at a fresh address, and '
            'call -> caller overwrites the result -> identical call returns the identical value (true by construction in a '
            'functional model; tied to numpy by running the same histories on real int/float arrays and views); a long array of '
            'planes / four-index sets evaluated in blocks is the array evaluated whole, wherever it is cut; both in-plane vectors '
            'satisfy the zone law exactly (the integer quotients lose nothing); the four-index form of a plane with h, k >= 0, '
            'h+k > 0 has a negative third index (it cannot stay in an unsigned dtype); the first row of an array of planes gets its '
            'own result and decides nothing about the others, the same planes in any order give the same normals permuted; every '
            'row of all_indices(m, reduce) is coprime for EVERY bound m and the rows come in strictly increasing lexicographic order '
            '(np.unique as modelled: sorted, nothing twice). SOURCE TIE: the column formulas and guards of the four 3<->4 functions, '
            'the seven-branch tree of plane_cryst_2_cart (conditions, lcm / sign arguments, quotient indices), its cross product and '
            'final division, reduce_indices, the bracket order of fromstring, the 14 family predicates, both identifyfamily chains and '
            'the default tolerances are regenerated from miller.py / Box.py / crystalsystem.py on every run '
            '(Generated/MillerSource.lean) and proved equal to the model (37 gen_ obligations, statement pins for the numpy '
            'sequencing); end to end over the generated definitions: the returned normal is perpendicular to the returned [uvw] '
            'vector iff hu+kv+lw = 0, is the unit vector along the reciprocal-lattice vector for det > 0, and does not depend on the '
            'unit the cell lengths are written in (scale invariance, every t > 0); with atol = 0 the family predicates do not see '
            'the length unit either. The model is tied to the code by an exhaustive differential run (all index triples to the bound, '
            'cells of every family in four orientations with non-zero origins, one model object and one real object taken '
            'through the same setter histories, strings, boundary parameter sets).',
    'note': 'Trusted: Lean kernel + propext/Classical.choice/Quot.sound; the table translator (harness/props/c16.py); numpy '
            'primitives; norm (sqrt) and the float rounding bound of the cross product are assumptions; Python float() '
            'numerals modelled for the integer grammar only; Box.a..gamma (sqrt/arccos) are inputs of the family model.',
    'technique': 'Lean 4 theorems over a hand-written model proved equal to translator-generated definitions (tables, formulas, '
                 'branch trees, predicates) + statement pins + differential correspondence',
}
