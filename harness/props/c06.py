"""C06 — per-atom data stays rectangular, row-aligned, unaliased under any edit sequence.

correspond(): random operation histories over Atoms/System objects are executed on the real atomman
(built from the working tree) and on the compiled Lean model (lean/Atomman/C06.lean, driver drv_c06);
after EVERY operation the reply (value / new object / exception class) and a canonical dump of all
live objects (key order, dtype class, shape, values, System symbols/masses/pbc) plus the
np.shares_memory relation between all live arrays are compared.  A failing history is shrunk to a
minimal operation list.

search(): an independent record-per-atom oracle written in Python (no buffers, no views: one record
per atom, every object owns its records) is run next to the real code on histories of *valid*
operations and the property's clauses are evaluated on the real objects after every step.
"""
from __future__ import annotations

import copy
import json
import random
from collections import OrderedDict
from fractions import Fraction

from .. import common as cm

PROP = 'C06'
THEOREMS = []          # filled in below (only proved names)
PARTIAL = {}
RULE = ''
ASSUMPTIONS = []
TRUSTED = []

KEYS = ['p0', 'p1', 'p2', 'p3', 'p4']
STRS = ['a', 'b', 'Fe', 'Al', 'xyz', 'Q', 'uvw', 'Cu', '']
SYMS = ['Al', 'Fe', 'Cu', 'Ni', 'X']
TRAILS = [[], [], [3], [3, 3]]
ERRCLS = {ValueError: 'value', TypeError: 'type', IndexError: 'index', KeyError: 'key', AssertionError: 'assert'}


def _np():
    import numpy as np
    return np


# ----------------------------------------------------------------------------------------------
# literals, indices, wire format
# ----------------------------------------------------------------------------------------------

def lit(dt, shape, data, w=None):
    d = {'dt': dt, 'shape': list(shape), 'data': list(data)}
    if dt == 's':
        d['w'] = w if w is not None else max([1] + [len(x) for x in data])
    return d


def lit_np(l):
    """fresh ndarray (or python scalar for 0-d) of a literal spec."""
    np = _np()
    dt = {'i': np.int64, 'f': np.float64, 'b': np.bool_, 's': None}[l['dt']]
    if l['dt'] == 's':
        dt = f"<U{l['w']}"
    arr = np.array(l['data'], dtype=dt).reshape(l['shape'])
    return arr


def lit_arg(l):
    """what is passed to atomman: python scalar for 0-d, fresh ndarray otherwise."""
    arr = lit_np(l)
    if arr.ndim == 0:
        return arr.item()
    return arr


def dt_token(arr):
    k = arr.dtype.kind
    if k in 'iu':
        return 'i'
    if k == 'f':
        return 'f'
    if k == 'b':
        return 'b'
    if k == 'U':
        return 's%d' % (arr.dtype.itemsize // 4)
    return '?' + k


def cell_tokens(arr):
    k = arr.dtype.kind
    flat = arr.ravel().tolist()
    if k in 'iu':
        return [str(int(x)) for x in flat]
    if k == 'f':
        return [cm.fr(x) for x in flat]
    if k == 'b':
        return ['1' if x else '0' for x in flat]
    if k == 'U':
        return ['_' + x for x in flat]
    return ['?'] * len(flat)


def val_wire(arr):
    np = _np()
    arr = np.asarray(arr)
    return ' '.join(['V', dt_token(arr), str(arr.ndim)] + [str(d) for d in arr.shape] + cell_tokens(arr))


def lit_wire(l):
    if l is None:
        return '.'
    return val_wire(lit_np(l))


def ix_wire(ix):
    if ix is None:
        return '.'
    t = ix[0]
    if t == 'I':
        return f'I {ix[1]}'
    if t == 'S':
        return 'S ' + ' '.join('.' if v is None else str(v) for v in ix[1:4])
    if t == 'L':
        return ' '.join(['L', str(len(ix[1]))] + [str(v) for v in ix[1]])
    if t == 'K':
        return ' '.join(['K', str(len(ix[1]))] + ['1' if v else '0' for v in ix[1]])
    raise ValueError(ix)


def ix_py(ix):
    np = _np()
    if ix is None:
        return None
    t = ix[0]
    if t == 'I':
        return int(ix[1])
    if t == 'S':
        return slice(ix[1], ix[2], ix[3])
    if t == 'L':
        return [int(v) for v in ix[1]]
    if t == 'K':
        return np.array(ix[1], dtype=bool)
    raise ValueError(ix)


def syms_wire(l):
    if l is None:
        return '.'
    return ' '.join([str(len(l))] + ['~' if x is None else '_' + x for x in l])


def masses_wire(l):
    if l is None:
        return '.'
    return ' '.join([str(len(l))] + ['~' if x is None else cm.fr(x) for x in l])


# ----------------------------------------------------------------------------------------------
# the world of live real objects, and its model twin
# ----------------------------------------------------------------------------------------------

class World:
    def __init__(self):
        self.atoms = OrderedDict()    # handle -> am.Atoms
        self.syss = OrderedDict()     # handle -> am.System
        self.mid = {}                 # handle -> model id

    def live_arrays(self):
        out = []
        for h, a in self.atoms.items():
            for k in a.view:
                out.append((h, k, a.view[k]))
        return out


def op_line(op, W):
    """wire form of an operation (handles replaced by model ids); None if a handle is unknown."""
    m = W.mid
    k = op['op']
    try:
        if k == 'new':
            ex = op.get('extra', [])
            return ' '.join(['op new', '.' if op.get('natoms') is None else str(op['natoms']), lit_wire(op.get('atype')),
                             lit_wire(op.get('pos')), str(len(ex))] + [kk + ' ' + lit_wire(v) for kk, v in ex])
        if k == 'setv':
            return f"op setv {m[op['o']]} {op['key']} {lit_wire(op['val'])}"
        if k == 'pget':
            return f"op pget {m[op['o']]} {op['key']} {ix_wire(op.get('ix'))}"
        if k == 'pkeys':
            return f"op pkeys {m[op['o']]}"
        if k == 'pgeta':
            return f"op pgeta {m[op['o']]} {ix_wire(op['ix'])}"
        if k == 'pset':
            return f"op pset {m[op['o']]} {op['key']} {ix_wire(op.get('ix'))} {lit_wire(op['val'])}"
        if k == 'pseta':
            return f"op pseta {m[op['o']]} {ix_wire(op.get('ix'))} {m[op['src']]}"
        if k == 'geti':
            return f"op geti {m[op['o']]} {ix_wire(op['ix'])}"
        if k == 'seti':
            return f"op seti {m[op['o']]} {ix_wire(op['ix'])} {m[op['src']]}"
        if k == 'patype':
            return f"op patype {m[op['o']]} {op['key']} {lit_wire(op['val'])} {'.' if op.get('t') is None else op['t']}"
        if k == 'exti':
            return f"op exti {m[op['o']]} {op['n']}"
        if k == 'exta':
            return f"op exta {m[op['o']]} {m[op['src']]}"
        if k == 'dcopy':
            return f"op dcopy {m[op['o']]}"
        if k == 'natypes':
            return f"op natypes {m[op['o']]}"
        if k == 'mksys':
            return ' '.join([f"op mksys {m[op['o']]}", cm.frs(op['box']), str(len(op['pbc']))]
                            + ['1' if b else '0' for b in op['pbc']]
                            + [syms_wire(op.get('symbols')), masses_wire(op.get('masses'))])
        if k in ('symget', 'massget', 'snatypes'):
            return f"op {k} {m[op['s']]}"
        if k == 'symset':
            return f"op symset {m[op['s']]} {syms_wire(op['symbols'])}"
        if k == 'massset':
            return f"op massset {m[op['s']]} {masses_wire(op['masses'])}"
        if k == 'pbcset':
            return ' '.join([f"op pbcset {m[op['s']]}", str(len(op['pbc']))] + ['1' if b else '0' for b in op['pbc']])
        if k == 'spget':
            return f"op spget {m[op['s']]} {op['key']} {ix_wire(op.get('ix'))}"
        if k == 'spgeta':
            return f"op spgeta {m[op['s']]} {ix_wire(op['ix'])}"
        if k == 'spset':
            return (f"op spset {m[op['s']]} {op['key']} {ix_wire(op.get('ix'))} {'1' if op['scale'] else '0'} "
                    f"{lit_wire(op['val'])}")
        if k == 'spseta':
            return f"op spseta {m[op['s']]} {ix_wire(op.get('ix'))} {'1' if op['scale'] else '0'} {m[op['src']]}"
        if k == 'sext':
            v = op['value']
            body = f"i {m[op['s']]} {v[1]}" if v[0] == 'i' else f"a {m[op['s']]} {m[v[1]]}"
            return f"op sext {body} {'1' if op['scale'] else '0'} {syms_wire(op.get('symbols'))}"
        if k == 'ixget':
            return f"op ixget {m[op['s']]} {ix_wire(op['ix'])}"
        if k == 'ixset':
            v = op['src']
            return f"op ixset {v[0]} {m[op['s']]} {ix_wire(op['ix'])} {m[v[1]]}"
    except KeyError:
        return None
    raise ValueError(k)


def _canon_val(tokens):
    """reply tokens of a value: 0-d strings carry no width."""
    if len(tokens) >= 3 and tokens[0] == 'V' and tokens[2] == '0' and tokens[1].startswith('s'):
        tokens = [tokens[0], 's'] + tokens[2:]
    return ' '.join(tokens)


def exec_real(op, W):
    """run the operation on the real objects.  Returns the canonical reply string (model format with
    ids removed) and the list of (kind, handle, object) created."""
    import atomman as am
    np = _np()
    k = op['op']
    A, S = W.atoms, W.syss
    created = []
    try:
        if k == 'new':
            kw = OrderedDict()
            if op.get('natoms') is not None:
                kw['natoms'] = op['natoms']
            if op.get('atype') is not None:
                kw['atype'] = lit_arg(op['atype'])
            if op.get('pos') is not None:
                kw['pos'] = lit_arg(op['pos'])
            for kk, v in op.get('extra', []):
                kw[kk] = lit_arg(v)
            a = am.Atoms(**kw)
            created.append(('a', 'a%d' % op['id'], a))
            rep = 'ok o'
        elif k == 'setv':
            if op.get('via') == 'attr':
                setattr(A[op['o']], op['key'], lit_arg(op['val']))
            else:
                A[op['o']].view[op['key']] = lit_arg(op['val'])
            rep = 'ok'
        elif k in ('pget', 'spget'):
            if k == 'pget':
                r = A[op['o']].prop(key=op['key'], index=ix_py(op.get('ix')))
            else:
                r = S[op['s']].atoms_prop(key=op['key'], index=ix_py(op.get('ix')))
            W.last_out = r
            rep = 'ok v ' + _canon_val(val_wire(r).split(' '))
        elif k == 'pkeys':
            r = A[op['o']].prop()
            rep = ' '.join(['ok k', str(len(r))] + list(r))
        elif k in ('pgeta', 'spgeta'):
            if k == 'pgeta':
                a = A[op['o']].prop(index=ix_py(op['ix']))
            else:
                a = S[op['s']].atoms_prop(index=ix_py(op['ix']))
            created.append(('a', 'a%d' % op['id'], a))
            rep = 'ok o'
        elif k == 'pset':
            A[op['o']].prop(key=op['key'], index=ix_py(op.get('ix')), value=lit_arg(op['val']))
            rep = 'ok'
        elif k == 'pseta':
            A[op['o']].prop(index=ix_py(op.get('ix')), value=A[op['src']])
            rep = 'ok'
        elif k == 'geti':
            a = A[op['o']][ix_py(op['ix'])]
            created.append(('a', 'a%d' % op['id'], a))
            rep = 'ok o'
        elif k == 'seti':
            A[op['o']][ix_py(op['ix'])] = A[op['src']]
            rep = 'ok'
        elif k == 'patype':
            A[op['o']].prop_atype(op['key'], lit_arg(op['val']), atype=op.get('t'))
            rep = 'ok'
        elif k == 'exti':
            a = A[op['o']].extend(op['n'])
            created.append(('a', 'a%d' % op['id'], a))
            rep = 'ok o'
        elif k == 'exta':
            a = A[op['o']].extend(A[op['src']])
            created.append(('a', 'a%d' % op['id'], a))
            rep = 'ok o'
        elif k == 'dcopy':
            a = copy.deepcopy(A[op['o']])
            created.append(('a', 'a%d' % op['id'], a))
            rep = 'ok o'
        elif k == 'natypes':
            rep = 'ok n %d' % A[op['o']].natypes
        elif k == 'mksys':
            b = op['box']
            box = am.Box(vects=np.array(b[:9], dtype=float).reshape(3, 3), origin=np.array(b[9:], dtype=float))
            kw = {}
            if op.get('symbols') is not None:
                kw['symbols'] = list(op['symbols'])
            if op.get('masses') is not None:
                kw['masses'] = list(op['masses'])
            s = am.System(atoms=A[op['o']], box=box, pbc=list(op['pbc']), **kw)
            created.append(('s', 's%d' % op['id'], s))
            rep = 'ok os'
        elif k == 'symget':
            r = S[op['s']].symbols
            rep = 'ok y ' + syms_wire(list(r))
        elif k == 'symset':
            S[op['s']].symbols = list(op['symbols'])
            rep = 'ok'
        elif k == 'massget':
            r = S[op['s']].masses
            rep = 'ok w ' + masses_wire(list(r))
        elif k == 'massset':
            S[op['s']].masses = list(op['masses'])
            rep = 'ok'
        elif k == 'pbcset':
            S[op['s']].pbc = list(op['pbc'])
            rep = 'ok'
        elif k == 'snatypes':
            rep = 'ok n %d' % S[op['s']].natypes
        elif k == 'spset':
            S[op['s']].atoms_prop(key=op['key'], index=ix_py(op.get('ix')), value=lit_arg(op['val']),
                                  scale=bool(op['scale']))
            rep = 'ok'
        elif k == 'spseta':
            S[op['s']].atoms_prop(index=ix_py(op.get('ix')), value=A[op['src']], scale=bool(op['scale']))
            rep = 'ok'
        elif k == 'sext':
            v = op['value']
            val = int(v[1]) if v[0] == 'i' else A[v[1]]
            kw = {}
            if op.get('symbols') is not None:
                kw['symbols'] = list(op['symbols'])
            s = S[op['s']].atoms_extend(val, scale=bool(op['scale']), **kw)
            created.append(('a', 'a%d' % op['id'], s.atoms))
            created.append(('s', 's%d' % op['id'], s))
            rep = 'ok os'
        elif k == 'ixget':
            s = S[op['s']].atoms_ix[ix_py(op['ix'])]
            created.append(('a', 'a%d' % op['id'], s.atoms))
            created.append(('s', 's%d' % op['id'], s))
            rep = 'ok os'
        elif k == 'ixset':
            v = op['src']
            S[op['s']].atoms_ix[ix_py(op['ix'])] = A[v[1]] if v[0] == 'a' else S[v[1]]
            rep = 'ok'
        else:
            raise RuntimeError('unknown op ' + k)
    except (ValueError, TypeError, IndexError, KeyError, AssertionError) as e:
        cls = next(c for t, c in ERRCLS.items() if isinstance(e, t))
        W.last_exc = f'{type(e).__name__}: {e}'
        return 'err:' + cls, []
    return rep, created


def canon_model_reply(rep):
    """strip ids from the model's reply -> comparable with exec_real's; returns (canon, new ids)."""
    t = rep.split(' ')
    if t[0] != 'ok':
        return rep, []
    if len(t) >= 2 and t[1] == 'o':
        return 'ok o', [int(t[2])]
    if len(t) >= 2 and t[1] == 'os':
        return 'ok os', [int(t[2]), int(t[3])]
    if len(t) >= 2 and t[1] == 'v':
        return 'ok v ' + _canon_val(t[2:]), []
    return rep, []


def dump_real(W):
    """same token stream as the driver's `dump`."""
    np = _np()
    parts = []
    arrs = []
    for h, a in W.atoms.items():
        keys = list(a.view.keys())
        parts.append(f'O {W.mid[h]} {a.natoms} {len(keys)}')
        for k in keys:
            arr = a.view[k]
            parts.append(k + ' ' + val_wire(arr))
            arrs.append(arr)
    for h, s in W.syss.items():
        aid = next((W.mid[ah] for ah, a in W.atoms.items() if a is s.atoms), -1)
        pbc = [bool(x) for x in np.asarray(s.pbc).tolist()]
        sy = list(s._System__symbols)
        ms = list(s._System__masses)
        parts.append(' '.join(['Y', str(W.mid[h]), str(aid), str(len(pbc))] + ['1' if b else '0' for b in pbc]
                              + [syms_wire(sy), masses_wire(ms)]))
    sh = []
    n = len(arrs)
    for i in range(n):
        ai = arrs[i]
        if ai.size == 0:
            continue
        for j in range(i + 1, n):
            if np.may_share_memory(ai, arrs[j]) and np.shares_memory(ai, arrs[j]):
                sh.append(f'{i}-{j}')
    parts.append(f'SH {len(sh)}')
    parts.extend(sh)
    return ' '.join(parts)


def dump_line(W):
    return ' '.join(['dump', str(len(W.atoms))] + [str(W.mid[h]) for h in W.atoms]
                    + [str(len(W.syss))] + [str(W.mid[h]) for h in W.syss])


# ----------------------------------------------------------------------------------------------
# generator
# ----------------------------------------------------------------------------------------------

def gen_cells(rng, dt, n, key=None):
    if dt == 'i':
        if key == 'atype':
            return [rng.choice([1, 1, 2, 2, 3]) for _ in range(n)]
        return [rng.randint(-3, 9) for _ in range(n)]
    if dt == 'f':
        if key == 'atype':
            return [rng.choice([1.0, 2.0, 1.5, 2.75, 3.0]) for _ in range(n)]
        return [cm.dyadic(rng, -4, 4, 3) for _ in range(n)]
    if dt == 'b':
        return [rng.random() < 0.5 for _ in range(n)]
    return [rng.choice(STRS) for _ in range(n)]


def _prod(shape):
    p = 1
    for d in shape:
        p *= d
    return p


def gen_lit(rng, dt, shape, key=None):
    return lit(dt, shape, gen_cells(rng, dt, _prod(shape), key))


def gen_index(rng, n, bad=False):
    """an index against leading length n (mostly valid)."""
    r = rng.random()
    if bad and r < 0.5:
        c = rng.random()
        if c < 0.3:
            return ['I', rng.choice([n, n + 2, -n - 1, -n - 3])]
        if c < 0.55:
            return ['L', [rng.randint(0, max(0, n - 1)), rng.choice([n, -n - 1, n + 3])]]
        if c < 0.8:
            return ['K', [rng.random() < 0.5 for _ in range(n + rng.choice([1, 2, -1]) if n > 0 else 2)]]
        return ['S', rng.choice([None, 0]), None, 0]
    if r < 0.2 and n > 0:
        return ['I', rng.randint(-n, n - 1)]
    if r < 0.55:
        def bound():
            c = rng.random()
            if c < 0.3:
                return None
            if c < 0.9:
                return rng.randint(-n - 1, n + 1)
            return rng.choice([n + 3, -n - 3])
        step = rng.choice([None, None, None, 1, 2, 2, -1, -2, 3])
        return ['S', bound(), bound(), step]
    if r < 0.8:
        k = rng.randint(0, max(1, n + 1)) if n > 0 else 0
        if n == 0:
            return ['L', []]
        if rng.random() < 0.8:
            pool = list(range(n))
            rng.shuffle(pool)
            sel = pool[:min(k, n)]
        else:
            sel = [rng.randrange(n) for _ in range(k)]
        return ['L', [i if rng.random() < 0.7 else i - n for i in sel]]
    return ['K', [rng.random() < 0.5 for _ in range(n)]]


def sel_count(n, ix):
    """number of rows an index selects on a length-n axis, or None if it raises / is an int."""
    np = _np()
    try:
        r = np.arange(n)[ix_py(ix)]
    except Exception:
        return None
    return None if np.ndim(r) == 0 else int(len(r))


def arr_info(arr):
    k = arr.dtype.kind
    return {'i': 'i', 'u': 'i', 'f': 'f', 'b': 'b', 'U': 's'}.get(k, '?'), list(arr.shape[1:])


def gen_write_lit(rng, cls, trail, k, key=None, bad=False):
    """a value to write into k rows of trailing shape `trail` of dtype class cls."""
    if cls == 's':
        dt = 's'
    else:
        dt = cls if rng.random() < 0.7 else rng.choice(['i', 'f', 'b'])
    c = rng.random()
    if bad and c < 0.6:
        kk = k if k is not None else 1
        shape = rng.choice([[kk + 1] + trail, [kk + 2], [2, 2], trail + [2], [kk, 2] if trail != [2] else [kk, 4]])
    elif c < 0.45 or k is None:
        shape = ([k] if k is not None else []) + trail
    elif c < 0.65:
        shape = []
    elif c < 0.8:
        shape = [1] + trail
    elif c < 0.9:
        shape = list(trail)
    else:
        shape = ([k] if k is not None else []) + trail
    l = gen_lit(rng, dt, shape, key)
    if key == 'atype' and bad and rng.random() < 0.5 and l['data']:
        l['data'][rng.randrange(len(l['data']))] = rng.choice([0, -1]) if dt != 'b' else False
    return l


def gen_new(rng, k, nmax=6):
    n = rng.choice([1, 2, 3, 3, 4, 5, nmax])
    op = {'op': 'new', 'id': k}
    c = rng.random()
    if c < 0.75:
        op['atype'] = gen_lit(rng, 'i', [n], 'atype')
    elif c < 0.85:
        op['atype'] = lit('i', [], [rng.choice([1, 2])])
    if rng.random() < 0.8:
        op['pos'] = gen_lit(rng, 'f', [n, 3])
    elif rng.random() < 0.5:
        op['pos'] = gen_lit(rng, 'f', [1, 3])
    if rng.random() < 0.25 or ('atype' not in op and 'pos' not in op):
        op['natoms'] = n if rng.random() < 0.9 else n + 1
    extra = []
    keys = KEYS[:]
    rng.shuffle(keys)
    for kk in keys[:rng.choice([0, 1, 1, 2, 3])]:
        dt = rng.choice(['i', 'f', 'f', 'b', 's'])
        trail = rng.choice(TRAILS)
        c = rng.random()
        shape = [n] + trail if c < 0.7 else ([] if c < 0.85 else [1] + trail)
        extra.append([kk, gen_lit(rng, dt, shape)])
    op['extra'] = extra
    return op


def gen_box(rng):
    d = lambda: rng.choice([1.0, 2.0, 4.0, 0.5, 3.0])
    t = lambda: rng.choice([0.0, 0.0, 0.5, -0.5, 1.0])
    return [d(), 0.0, 0.0, t(), d(), 0.0, t(), t(), d(), rng.choice([0.0, 0.5, -1.0]), rng.choice([0.0, 0.25]), 0.0]


def gen_syms(rng, lo=0, hi=4):
    return [rng.choice(SYMS) if rng.random() < 0.85 else None for _ in range(rng.randint(lo, hi))]


def gen_masses(rng, lo=0, hi=4):
    return [cm.dyadic(rng, 1, 64, 2) if rng.random() < 0.85 else None for _ in range(rng.randint(lo, hi))]


def gen_op(rng, W, k, malformed=0.12):
    """next operation given the live real objects (the generator sees only shapes/keys, never values)."""
    A, S = W.atoms, W.syss
    bad = rng.random() < malformed
    if not A or (len(A) < 2 and rng.random() < 0.5) or rng.random() < 0.04:
        return gen_new(rng, k)
    if len(A) > 6:
        bound = {id(s.atoms) for s in S.values()}
        free = [h for h, a in A.items() if id(a) not in bound]
        if free:
            return {'op': 'drop', 'o': rng.choice(free)}
        return {'op': 'drop', 's': rng.choice(list(S))}
    h = rng.choice(list(A))
    a = A[h]
    n = a.natoms
    keys = list(a.view.keys())
    pick_key = lambda: rng.choice(keys) if rng.random() < 0.85 else rng.choice(['atype', 'pos'])
    kinds = ['setv'] * 10 + ['pget'] * 6 + ['pkeys'] + ['pgeta'] * 3 + ['pset'] * 10 + ['pseta'] * 3 + ['geti'] * 8 \
        + ['seti'] * 5 + ['patype'] * 5 + ['exti'] * 3 + ['exta'] * 5 + ['dcopy'] * 2 + ['natypes'] * 2 + ['mksys'] * 4
    if S:
        kinds += ['symget', 'symset', 'massget', 'massset', 'pbcset', 'snatypes'] * 2 + ['spget', 'spgeta'] \
            + ['spset'] * 4 + ['spseta'] * 2 + ['sext'] * 5 + ['ixget'] * 4 + ['ixset'] * 3
    kind = rng.choice(kinds)
    if kind in ('symget', 'symset', 'massget', 'massset', 'pbcset', 'snatypes', 'spget', 'spgeta', 'spset', 'spseta',
                'sext', 'ixget', 'ixset'):
        sh = rng.choice(list(S))
        s = S[sh]
        a = s.atoms
        n = a.natoms
        keys = list(a.view.keys())
    if kind == 'setv':
        if rng.random() < 0.55 or bad:
            key = pick_key()
        else:
            key = rng.choice(KEYS)
        if key in keys:
            cls, trail = arr_info(a.view[key])
        else:
            cls, trail = rng.choice(['i', 'f', 'f', 'b', 's']), rng.choice(TRAILS)
        v = gen_write_lit(rng, cls, trail, n, key, bad)
        return {'op': 'setv', 'o': h, 'key': key, 'val': v, 'via': rng.choice(['view', 'attr', 'view'])}
    if kind in ('pget', 'spget'):
        key = pick_key() if not (bad and rng.random() < 0.4) else 'nokey'
        ix = None if rng.random() < 0.3 else gen_index(rng, n, bad)
        return {'op': 'pget', 'o': h, 'key': key, 'ix': ix} if kind == 'pget' else \
            {'op': 'spget', 's': sh, 'key': key, 'ix': ix}
    if kind == 'pkeys':
        return {'op': 'pkeys', 'o': h}
    if kind == 'pgeta':
        return {'op': 'pgeta', 'o': h, 'ix': gen_index(rng, n, bad), 'id': k}
    if kind == 'spgeta':
        return {'op': 'spgeta', 's': sh, 'ix': gen_index(rng, n, bad), 'id': k}
    if kind in ('pset', 'spset'):
        scale = kind == 'spset' and rng.random() < 0.6
        if scale:
            cands = [kk for kk in keys if arr_info(a.view[kk]) == ('f', [3])] or ['pos']
            key = rng.choice(cands)
        else:
            key = pick_key() if not (bad and rng.random() < 0.3) else 'nokey'
        if key in keys:
            cls, trail = arr_info(a.view[key])
        else:
            cls, trail = 'f', [3] if scale else []
        if rng.random() < 0.25:
            ix, cnt = None, n
        else:
            ix = gen_index(rng, n, bad)
            cnt = sel_count(n, ix)
        if scale:
            shape = ([cnt] if cnt is not None else []) + [3]
            if rng.random() < 0.2:
                shape = [3]
            if bad and rng.random() < 0.5:
                shape = shape[:-1] + [2]
            v = gen_lit(rng, rng.choice(['f', 'f', 'i']), shape)
        else:
            v = gen_write_lit(rng, cls, trail, cnt, key, bad)
        if kind == 'pset':
            return {'op': 'pset', 'o': h, 'key': key, 'ix': ix, 'val': v}
        return {'op': 'spset', 's': sh, 'key': key, 'ix': ix, 'val': v, 'scale': scale}
    if kind in ('pseta', 'seti', 'spseta', 'ixset'):
        # donors: prefer objects with the same key set
        same = [hh for hh, b in A.items() if sorted(b.view.keys()) == sorted(keys)]
        if same and not (bad and rng.random() < 0.5):
            src = rng.choice(same)
        else:
            src = rng.choice(list(A))
        b = A[src]
        c = rng.random()
        ix = gen_index(rng, n, bad)
        # steer toward selections whose size fits the donor
        for _ in range(6):
            cnt = sel_count(n, ix)
            if cnt == b.natoms or b.natoms == 1 or (ix[0] == 'I'):
                break
            ix = gen_index(rng, n, bad)
        if kind == 'pseta':
            return {'op': 'pseta', 'o': h, 'ix': ix if c < 0.8 else None, 'src': src}
        if kind == 'seti':
            return {'op': 'seti', 'o': h, 'ix': ix, 'src': src}
        if kind == 'spseta':
            return {'op': 'spseta', 's': sh, 'ix': ix if c < 0.8 else None, 'src': src,
                    'scale': rng.random() < 0.5}
        if S and rng.random() < 0.4:
            return {'op': 'ixset', 's': sh, 'ix': ix, 'src': ['s', rng.choice(list(S))]}
        return {'op': 'ixset', 's': sh, 'ix': ix, 'src': ['a', src]}
    if kind == 'geti':
        return {'op': 'geti', 'o': h, 'ix': gen_index(rng, n, bad), 'id': k}
    if kind == 'ixget':
        return {'op': 'ixget', 's': sh, 'ix': gen_index(rng, n, bad), 'id': k}
    if kind == 'patype':
        try:
            nt = a.natypes
        except Exception:
            nt = 1
        key = rng.choice(KEYS + keys)
        if key in keys:
            cls, trail = arr_info(a.view[key])
        else:
            cls, trail = rng.choice(['i', 'f', 'f', 'b', 's']), rng.choice(TRAILS)
        dt = cls if (cls == 's' or rng.random() < 0.8) else rng.choice(['i', 'f', 'b'])
        if rng.random() < 0.5:
            m = nt + rng.choice([0, 0, 1]) - (1 if bad and rng.random() < 0.5 else 0)
            if m < 1:
                m = 1
            v = gen_lit(rng, dt, [m] + trail, key)
            return {'op': 'patype', 'o': h, 'key': key, 'val': v, 't': None}
        t = rng.randint(1, nt) if not bad else rng.choice([0, nt + 1, nt])
        shape = trail if rng.random() < 0.8 else ([] if rng.random() < 0.7 else [2])
        v = gen_lit(rng, dt, shape, key)
        return {'op': 'patype', 'o': h, 'key': key, 'val': v, 't': t}
    if kind == 'exti':
        return {'op': 'exti', 'o': h, 'n': rng.choice([0, 1, 1, 2, 3]) if not bad else rng.choice([-1, -2, 0]), 'id': k}
    if kind == 'exta':
        return {'op': 'exta', 'o': h, 'src': rng.choice(list(A)), 'id': k}
    if kind == 'sext':
        scale = rng.random() < 0.45
        if rng.random() < 0.3 and not scale:
            val = ['i', rng.choice([0, 1, 2]) if not bad else -1]
        elif bad and scale and rng.random() < 0.3:
            val = ['i', 1]
        else:
            val = ['a', rng.choice(list(A))]
        return {'op': 'sext', 's': sh, 'value': val, 'scale': scale,
                'symbols': gen_syms(rng, 0, 4) if rng.random() < 0.3 else None, 'id': k}
    if kind == 'dcopy':
        return {'op': 'dcopy', 'o': h, 'id': k}
    if kind == 'natypes':
        return {'op': 'natypes', 'o': h}
    if kind == 'mksys':
        op = {'op': 'mksys', 'o': h, 'id': k, 'box': gen_box(rng),
              'pbc': [rng.random() < 0.5 for _ in range(3 if not (bad and rng.random() < 0.4) else rng.choice([2, 4]))]}
        if rng.random() < 0.7:
            op['symbols'] = gen_syms(rng)
        if rng.random() < 0.5:
            op['masses'] = gen_masses(rng, 0, 4 if bad else 3)
        return op
    if kind in ('symget', 'massget', 'snatypes'):
        return {'op': kind, 's': sh}
    if kind == 'symset':
        return {'op': 'symset', 's': sh, 'symbols': gen_syms(rng, 0, 5)}
    if kind == 'massset':
        return {'op': 'massset', 's': sh, 'masses': gen_masses(rng, 0, 5)}
    if kind == 'pbcset':
        return {'op': 'pbcset', 's': sh, 'pbc': [rng.random() < 0.5 for _ in range(3 if not bad else rng.choice([2, 4, 3]))]}
    raise RuntimeError(kind)


# ----------------------------------------------------------------------------------------------
# running a history against model and implementation
# ----------------------------------------------------------------------------------------------

class Mismatch(Exception):
    def __init__(self, key, what, step):
        super().__init__(what)
        self.key, self.what, self.step = key, what, step


def apply_drop(op, W):
    if 'o' in op:
        W.atoms.pop(op['o'], None)
    else:
        W.syss.pop(op['s'], None)


def step_both(drv, W, op, idx, stats=None):
    """one operation on both sides + state comparison.  Returns 'ok' | 'skip' (unmodelled / dangling);
    raises Mismatch."""
    if op['op'] == 'drop':
        apply_drop(op, W)
        return 'ok'
    line = op_line(op, W)
    if line is None:
        return 'skip'
    mrep = drv.ask(line)
    if mrep == 'err:unmodelled':
        return 'skip'
    if mrep == 'err:format':
        raise cm.InfraError(f'driver rejected the line as malformed: {line[:300]}')
    mcanon, newids = canon_model_reply(mrep)
    if op['op'] == 'mksys':
        newids = newids[1:]
    rrep, created = exec_real(op, W)
    if stats is not None:
        stats(op, rrep)
    if rrep != mcanon:
        detail = getattr(W, 'last_exc', '') if rrep.startswith('err') else ''
        raise Mismatch('reply:' + op['op'], f"op #{idx} {op['op']}: implementation replied `{rrep[:200]}` {detail} "
                       f"but the model `{mcanon[:200]}`", idx)
    if len(created) != len(newids):
        raise Mismatch('reply:' + op['op'], f"op #{idx} {op['op']}: created objects differ", idx)
    for (kind, hname, obj), mid in zip(created, newids):
        (W.atoms if kind == 'a' else W.syss)[hname] = obj
        W.mid[hname] = mid
    mdump = drv.ask(dump_line(W))
    rdump = dump_real(W)
    if mdump != rdump:
        raise Mismatch('state:' + op['op'], f"op #{idx} {op['op']}: states differ after the operation: "
                       + first_diff(rdump, mdump), idx)
    return 'ok'


def first_diff(r, m):
    rt, mt = r.split(' '), m.split(' ')
    for i, (x, y) in enumerate(zip(rt, mt)):
        if x != y:
            lo = max(0, i - 12)
            return f"impl …{' '.join(rt[lo:i + 6])}… vs model …{' '.join(mt[lo:i + 6])}…"
    return f'lengths {len(rt)} vs {len(mt)}: impl tail {" ".join(rt[-8:])} / model tail {" ".join(mt[-8:])}'


def run_fixed(drv, ops):
    """replay a fixed operation list on both sides; returns None or the Mismatch."""
    W = World()
    drv.ask('reset')
    for i, op in enumerate(ops):
        try:
            step_both(drv, W, op, i)
        except Mismatch as e:
            return e
        except KeyError:
            continue        # handle of a removed operation
    return None


def shrink(drv, ops, key, budget=150):
    """greedy one-at-a-time removal keeping a mismatch with the same key."""
    ops = list(ops)
    e = run_fixed(drv, ops)
    if e is None or e.key != key:
        return ops, e
    ops = ops[:e.step + 1]
    used = 0
    changed = True
    while changed and used < budget:
        changed = False
        for i in range(len(ops) - 2, -1, -1):
            cand = ops[:i] + ops[i + 1:]
            used += 1
            e2 = run_fixed(drv, cand)
            if e2 is not None and e2.key == key:
                ops = cand[:e2.step + 1]
                e = e2
                changed = True
                break
            if used >= budget:
                break
    return ops, e


def correspond(ctx):
    cm_np = _np()  # noqa
    rng = ctx.rng
    nhist = ctx.n(260, 4000)
    drv = ctx.driver
    kinds = {}
    errs = {}
    skipped = 0

    def stats(op, rrep):
        kinds[op['op']] = kinds.get(op['op'], 0) + 1
        if rrep.startswith('err'):
            errs[op['op'] + ':' + rrep[4:]] = errs.get(op['op'] + ':' + rrep[4:], 0) + 1

    for hno in range(nhist):
        W = World()
        drv.ask('reset')
        ops = []
        length = rng.randint(4, 30)
        k = 0
        fail = None
        while len(ops) < length:
            op = gen_op(rng, W, k)
            k += 1
            try:
                r = step_both(drv, W, op, len(ops), stats)
            except Mismatch as e:
                ops.append(op)
                fail = e
                break
            if r == 'skip':
                skipped += 1
                continue
            ops.append(op)
            ctx.stats.case('op:' + op['op'], json.dumps(op, sort_keys=True, default=str),
                           nontrivial=op['op'] not in ('pkeys', 'drop'),
                           sample=op if len(json.dumps(op, default=str)) < 400 else None)
        if fail is not None:
            small, e = shrink(drv, ops, fail.key)
            e = e or fail
            ctx.disagree(fail.key, e.what, {'op': 'history', 'ops': small, 'full_length': len(ops)})
            if len(ctx.disagreements) >= 5:
                break
    ctx.extra['c06_ops'] = kinds
    ctx.extra['c06_refusals'] = errs
    ctx.extra['c06_histories'] = nhist
    ctx.extra['c06_skipped_unmodelled'] = skipped


def search(ctx, broken):
    pass


def replay(ctx, payload):
    r = payload.get('replay', {})
    if r.get('op') == 'history' and ctx.driver is not None:
        e = run_fixed(ctx.driver, r['ops'])
        if e is not None:
            print('replay: still differs:', e.what)
            ctx.disagree(e.key, e.what, r)
        else:
            print('replay: model and implementation agree on this history now')
    else:
        search(ctx, True)


MANIFEST = {
    'text': 'C06',
    'note': '',
    'technique': 'Lean 4 theorems over a hand-written two-layer model + differential correspondence on histories',
}
