"""C06 — per-atom data stays rectangular, row-aligned, unaliased under any edit sequence.

correspond(): random operation histories over Atoms/System objects are executed on the real atomman
(built from the working tree) and on the compiled Lean model (lean/Atomman/C06.lean, driver drv_c06);
after EVERY operation the reply (value / new object / exception class) and a canonical dump of all
live objects (key order, dtype class, shape, values, System symbols/masses/pbc) plus the
np.shares_memory relation between all live arrays are compared.  A failing history is shrunk to a
minimal operation list.

search(): an independent record-per-atom oracle written in Python (no buffers, no views: one record
per atom, every object owns its records) is run next to the real code on histories of *valid*
operations and the property's clauses are evaluated on the real objects after every step.
"""
from __future__ import annotations

import copy
import json
import math
import random
import re
from collections import OrderedDict
from fractions import Fraction

from .. import common as cm

PROP = 'C06'
THEOREMS = [
    # the history invariant: rectangular, typed, row counts = natoms, distinct keys, atype >= 1, atype/pos present
    'C06.inv_run', 'C06.inv_stepWith', 'C06.inv_step', 'C06.inv_reachable', 'C06.inv_history',
    'C06.inv_rectangular', 'C06.reachable_rectangular', 'C06.inv_atype_ge_one', 'C06.reachable_atype_ge_one',
    'C06.inv_natypes_min',
    # symbols / masses padding
    'C06.symbols_padded', 'C06.masses_padded', 'C06.sysNatypes_ge', 'C06.symbolsSet_pads',
    # the observers (symbols, masses, natypes, atypes, composition) over the lazily padded hidden tuples: closed form
    # of every reply, every view padded in every state, reads only replace a stored tuple by its view, and what a
    # getter replies does not depend on which getters were read before it, on which systems, in which order
    'C06.observer_closed_form', 'C06.observers_padded', 'C06.observer_keeps_views', 'C06.read_order_irrelevant',
    'C06.observers_padded_any_order', 'C06.massesGet_stores', 'C06.massesSet_spec', 'C06.inv_ntOf_ok',
    'C06.reachable_observers_padded',
    # refinement to the record-per-atom specification: slicing / copying
    'C06.refines_getItem', 'C06.refines_deepcopy', 'C06.deepcopy_rows', 'C06.getItem_error_unchanged',
    'C06.GetItemRes.operand_unchanged', 'C06.GetItemRes.copy_fresh', 'C06.deepcopy_fresh',
    'C06.GetItemRes.slice_is_view',
    # refinement: reads and indexed writes (record update, later duplicates win, nothing else changes)
    'C06.refines_propGet_all', 'C06.refines_propGet_index', 'C06.refines_propSet', 'C06.propSet_error_unchanged',
    'C06.propSet_then_propGet', 'C06.viewSet_existing_refines', 'C06.assign_spec', 'C06.refines_setItem',
    'C06.viewSet_new_refines', 'C06.viewSet_new_reads', 'C06.system_ops_delegate',
    # refinement: extend (values of every column of the result)
    'C06.refines_extend', 'C06.extend_index_sel', 'C06.tailSel_pos', 'C06.extend_self_rows', 'C06.extend_zero_rows',
    # composite calls decompose into the building blocks above
    'C06.extendInt_decomp', 'C06.propGetAtoms_decomp', 'C06.ixGet_decomp', 'C06.sysPropSetScaled_decomp',
    'C06.propAtype_none_decomp', 'C06.propAtype_some_decomp', 'C06.propAtype_some_existing',
    # copying operations: results in fresh buffers, operands unchanged
    'C06.frame_fresh_meaning', 'C06.extend_fresh_unchanged', 'C06.extendInt_fresh_unchanged',
    'C06.propGetAtoms_fresh_unchanged', 'C06.new_fresh_unchanged',
    # scaled reads (System.atoms_prop(..., scale=True) without value) and deepcopy(system): reads do not write, the
    # returned object is fresh for EVERY index form (also a slice of >= 2 atoms, where atoms[index] holds views)
    'C06.sysPropGetScaled_reads_only', 'C06.sysPropGetAtomsScaled_fresh_unchanged', 'C06.sysDeepcopy_spec',
    'C06.mkSysX_safecopy_operand_unchanged', 'C06.sysPropGetAtomsScaled_decomp',
    # refusals
    'C06.viewSet_len_mismatch_rejects', 'C06.viewSet_atype_lt_one_rejects', 'C06.propSet_atype_lt_one_rejects',
    'C06.assign_shape_mismatch_rejects', 'C06.assign_oob_rejects', 'C06.setItem_keys_mismatch_rejects',
    'C06.resolve_int_out_of_range', 'C06.resolve_zero_step', 'C06.resolve_mask_length', 'C06.propGet_missing_key',
    'C06.pbcSet_bad_length_rejects', 'C06.sysExtend_scale_int_rejects', 'C06.propAtype_scalar_rejects',
    'C06.mkAtoms_rolls_back', 'C06.step_format', 'C06.step_unmodelled',
    # degenerate per-atom shapes (1,), (1,1), ...: the broadcast of view[key] = value keeps the trailing shape of what it
    # is handed (one row 1 :: t -> natoms :: t, never flattened); atoms[index] gives every property shape m :: trail for
    # every number m of selected atoms (m = 1, 0 included)
    'C06.viewBcast_keeps_trail', 'C06.getItem_keeps_shape',
    # the source tie (lean/Atomman/Generated/AtomsSource.lean, regenerated from Atoms.py / System.py on every run): every
    # generated definition - signatures and defaults, reserved keys, __intslice, the broadcast / guard / store decisions of
    # PropertyDict.__setitem__, the three count blocks of Atoms.__init__, the dispatch of prop / atoms_prop / extend, the
    # table test of prop_atype, natypes / padding tests / masses decision of System, the scale tests of System.__init__ and
    # atoms_extend and the offset of the scaled write - equals the hand-written decision of the model
    'C06.gen_sigs_eq_model', 'C06.gen_defaults_eq_model', 'C06.gen_intslice_eq_model', 'C06.gen_bcastDecision_eq_model',
    'C06.gen_guards_eq_model', 'C06.gen_storeDecision_eq_model', 'C06.gen_countAtype_eq_model', 'C06.gen_countPos_eq_model',
    'C06.gen_countNatoms_eq_model', 'C06.gen_propDispatch_eq_model', 'C06.gen_atomsPropDispatch_eq_model',
    'C06.gen_patypeTableOk_eq_model', 'C06.gen_extendDispatch_eq_model', 'C06.gen_sysNatypesOf_eq_model',
    'C06.gen_padTests_eq_model', 'C06.gen_massesSetDecision_eq_model', 'C06.gen_systemInit_eq_model',
    'C06.gen_atomsExtend_eq_model', 'C06.gen_step_eq_model', 'C06.gen_posCastKinds_eq_model', 'C06.posLit_ok', 'C06.posLit_spec',
    'C06.gen_dfScaleKeys_eq_model',
    # tables (Atoms.df / System.atoms_df): reads do not write, one cell per atom in every column, prod(trail) columns per
    # property, row j of every column is atom j
    'C06.df_reads_only', 'C06.indexStrs_length', 'C06.dfColumns_rectangular', 'C06.dfColumns_cell',
    # ... and the functions of the model factor through those decisions
    'C06.viewBcast_by_decision', 'C06.viewBcast_refuse', 'C06.viewGuard_refuses_iff', 'C06.atypeGuard_refuses_iff',
    'C06.mkAtoms_defaults', 'C06.sysNatypes_by_decision', 'C06.symbolsGet_by_decision', 'C06.massesSet_by_decision',
    'C06.pbcSet_by_decision', 'C06.countNatoms_core_none', 'C06.countNatoms_core_some', 'C06.atomsCount_by_blocks',
    # the call layer (one Python call with its options -> the operation it performs): end-to-end invariant for any
    # sequence of calls with any options, refusals of the option handling (exactly when, and nothing changes), a_id = index,
    # non-bool scale refused, atoms_prop(scale=False) IS atoms.prop, System(scale=, safecopy=) / atoms_extend(scale=) flags
    'C06.call_refused_unchanged', 'C06.inv_callWith', 'C06.inv_calls', 'C06.propCall_refuses_value_iff',
    'C06.propCall_refuses_type_iff', 'C06.propCall_aid_alias', 'C06.atomsPropCall_aid_alias',
    'C06.atomsPropCall_nonbool_refused', 'C06.atomsProp_unscaled_delegates', 'C06.systemCall_spec',
    'C06.atomsExtendCall_spec',
]
PARTIAL = {
    'refines (single statement abs(step s op) = specStep(abs s) op for every op)':
        'the refinement to the record-per-atom specification is proved operation family by operation family, as '
        'exact descriptions of the resulting state in record terms, not as one commuting square over a separately '
        'defined abstract store: slicing/copying (refines_getItem, refines_deepcopy: row j of every property of the '
        'result is atom sel.pos[j] of the operand, same names/dtypes/trailing shapes, key order atype,pos,rest), reads '
        '(refines_propGet_all/_index), indexed writes (refines_propSet, propSet_then_propGet: the column reads '
        'writeRows old (positions zip cast broadcast rows), later duplicates win, no other property name and no other '
        'buffer changes), whole-column assignment to an existing key (viewSet_existing_refines) and to a new key '
        '(viewSet_new_refines: exact resulting state).',
    'composite calls (extend(int), prop(index=), atoms_ix[...], atoms_extend, prop_atype, scale=True)':
        'their values are not restated as closed forms; instead each is proved to BE the sequence of building blocks '
        'whose values are proved: extendInt_decomp (Atoms(natoms=n) then extend: refines_extend), propGetAtoms_decomp '
        '(getitem then deepcopy: refines_getItem, refines_deepcopy), ixGet_decomp (getitem, symbols read, System(...)), '
        'sysPropSetScaled_decomp (prop(key, index, value\') with value\' the exact Cartesian image computed by '
        'Box.relToCart: refines_propSet), propAtype_none_decomp (view[key] = value[atype-1] as one whole-column '
        'assignment: viewSet_existing_refines / viewSet_new_refines; the literal is shown well-formed by picked_ok). '
        'propAtype_some_decomp / propAtype_some_existing (prop_atype(key, value, atype=t) for t among the atom types: '
        'for a new key view[key] = zeros_like(value) (viewSet_new_refines), then the atype guard, then ONE boolean-mask '
        'assignment with the mask atype == t taken before the write: assign_spec). '
        'Not decomposed: atoms_extend (symbols read, extend, optional scaled write of pos[self.natoms:], System(...)): '
        'the invariant and the frame are proved and the values are covered on every run by the correspondence and the '
        'oracle.',
    'scaled reads / System(scale=, safecopy=) / deepcopy(system)':
        'proved: the invariant (inv_run covers the four operations), reads-do-not-write and the exact value of '
        'atoms_prop(key, index, scale=True) (sysPropGetScaled_reads_only), frame and freshness of '
        'atoms_prop(index=, scale=True) for every index form and every outcome (sysPropGetAtomsScaled_fresh_unchanged), '
        'System(..., safecopy=True) leaving the given atoms alone also with scale=True (mkSysX_safecopy_operand_unchanged), '
        'deepcopy(system) as Atoms.__deepcopy__ plus the stored tuples (sysDeepcopy_spec). Not restated as a closed form: '
        'the values of the object returned by atoms_prop(index=, scale=True): sysPropGetAtomsScaled_decomp proves the call '
        'IS deepcopy(atoms[index]) followed by view[pos] = cartToRel(pos) on the new object, whose building blocks are '
        'proved (refines_getItem, refines_deepcopy, viewSet_existing_refines) - compared on every run by the correspondence (exactly, on boxes whose inverse is exact '
        'in double arithmetic) and by the oracle.',
    'aliasing of slices':
        'GetItemRes.slice_is_view states that a basic slice of more than one atom holds the views p.arr[sel] of the '
        "operand's arrays (so writes through either are seen by both, refines_propSet's last clause says exactly "
        'which arrays do not change); a one-atom result is a copy because numpy\'s length-1 broadcast in '
        'PropertyDict.__setitem__ copies (model = code; the record specification would allow either).',
    'source tie (translator)':
        'generated and proved equal to the model: signatures / defaults, every branch selection (conditions, their order, the '
        'action each branch ends in) of PropertyDict.__setitem__, Atoms.__init__ (count blocks, pos dtype kinds), __intslice, '
        'prop, prop_atype (table test, guard), extend (dispatch), System.natypes, symbols / masses getters and setters, '
        'System.__init__ (scale tests), atoms_prop, atoms_df (scale handling), atoms_extend (refusal, conversion test, offset). '
        'NOT translated into Lean programs, only pinned by normalised statement text inside translate() (an edit raises '
        'TranslationError): what the branches DO - the numpy calls, the loops of extend / __getitem__ / __setitem__ / '
        '__deepcopy__ / df / atoms_df / composition, the statement order of atoms_extend and of the Set-properties blocks; the '
        'model of those is hand-written and tied by the correspondence.',
    'floating point':
        'cells are exact rationals; the only arithmetic in the property is scale=True (relative -> Cartesian), done '
        'exactly in the model and compared exactly on dyadic boxes and values; everything else is data movement and '
        'numpy casts (truncation toward zero, != 0, string truncation), which are exact.',
}
RULE = ('histories of 4-30 operations over up to 7 live Atoms and their Systems, generated from the live objects\' shapes '
        'only (never their values): constructor with natoms / scalar / length-1 / full atype, pos and 0-3 extra properties '
        'of dtype int, float, bool, str (several widths) and trailing shapes (), (3,), (3,3); attribute and view '
        'assignment with scalar / length-1 / full / single-row values of the same or another dtype; prop get/set with '
        'int, negative int, slices (all sign combinations of start/stop/step, out-of-range bounds, step 0), integer lists '
        '(negative entries, duplicates, out of bounds) and boolean masks (right and wrong length); prop(index=) and '
        'prop(index=, value=Atoms); __getitem__/__setitem__ with donors of equal and different property sets, including '
        '"twin" donors with the same property set in a different order; prop_atype with and without atype (short tables, '
        'absent types, new and existing keys); extend by int (also 0 and negative) and by Atoms with differing property '
        'sets; deepcopy; natypes; System construction (pbc of wrong length, symbols shorter/equal/longer than natypes, '
        'too many masses), symbols/masses/pbc setters; the OBSERVATION ORDER is part of the history: System.symbols, '
        'masses, natypes, atypes, composition and str(system) are operations of their own, queued after an operation with '
        'probability 1/2 (9/10 after an operation that makes the number of atom types grow through the atoms: indexed '
        'atype write, prop_atype relabel, whole-column write, 5-6% of the operations; 10% of all generated atom types are '
        '4-6) as 1-4 different getters of one system in random order, and nothing else ever reads them (the state dump '
        'compares the STORED tuples, the oracle reads no getter outside these operations and closes every history with '
        'one read of every getter of every system in random order); '
        'atoms_prop with and without scale (including atype written through scale=True), atoms_ix get/set with Atoms and '
        'System donors, atoms_extend with scale and symbols; 12% of the operations are deliberately malformed so that '
        'every refusal branch is exercised. After EVERY operation the reply (value / new object / exception class) and '
        'the full canonical state (key order, dtype class and string width, shape, values, System tuples, the complete '
        'np.shares_memory relation between all live arrays) are compared with the Lean driver. A case is one operation '
        'in its history; distinct = distinct (operation, arguments) JSON; pkeys/drop count as trivial. The search runs '
        'histories of valid operations (plus 3% hostile atype writes that must be refused) against an independent '
        'record-per-atom oracle and evaluates the clauses (natoms, keys, rectangular, dtype/shape, string width, values, '
        'atype >= 1, attribute mirror, no aliasing of prop() results and of copying operations) on the real objects after '
        'every step, and at every getter operation: reply never shorter than the number of atom types of the record '
        'model (masses: than System.natypes) and equal to the reply of the specification, in which the padding of the '
        'stored tuples is lazy and sticky as well; failing histories are shrunk one operation at a time. '
        'ROUND 3: (a) the ACCESSOR MATRIX runs first in both correspondence and search: short fixed histories [Atoms of 5 '
        'atoms with int / float-vector / str / bool extras, System on a sheared, shifted box whose inverse is exact, '
        '(donor,) ONE accessor call, read-backs] for every accessor (prop get/set with key, prop(index=), Atoms[...] get/set, '
        'atoms_prop get/set with and without key, with and without value, scale False/True, atoms_ix get/set with Atoms and '
        'System donors, a_id spelling) x 32 index forms (int, first, last, negative int, numpy integer, slices with open '
        'ends, negative bounds, steps 2 / -1 / -2, one-atom, empty and overlong slices, lists incl. negative / unordered / '
        'empty, numpy integer arrays, masks as numpy array and as python list incl. all-False / all-True) plus no-index '
        'forms, System(scale=, safecopy=), Atoms(safecopy=True), deepcopy(system), atoms_extend; after EVERY operation - '
        'reads included - the full state of every live object and the aliasing relation are compared (reads must not '
        'write). (b) index forms, a_id, tuple / bare-str / bare-float spellings of symbols and masses, tuple / 0-1 int / '
        'numpy spellings of pbc are drawn in the random histories too (the model sees the same call). (c) scaled reads '
        '(atoms_prop(key, index, scale=True), atoms_prop(index=, scale=True) incl. no index, slices covering >= 2 atoms '
        'preferred, atoms_df(scale=True / [keys])) are operations of both generators on boxes whose numpy inverse equals '
        'the rational inverse (others: oracle only, to rounding); a history whose values leave the exact regime is abandoned '
        'and counted (c06_abandoned_inexact), never reported. (d) REFUSALS are clauses of the oracle: 5% of the search '
        'operations (and one matrix entry per accessor and index form) must be refused and leave every live object '
        'unchanged: donor with a different property SET in either direction (subset, empty subset, superset, renamed) '
        'through Atoms[...]=, prop(index=, value=), atoms_prop(index=, value=, scale False/True), atoms_ix[...]= with Atoms '
        'and System donors; index and a_id together; mask of wrong length; index out of range; zero slice step; wrong first '
        'dimension (new and existing keys); wrong trailing shape incl. the right number of cells in the wrong arrangement; '
        'missing key; per-type table shorter than natypes; absent atom type; too many masses; pbc of wrong length; '
        'atoms_extend(int, scale=True); negative extension. (e) objects without atoms are operated on (reads, copies, '
        'zero-row assignment, extension by them); caller-owned arrays handed to copying accessors (prop(key, value=), '
        'Atoms(safecopy=True)) are overwritten afterwards; keyed reads are checked for shape (int index: trailing shape); '
        'the stored pbc must be a numpy bool array of 3 entries equal to the recorded one; len / natoms / atypes / str are '
        'observers. (f) a second deterministic block (matrix_extra, ~350 histories): every way the number of atom types grows '
        'through the atoms x every observer read first (symbols, masses, natypes, atypes, composition, str, masses=, '
        'deepcopy(system), atoms_ix[:]) followed by all the others; symbols lengthened beyond the types in use, then masses; '
        'per-type assignment over new / existing key x dtype x trailing shape x one type / table; read -> write -> the same '
        'read for every read kind x write kind; atom types 0 / -1 / 0.5 through every write path; extension by nothing; the '
        'spellings of symbols / masses / pbc; ~200 refusals (every reason through several accessors). Entries using df, '
        'len/str or index+a_id are run by the search only. (g) round 4: the creation matrix (matrix_names, 110 histories of '
        '~22 operations): every way of CREATING a property (constructor keyword, view[name] =, attribute set, prop(name, '
        'value=), atoms_prop(name, value=), prop_atype table / one type, inheritance from a donor through extend) x a pool of '
        '14 names (leading underscore(s), dunder-like, mangled-looking _Atoms__q, digit first, a-b / x.y (not identifiers), '
        'substrings of the reserved keys, upper case, and natypes / df which every Atoms object already has as class '
        'attributes - those not by attribute set, which is ordinary Python attribute assignment then) x full / scalar / one-row '
        'values; then read back by prop(), prop(name), indexed; written again by attribute set and view set on the EXISTING '
        'name and by an indexed prop; followed through atoms[...], extend, deepcopy, atoms_ix, df, len/str; the random '
        'histories draw from p0..p4, _g, __d__, a-b. matrix_tables: df() / atoms_df(scale False / True / [keys]) on per-atom '
        '(3,3) float, (2,3) int, (3,3) str properties with all components different, on the object, a slice and a system. '
        '(h) round 5: matrix_shapes (~1330 histories): the degenerate per-atom shapes (1,), (1,1), (1,3), (3,1), (1,1,1) of every '
        'dtype class x 14 index forms selecting exactly ONE of 5 atoms (+ 3 controls) through every extracting accessor, keyed '
        'read and keyed write (value as one row per atom / scalar / ONE row / bare per-atom value) and item assignment; every '
        'creation route from a full-length / one-row / bare value; one-atom objects carrying them read, copied, indexed, '
        'extended (property in both / donor only / extended object only), wrapped in a System, used as donors; the random '
        'histories draw trailing shapes from (), (3,), (3,3), (1,), (1,1), (1,3), (3,1). matrix_flags (~130 histories): scale '
        'of System(...) / atoms_prop as 1 / 0 / numpy.True_ / numpy.False_ / 1.0 / 0.0 (refused with TypeError or taken as the '
        'truth value: search only), scale of atoms_extend and safecopy in those spellings (model sees the bool); atom types as '
        'uint64 / uint8 / uint16 / int32 / int8, values of those dtypes and float32 written into int64 / float64 columns, an atom '
        'type 0 in an unsigned dtype; index scalars / arrays of unsigned and 32-bit dtypes through every accessor. '
        '(i) round 6: prop / atoms_prop / System(...) with flags / atoms_extend go to the model as CALLS with their options as '
        'spelled (index=, a_id=, both; value literal / Atoms; flags as Python bool or other truthy / falsy), the model does the '
        'option handling (Call.toOp), so the index + a_id refusal and non-bool scale are compared by the correspondence too; 20% of '
        'the constructor positions are integer / boolean typed (stored as float), matrix_posdtype (6 histories) follows them '
        'through writes of halves, extraction, copy, extension, System, scaled read, df; Atoms.df() and '
        'System.atoms_df(scale False / True / key / [keys]) are operations of the model (reply = the ordered columns) in the '
        'matrix and in 3% of the random operations (scaled only on exact boxes).')
ASSUMPTIONS = [
    'numpy semantics used by Atoms/System are as transcribed in lean/Atomman/C06.lean (mini-numpy: basic slices are '
    'views, integer-list / boolean indexing, deepcopy, np.array(np.broadcast_to()), np.zeros copy; assignment '
    'broadcasts after dropping leading 1-dims, casts unsafely, later duplicates win); checked against numpy 2.5 on '
    'every run by the correspondence, not proved',
    'string <-> number casts, object dtype, structured dtypes, NaN/inf, 0-d array values for per-atom properties and '
    'a singular box are outside the model (Err.unmodelled: the driver leaves the state '
    'untouched and the harness skips the operation; never produced by the documented grammar on numeric/str columns)',
    'float cells are exact rationals in the model: the generated values are dyadic and the boxes dyadic, so that '
    'relative->Cartesian conversion is exact in double arithmetic',
    'direct mutation of handed-out live arrays (atoms.pos[0] = ..., atoms.view[key][...] = ...) is not an operation of '
    'the grammar: the property speaks about the accessor API',
    'System.composition and str(system) are modelled as far as they touch the hidden tuples (composition completely: '
    'counts per type, None for a present type without symbol, gcd reduction, sorted symbols; str only through the '
    'natypes it prints)',
    'box-relative reads are exact rationals in the model (Box.cartToRel); the implementation computes '
    'np.inner(pos - origin, inv(vects).T) in doubles: compared exactly only on boxes for which the inverse numpy computes '
    'equals the rational inverse (checked per box by the harness with Fractions) and on dyadic values; a singular box '
    '(LinAlgError) is outside the model (Err.unmodelled, never generated)',
    'an out-of-range INTEGER handed to Atoms[...] / prop(index=) / atoms_ix[...] selects nothing (Atoms.__intslice turns it '
    'into the slice [i:i+1]): model = code, and the refusal clause asks for an IndexError only where the array itself is '
    'indexed (keyed accessors, list indices)',
    'Python object identity / garbage collection is not modelled: an object that became unreachable stays in the model '
    'state (the invariant is proved for those as well)',
    'the integer / boolean -> float conversion of Atoms.__init__ is applied by the model to the pos literal of a constructor '
    'call (posLit); the internal rebuilds Atoms(**view) of __getitem__ / __deepcopy__ / extend hand over pos columns of existing '
    'objects, which are never integer- or boolean-typed (the constructor is the only way to bind a pos array, every other write '
    'goes through the existing array): not part of the proved invariant, compared after every operation by the correspondence',
    'a table (Atoms.df / System.atoms_df) is its ordered list of columns (name, dtype class, one cell per atom); '
    'pandas.DataFrame(values) itself, the string width and a property name containing "[" (two components with one column name) '
    'are outside the model',
    'call layer: a value that is neither array-like nor an Atoms object, a property value that is an Atoms object and '
    'atoms_extend(count, scale=<truthy non-bool>) (AttributeError on value.pos) are not calls of the grammar (Err.format)',
]
TRUSTED = [
    'Lean 4 kernel; axioms propext / Classical.choice / Quot.sound only',
    'the hand-written model lean/Atomman/C06.lean is tied to atomman/core/Atoms.py and System.py (a) by the translator of '
    'this module for signatures, defaults and every branch selection (Generated/AtomsSource.lean, gen_..._eq_model), with '
    'the remaining statements of the translated bodies (the numpy calls inside the branches, the loops of extend / '
    '__getitem__ / __setitem__ / __deepcopy__ / composition, the statement order of atoms_extend and System.__init__) pinned '
    'by their normalised text (ast.unparse) inside the translator: an edit raises TranslationError; (b) by the differential '
    'correspondence for what those statements do (mini-numpy)',
    'numpy itself (np.shares_memory, indexing, broadcasting) and the canonical state dump of harness/props/c06.py',
    'the independent record-per-atom oracle of search() (fractions.Fraction, no buffers / views)',
]


# ----------------------------------------------------------------------------------------------
# source tie: lean/Atomman/Generated/AtomsSource.lean regenerated from atomman/core/Atoms.py and System.py (module ast)
# ----------------------------------------------------------------------------------------------
GENERATED = ['AtomsSource']


def translate():
    """Regenerates from the CURRENT source the decisions the hand model depends on: signatures and defaults, the
    reserved keys, the default atype / pos, and every branch selection of the anchored functions as a Lean function
    (conditions, their order, which action each branch ends in).  Every statement of a translated body must be an `if`
    (translated) or a statement of the vocabulary below, matched by its normalised text (`ast.unparse`): an edit either
    changes a generated definition - and `Proofs/C06_Source.lean` (`gen_..._eq_model`) no longer compiles - or cannot be
    read, which raises TranslationError (a broken tie: the failing-input search decides)."""
    import ast
    from ..translate import TranslationError

    def fail(msg):
        raise TranslationError('C06 source tie: ' + msg)

    def methods_of(cls):
        out = {}
        for n in cls.body:
            if isinstance(n, ast.FunctionDef):
                name = n.name
                for d in n.decorator_list:
                    if isinstance(d, ast.Attribute) and d.attr == 'setter':
                        name = n.name + '.setter'
                if name in out:
                    fail(f'{cls.name}.{name} defined twice')
                out[name] = n
        return out

    def class_in(body, name, where):
        c = [n for n in body if isinstance(n, ast.ClassDef) and n.name == name]
        if len(c) != 1:
            fail(f'class {name} not found exactly once in {where}')
        return c[0]

    atoms_cls = class_in(ast.parse(cm.source('atomman/core/Atoms.py')).body, 'Atoms', 'Atoms.py')
    pd_cls = class_in(atoms_cls.body, 'PropertyDict', 'Atoms')
    sys_cls = class_in(ast.parse(cm.source('atomman/core/System.py')).body, 'System', 'System.py')
    ix_cls = class_in(sys_cls.body, '_AtomsIndexer', 'System')
    M = {'Atoms': methods_of(atoms_cls), 'PropertyDict': methods_of(pd_cls), 'System': methods_of(sys_cls),
         '_AtomsIndexer': methods_of(ix_cls)}

    def fn(cls, name):
        if name not in M[cls]:
            fail(f'{cls}.{name} is missing')
        return M[cls][name]

    def body(cls, name):
        b = fn(cls, name).body
        if b and isinstance(b[0], ast.Expr) and isinstance(b[0].value, ast.Constant) and isinstance(b[0].value.value, str):
            b = b[1:]
        return list(b)

    def lstr(s):
        return '"' + s.replace('\\', '\\\\').replace('"', '\\"') + '"'

    # ---- signatures ------------------------------------------------------------------------------
    def sig(cls, name):
        a = fn(cls, name).args
        if a.posonlyargs or a.kwonlyargs or a.vararg:
            fail(f'{cls}.{name}: unexpected kind of parameter')
        names = [x.arg for x in a.args]
        if not names or names[0] != 'self':
            fail(f'{cls}.{name}: first parameter is not self')
        names = names[1:]
        defaults = [''] * (len(names) - len(a.defaults)) + [ast.unparse(d) for d in a.defaults]
        return '[' + ', '.join(f'({lstr(n)}, {lstr(d)})' for n, d in zip(names, defaults)) + ']'

    # ---- conditions ------------------------------------------------------------------------------
    CMP = {ast.Eq: '=', ast.NotEq: '≠', ast.Lt: '<', ast.LtE: '≤', ast.Gt: '>', ast.GtE: '≥'}

    class Cond:
        def __init__(self, atoms, tests, where):
            self.atoms, self.tests, self.where = atoms, tests, where

        def term(self, node):
            u = ast.unparse(node)
            if u in self.atoms:
                return self.atoms[u]
            if isinstance(node, ast.Constant) and isinstance(node.value, int) and not isinstance(node.value, bool):
                return (str(node.value), 'lit')
            if isinstance(node, ast.UnaryOp) and isinstance(node.op, ast.USub) and isinstance(node.operand, ast.Constant) \
                    and isinstance(node.operand.value, int):
                return (f'(-{node.operand.value})', 'lit')
            if isinstance(node, ast.Tuple) and not node.elts:
                return ('[]', 'shape')
            if isinstance(node, ast.Constant) and node.value is None:
                return ('none', 'opt')
            if isinstance(node, ast.Constant) and isinstance(node.value, str):
                return (lstr(node.value), 'str')
            fail(f'{self.where}: term not in the vocabulary: {u}')

        def prop(self, node):
            u = ast.unparse(node)
            if u in self.tests:
                return self.tests[u]
            if isinstance(node, ast.BoolOp):
                op = ' ∧ ' if isinstance(node.op, ast.And) else ' ∨ '
                return '(' + op.join(self.prop(v) for v in node.values) + ')'
            if isinstance(node, ast.UnaryOp) and isinstance(node.op, ast.Not):
                return '(¬ ' + self.prop(node.operand) + ')'
            if isinstance(node, ast.Compare) and len(node.ops) == 1:
                op = node.ops[0]
                a, ta = self.term(node.left)
                b, tb = self.term(node.comparators[0])
                if isinstance(op, (ast.Is, ast.IsNot)):
                    if tb != 'opt' or ta != 'opt':
                        fail(f'{self.where}: identity test outside the vocabulary: {u}')
                    return f'({a} {"=" if isinstance(op, ast.Is) else "≠"} {b})'
                if type(op) not in CMP:
                    fail(f'{self.where}: comparison outside the vocabulary: {u}')
                kinds = {ta, tb} - {'lit'}
                if len(kinds) > 1:
                    fail(f'{self.where}: comparison of {ta} with {tb}: {u}')
                if kinds and next(iter(kinds)) in ('shape', 'str', 'opt') and not isinstance(op, (ast.Eq, ast.NotEq)):
                    fail(f'{self.where}: ordering of {ta}: {u}')
                return f'({a} {CMP[type(op)]} {b})'
            fail(f'{self.where}: condition not in the vocabulary: {u}')

    def tree(stmts, C, leaves, fall, where, env=None):
        """decision tree of a statement list: `if` -> if-then-else (the statements after it are continued in both
        branches), `raise X(...)` -> leaves['raise X'], any other statement must be in `leaves` by its text:
        'skip' | ('ret', lean) | ('let', name, lean)."""
        if not stmts:
            if fall is None:
                fail(f'{where}: control falls off the end')
            return fall
        st, rest = stmts[0], list(stmts[1:])
        u = ast.unparse(st)
        act = leaves.get(u)
        if act is None and isinstance(st, ast.If):
            c = C.prop(st.test)
            return f'(if {c} then {tree(list(st.body) + rest, C, leaves, fall, where)} ' \
                   f'else {tree(list(st.orelse) + rest, C, leaves, fall, where)})'
        if act is None and isinstance(st, ast.Raise) and st.exc is not None:
            e = st.exc.func if isinstance(st.exc, ast.Call) else st.exc
            act = leaves.get('raise ' + ast.unparse(e))
        if act is None and isinstance(st, ast.Pass):
            act = 'skip'
        if act is None:
            fail(f'{where}: statement not in the vocabulary: {u[:160]}')
        if act == 'skip':
            return tree(rest, C, leaves, fall, where)
        if act[0] == 'ret':
            return act[1]
        if act[0] == 'let':
            return f'(let {act[1]} := {act[2]}; {tree(rest, C, leaves, fall, where)})'
        fail(f'{where}: bad vocabulary entry for {u[:80]}')

    def segment(stmts, first, last, where):
        """the statements from the one whose text starts with `first` up to and including the one starting with `last`."""
        us = [ast.unparse(s) for s in stmts]
        i = [k for k, t in enumerate(us) if t.startswith(first)]
        if len(i) != 1:
            fail(f'{where}: start of segment not found exactly once: {first}')
        j = [k for k, t in enumerate(us) if t.startswith(last) and k >= i[0]]
        if len(j) != 1:
            fail(f'{where}: end of segment not found exactly once: {last}')
        return list(stmts[i[0]:j[0] + 1])

    RAISES = {'raise ValueError': ('ret', '.error .value'), 'raise TypeError': ('ret', '.error .type')}
    out = []
    emit = out.append

    # ---- Atoms.__intslice --------------------------------------------------------------------------
    C = Cond({'intnum': ('intnum', 'int')}, {}, 'Atoms.__intslice')
    emit('/-- `Atoms.__intslice`. -/')
    emit('def intslice (intnum : Int) : Index := ' + tree(body('Atoms', '_Atoms__intslice') if '_Atoms__intslice' in M['Atoms']
         else body('Atoms', '__intslice'), C, {
             'return slice(intnum, None)': ('ret', '.slice (some intnum) none none'),
             'return slice(intnum, intnum + 1)': ('ret', '.slice (some intnum) (some (intnum + 1)) none')},
         None, 'Atoms.__intslice'))

    # ---- PropertyDict.__setitem__ ------------------------------------------------------------------
    b = body('PropertyDict', '__setitem__')
    pre = b[:next((k for k, s in enumerate(b) if isinstance(s, ast.If)), len(b))]
    if [ast.unparse(s) for s in pre] != ['host = self.__host', "try:\n    key = key.decode('UTF-8')\nexcept:\n    pass",
                                         'value = np.asarray(value)']:
        fail('PropertyDict.__setitem__: the statements before the broadcast changed')
    ifs = b[len(pre):]
    if len(ifs) != 3 or not all(isinstance(s, ast.If) for s in ifs):
        fail('PropertyDict.__setitem__: expected broadcast / atype guard / store, three if statements')
    C = Cond({'value.shape': ('shape', 'shape'), 'value.shape[0]': ('shape.headD 0', 'nat'), 'host.natoms': ('n', 'nat')},
             {}, 'PropertyDict.__setitem__')
    emit('/-- `PropertyDict.__setitem__`: "Broadcast if needed and allowed". -/')
    emit('def bcastDecision (shape : List Nat) (n : Nat) : BcastDecision := ' + tree([ifs[0]], C, {
        'value = np.array(np.broadcast_to(value, (host.natoms,) + value.shape))': ('ret', '.scalar'),
        'value = np.array(np.broadcast_to(value, (host.natoms,) + value.shape[1:]))': ('ret', '.row'),
        'raise ValueError': ('ret', '.refuse')}, '.keep', 'PropertyDict.__setitem__ (broadcast)'))

    def guard(st, name, lenexpr, where):
        if not (isinstance(st, ast.If) and not st.orelse and len(st.body) == 1 and isinstance(st.body[0], ast.Raise)
                and ast.unparse(st.body[0]).startswith('raise ValueError(')):
            fail(f'{where}: the atype guard is not `if ...: raise ValueError(...)`')
        Cg = Cond({lenexpr: ('len', 'nat')}, {"key == 'atype'": 'isAtype', 'np.min(value) < 1': 'minLt1'}, where)
        emit(f'/-- {where}: the `atype >= 1` guard raises ValueError. -/')
        emit(f'def {name} (isAtype : Prop) (len : Nat) (minLt1 : Prop) : Prop := ' + Cg.prop(st.test))

    guard(ifs[1], 'viewGuardRefuses', 'len(value)', 'PropertyDict.__setitem__')
    store_else = ("super(Atoms.PropertyDict, self).__setitem__(key, value)",
                  "try:\n    assert key not in dir(host)\n    super(Atoms, host).__setattr__(key, value)\nexcept:\n    pass")
    if [ast.unparse(s) for s in ifs[2].orelse] != list(store_else):
        fail('PropertyDict.__setitem__: the new-key branch changed')
    C = Cond({}, {'key in self.keys()': '(has = true)'}, 'PropertyDict.__setitem__ (store)')
    emit('/-- existing key: `self[key][:] = value`; new key: the array is bound (and mirrored as attribute). -/')
    emit('def storeDecision (has : Bool) : StoreDecision := ' + tree([ifs[2]], C, {
        'self[key][:] = value': ('ret', '.writeThrough'), store_else[0]: ('ret', '.bindNew')}, None,
        'PropertyDict.__setitem__ (store)'))

    # ---- Atoms.__init__ ----------------------------------------------------------------------------
    b = body('Atoms', '__init__')
    emit('/-- `Atoms.__init__`: (parameter, default), `self` / `**kwargs` left out. -/')
    emit('def sigAtomsInit : Sig := ' + sig('Atoms', '__init__'))
    if fn('Atoms', '__init__').args.kwarg is None or fn('Atoms', '__init__').args.kwarg.arg != 'kwargs':
        fail('Atoms.__init__: **kwargs is gone')
    seg = segment(b, 'if atype is not None:', 'if atype is not None:', 'Atoms.__init__')
    C = Cond({'atype': ('atype', 'opt'), 'atype.ndim': ('(atype.getD []).length', 'nat')}, {}, 'Atoms.__init__ (atype)')
    emit('/-- `Atoms.__init__`, "Check atype parameter values": natoms_atype from the shape of `atype` (if given). -/')
    emit('def countAtype (atype : Option (List Nat)) : Except Err Int := ' + tree(seg, C, dict(RAISES, **{
        'atype = np.asarray(atype)': 'skip', 'natoms_atype = 1': ('ret', '.ok 1'),
        'natoms_atype = atype.shape[0]': ('ret', '.ok (((atype.getD []).headD 0 : Nat) : Int)'),
        "atype = np.array([1], dtype='uint64')": 'skip'}), None, 'Atoms.__init__ (atype)'))
    dflt = [s for s in ast.walk(seg[0]) if isinstance(s, ast.Assign) and ast.unparse(s).startswith('atype = np.array(')]
    if len(dflt) != 1 or ast.unparse(dflt[0]) != "atype = np.array([1], dtype='uint64')":
        fail('Atoms.__init__: default atype changed')
    emit('def defaultAtypeShape : List Nat := [1]')
    emit('def defaultAtypeValue : Int := 1')
    seg = segment(b, 'if pos is not None:', 'if pos is not None:', 'Atoms.__init__')
    C = Cond({'pos': ('pos', 'opt'), 'pos.ndim': ('(pos.getD []).length', 'nat'),
              'pos.shape[0]': ('(pos.getD []).getD 0 0', 'nat'), 'pos.shape[1]': ('(pos.getD []).getD 1 0', 'nat')}, {},
             'Atoms.__init__ (pos)')
    cast = [x for x in ast.walk(seg[0]) if isinstance(x, ast.If) and ast.unparse(x.test).startswith('pos.dtype.kind')]
    if len(cast) != 1 or cast[0].orelse or [ast.unparse(x) for x in cast[0].body] != ['pos = pos.astype(float)'] \
            or not (isinstance(cast[0].test, ast.Compare) and len(cast[0].test.ops) == 1 and isinstance(cast[0].test.ops[0], ast.In)
                    and ast.unparse(cast[0].test.left) == 'pos.dtype.kind' and isinstance(cast[0].test.comparators[0], ast.Constant)
                    and isinstance(cast[0].test.comparators[0].value, str)):
        fail('Atoms.__init__: the dtype decision for pos is not `if pos.dtype.kind in <kinds>: pos = pos.astype(float)`')
    emit('/-- `Atoms.__init__`: the dtype kinds of `pos` that are stored as float (`pos.astype(float)`). -/')
    emit('def posCastKinds : List String := [' + ', '.join(lstr(c) for c in cast[0].test.comparators[0].value) + ']')
    emit('/-- `Atoms.__init__`, "Check pos parameter values": natoms_pos from the shape of `pos` (if given). -/')
    emit('def countPos (pos : Option (List Nat)) : Except Err Int := ' + tree(seg, C, dict(RAISES, **{
        'pos = np.asarray(pos)': 'skip', ast.unparse(cast[0]): 'skip',
        'natoms_pos = 1': ('ret', '.ok 1'),
        'natoms_pos = pos.shape[0]': ('ret', '.ok (((pos.getD []).getD 0 0 : Nat) : Int)'),
        "pos = np.zeros((1, 3), dtype='float64')": 'skip'}), None, 'Atoms.__init__ (pos)'))
    emit('def defaultPosShape : List Nat := [1, 3]')
    seg = segment(b, 'if natoms is not None:', 'if natoms is not None:', 'Atoms.__init__')
    C = Cond({'natoms': ('natoms', 'opt'), 'natoms_atype': ('na', 'int'), 'natoms_pos': ('np', 'int')},
             {'natoms_atype == natoms': '(some na = natoms)', 'natoms_pos == natoms': '(some np = natoms)'},
             'Atoms.__init__ (natoms)')
    emit('/-- `Atoms.__init__`, "Check natoms parameter values". -/')
    emit('def countNatoms (natoms : Option Int) (na np : Int) : Except Err Int := ' + tree(seg, C, dict(RAISES, **{
        'natoms = int(natoms)': 'skip', 'natoms = natoms_atype': ('ret', '.ok na'), 'natoms = natoms_pos': ('ret', '.ok np')}),
        '.ok (natoms.getD 0)', 'Atoms.__init__ (natoms)'))
    seg = segment(b, 'if safecopy:', 'if safecopy:', 'Atoms.__init__')
    want = ("if safecopy:\n    self.view['atype'] = deepcopy(atype)\n    self.view['pos'] = deepcopy(pos)\n"
            "    for key, value in kwargs.items():\n        self.view[key] = deepcopy(value)\n"
            "else:\n    self.view['atype'] = atype\n    self.view['pos'] = pos\n"
            "    for key, value in kwargs.items():\n        self.view[key] = value")
    if ast.unparse(seg[0]) != want or b[-1] is not seg[0]:
        fail('Atoms.__init__: the "Set properties" block changed')
    emit('/-- the keys `Atoms.__init__` assigns first, in this order, before the keyword properties. -/')
    emit('def reservedKeys : List String := ["atype", "pos"]')

    # ---- __getitem__, __setitem__, __deepcopy__: statement pins -------------------------------------
    def pin(cls, name, want, what):
        got = [ast.unparse(s) for s in body(cls, name)]
        if got != want:
            k = next((i for i, (g, w) in enumerate(zip(got, want)) if g != w), min(len(got), len(want)))
            fail(f'{cls}.{name}: statement {k} changed ({what}): {(got[k] if k < len(got) else "<missing>")[:160]}')

    pin('Atoms', '__getitem__', ['view = OrderedDict()',
        'if isinstance(index, (int, np.integer)):\n    index = self.__intslice(index)',
        'for key in self.view.keys():\n    view[key] = self.view[key][index]', 'return Atoms(**view)'],
        'model: getItem = atomsIndex, indexGet per key in key order, mkAtoms')
    pin('Atoms', '__setitem__', [
        "try:\n    assert isinstance(value, Atoms)\n    assert sorted(value.view.keys()) == sorted(self.view.keys())\n"
        "except:\n    raise ValueError('Can only set Atoms with matching properties')",
        'if isinstance(index, (int, np.integer)):\n    index = self.__intslice(index)',
        'for key in self.view.keys():\n    newvalue = value.view[key]\n    if np.may_share_memory(self.view[key], newvalue):\n'
        '        newvalue = newvalue.copy()\n    self.view[key][index] = newvalue'],
        'model: setItem = sameKeys, atomsIndex, loop of assign from the donor column as it is before the write')
    pin('Atoms', '__deepcopy__', ['d = OrderedDict()', "atype = deepcopy(self.view['atype'])", "pos = deepcopy(self.view['pos'])",
        "for key in self.view:\n    if key not in ['atype', 'pos']:\n        d[key] = deepcopy(self.view[key])",
        'return Atoms(atype=atype, pos=pos, **d)'], 'model: deepcopy = alloc per key, mkAtoms atype pos rest')
    pin('Atoms', 'natypes', ["if np.min(self.atype) < 1:\n    raise ValueError('atype values < 1 not allowed')",
                             'return int(np.max(self.atype))'], 'model: natypes')
    pin('Atoms', '__setattr__', ['if not hasattr(self, name) or name in self.view:\n    self.view[name] = value\n'
                                 'else:\n    super(Atoms, self).__setattr__(name, value)'], 'model: setv via attribute = viewSet')

    # ---- Atoms.prop ----------------------------------------------------------------------------------
    emit('def sigProp : Sig := ' + sig('Atoms', 'prop'))
    opt_atoms = {'key': ('key', 'opt'), 'index': ('index', 'opt'), 'value': ('value', 'opt'), 'a_id': ('a_id', 'opt')}
    b = body('Atoms', 'prop')
    g = [s for s in ast.walk(fn('Atoms', 'prop')) if isinstance(s, ast.If) and ast.unparse(s.test).startswith("key == 'atype'")]
    if len(g) != 1:
        fail('Atoms.prop: the atype guard of the indexed write changed')
    gtext = ast.unparse(g[0])
    C = Cond(opt_atoms, {'isinstance(value, Atoms)': '(value.any CallVal.isAtoms = true)'}, 'Atoms.prop')
    emit('/-- `Atoms.prop`: which action a call ends in. -/')
    emit('def propDispatch (key : Option String) (index : Option Index) (value : Option CallVal) (a_id : Option Index) : '
         'PropAction := ' + tree(b, C, {
             'raise ValueError': ('ret', '.refuse .value'), 'raise TypeError': ('ret', '.refuse .type'),
             'index = a_id': ('let', 'index', 'a_id'),
             'return list(self.view.keys())': ('ret', '.keys'),
             'return deepcopy(self[index])': ('ret', '.copyAtoms index'),
             'return deepcopy(self.view[key])': ('ret', '.copyColumn key none'),
             'return deepcopy(self.view[key][index])': ('ret', '.copyColumn key index'),
             'self[:] = value': ('ret', '.setAtoms none value'),
             'self[index] = value': ('ret', '.setAtoms index value'),
             'self.view[key] = deepcopy(value)': ('ret', '.setColumn key value'),
             gtext: 'skip',
             'self.view[key][index] = value': ('ret', '.writeIndexed key index value')}, None, 'Atoms.prop'))
    guard(g[0], 'propGuardRefuses', 'np.size(value)', 'Atoms.prop (indexed write)')

    # ---- Atoms.prop_atype ----------------------------------------------------------------------------
    emit('def sigPropAtype : Sig := ' + sig('Atoms', 'prop_atype'))
    b = body('Atoms', 'prop_atype')
    if len(b) != 1 or not isinstance(b[0], ast.If) or ast.unparse(b[0].test) != 'atype is None':
        fail('Atoms.prop_atype: not `if atype is None: ... else: ...`')
    tb = b[0].body
    if len(tb) != 2 or ast.unparse(tb[0]) != 'value = np.asarray(value)' or not isinstance(tb[1], ast.If) \
            or [ast.unparse(s) for s in tb[1].body] != ['self.view[key] = value[self.atype - 1]'] \
            or len(tb[1].orelse) != 1 or not ast.unparse(tb[1].orelse[0]).startswith('raise ValueError('):
        fail('Atoms.prop_atype: the all-types branch changed')
    C = Cond({'len(value)': ('len', 'nat'), 'self.natypes': ('nt', 'nat')}, {}, 'Atoms.prop_atype')
    emit('/-- `prop_atype(key, value)`: the table is accepted. -/')
    emit('def patypeTableOk (len nt : Nat) : Prop := ' + C.prop(tb[1].test))
    eb = b[0].orelse
    if len(eb) != 1 or not isinstance(eb[0], ast.If) or ast.unparse(eb[0].test) != 'atype in self.atypes' \
            or len(eb[0].orelse) != 1 or not ast.unparse(eb[0].orelse[0]).startswith('raise ValueError('):
        fail('Atoms.prop_atype: the one-type branch is not `if atype in self.atypes: ... else: raise ValueError`')
    sb = eb[0].body
    want = ['if key not in self.prop():\n    self.view[key] = np.zeros((self.natoms,) + np.shape(value), dtype=np.asarray(value).dtype)',
            None,
            'self.view[key][self.atype == atype] = value']
    if len(sb) != 3 or [ast.unparse(s) for s in sb][0::2] != want[0::2]:
        fail('Atoms.prop_atype: the statements of the one-type branch changed (new key zeros / guard / mask assignment)')
    guard(sb[1], 'patypeGuardRefuses', 'np.size(value)', 'Atoms.prop_atype (one type)')
    emit('/-- the one-type branch of `prop_atype`, in order. -/')
    emit('def patypeSteps : List String := ["new key: zeros((natoms,) + shape(value), dtype(value))", "atype guard", '
         '"view[key][atype == t] = value"]')

    # ---- Atoms.extend --------------------------------------------------------------------------------
    emit('def sigExtend : Sig := ' + sig('Atoms', 'extend'))
    b = body('Atoms', 'extend')
    C = Cond({}, {'isinstance(value, (int, np.integer))': '(kind = ArgKind.int)',
                  'isinstance(value, Atoms)': '(kind = ArgKind.atoms)'}, 'Atoms.extend')
    emit('/-- `Atoms.extend`: what is extended by. -/')
    emit('def extendDispatch (kind : ArgKind) : ExtAction := ' + tree(b, C, {
        'raise TypeError': ('ret', '.refuse .type'),
        'natoms = value': 'skip', 'atoms = Atoms(natoms=natoms)': ('let', 'donor', 'ExtDonor.fresh'),
        'natoms = value.natoms': 'skip', 'atoms = value': ('let', 'donor', 'ExtDonor.given'),
        'index = list(range(self.natoms)) + [0 for i in range(natoms)]': 'skip',
        'newatoms = self[index]': 'skip',
        'for prop in atoms.prop():\n    if prop not in newatoms.prop():\n        newatoms.view[prop] = '
        'np.zeros((newatoms.natoms,) + atoms.view[prop][0].shape, dtype=atoms.view[prop].dtype)': 'skip',
        'for prop in newatoms.prop():\n    if prop in atoms.prop():\n        newatoms.view[prop][self.natoms:] = atoms.view[prop]\n'
        '    else:\n        newatoms.view[prop][self.natoms:] = np.zeros((natoms,) + self.view[prop][0].shape, '
        'dtype=self.view[prop][0].dtype)': 'skip',
        'return newatoms': ('ret', '.extend donor')}, None, 'Atoms.extend'))

    # ---- System ----------------------------------------------------------------------------------------
    emit('def sigSystemInit : Sig := ' + sig('System', '__init__'))
    emit('def sigAtomsProp : Sig := ' + sig('System', 'atoms_prop'))
    emit('def sigAtomsDf : Sig := ' + sig('System', 'atoms_df'))
    emit('def sigAtomsExtend : Sig := ' + sig('System', 'atoms_extend'))

    pin('System', 'natypes', ['try:\n    nsymbols = len(self.symbols)\nexcept:\n    nsymbols = 0',
                              'if nsymbols > self.__atoms.natypes:\n    return len(self.symbols)\nelse:\n    return self.__atoms.natypes'],
        'model: sysNatypes')
    C = Cond({'nsymbols': ('nsymbols', 'nat'), 'self.__atoms.natypes': ('ant', 'nat')}, {}, 'System.natypes')
    emit('/-- `System.natypes` from `len(self.symbols)` and the atoms\' natypes. -/')
    emit('def sysNatypesOf (nsymbols ant : Nat) : Nat := ' + tree(body('System', 'natypes')[1:], C, {
        'return len(self.symbols)': ('ret', 'nsymbols'), 'return self.__atoms.natypes': ('ret', 'ant')}, None, 'System.natypes'))
    pin('System', 'atypes', ['return tuple(range(1, self.natypes + 1))'], 'model: sysAtypes')

    def getter(name, attr, vocab, lean_name, params, setter_call):
        b = body('System', name)
        if len(b) != 2 or not isinstance(b[0], ast.If) or b[0].orelse \
                or [ast.unparse(s) for s in b[0].body] != [setter_call] or ast.unparse(b[1]) != f'return self.__{attr}':
            fail(f'System.{name} getter: not `if <short>: {setter_call}; return self.__{attr}`')
        Cg = Cond(vocab, {}, f'System.{name} getter')
        emit(f'/-- `System.{name}` getter: "Fill in missing values". -/')
        emit(f'def {lean_name} ({params} : Nat) : Prop := ' + Cg.prop(b[0].test))

    getter('symbols', 'symbols', {'len(self.__symbols)': ('stored', 'nat'), 'self.__atoms.natypes': ('ant', 'nat')},
           'symbolsGetPads', 'stored ant', 'self.symbols = self.__symbols')
    getter('masses', 'masses', {'len(self.__masses)': ('stored', 'nat'), 'self.natypes': ('snt', 'nat')},
           'massesGetPads', 'stored snt', 'self.masses = self.__masses')
    b = body('System', 'symbols.setter')
    padtext = lambda nt: ('newvalue = [None for x in range(%s)]' % nt, 'for i in range(len(value)):\n    newvalue[i] = value[i]',
                          'value = newvalue')
    if len(b) != 3 or ast.unparse(b[0]) != 'value = aslist(value)' or not isinstance(b[1], ast.If) or b[1].orelse \
            or [ast.unparse(s) for s in b[1].body] != list(padtext('self.__atoms.natypes')) \
            or ast.unparse(b[2]) != 'self.__symbols = tuple(value)':
        fail('System.symbols setter changed')
    C = Cond({'len(value)': ('len', 'nat'), 'self.__atoms.natypes': ('ant', 'nat')}, {}, 'System.symbols setter')
    emit('/-- `System.symbols` setter: pads with None. -/')
    emit('def symbolsSetPads (len ant : Nat) : Prop := ' + C.prop(b[1].test))
    b = body('System', 'masses.setter')
    if len(b) != 4 or ast.unparse(b[0]) != 'value = aslist(value)' \
            or ast.unparse(b[1]) != 'for i in range(len(value)):\n    if value[i] is not None:\n        value[i] = float(value[i])' \
            or not isinstance(b[2], ast.If) or ast.unparse(b[3]) != 'self.__masses = tuple(value)':
        fail('System.masses setter changed')
    C = Cond({'len(value)': ('len', 'nat'), 'self.natypes': ('snt', 'nat')}, {}, 'System.masses setter')
    pt = padtext('self.natypes')
    emit('/-- `System.masses` setter: pad / refuse / keep. -/')
    emit('def massesSetDecision (len snt : Nat) : MassesDecision := ' + tree([b[2]], C, {
        pt[0]: 'skip', pt[1]: 'skip', pt[2]: ('ret', '.pad'), 'raise ValueError': ('ret', '.refuse')}, '.keep',
        'System.masses setter'))
    pin('System', 'pbc.setter', ['pbc = np.asarray(value, dtype=bool)', "assert pbc.shape == (3,), 'invalid pbc entry'",
                                 'self.__pbc = pbc'], 'model: pbcSet')
    emit('def pbcShape : List Nat := [3]')

    # System.__init__: type check of scale, the order of the setters, the scale conversion
    b = body('System', '__init__')
    flat = [s for s in ast.walk(fn('System', '__init__'))]
    chk = [s for s in flat if isinstance(s, ast.If) and ast.unparse(s.test) == 'not isinstance(scale, bool)']
    if len(chk) != 1 or [ast.unparse(s) for s in chk[0].body] != ["raise TypeError('Invalid scale type')"] or chk[0].orelse:
        fail('System.__init__: the type check of scale changed')
    flag_tests = {'isinstance(scale, bool)': '(scale.isBool = true)', 'scale is True': '(scale = Flag.bool true)',
                  'scale is False': '(scale = Flag.bool false)', 'scale': '(scale.truthy = true)',
                  'isinstance(value, Atoms)': '(kind = ArgKind.atoms)'}
    C = Cond({}, flag_tests, 'System.__init__')
    emit('/-- `System.__init__`: "Invalid scale type". -/')
    emit('def systemInitRefuses (scale : Flag) : Prop := ' + C.prop(chk[0].test))
    seg = segment(b, 'self.__atoms = atoms', 'if scale', 'System.__init__')
    want = ['self.__atoms = atoms', 'self.__box = box', 'self.pbc = pbc', 'self.__transformation = np.identity(3)',
            'self.symbols = symbols', 'self.masses = masses']
    if [ast.unparse(s) for s in seg[:-1]] != want or not isinstance(seg[-1], ast.If) or seg[-1].orelse \
            or [ast.unparse(s) for s in seg[-1].body] != ["self.atoms_prop('pos', value=self.atoms.pos, scale=True)"]:
        fail('System.__init__: the "Set properties" block changed')
    emit('/-- the order in which `System.__init__` goes through the setters. -/')
    emit('def systemInitOrder : List String := ["pbc", "symbols", "masses"]')
    emit('/-- `System.__init__`: "Scale pos if needed". -/')
    emit('def systemInitConverts (scale : Flag) : Prop := ' + C.prop(seg[-1].test))
    cp = [s for s in flat if isinstance(s, ast.If) and ast.unparse(s) ==
          'if atoms is None:\n    atoms = Atoms()\nelif safecopy:\n    atoms = deepcopy(atoms)']
    if len(cp) != 1:
        fail('System.__init__: the default / safecopy handling of atoms changed')
    if ast.unparse(seg[-1].test) not in flag_tests:
        fail('System.__init__: scale test not in the vocabulary')

    # System.atoms_prop
    b = body('System', 'atoms_prop')
    C = Cond(opt_atoms, dict(flag_tests, **{'isinstance(value, Atoms)': '(value.any CallVal.isAtoms = true)'}), 'System.atoms_prop')
    emit('/-- `System.atoms_prop`: which action a call ends in. -/')
    emit('def atomsPropDispatch (key : Option String) (index : Option Index) (value : Option CallVal) (a_id : Option Index) '
         '(scale : Flag) : AtomsPropAction := ' + tree(b, C, {
             'raise ValueError': ('ret', '.refuse .value'), 'raise TypeError': ('ret', '.refuse .type'),
             'return self.atoms.prop(key=key, index=index, a_id=a_id)': ('ret', '.delegate'),
             'self.atoms.prop(key=key, index=index, value=value, a_id=a_id)': ('ret', '.delegate'),
             'index = a_id': ('let', 'index', 'a_id'),
             'newatoms = deepcopy(self.atoms)': 'skip', 'newatoms = deepcopy(self.atoms[index])': 'skip',
             'newatoms.pos = self.box.position_cartesian_to_relative(newatoms.pos)': 'skip',
             'return newatoms': ('ret', '.scaledAtoms index'),
             'value = self.atoms.view[key]': 'skip', 'value = self.atoms.view[key][index]': 'skip',
             'return self.box.position_cartesian_to_relative(value)': ('ret', '.scaledColumn key index'),
             'value.pos = self.box.position_relative_to_cartesian(value.pos)': 'skip',
             'self.atoms[:] = value': ('ret', '.scaledSetAtoms none value'),
             'self.atoms[index] = value': ('ret', '.scaledSetAtoms index value'),
             'value = self.box.position_relative_to_cartesian(value)': 'skip',
             'self.atoms.view[key] = value': ('ret', '.scaledSetColumn key none value'),
             'self.atoms.prop(key=key, index=index, value=value)': ('ret', '.scaledSetColumn key index value')},
             None, 'System.atoms_prop'))

    # System.atoms_extend
    want = ['if safecopy:\n    value = deepcopy(value)',
            "if scale is True and (not isinstance(value, Atoms)):\n    raise ValueError('scale can only be True for Atoms values')",
            'if symbols is None:\n    symbols = self.symbols',
            'if safecopy:\n    box = deepcopy(self.box)\nelse:\n    box = self.box',
            'atoms = self.atoms.extend(value)',
            'if scale:\n    atoms.pos[self.natoms:] = self.box.position_relative_to_cartesian(value.pos)',
            'return System(atoms=atoms, box=box, pbc=self.pbc, symbols=symbols)']
    b = body('System', 'atoms_extend')
    got = [ast.unparse(s) for s in b]
    if len(got) != len(want) or got[0] != want[0] or got[2:5] != want[2:5] or got[6] != want[6] \
            or not isinstance(b[1], ast.If) or b[1].orelse or not ast.unparse(b[1].body[0]).startswith('raise ValueError(') \
            or not isinstance(b[5], ast.If) or b[5].orelse or len(b[5].body) != 1:
        fail('System.atoms_extend: statement order changed (copy, refusal, symbols read, box, extend, scaled write, System)')
    C = Cond({}, flag_tests, 'System.atoms_extend')
    emit('/-- `atoms_extend`: "scale can only be True for Atoms values". -/')
    emit('def atomsExtendRefuses (scale : Flag) (kind : ArgKind) : Prop := ' + C.prop(b[1].test))
    emit('/-- `atoms_extend`: the donor positions are box-relative and are converted. -/')
    emit('def atomsExtendConverts (scale : Flag) : Prop := ' + C.prop(b[5].test))
    wr = ast.unparse(b[5].body[0])
    if wr == 'atoms.pos[self.natoms:] = self.box.position_relative_to_cartesian(value.pos)':
        off = 'false'
    elif wr == 'atoms.pos[value.natoms:] = self.box.position_relative_to_cartesian(value.pos)':
        off = 'true'
    else:
        fail('System.atoms_extend: the scaled write changed: ' + wr[:120])
    emit('/-- the scaled positions are written at `self.natoms` (`true`: at the donor\'s length). -/')
    emit(f'def atomsExtendOffsetDonor : Bool := {off}')

    # Atoms.df / System.atoms_df: the scale argument as a decision, the table loops as statement pins
    loop = ("for key in %s.keys():\n%s    for index, istr in indexstr(%s[key].shape[1:]):\n        newkey = key + istr\n"
            "        if index == ():\n            values[newkey] = %s\n        else:\n            values[newkey] = %s[(Ellipsis,) + index]")
    pin('Atoms', 'df', ['values = OrderedDict()', loop % ('self.view', '', 'self.view', 'self.view[key]', 'self.view[key]'),
                        'return pd.DataFrame(values)'], 'model: dfColumns / valColumns / indexStrs / flatIdx')
    b = body('System', 'atoms_df')
    if len(b) != 4 or not isinstance(b[0], ast.If):
        fail('System.atoms_df: expected scale handling, values, loop, return')
    scaled = ("    value = self.atoms.view[key]\n    if key in scale:\n        value = self.box.position_cartesian_to_relative(value)\n")
    if [ast.unparse(x) for x in b[1:]] != ['values = OrderedDict()',
            loop % ('self.atoms.view', scaled, 'self.atoms.view', 'value', 'value'), 'return pd.DataFrame(values)']:
        fail('System.atoms_df: the table loop changed')
    C = Cond({}, {'scale is True': '(scale = DfScale.flag (Flag.bool true))', 'scale is False': '(scale = DfScale.flag (Flag.bool false))',
                  'isinstance(scale, list)': '(scale.isList = true)'}, 'System.atoms_df')
    emit('/-- `System.atoms_df`: the property names that are converted to box-relative values. -/')
    emit('def dfScaleKeys (scale : DfScale) : List String := ' + tree([b[0]], C, {
        "scale = ['pos']": ('ret', '["pos"]'), 'scale = []': ('ret', '[]'), 'scale = [scale]': ('ret', 'scale.single')},
        'scale.toKeys', 'System.atoms_df'))

    # _AtomsIndexer
    pin('_AtomsIndexer', '__getitem__', ['host = self.__host',
        'return System(atoms=host.atoms[index], box=host.box, pbc=host.pbc, symbols=host.symbols)'], 'model: ixGet')
    pin('_AtomsIndexer', '__setitem__', ['host = self.__host',
        "if isinstance(value, Atoms):\n    host.atoms[index] = value\nelif isinstance(value, System):\n"
        "    try:\n        assert np.allclose(host.box.vects, value.box.vects)\n        assert np.allclose(host.box.origin, value.box.origin)\n"
        "    except:\n        warnings.warn('Atom assignment between two Systems with different boxes', UserWarning)\n"
        "    host.atoms[index] = value.atoms\nelse:\n    raise ValueError('Can only set using Atoms or System objects')"],
        'model: ixSet')
    # composition: the loop and the reduction
    pin('System', 'composition', ['sym_dict = {}',
        'for i in range(self.natypes):\n    count = np.sum(self.atoms.atype == i + 1)\n    if count > 0:\n        symbol = self.symbols[i]\n'
        '        if symbol is None:\n            return None\n        if symbol in sym_dict:\n            sym_dict[symbol] += count\n'
        '        else:\n            sym_dict[symbol] = count',
        'gcd = np.gcd.reduce(list(sym_dict.values()))', "composition = ''",
        "for symbol in sorted(sym_dict):\n    count = sym_dict[symbol] // gcd\n    if sym_dict[symbol] > 0:\n        composition += symbol\n"
        "        if count != 1:\n            composition += str(count)", 'return composition'], 'model: composition / compCounts / compString')

    head = ('/- GENERATED by harness/props/c06.py (translate) from atomman/core/Atoms.py and atomman/core/System.py — do not edit.\n'
            '   Signatures, defaults and every branch selection of the anchored functions; `Proofs/C06_Source.lean` proves each\n'
            '   definition equal to the hand-written model of `Atomman/C06.lean` (`gen_…_eq_model`).  Statements of the bodies\n'
            '   that are not branch selections are pinned by their normalised text in the translator (TranslationError otherwise). -/\n'
            'import Atomman.C06\n\nnamespace Atomman.Generated.AtomsSource\nopen Atomman Atomman.C06\n\n')
    return {'AtomsSource': head + '\n'.join(out) + '\n\nend Atomman.Generated.AtomsSource\n'}



# property names of the random histories: plain ones, and names a special case keyed on the spelling would single out
# (leading underscore, dunder-like, not a Python identifier); every name is ONE token on the wire
KEYS = ['p0', 'p1', 'p2', 'p3', 'p4', '_g', '__d__', 'a-b']
# the name pool of the creation matrix (matrix_names): leading underscore(s), dunder-like, mangled-looking, digits first,
# not identifiers, short names that are substrings of the reserved keys, upper case, and two names that every Atoms object
# already has as a class attribute (`natypes`, `df`: legal property names through every route except attribute set,
# which is then Python's own attribute assignment)
NAMES = ['_g', '__h', '__d__', '_Atoms__q', '_0', 'a-b', '2x', 'x.y', 'a', 'po', 'typ', 'POS', 'natypes', 'df']
CLASS_ATTRS = ('natypes', 'df')
STRS = ['a', 'b', 'Fe', 'Al', 'xyz', 'Q', 'uvw', 'Cu', '']
SYMS = ['Al', 'Fe', 'Cu', 'Ni', 'X']
TRAILS = [[], [], [3], [3, 3], [], [3], [1], [1, 1], [1, 3], [3, 1]]
ERRCLS = {ValueError: 'value', TypeError: 'type', IndexError: 'index', KeyError: 'key', AssertionError: 'assert'}


def _np():
    import numpy as np
    return np


# ----------------------------------------------------------------------------------------------
# literals, indices, wire format
# ----------------------------------------------------------------------------------------------

def lit(dt, shape, data, w=None):
    d = {'dt': dt, 'shape': list(shape), 'data': list(data)}
    if dt == 's':
        d['w'] = w if w is not None else max([1] + [len(x) for x in data])
    return d


def lit_np(l):
    """fresh ndarray (or python scalar for 0-d) of a literal spec."""
    np = _np()
    dt = {'i': np.int64, 'f': np.float64, 'b': np.bool_, 's': None}[l['dt']]
    if l['dt'] == 's':
        dt = f"<U{l['w']}"
    arr = np.array(l['data'], dtype=dt).reshape(l['shape'])
    if l.get('as'):
        # the same numbers in a narrower / unsigned dtype (exactly representable: checked), e.g. uint64 atom types (the
        # dtype Atoms itself uses for the default atype), int32 / uint8 / float32 values written into int64 / float64 columns
        narrow = arr.astype(l['as'])
        if not np.array_equal(narrow.astype(arr.dtype), arr):
            raise ValueError('literal not representable as ' + l['as'])
        return narrow
    return arr


def lit_arg(l):
    """what is passed to atomman: python scalar for 0-d, fresh ndarray otherwise."""
    arr = lit_np(l)
    if arr.ndim == 0:
        return arr[()] if l.get('as') else arr.item()       # (a numpy scalar of the narrow dtype / a python scalar)
    return arr


def dt_token(arr):
    k = arr.dtype.kind
    if k in 'iu':
        return 'i'
    if k == 'f':
        return 'f'
    if k == 'b':
        return 'b'
    if k == 'U':
        return 's%d' % (arr.dtype.itemsize // 4)
    return '?' + k


def cell_tokens(arr):
    k = arr.dtype.kind
    flat = arr.ravel().tolist()
    if k in 'iu':
        return [str(int(x)) for x in flat]
    if k == 'f':
        return [cm.fr(x) for x in flat]
    if k == 'b':
        return ['1' if x else '0' for x in flat]
    if k == 'U':
        return ['_' + x for x in flat]
    return ['?'] * len(flat)


def table_wire(df):
    """a DataFrame as the model prints a table: `ok d ncols {name dtype nrows cells…}` (strings without width)."""
    np = _np()
    toks = ['ok', 'd', str(len(df.columns))]
    for name in df.columns:
        col = df[name]
        if not hasattr(col, 'tolist') or getattr(col, 'ndim', 1) != 1:
            raise ReplyError('duplicate column name %r' % (name,))
        vals = col.tolist()
        arr = col.to_numpy()
        if arr.dtype.kind in 'iufb':
            toks += [str(name), dt_token(arr)[0], str(len(vals))] + cell_tokens(arr)
        elif all(isinstance(x, str) for x in vals):
            toks += [str(name), 's', str(len(vals))] + ['_' + x for x in vals]
        else:
            toks += [str(name), '?', str(len(vals))] + ['?'] * len(vals)
    return ' '.join(toks)


class ReplyError(Exception):
    """what a call returned is not the kind of thing it is documented to return (not an exception of the implementation:
    never mistaken for a refusal)."""


def val_wire(arr):
    np = _np()
    if not isinstance(arr, (np.ndarray, np.generic, int, float, bool, str)):
        # never np.asarray() an arbitrary object: an Atoms is an endless nested sequence for numpy
        raise ReplyError('a property value was expected, got %s' % type(arr).__name__)
    arr = np.asarray(arr)
    return ' '.join(['V', dt_token(arr), str(arr.ndim)] + [str(d) for d in arr.shape] + cell_tokens(arr))


def lit_wire(l):
    if l is None:
        return '.'
    return val_wire(lit_np(l))


def ix_wire(ix):
    if ix is None:
        return '.'
    t = ix[0]
    if t == 'I':
        return f'I {ix[1]}'
    if t == 'S':
        return 'S ' + ' '.join('.' if v is None else str(v) for v in ix[1:4])
    if t == 'L':
        return ' '.join(['L', str(len(ix[1]))] + [str(v) for v in ix[1]])
    if t == 'K':
        return ' '.join(['K', str(len(ix[1]))] + ['1' if v else '0' for v in ix[1]])
    raise ValueError(ix)


def ix_form(ix):
    """form marker of an index spec: None (python int / list / numpy bool array), 'np' (numpy integer scalar, numpy
    integer array), 'npu' (unsigned numpy integer scalar / array; non-negative indices only), 'np32' (int32 array),
    'list' (boolean mask as a python list), 'tuple' (integer indices as a tuple is NOT a form: numpy
    reads a tuple as a multi-axis index)."""
    if ix is None or ix[0] == 'S':
        return None
    return ix[2] if len(ix) > 2 else None


def ix_py(ix):
    np = _np()
    if ix is None:
        return None
    t = ix[0]
    form = ix_form(ix)
    if t == 'I':
        if form == 'npu':
            return np.uint8(ix[1])
        return np.int64(ix[1]) if form == 'np' else int(ix[1])
    if t == 'S':
        return slice(ix[1], ix[2], ix[3])
    if t == 'L':
        if form == 'np':
            return np.array([int(v) for v in ix[1]], dtype=np.int64)
        if form == 'npu':
            return np.array([int(v) for v in ix[1]], dtype=np.uint16)
        if form == 'np32':
            return np.array([int(v) for v in ix[1]], dtype=np.int32)
        return [int(v) for v in ix[1]]
    if t == 'K':
        if form == 'list' and ix[1]:
            return [bool(v) for v in ix[1]]
        return np.array(ix[1], dtype=bool)
    raise ValueError(ix)


def vary_index(rng, ix, p=0.3):
    """the same selection in another index FORM (the model sees the same index): numpy integer scalar for an int,
    numpy integer array for a list, python list of bools for a mask."""
    if ix is None or ix[0] == 'S' or len(ix) > 2 or rng.random() >= p:
        return ix
    if ix[0] in ('I', 'L'):
        vals = [ix[1]] if ix[0] == 'I' else list(ix[1])
        if all(v >= 0 for v in vals) and rng.random() < 0.4:
            return ix[:2] + ['npu']            # unsigned numpy integer (scalar uint8 / array uint16): same selection
        return ix[:2] + ['np']
    if ix[0] == 'K' and ix[1]:
        return ix[:2] + ['list']
    return ix


def syms_wire(l):
    if l is None:
        return '.'
    return ' '.join([str(len(l))] + ['~' if x is None else '_' + x for x in l])


def masses_wire(l):
    if l is None:
        return '.'
    return ' '.join([str(len(l))] + ['~' if x is None else cm.fr(x) for x in l])


# ----------------------------------------------------------------------------------------------
# the world of live real objects, and its model twin
# ----------------------------------------------------------------------------------------------

class World:
    def __init__(self):
        self.atoms = OrderedDict()    # handle -> am.Atoms
        self.syss = OrderedDict()     # handle -> am.System
        self.mid = {}                 # handle -> model id
        self.pending = []             # observation operations queued by schedule_obs (issued before anything else)
        self.last_read = {}           # atoms handle -> last read operation on it (re-issued after a write)
        self.box = {}                 # system handle -> box literal (12 floats) the system was built with

    def live_arrays(self):
        out = []
        for h, a in self.atoms.items():
            for k in a.view:
                out.append((h, k, a.view[k]))
        return out


def flag_wire(op, name):
    """a flag as the caller spells it: `b1` / `b0` a Python bool (also: not given, the default False of the signature),
    `o1` / `o0` a truthy / falsy non-bool (`<name>_as` in int / np / float)."""
    return ('o' if op.get(name + '_as') in ('int', 'np', 'float') else 'b') + ('1' if op.get(name) else '0')


def args_wire(op, W, key=None, val='.'):
    """`key index value a_id` of a prop / atoms_prop call as given (index=… / a_id=… / both)."""
    ix = ix_wire(op.get('ix'))
    aid = op.get('aid')
    index, a_id = (ix, '.') if aid is None else (('.', ix) if aid == 'aid' else (ix, ix))
    return f"{key if key is not None else '.'} {index} {val} {a_id}"


def op_line(op, W):
    """wire form of an operation (handles replaced by model ids); None if a handle is unknown."""
    m = W.mid
    k = op['op']
    try:
        if k == 'new':
            ex = op.get('extra', [])
            return ' '.join(['op new', '.' if op.get('natoms') is None else str(op['natoms']), lit_wire(op.get('atype')),
                             lit_wire(op.get('pos')), str(len(ex))] + [kk + ' ' + lit_wire(v) for kk, v in ex])
        if k == 'setv':
            return f"op setv {m[op['o']]} {op['key']} {lit_wire(op['val'])}"
        # prop / atoms_prop / System(...) / atoms_extend go over the wire as CALLS with their options as spelled: the
        # option handling (index / a_id, kind of value, flag spellings, defaults) is done by the Lean model (Call.toOp)
        if k == 'pget':
            return f"call prop {m[op['o']]} {args_wire(op, W, op['key'])}"
        if k == 'pkeys':
            return f"call prop {m[op['o']]} . . . ."
        if k == 'pgeta':
            return f"call prop {m[op['o']]} {args_wire(op, W)}"
        if k == 'pset':
            return f"call prop {m[op['o']]} {args_wire(op, W, op['key'], lit_wire(op['val']))}"
        if k == 'pseta':
            return f"call prop {m[op['o']]} {args_wire(op, W, None, 'A ' + str(m[op['src']]))}"
        if k == 'geti':
            return f"op geti {m[op['o']]} {ix_wire(op['ix'])}"
        if k == 'seti':
            return f"op seti {m[op['o']]} {ix_wire(op['ix'])} {m[op['src']]}"
        if k == 'patype':
            return f"op patype {m[op['o']]} {op['key']} {lit_wire(op['val'])} {'.' if op.get('t') is None else op['t']}"
        if k == 'exti':
            return f"op exti {m[op['o']]} {op['n']}"
        if k == 'exta':
            return f"op exta {m[op['o']]} {m[op['src']]}"
        if k == 'dcopy':
            return f"op dcopy {m[op['o']]}"
        if k == 'natypes':
            return f"op natypes {m[op['o']]}"
        if k == 'mksys':
            x = bool(op.get('scale') or op.get('safecopy') or op.get('scale_as') or op.get('safecopy_as'))
            if x:
                return ' '.join([f"call system {m[op['o']]}", cm.frs(op['box']), str(len(op['pbc']))]
                                + ['1' if b else '0' for b in op['pbc']]
                                + [syms_wire(op.get('symbols')), masses_wire(op.get('masses')),
                                   flag_wire(op, 'scale'), flag_wire(op, 'safecopy')])
            return ' '.join([f"op mksys {m[op['o']]}", cm.frs(op['box']), str(len(op['pbc']))]
                            + ['1' if b else '0' for b in op['pbc']]
                            + [syms_wire(op.get('symbols')), masses_wire(op.get('masses'))])
        if k in ('symget', 'massget', 'snatypes', 'satypes', 'scomp'):
            return f"op {k} {m[op['s']]}"
        if k == 'sstr':              # str(system) reads natoms, natypes, symbols, pbc: the model's natypes read
            return f"op snatypes {m[op['s']]}"
        if k == 'symset':
            return f"op symset {m[op['s']]} {syms_wire(op['symbols'])}"
        if k == 'massset':
            return f"op massset {m[op['s']]} {masses_wire(op['masses'])}"
        if k == 'pbcset':
            return ' '.join([f"op pbcset {m[op['s']]}", str(len(op['pbc']))] + ['1' if b else '0' for b in op['pbc']])
        if k == 'spget':
            return f"call aprop {m[op['s']]} {args_wire(op, W, op['key'])} {flag_wire(op, 'scale')}"
        if k == 'spgeta':
            return f"call aprop {m[op['s']]} {args_wire(op, W)} {flag_wire(op, 'scale')}"
        if k == 'sdcopy':
            return f"op sdcopy {m[op['s']]}"
        if k == 'spset':
            return f"call aprop {m[op['s']]} {args_wire(op, W, op['key'], lit_wire(op['val']))} {flag_wire(op, 'scale')}"
        if k == 'spseta':
            return f"call aprop {m[op['s']]} {args_wire(op, W, None, 'A ' + str(m[op['src']]))} {flag_wire(op, 'scale')}"
        if k == 'sext':
            v = op['value']
            body = f"i {m[op['s']]} {v[1]}" if v[0] == 'i' else f"a {m[op['s']]} {m[v[1]]}"
            return f"call aext {body} {flag_wire(op, 'scale')} {syms_wire(op.get('symbols'))}"
        if k == 'df':
            return f"op df {m[op['o']]}"
        if k == 'sdf':
            sc = op.get('scale')
            if isinstance(sc, list):
                return ' '.join([f"op sdf l {m[op['s']]} {len(sc)}"] + list(sc))
            if isinstance(sc, str):
                return f"op sdf k {m[op['s']]} {sc}"
            return f"op sdf f {m[op['s']]} {'b1' if sc else 'b0'}"
        if k == 'ixget':
            return f"op ixget {m[op['s']]} {ix_wire(op['ix'])}"
        if k == 'ixset':
            v = op['src']
            return f"op ixset {v[0]} {m[op['s']]} {ix_wire(op['ix'])} {m[v[1]]}"
    except KeyError:
        return None
    raise ValueError(k)


def _canon_val(tokens):
    """reply tokens of a value: 0-d strings carry no width."""
    if len(tokens) >= 3 and tokens[0] == 'V' and tokens[2] == '0' and tokens[1].startswith('s'):
        tokens = [tokens[0], 's'] + tokens[2:]
    return ' '.join(tokens)


def ix_kw(op):
    """index=… / a_id=… keywords of prop / atoms_prop: `a_id` is the documented backwards-compatible spelling of
    `index` (op['aid'] == 'aid'); both together (op['aid'] == 'both') must be refused."""
    ix = ix_py(op.get('ix'))
    aid = op.get('aid')
    if aid == 'aid':
        return {'a_id': ix}
    if aid == 'both':
        return {'index': ix, 'a_id': ix}
    return {'index': ix}


def flag_arg(op, name):
    """a boolean flag of the call in the form `<name>_as` asks for: python bool (default), 'int' (1 / 0), 'np'
    (numpy.True_ / numpy.False_), 'float' (1.0 / 0.0)."""
    v = bool(op.get(name))
    form = op.get(name + '_as')
    if form == 'int':
        return int(v)
    if form == 'np':
        return _np().bool_(v)
    if form == 'float':
        return float(v)
    return v


def scale_kw(op):
    if op.get('scale_as'):
        return {'scale': flag_arg(op, 'scale')}
    return {'scale': True} if op.get('scale') else {}


def tuple_form(op, field):
    """symbols / masses as handed to System: list (default), tuple, or - for a single entry - the bare str / float
    (`aslist` semantics, op['<field>_as'])."""
    v = list(op[field])
    form = op.get(field + '_as')
    if form == 'tuple':
        return tuple(v)
    if form == 'bare' and len(v) == 1 and v[0] is not None:
        return v[0]
    return v


def pbc_form(op):
    """pbc as list of bools (default), tuple, list of 0/1 ints, or numpy bool array (op['pbc_as'])."""
    v = [bool(b) for b in op['pbc']]
    form = op.get('pbc_as')
    if form == 'tuple':
        return tuple(v)
    if form == 'int':
        return [int(b) for b in v]
    if form == 'np':
        return _np().array(v, dtype=bool)
    return v


def scribble(arr):
    """overwrite a caller-owned array after it was handed to an accessor that promises to copy."""
    np = _np()
    if isinstance(arr, np.ndarray) and arr.size and arr.flags.writeable:
        k = arr.dtype.kind
        if k in 'iuf':
            arr[...] = 7
        elif k == 'b':
            arr[...] = ~arr
        elif k == 'U':
            arr[...] = 'zz'


def exec_real(op, W):
    """run the operation on the real objects.  Returns the canonical reply string (model format with
    ids removed) and the list of (kind, handle, object) created."""
    import atomman as am
    np = _np()
    k = op['op']
    A, S = W.atoms, W.syss
    created = []
    try:
        if k == 'new':
            kw = OrderedDict()
            if op.get('natoms') is not None:
                kw['natoms'] = op['natoms']
            if op.get('atype') is not None:
                kw['atype'] = lit_arg(op['atype'])
            if op.get('pos') is not None:
                kw['pos'] = lit_arg(op['pos'])
            for kk, v in op.get('extra', []):
                kw[kk] = lit_arg(v)
            if op.get('safecopy'):
                kw['safecopy'] = flag_arg(op, 'safecopy')
            a = am.Atoms(**kw)
            if op.get('safecopy'):
                # safecopy=True promises copies: the caller goes on using (here: overwriting) its own arrays
                for v in kw.values():
                    scribble(v)
            created.append(('a', 'a%d' % op['id'], a))
            rep = 'ok o'
        elif k == 'setv':
            if op.get('via') == 'attr':
                setattr(A[op['o']], op['key'], lit_arg(op['val']))
            else:
                A[op['o']].view[op['key']] = lit_arg(op['val'])
            rep = 'ok'
        elif k in ('pget', 'spget'):
            if k == 'pget':
                r = A[op['o']].prop(key=op['key'], **ix_kw(op))
            else:
                r = S[op['s']].atoms_prop(key=op['key'], **ix_kw(op), **scale_kw(op))
            W.last_out = r
            rep = 'ok v ' + _canon_val(val_wire(r).split(' '))
        elif k == 'pkeys':
            r = A[op['o']].prop()
            rep = ' '.join(['ok k', str(len(r))] + list(r))
        elif k in ('pgeta', 'spgeta'):
            if k == 'pgeta':
                a = A[op['o']].prop(**ix_kw(op))
            else:
                a = S[op['s']].atoms_prop(**ix_kw(op), **scale_kw(op))
            if not isinstance(a, am.Atoms):
                raise ReplyError('prop(index=) did not return an Atoms object but %r' % type(a).__name__)
            created.append(('a', 'a%d' % op['id'], a))
            rep = 'ok o'
        elif k == 'spkeys':
            r = S[op['s']].atoms_prop()
            rep = ' '.join(['ok k', str(len(r))] + list(r))
        elif k == 'pset':
            val = lit_arg(op['val'])
            A[op['o']].prop(key=op['key'], **ix_kw(op), value=val)
            scribble(val)       # prop() stores a COPY of the value: the caller's array is the caller's to reuse
            rep = 'ok'
        elif k == 'pseta':
            A[op['o']].prop(**ix_kw(op), value=A[op['src']])
            rep = 'ok'
        elif k == 'geti':
            a = A[op['o']][ix_py(op['ix'])]
            created.append(('a', 'a%d' % op['id'], a))
            rep = 'ok o'
        elif k == 'seti':
            A[op['o']][ix_py(op['ix'])] = A[op['src']]
            rep = 'ok'
        elif k == 'patype':
            A[op['o']].prop_atype(op['key'], lit_arg(op['val']), atype=op.get('t'))
            rep = 'ok'
        elif k == 'exti':
            a = A[op['o']].extend(op['n'])
            created.append(('a', 'a%d' % op['id'], a))
            rep = 'ok o'
        elif k == 'exta':
            a = A[op['o']].extend(A[op['src']])
            created.append(('a', 'a%d' % op['id'], a))
            rep = 'ok o'
        elif k == 'dcopy':
            a = copy.deepcopy(A[op['o']])
            created.append(('a', 'a%d' % op['id'], a))
            rep = 'ok o'
        elif k in ('df', 'sdf'):
            if k == 'df':
                W.last_obs = A[op['o']].df()
            elif op.get('scale') in (None, False):
                W.last_obs = S[op['s']].atoms_df()
            else:
                W.last_obs = S[op['s']].atoms_df(scale=op['scale'])
            rep = table_wire(W.last_obs)
        elif k == 'sdcopy':
            s = copy.deepcopy(S[op['s']])
            created.append(('a', 'a%d' % op['id'], s.atoms))
            created.append(('s', 's%d' % op['id'], s))
            W.box['s%d' % op['id']] = W.box.get(op['s'])
            rep = 'ok os'
        elif k == 'natypes':
            rep = 'ok n %d' % A[op['o']].natypes
        elif k == 'ainfo':      # the small observers of Atoms: len(), natoms, atypes, str()
            a = A[op['o']]
            str(a)
            rep = 'ok i %d %d %s' % (len(a), a.natoms, ','.join(str(int(t)) for t in a.atypes))
        elif k == 'sinfo':      # ... and of System (natypes / symbols are operations of their own)
            y = S[op['s']]
            rep = 'ok i %d %d %d' % (len(y), y.natoms, 1 if any(y.atoms is a for a in A.values()) else 0)
        elif k == 'mksys':
            b = op['box']
            box = am.Box(vects=np.array(b[:9], dtype=float).reshape(3, 3), origin=np.array(b[9:], dtype=float))
            kw = {}
            if op.get('symbols') is not None:
                kw['symbols'] = tuple_form(op, 'symbols')
            if op.get('masses') is not None:
                kw['masses'] = tuple_form(op, 'masses')
            if op.get('scale') or op.get('scale_as'):
                kw['scale'] = flag_arg(op, 'scale')
            if op.get('safecopy'):
                kw['safecopy'] = flag_arg(op, 'safecopy')
            s = am.System(atoms=A[op['o']], box=box, pbc=pbc_form(op), **kw)
            if op.get('safecopy'):
                created.append(('a', 'a%d' % op['id'], s.atoms))
            created.append(('s', 's%d' % op['id'], s))
            W.box['s%d' % op['id']] = list(op['box'])
            rep = 'ok os'
        elif k == 'symget':
            r = S[op['s']].symbols
            rep = 'ok y ' + syms_wire(list(r))
        elif k == 'symset':
            S[op['s']].symbols = tuple_form(op, 'symbols')
            rep = 'ok'
        elif k == 'massget':
            r = S[op['s']].masses
            rep = 'ok w ' + masses_wire(list(r))
        elif k == 'massset':
            S[op['s']].masses = tuple_form(op, 'masses')
            rep = 'ok'
        elif k == 'pbcset':
            S[op['s']].pbc = pbc_form(op)
            rep = 'ok'
        elif k == 'snatypes':
            rep = 'ok n %d' % S[op['s']].natypes
        elif k == 'satypes':
            r = S[op['s']].atypes
            rep = ' '.join(['ok t', str(len(r))] + [str(int(x)) for x in r])
        elif k == 'scomp':
            r = S[op['s']].composition
            rep = 'ok c ' + ('~' if r is None else '_' + str(r))
        elif k == 'sstr':
            r = str(S[op['s']])
            mt = re.search(r'^natypes = (\d+)$', r, re.M)
            rep = 'ok n ' + (mt.group(1) if mt else '?')
        elif k == 'spset':
            S[op['s']].atoms_prop(key=op['key'], **ix_kw(op), value=lit_arg(op['val']), scale=flag_arg(op, 'scale'))
            rep = 'ok'
        elif k == 'spseta':
            S[op['s']].atoms_prop(**ix_kw(op), value=A[op['src']], scale=flag_arg(op, 'scale'))
            rep = 'ok'
        elif k == 'sext':
            v = op['value']
            val = int(v[1]) if v[0] == 'i' else A[v[1]]
            kw = {}
            if op.get('symbols') is not None:
                kw['symbols'] = list(op['symbols'])
            if op.get('safecopy'):
                kw['safecopy'] = flag_arg(op, 'safecopy')
            s = S[op['s']].atoms_extend(val, scale=flag_arg(op, 'scale'), **kw)
            created.append(('a', 'a%d' % op['id'], s.atoms))
            created.append(('s', 's%d' % op['id'], s))
            W.box['s%d' % op['id']] = W.box.get(op['s'])
            rep = 'ok os'
        elif k == 'ixget':
            s = S[op['s']].atoms_ix[ix_py(op['ix'])]
            created.append(('a', 'a%d' % op['id'], s.atoms))
            created.append(('s', 's%d' % op['id'], s))
            W.box['s%d' % op['id']] = W.box.get(op['s'])
            rep = 'ok os'
        elif k == 'ixset':
            v = op['src']
            S[op['s']].atoms_ix[ix_py(op['ix'])] = A[v[1]] if v[0] == 'a' else S[v[1]]
            rep = 'ok'
        else:
            raise RuntimeError('unknown op ' + k)
    except Exception as e:    # noqa: BLE001 - every exception class is an observable outcome here
        cls = next((c for t, c in ERRCLS.items() if isinstance(e, t)), 'other:' + type(e).__name__)
        W.last_exc = f'{type(e).__name__}: {e}'
        return 'err:' + cls, []
    return rep, created


def canon_model_reply(rep):
    """strip ids from the model's reply -> comparable with exec_real's; returns (canon, new ids)."""
    t = rep.split(' ')
    if t[0] != 'ok':
        return rep, []
    if len(t) >= 2 and t[1] == 'o':
        return 'ok o', [int(t[2])]
    if len(t) >= 2 and t[1] == 'os':
        return 'ok os', [int(t[2]), int(t[3])]
    if len(t) >= 2 and t[1] == 'v':
        return 'ok v ' + _canon_val(t[2:]), []
    return rep, []


def pbc_tokens(s):
    """the stored pbc as 0/1 tokens; anything that is not a numpy bool array prints as `?<what>` tokens."""
    np = _np()
    p = s.pbc
    if not isinstance(p, np.ndarray) or p.dtype != np.bool_ or p.ndim != 1:
        return ['?' + type(p).__name__ + ':' + str(getattr(p, 'dtype', ''))] * max(1, len(np.atleast_1d(np.asarray(p))))
    return ['1' if b else '0' for b in p.tolist()]


_BOX_EXACT = {}


def box_exact(box):
    """the Cartesian -> box-relative map of this box is exact in double arithmetic on the generated (dyadic) values:
    numpy's inverse of the vectors equals the rational inverse entry by entry, and every entry is a small dyadic."""
    if box is None:
        return False
    key = tuple(float(x) for x in box)
    if key not in _BOX_EXACT:
        np = _np()
        v = np.array(key[:9], dtype=float).reshape(3, 3)
        M = [[Fraction(x) for x in r] for r in v.tolist()]
        det = (M[0][0] * (M[1][1] * M[2][2] - M[1][2] * M[2][1]) - M[0][1] * (M[1][0] * M[2][2] - M[1][2] * M[2][0])
               + M[0][2] * (M[1][0] * M[2][1] - M[1][1] * M[2][0]))
        ok = det != 0
        if ok:
            cof = [[M[(i + 1) % 3][(j + 1) % 3] * M[(i + 2) % 3][(j + 2) % 3]
                    - M[(i + 1) % 3][(j + 2) % 3] * M[(i + 2) % 3][(j + 1) % 3] for j in range(3)] for i in range(3)]
            finv = [[cof[j][i] / det for j in range(3)] for i in range(3)]
            try:
                inv = np.linalg.inv(v)
                ok = all(Fraction(float(inv[i][j])) == finv[i][j] and finv[i][j].denominator <= 64
                         for i in range(3) for j in range(3))
            except Exception:
                ok = False
        _BOX_EXACT[key] = ok
    return _BOX_EXACT[key]


def dump_real(W):
    """same token stream as the driver's `dump`."""
    np = _np()
    parts = []
    arrs = []
    for h, a in W.atoms.items():
        keys = list(a.view.keys())
        parts.append(f'O {W.mid[h]} {a.natoms} {len(keys)}')
        for k in keys:
            arr = a.view[k]
            parts.append(k + ' ' + val_wire(arr))
            arrs.append(arr)
    for h, s in W.syss.items():
        aid = next((W.mid[ah] for ah, a in W.atoms.items() if a is s.atoms), -1)
        pbc = pbc_tokens(s)
        sy = list(s._System__symbols)
        ms = list(s._System__masses)
        parts.append(' '.join(['Y', str(W.mid[h]), str(aid), str(len(pbc))] + pbc + [syms_wire(sy), masses_wire(ms)]))
    sh = []
    n = len(arrs)
    for i in range(n):
        ai = arrs[i]
        if ai.size == 0:
            continue
        for j in range(i + 1, n):
            if np.may_share_memory(ai, arrs[j]) and np.shares_memory(ai, arrs[j]):
                sh.append(f'{i}-{j}')
    parts.append(f'SH {len(sh)}')
    parts.extend(sh)
    return ' '.join(parts)


def dump_line(W):
    return ' '.join(['dump', str(len(W.atoms))] + [str(W.mid[h]) for h in W.atoms]
                    + [str(len(W.syss))] + [str(W.mid[h]) for h in W.syss])


# ----------------------------------------------------------------------------------------------
# generator
# ----------------------------------------------------------------------------------------------

def gen_cells(rng, dt, n, key=None):
    if dt == 'i':
        if key == 'atype':
            return [rng.choice([1, 1, 2, 2, 3]) if rng.random() < 0.9 else rng.choice([4, 5, 6]) for _ in range(n)]
        return [rng.randint(-3, 9) for _ in range(n)]
    if dt == 'f':
        if key == 'atype':
            return [rng.choice([1.0, 2.0, 1.5, 2.75, 3.0]) for _ in range(n)]
        return [cm.dyadic(rng, -4, 4, 3) for _ in range(n)]
    if dt == 'b':
        return [rng.random() < 0.5 for _ in range(n)]
    return [rng.choice(STRS) for _ in range(n)]


def _prod(shape):
    p = 1
    for d in shape:
        p *= d
    return p


def gen_lit(rng, dt, shape, key=None):
    return lit(dt, shape, gen_cells(rng, dt, _prod(shape), key))


def gen_index(rng, n, bad=False):
    """an index against leading length n (mostly valid), in one of the forms numpy / Atoms accept."""
    return vary_index(rng, _gen_index(rng, n, bad))


def _gen_index(rng, n, bad=False):
    r = rng.random()
    if bad and r < 0.5:
        c = rng.random()
        if c < 0.3:
            return ['I', rng.choice([n, n + 2, -n - 1, -n - 3])]
        if c < 0.55:
            return ['L', [rng.randint(0, max(0, n - 1)), rng.choice([n, -n - 1, n + 3])]]
        if c < 0.8:
            return ['K', [rng.random() < 0.5 for _ in range(n + rng.choice([1, 2, -1]) if n > 0 else 2)]]
        return ['S', rng.choice([None, 0]), None, 0]
    if r < 0.2 and n > 0:
        return ['I', rng.randint(-n, n - 1)]
    if r < 0.55:
        def bound():
            c = rng.random()
            if c < 0.3:
                return None
            if c < 0.9:
                return rng.randint(-n - 1, n + 1)
            return rng.choice([n + 3, -n - 3])
        step = rng.choice([None, None, None, 1, 2, 2, -1, -2, 3])
        return ['S', bound(), bound(), step]
    if r < 0.8:
        k = rng.randint(0, max(1, n + 1)) if n > 0 else 0
        if n == 0:
            return ['L', []]
        if rng.random() < 0.8:
            pool = list(range(n))
            rng.shuffle(pool)
            sel = pool[:min(k, n)]
        else:
            sel = [rng.randrange(n) for _ in range(k)]
        return ['L', [i if rng.random() < 0.7 else i - n for i in sel]]
    return ['K', [rng.random() < 0.5 for _ in range(n)]]


def sel_count(n, ix):
    """number of rows an index selects on a length-n axis, or None if it raises / is an int."""
    np = _np()
    try:
        r = np.arange(n)[ix_py(ix)]
    except Exception:
        return None
    return None if np.ndim(r) == 0 else int(len(r))


def arr_info(arr):
    k = arr.dtype.kind
    return {'i': 'i', 'u': 'i', 'f': 'f', 'b': 'b', 'U': 's'}.get(k, '?'), list(arr.shape[1:])


def gen_write_lit(rng, cls, trail, k, key=None, bad=False):
    """a value to write into k rows of trailing shape `trail` of dtype class cls."""
    if cls == 's':
        dt = 's'
    else:
        dt = cls if rng.random() < 0.7 else rng.choice(['i', 'f', 'b'])
    c = rng.random()
    if bad and c < 0.6:
        kk = k if k is not None else 1
        shape = rng.choice([[kk + 1] + trail, [kk + 2], [2, 2], trail + [2], [kk, 2] if trail != [2] else [kk, 4]])
    elif c < 0.45 or k is None:
        shape = ([k] if k is not None else []) + trail
    elif c < 0.65:
        shape = []
    elif c < 0.8:
        shape = [1] + trail
    elif c < 0.9:
        shape = list(trail)
    else:
        shape = ([k] if k is not None else []) + trail
    l = gen_lit(rng, dt, shape, key)
    if key == 'atype' and bad and rng.random() < 0.5 and l['data']:
        l['data'][rng.randrange(len(l['data']))] = rng.choice([0, -1]) if dt != 'b' else False
    return l


def gen_new(rng, k, nmax=6):
    n = rng.choice([1, 2, 3, 3, 4, 5, nmax])
    op = {'op': 'new', 'id': k}
    c = rng.random()
    if c < 0.75:
        op['atype'] = gen_lit(rng, 'i', [n], 'atype')
    elif c < 0.85:
        op['atype'] = lit('i', [], [rng.choice([1, 2])])
    # positions: float mostly; integer / boolean input is stored as float by the constructor (dtype decision of __init__)
    pdt = rng.choice(['f'] * 8 + ['i', 'b'])
    if rng.random() < 0.8:
        op['pos'] = gen_lit(rng, pdt, [n, 3])
    elif rng.random() < 0.5:
        op['pos'] = gen_lit(rng, pdt, [1, 3])
    if rng.random() < 0.25 or ('atype' not in op and 'pos' not in op):
        op['natoms'] = n if rng.random() < 0.9 else n + 1
    extra = []
    keys = KEYS[:]
    rng.shuffle(keys)
    for kk in keys[:rng.choice([0, 1, 1, 2, 3])]:
        dt = rng.choice(['i', 'f', 'f', 'b', 's'])
        trail = rng.choice(TRAILS)
        c = rng.random()
        shape = [n] + trail if c < 0.7 else ([] if c < 0.85 else [1] + trail)
        extra.append([kk, gen_lit(rng, dt, shape)])
    op['extra'] = extra
    if rng.random() < 0.15:
        op['safecopy'] = True
    return op


def gen_twin(rng, a, k):
    """a `new` operation with the property set of the live object `a` (same dtype classes / trailing shapes) given
    in a different order: donors for __setitem__ whose key order differs from the target's."""
    n = rng.choice([1, 2, 3, a.natoms or 1])
    extra = []
    keys = [kk for kk in a.view.keys() if kk not in ('atype', 'pos')]
    rng.shuffle(keys)
    for kk in keys:
        cls, trail = arr_info(a.view[kk])
        if cls == '?':
            return None
        extra.append([kk, gen_lit(rng, cls, [n] + trail)])
    if arr_info(a.view['pos']) != ('f', [3]) or a.view['atype'].ndim != 1:
        return None
    return {'op': 'new', 'id': k, 'atype': gen_lit(rng, 'i', [n], 'atype'), 'pos': gen_lit(rng, 'f', [n, 3]),
            'extra': extra}


def gen_box(rng):
    d = lambda: rng.choice([1.0, 2.0, 4.0, 0.5, 2.0, 4.0, 3.0])
    t = lambda: rng.choice([0.0, 0.0, 0.5, -0.5, 1.0])
    return [d(), 0.0, 0.0, t(), d(), 0.0, t(), t(), d(), rng.choice([0.0, 0.5, -1.0]), rng.choice([0.0, 0.25]), 0.0]


def gen_syms(rng, lo=0, hi=4):
    return [rng.choice(SYMS) if rng.random() < 0.85 else None for _ in range(rng.randint(lo, hi))]


def gen_masses(rng, lo=0, hi=4):
    return [cm.dyadic(rng, 1, 64, 2) if rng.random() < 0.85 else None for _ in range(rng.randint(lo, hi))]


GETTERS = ['massget', 'massget', 'massget', 'symget', 'symget', 'snatypes', 'snatypes', 'satypes', 'scomp', 'sstr']
OBSERVERS = ('symget', 'massget', 'snatypes', 'satypes', 'scomp', 'sstr')
SEARCH_ONLY = ('ainfo', 'sinfo', 'spkeys')


def raw_natypes(a):
    """number of atom types read off the raw array (the generator must not call Atoms.natypes / System.natypes: a
    read by the harness that is not an operation of the history could fill or heal hidden state and would be missing
    from the replayed history)."""
    try:
        arr = a.view['atype']
        return int(arr.max()) if arr.size and arr.min() >= 1 else None
    except Exception:
        return None


def schedule_obs(rng, W, op, p=0.5, nmass=None):
    """observation order is part of the history: after an operation, with probability p, 1-4 DIFFERENT getters of one
    system (preferably one built on the object just touched) are queued in random order as operations of their own.
    Nothing else reads System.symbols / masses / natypes, so a stored tuple that went stale stays stale until one of
    these (or a later operation of the history) reads it."""
    if op['op'] == 'drop' or W.pending:
        return
    # read -> small change -> read again on one object (stale copies / memoised reads): the last read of every object
    # is remembered and re-issued after a write to that object
    tgt = op.get('o')
    if tgt is None and op.get('s') in W.syss:
        tgt = next((h for h, a in W.atoms.items() if a is W.syss[op['s']].atoms), None)
    if tgt is not None:
        if op['op'] in ('pget', 'spget', 'natypes', 'df', 'sdf'):
            W.last_read[tgt] = op
        elif op['op'] in ('setv', 'pset', 'pseta', 'seti', 'patype', 'spset', 'spseta', 'ixset') \
                and tgt in W.last_read and rng.random() < 0.5:
            W.pending.append(dict(W.last_read[tgt]))
    if not W.syss or op['op'] in OBSERVERS:
        return
    if rng.random() >= (0.9 if op.get('grow') else p):
        return
    near = []
    if 's' in op and op['s'] in W.syss:
        near = [op['s']]
    elif 'o' in op and op['o'] in W.atoms:
        a = W.atoms[op['o']]
        near = [h for h, s in W.syss.items() if s.atoms is a]
    sh = rng.choice(near) if near and rng.random() < 0.75 else rng.choice(list(W.syss))
    kinds = []
    for g in rng.sample(GETTERS, rng.choice([1, 1, 2, 2, 3, 4])):
        if g not in kinds:
            kinds.append(g)
    W.pending = [{'op': g, 's': sh} for g in kinds] + W.pending
    if rng.random() < (0.35 if op.get('grow') else 0.08):
        # the setters read hidden state as well: `masses = [...]` as the FIRST thing after the operation (one mass per
        # atom type is legal whether or not symbols was read since the types grew)
        n = 5 if nmass is None else nmass(sh)
        if n is not None:
            ms = gen_masses(rng, 0, n) if rng.random() < 0.4 else gen_masses(rng, n, n)
            W.pending.insert(0, {'op': 'massset', 's': sh, 'masses': ms})


def next_pending(W):
    while W.pending:
        op = W.pending.pop(0)
        if ('s' in op and op['s'] in W.syss) or ('o' in op and op['o'] in W.atoms):
            return op
    return None


def gen_grow(rng, W, sh, nt):
    """an operation that makes the number of atom types of system sh's atoms grow THROUGH THE ATOMS (the system is
    not told): indexed write, prop_atype relabel, whole-column write; `nt` = current number of atom types."""
    s = W.syss[sh]
    ah = next((h for h, a in W.atoms.items() if a is s.atoms), None)
    n = s.atoms.natoms
    if ah is None or n == 0:
        return None
    big = nt + rng.choice([1, 1, 2, 3])
    c = rng.random()
    if c < 0.3:
        return {'op': 'spset', 's': sh, 'key': 'atype', 'ix': ['I', rng.randint(-n, n - 1)], 'val': lit('i', [], [big]),
                'scale': False, 'grow': True}
    if c < 0.55:
        pool = list(range(n))
        rng.shuffle(pool)
        sel = pool[:rng.randint(1, n)]
        return {'op': 'pset', 'o': ah, 'key': 'atype', 'ix': ['L', sel], 'val': lit('i', [], [big]), 'grow': True}
    if c < 0.8:
        return {'op': 'patype', 'o': ah, 'key': 'atype', 'val': lit('i', [], [big]), 't': rng.randint(1, nt), 'grow': True}
    data = [rng.randint(1, nt) for _ in range(n)]
    data[rng.randrange(n)] = big
    return {'op': 'setv', 'o': ah, 'key': 'atype', 'val': lit('i', [n], data), 'via': rng.choice(['view', 'attr']),
            'grow': True}


def with_aid(rng, op, p=0.1):
    """`a_id=` instead of `index=` (the documented backwards-compatible spelling; the model sees the same call)."""
    if op.get('ix') is not None and rng.random() < p:
        op['aid'] = 'aid'
    return op


def with_forms(rng, op, p=0.3):
    """other spellings of symbols / masses / pbc that `aslist` / `np.asarray(dtype=bool)` accept: tuple, the bare
    str / float for one entry, 0/1 ints, numpy bool array (the model sees the same call)."""
    for field in ('symbols', 'masses'):
        v = op.get(field)
        if v is not None and rng.random() < p:
            if len(v) > 1 and v[0] is not None and rng.random() < 0.4 and (field == 'masses' or op['op'] != 'mksys'):
                v = op[field] = v[:1]          # one entry, so that it can be given bare (fewer masses stay valid;
                #                                fewer symbols of a constructor call may not: the masses count against them)
            op[field + '_as'] = 'bare' if (len(v) == 1 and v[0] is not None and rng.random() < 0.7) else 'tuple'
    if op.get('pbc') is not None and rng.random() < p:
        op['pbc_as'] = rng.choice(['tuple', 'int', 'np'])
    if op['op'] == 'mksys':
        # System(..., scale=True): the atoms' positions are box-relative; safecopy=True: built on a deep copy
        if rng.random() < 0.2:
            op['scale'] = True
        if rng.random() < 0.2:
            op['safecopy'] = True
    return op


def gen_span(rng, n):
    """a basic slice covering at least two of n >= 2 atoms (several spellings: open ends, negative bounds, steps)."""
    c = rng.random()
    if c < 0.25:
        return ['S', None, None, rng.choice([None, 1, -1, 2 if n >= 3 else 1])]
    a = rng.randint(0, n - 2)
    b = rng.randint(a + 2, n)
    if c < 0.5:
        return ['S', a, b, None]
    if c < 0.7:
        return ['S', a - n, b if b < n else None, rng.choice([None, 1])]
    if c < 0.85:
        return ['S', b - 1, a - 1 if a > 0 else None, -1]
    return ['S', a if a > 0 else None, None if b == n else b, 1]


def gen_op(rng, W, k, malformed=0.12):
    """next operation given the live real objects (the generator sees only shapes/keys, never values)."""
    A, S = W.atoms, W.syss
    pend = next_pending(W)
    if pend is not None:
        return pend
    bad = rng.random() < malformed
    if not A or (len(A) < 2 and rng.random() < 0.5) or rng.random() < 0.04:
        return gen_new(rng, k)
    if S and rng.random() < 0.05:
        sh = rng.choice(list(S))
        nt = raw_natypes(S[sh].atoms)
        g = gen_grow(rng, W, sh, nt) if nt is not None else None
        if g is not None:
            return g
    if len(A) <= 6 and rng.random() < 0.03:
        tw = gen_twin(rng, A[rng.choice(list(A))], k)
        if tw is not None:
            return tw
    if S and rng.random() < 0.05:
        return {'op': rng.choice(GETTERS), 's': rng.choice(list(S))}
    if rng.random() < 0.03:     # the tables are operations of the model (reads: the full state is compared afterwards)
        if S and rng.random() < 0.5:
            sh = rng.choice(list(S))
            exact = box_exact(W.box.get(sh))
            sc = rng.choice([False, True, ['pos'], 'pos', []]) if exact else rng.choice([False, []])
            return {'op': 'sdf', 's': sh, 'scale': sc}
        return {'op': 'df', 'o': rng.choice(list(A))}
    if len(A) > 6:
        bound = {id(s.atoms) for s in S.values()}
        free = [h for h, a in A.items() if id(a) not in bound]
        if free:
            return {'op': 'drop', 'o': rng.choice(free)}
        return {'op': 'drop', 's': rng.choice(list(S))}
    h = rng.choice(list(A))
    a = A[h]
    n = a.natoms
    keys = list(a.view.keys())
    pick_key = lambda: rng.choice(keys) if rng.random() < 0.85 else rng.choice(['atype', 'pos'])
    kinds = ['setv'] * 10 + ['pget'] * 6 + ['pkeys'] + ['pgeta'] * 3 + ['pset'] * 10 + ['pseta'] * 3 + ['geti'] * 8 \
        + ['seti'] * 5 + ['patype'] * 5 + ['exti'] * 3 + ['exta'] * 5 + ['dcopy'] * 2 + ['natypes'] * 2 + ['mksys'] * 4
    if S:
        kinds += ['symget', 'symset', 'massget', 'massset', 'pbcset', 'snatypes'] * 2 + ['satypes', 'scomp', 'sstr'] \
            + ['spget'] * 4 + ['spgeta'] * 5 + ['spset'] * 4 + ['spseta'] * 2 + ['sext'] * 5 + ['ixget'] * 4 \
            + ['ixset'] * 3 + ['sdcopy'] * 2
    kind = rng.choice(kinds)
    if kind in ('symget', 'symset', 'massget', 'massset', 'pbcset', 'snatypes', 'satypes', 'scomp', 'sstr', 'spget',
                'spgeta', 'spset', 'spseta', 'sext', 'ixget', 'ixset', 'sdcopy'):
        sh = rng.choice(list(S))
        s = S[sh]
        a = s.atoms
        n = a.natoms
        keys = list(a.view.keys())
    if kind == 'setv':
        if rng.random() < 0.55 or bad:
            key = pick_key()
        else:
            key = rng.choice(KEYS)
        if key in keys:
            cls, trail = arr_info(a.view[key])
        else:
            cls, trail = rng.choice(['i', 'f', 'f', 'b', 's']), rng.choice(TRAILS)
        v = gen_write_lit(rng, cls, trail, n, key, bad)
        return {'op': 'setv', 'o': h, 'key': key, 'val': v, 'via': rng.choice(['view', 'attr', 'view'])}
    if kind in ('pget', 'spget'):
        key = pick_key() if not (bad and rng.random() < 0.4) else 'nokey'
        ix = None if rng.random() < 0.3 else gen_index(rng, n, bad)
        if kind == 'pget':
            return with_aid(rng, {'op': 'pget', 'o': h, 'key': key, 'ix': ix})
        op = {'op': 'spget', 's': sh, 'key': key, 'ix': ix}
        if box_exact(W.box.get(sh)) and rng.random() < 0.5:
            # box-relative read: mostly of a 3-vector column (anything else must be refused, or is the odd
            # one-vector reading of a 3-atom scalar column)
            vec = [kk for kk in keys if arr_info(a.view[kk])[1] == [3] and arr_info(a.view[kk])[0] in 'ifb']
            if vec and rng.random() < 0.85:
                op['key'] = rng.choice(vec)
            op['scale'] = True
        return with_aid(rng, op)
    if kind == 'pkeys':
        return {'op': 'pkeys', 'o': h}
    if kind == 'pgeta':
        return with_aid(rng, {'op': 'pgeta', 'o': h, 'ix': gen_index(rng, n, bad), 'id': k})
    if kind == 'spgeta':
        op = {'op': 'spgeta', 's': sh, 'ix': gen_index(rng, n, bad), 'id': k}
        if box_exact(W.box.get(sh)) and rng.random() < 0.6:
            op['scale'] = True
            if rng.random() < 0.15:
                op['ix'] = None
            elif n >= 2 and rng.random() < 0.4:
                op['ix'] = gen_span(rng, n)      # a slice covering two or more atoms: atoms[index] holds views
        return with_aid(rng, op)
    if kind == 'sdcopy':
        return {'op': 'sdcopy', 's': sh, 'id': k}
    if kind in ('pset', 'spset'):
        scale = kind == 'spset' and rng.random() < 0.6
        if scale and n >= 3 and rng.random() < 0.15:
            # atoms_prop('atype', index, value, scale=True): a 3-vector lands in three atom types
            pool = list(range(n))
            rng.shuffle(pool)
            ix = None if (n == 3 and rng.random() < 0.3) else ['L', pool[:3]]
            v = lit(rng.choice(['f', 'i']), [3], [rng.choice([1, 2, 0, -1, 3]) for _ in range(3)])
            return {'op': 'spset', 's': sh, 'key': 'atype', 'ix': ix, 'val': v, 'scale': True}
        if scale:
            cands = [kk for kk in keys if arr_info(a.view[kk]) == ('f', [3])] or ['pos']
            key = rng.choice(cands)
        else:
            key = pick_key() if not (bad and rng.random() < 0.3) else 'nokey'
        if key in keys:
            cls, trail = arr_info(a.view[key])
        else:
            cls, trail = 'f', [3] if scale else []
        if rng.random() < 0.25:
            ix, cnt = None, n
        else:
            ix = gen_index(rng, n, bad)
            cnt = sel_count(n, ix)
        if scale:
            shape = ([cnt] if cnt is not None else []) + [3]
            if rng.random() < 0.2:
                shape = [3]
            if bad and rng.random() < 0.5:
                shape = shape[:-1] + [2]
            v = gen_lit(rng, rng.choice(['f', 'f', 'i']), shape)
        else:
            v = gen_write_lit(rng, cls, trail, cnt, key, bad)
        if kind == 'pset':
            return with_aid(rng, {'op': 'pset', 'o': h, 'key': key, 'ix': ix, 'val': v})
        return with_aid(rng, {'op': 'spset', 's': sh, 'key': key, 'ix': ix, 'val': v, 'scale': scale})
    if kind in ('pseta', 'seti', 'spseta', 'ixset'):
        # donors: prefer objects with the same key set
        same = [hh for hh, b in A.items() if sorted(b.view.keys()) == sorted(keys)]
        if same and not (bad and rng.random() < 0.5):
            src = rng.choice(same)
        else:
            src = rng.choice(list(A))
        b = A[src]
        c = rng.random()
        ix = gen_index(rng, n, bad)
        # steer toward selections whose size fits the donor
        for _ in range(6):
            cnt = sel_count(n, ix)
            if cnt == b.natoms or b.natoms == 1 or (ix[0] == 'I'):
                break
            ix = gen_index(rng, n, bad)
        if kind == 'pseta':
            return with_aid(rng, {'op': 'pseta', 'o': h, 'ix': ix if c < 0.8 else None, 'src': src})
        if kind == 'seti':
            return {'op': 'seti', 'o': h, 'ix': ix, 'src': src}
        if kind == 'spseta':
            return with_aid(rng, {'op': 'spseta', 's': sh, 'ix': ix if c < 0.8 else None, 'src': src,
                                  'scale': rng.random() < 0.5})
        if S and rng.random() < 0.4:
            return {'op': 'ixset', 's': sh, 'ix': ix, 'src': ['s', rng.choice(list(S))]}
        return {'op': 'ixset', 's': sh, 'ix': ix, 'src': ['a', src]}
    if kind == 'geti':
        return {'op': 'geti', 'o': h, 'ix': gen_index(rng, n, bad), 'id': k}
    if kind == 'ixget':
        return {'op': 'ixget', 's': sh, 'ix': gen_index(rng, n, bad), 'id': k}
    if kind == 'patype':
        nt = raw_natypes(a) or 1
        key = rng.choice(KEYS + keys)
        if key in keys:
            cls, trail = arr_info(a.view[key])
        else:
            cls, trail = rng.choice(['i', 'f', 'f', 'b', 's']), rng.choice(TRAILS)
        dt = cls if (cls == 's' or rng.random() < 0.8) else rng.choice(['i', 'f', 'b'])
        if rng.random() < 0.5:
            m = nt + rng.choice([0, 0, 1]) - (1 if bad and rng.random() < 0.5 else 0)
            if m < 1:
                m = 1
            v = gen_lit(rng, dt, [m] + trail, key)
            return {'op': 'patype', 'o': h, 'key': key, 'val': v, 't': None}
        t = rng.randint(1, nt) if not bad else rng.choice([0, nt + 1, nt])
        shape = trail if rng.random() < 0.8 else ([] if rng.random() < 0.7 else [2])
        v = gen_lit(rng, dt, shape, key)
        return {'op': 'patype', 'o': h, 'key': key, 'val': v, 't': t}
    if kind == 'exti':
        return {'op': 'exti', 'o': h, 'n': rng.choice([0, 1, 1, 2, 3]) if not bad else rng.choice([-1, -2, 0]), 'id': k}
    if kind == 'exta':
        return {'op': 'exta', 'o': h, 'src': rng.choice(list(A)), 'id': k}
    if kind == 'sext':
        scale = rng.random() < 0.45
        if rng.random() < 0.3 and not scale:
            val = ['i', rng.choice([0, 1, 2]) if not bad else -1]
        elif bad and scale and rng.random() < 0.3:
            val = ['i', 1]
        else:
            val = ['a', rng.choice(list(A))]
        return {'op': 'sext', 's': sh, 'value': val, 'scale': scale, 'safecopy': rng.random() < 0.2,
                'symbols': gen_syms(rng, 0, 4) if rng.random() < 0.3 else None, 'id': k}
    if kind == 'dcopy':
        return {'op': 'dcopy', 'o': h, 'id': k}
    if kind == 'natypes':
        return {'op': 'natypes', 'o': h}
    if kind == 'mksys':
        op = {'op': 'mksys', 'o': h, 'id': k, 'box': gen_box(rng),
              'pbc': [rng.random() < 0.5 for _ in range(3 if not (bad and rng.random() < 0.4) else rng.choice([2, 4]))]}
        if rng.random() < 0.7:
            op['symbols'] = gen_syms(rng)
        if rng.random() < 0.5:
            op['masses'] = gen_masses(rng, 0, 4 if bad else 3)
        return with_forms(rng, op)
    if kind in OBSERVERS:
        return {'op': kind, 's': sh}
    if kind == 'symset':
        return with_forms(rng, {'op': 'symset', 's': sh, 'symbols': gen_syms(rng, 0, 5)})
    if kind == 'massset':
        return with_forms(rng, {'op': 'massset', 's': sh, 'masses': gen_masses(rng, 0, 5)})
    if kind == 'pbcset':
        return with_forms(rng, {'op': 'pbcset', 's': sh,
                                'pbc': [rng.random() < 0.5 for _ in range(3 if not bad else rng.choice([2, 4, 3]))]})
    raise RuntimeError(kind)


# ----------------------------------------------------------------------------------------------
# running a history against model and implementation
# ----------------------------------------------------------------------------------------------

class Mismatch(Exception):
    def __init__(self, key, what, step):
        super().__init__(what)
        self.key, self.what, self.step = key, what, step


class Inexact(Exception):
    """model and implementation differ only by floating-point rounding of a box-relative conversion (the exact
    regime was left: too many significant bits): the history is abandoned and counted, never reported."""


_NUM = re.compile(r'^-?\d+(/\d+)?$')


def near_tokens(a, b, rtol=1e-9, atol=1e-12):
    """the two token streams are equal except for numeric tokens that agree to rounding."""
    ta, tb = a.split(' '), b.split(' ')
    if len(ta) != len(tb):
        return False
    differ = False
    for x, y in zip(ta, tb):
        if x == y:
            continue
        if not (_NUM.match(x) and _NUM.match(y)) or ('/' not in x and '/' not in y):
            return False
        fx, fy = float(Fraction(x)), float(Fraction(y))
        if abs(fx - fy) > atol + rtol * max(abs(fx), abs(fy)):
            return False
        differ = True
    return differ


def apply_drop(op, W):
    if 'o' in op:
        W.atoms.pop(op['o'], None)
    else:
        W.syss.pop(op['s'], None)


def step_both(drv, W, op, idx, stats=None):
    """one operation on both sides + state comparison.  Returns 'ok' | 'skip' (unmodelled / dangling);
    raises Mismatch."""
    if op['op'] == 'drop':
        apply_drop(op, W)
        return 'ok'
    line = op_line(op, W)
    if line is None:
        return 'skip'
    mrep = drv.ask(line)
    if mrep == 'err:unmodelled':
        return 'skip'
    if mrep == 'err:format':
        raise cm.InfraError(f'driver rejected the line as malformed: {line[:300]}')
    mcanon, newids = canon_model_reply(mrep)
    if op['op'] == 'mksys' and not op.get('safecopy'):
        newids = newids[1:]
    rrep, created = exec_real(op, W)
    if stats is not None:
        stats(op, rrep)
    if rrep != mcanon:
        if near_tokens(rrep, mcanon):
            raise Inexact()
        detail = getattr(W, 'last_exc', '') if rrep.startswith('err') else ''
        raise Mismatch('reply:' + op['op'], f"op #{idx} {op['op']}: implementation replied `{rrep[:200]}` {detail} "
                       f"but the model `{mcanon[:200]}`", idx)
    if len(created) != len(newids):
        raise Mismatch('reply:' + op['op'], f"op #{idx} {op['op']}: created objects differ", idx)
    for (kind, hname, obj), mid in zip(created, newids):
        (W.atoms if kind == 'a' else W.syss)[hname] = obj
        W.mid[hname] = mid
    mdump = drv.ask(dump_line(W))
    try:
        rdump = dump_real(W)
    except Exception as e:      # noqa: BLE001 - an implementation whose state cannot even be read is an observation
        raise Mismatch('state:' + op['op'], f"op #{idx} {op['op']}: reading the state of the live objects raised "
                       f'{type(e).__name__}: {e}', idx)
    if mdump != rdump:
        if near_tokens(rdump, mdump):
            raise Inexact()
        raise Mismatch('state:' + op['op'], f"op #{idx} {op['op']}: states differ after the operation: "
                       + first_diff(rdump, mdump), idx)
    return 'ok'


def first_diff(r, m):
    rt, mt = r.split(' '), m.split(' ')
    for i, (x, y) in enumerate(zip(rt, mt)):
        if x != y:
            lo = max(0, i - 12)
            return f"impl …{' '.join(rt[lo:i + 6])}… vs model …{' '.join(mt[lo:i + 6])}…"
    return f'lengths {len(rt)} vs {len(mt)}: impl tail {" ".join(rt[-8:])} / model tail {" ".join(mt[-8:])}'


RUN_FIXED_SKIPPED = []


def run_fixed(drv, ops, stats=None):
    """replay a fixed operation list on both sides; returns None or the Mismatch."""
    W = World()
    drv.ask('reset')
    for i, op in enumerate(ops):
        try:
            if step_both(drv, W, op, i, stats) == 'skip':
                RUN_FIXED_SKIPPED.append(op)
        except Mismatch as e:
            return e
        except Inexact:
            return None
        except KeyError:
            continue        # handle of a removed operation
    return None


def shrink(drv, ops, key, budget=150):
    """greedy one-at-a-time removal keeping a mismatch with the same key."""
    ops = list(ops)
    e = run_fixed(drv, ops)
    if e is None or e.key != key:
        return ops, e
    ops = ops[:e.step + 1]
    used = 0
    changed = True
    while changed and used < budget:
        changed = False
        for i in range(len(ops) - 2, -1, -1):
            cand = ops[:i] + ops[i + 1:]
            used += 1
            e2 = run_fixed(drv, cand)
            if e2 is not None and e2.key == key:
                ops = cand[:e2.step + 1]
                e = e2
                changed = True
                break
            if used >= budget:
                break
    return ops, e


def correspond(ctx):
    cm_np = _np()  # noqa
    rng = ctx.rng
    nhist = ctx.n(500, 20000)
    drv = ctx.driver
    kinds = {}
    errs = {}
    skipped = 0
    inexact = 0

    forms = {}

    def stats(op, rrep):
        name = op['op'] + (':scaled' if op['op'] in ('spget', 'spgeta') and op.get('scale') else '')
        if op['op'] in ('mksys', 'new', 'sext'):
            name += (':scale' if op.get('scale') and op['op'] == 'mksys' else '') + (':safecopy' if op.get('safecopy') else '')
        kinds[name] = kinds.get(name, 0) + 1
        if 'ix' in op:
            ix = op['ix']
            f = name + '[' + ('none' if ix is None else ix[0] + (':' + ix_form(ix) if ix_form(ix) else '')) + ']' \
                + (':a_id' if op.get('aid') else '')
            forms[f] = forms.get(f, 0) + 1
        if rrep.startswith('err'):
            errs[op['op'] + ':' + rrep[4:]] = errs.get(op['op'] + ':' + rrep[4:], 0) + 1

    # the accessor matrix first (fixed histories, a few operations each)
    nmat = 0
    for name, ops in matrix_histories(rng):
        if name.startswith(('names:', 'tables:extend', 'shapes:', 'posdtype:')):   # the model follows everything but the DataFrame / len / str reads
            ops = [op for op in ops if op['op'] not in SEARCH_ONLY]
        if name.startswith('dtypes:'):
            ops = [op for op in ops if op['op'] not in SEARCH_ONLY]
        if any(op['op'] in SEARCH_ONLY for op in ops):
            continue        # DataFrames, len/str are not in the model (the index+a_id refusal and the spelling of a flag are:
            #                 the calls go over the wire with their options, `Call.toOp` of the model does the option handling)
        nmat += 1
        e = run_fixed(drv, ops, stats)
        for op in ops:
            ctx.stats.case('matrix:' + name.split('[')[0], name + json.dumps(op, sort_keys=True, default=str))
        if e is not None:
            small, e2 = shrink(drv, ops, e.key)
            e2 = e2 or e
            ctx.disagree(e.key, f'accessor matrix `{name}`: ' + e2.what, {'op': 'history', 'ops': small, 'matrix': name})
            if len(ctx.disagreements) >= 5:
                break
    ctx.extra['c06_matrix_histories'] = nmat
    ctx.extra['c06_matrix_skipped_unmodelled'] = len(RUN_FIXED_SKIPPED)
    del RUN_FIXED_SKIPPED[:]
    for hno in range(nhist):
        if len(ctx.disagreements) >= 5:
            break
        W = World()
        drv.ask('reset')
        ops = []
        length = rng.randint(4, 30)
        k = 0
        fail = None
        while len(ops) < length:
            op = gen_op(rng, W, k)
            k += 1
            try:
                r = step_both(drv, W, op, len(ops), stats)
            except Mismatch as e:
                ops.append(op)
                fail = e
                break
            except Inexact:
                inexact += 1
                break
            if r == 'skip':
                skipped += 1
                continue
            ops.append(op)
            schedule_obs(rng, W, op)
            ctx.stats.case('op:' + op['op'], json.dumps(op, sort_keys=True, default=str),
                           nontrivial=op['op'] not in ('pkeys', 'drop'),
                           sample=op if len(json.dumps(op, default=str)) < 400 else None)
        if fail is not None:
            small, e = shrink(drv, ops, fail.key)
            e = e or fail
            ctx.disagree(fail.key, e.what, {'op': 'history', 'ops': small, 'full_length': len(ops)})
            if len(ctx.disagreements) >= 5:
                break
    ctx.extra['c06_ops'] = kinds
    ctx.extra['c06_refusals'] = errs
    ctx.extra['c06_index_forms'] = forms
    ctx.extra['c06_histories'] = nhist
    ctx.extra['c06_skipped_unmodelled'] = skipped
    ctx.extra['c06_abandoned_inexact'] = inexact


# ----------------------------------------------------------------------------------------------
# search: independent record-per-atom oracle, property clauses evaluated on the real objects
# ----------------------------------------------------------------------------------------------

class ORec:
    """oracle object: one record (dict key -> tuple of exact cells) per atom; owns its records."""

    def __init__(self, n, meta, recs):
        self.n = n
        self.meta = meta          # OrderedDict key -> [cls, trail, width]
        self.recs = recs

    def clone_rows(self, rows):
        return ORec(len(rows), OrderedDict((k, list(v)) for k, v in self.meta.items()),
                    [dict(self.recs[i]) for i in rows])


class OSys:
    """specification of System.symbols / masses / natypes: the tuples as last assigned, padded with None.  The padding
    is LAZY and STICKY in the specification as well (a tuple is padded when it is assigned and whenever it is read,
    never shortened): `nt` below is always the number of atom types of the record model at that moment."""

    def __init__(self, atoms_h, box, pbc=None):
        self.atoms_h = atoms_h
        self.box = box
        self.pbc = None if pbc is None else [bool(b) for b in pbc]
        self.symbols = []
        self.masses = []

    def copy_for(self, atoms_h):
        """copy.deepcopy(system): box, pbc and the tuples AS STORED (no getter runs, nothing is padded)."""
        y = OSys(atoms_h, self.box, self.pbc)
        y.symbols = list(self.symbols)
        y.masses = list(self.masses)
        return y

    def get_symbols(self, nt):
        self.symbols = self.symbols + [None] * (nt - len(self.symbols))
        return list(self.symbols)

    def set_symbols(self, nt, value):
        self.symbols = list(value) + [None] * (nt - len(value))

    def natypes(self, nt):
        return max(len(self.get_symbols(nt)), nt)

    def get_masses(self, nt):
        n = self.natypes(nt)
        self.masses = self.masses + [None] * (n - len(self.masses))
        return list(self.masses)

    def set_masses(self, nt, value):
        n = self.natypes(nt)
        if len(value) > n:
            raise AssertionError(('more masses than atom types', value, n))
        self.masses = [None if m is None else float(m) for m in value] + [None] * (n - len(value))

    def composition(self, nt, types):
        n = self.natypes(nt)
        sy = self.get_symbols(nt)
        counts = {}
        for i in range(n):
            c = sum(1 for x in types if x == i + 1)
            if c > 0:
                if sy[i] is None:
                    return None
                counts[sy[i]] = counts.get(sy[i], 0) + c
        g = 0
        for c in counts.values():
            g = math.gcd(g, c)
        return ''.join(k + ('' if counts[k] // g == 1 else str(counts[k] // g)) for k in sorted(counts))


def new_osys(atoms_h, box, nt, symbols, masses, pbc=None):
    """System(atoms, box, symbols=, masses=): the two setters, symbols first."""
    y = OSys(atoms_h, box, pbc)
    y.set_symbols(nt, symbols)
    y.set_masses(nt, masses)
    return y


def o_cell(cls, x):
    if cls == 'f':
        return Fraction(x)
    if cls == 'i':
        return int(x)
    if cls == 'b':
        return bool(x)
    return str(x)


def o_cast(cls, w, c):
    """value c (exact cell of any numeric class, or str) stored in a column of class cls."""
    if cls == 's':
        return str(c)[:w]
    if cls == 'f':
        return Fraction(int(c)) if isinstance(c, bool) else Fraction(c)
    if cls == 'i':
        return int(c)          # truncation toward zero for Fractions
    return bool(c != 0)


def o_zero(cls):
    return {'i': 0, 'f': Fraction(0), 'b': False, 's': ''}[cls]


def o_lit_rows(l, n, trail):
    """rows (tuples) of a literal written to n atoms of trailing shape `trail`: full, scalar, length-1 or
    single-row forms only (the forms the valid grammar generates)."""
    w = _prod(trail)
    cls = l['dt']
    data = [o_cell(cls, x) for x in l['data']]
    shape = l['shape']
    if shape == [n] + trail:
        return [tuple(data[i * w:(i + 1) * w]) for i in range(n)]
    if shape == []:
        return [tuple(data * w) for _ in range(n)]
    if shape == [1] + trail or shape == trail:
        return [tuple(data) for _ in range(n)]
    raise AssertionError(('oracle cannot read literal', shape, n, trail))


def o_positions(n, ix):
    t = ix[0]
    if t == 'I':
        return [ix[1] % n]
    if t == 'S':
        return list(range(n))[slice(ix[1], ix[2], ix[3])]
    if t == 'L':
        return [i % n for i in ix[1]]
    return [i for i, b in enumerate(ix[1]) if b]


def real_rows(arr):
    k = arr.dtype.kind
    n = arr.shape[0]
    flat = arr.reshape(n, -1).tolist() if arr.size else [[] for _ in range(n)]
    if k == 'f':
        return [tuple(Fraction(x) for x in r) for r in flat]
    if k in 'iu':
        return [tuple(int(x) for x in r) for r in flat]
    if k == 'b':
        return [tuple(bool(x) for x in r) for r in flat]
    return [tuple(str(x) for x in r) for r in flat]


class Violation(Exception):
    def __init__(self, key, what):
        super().__init__(what)
        self.key, self.what = key, what


def o_natypes(o):
    return max(int(r['atype'][0]) for r in o.recs)


def oracle_apply(op, O, OS):
    """the specification of one (valid) operation on the record model.  Returns the expected output (or None)
    and the set of (handle, key) columns written in place."""
    k = op['op']
    written = []
    out = None
    if k == 'new':
        n = op.get('natoms')
        if n is None:
            n = op['atype']['shape'][0] if op.get('atype') and op['atype']['shape'] else op['pos']['shape'][0]
        meta = OrderedDict()
        cols = OrderedDict()
        at = op.get('atype') or lit('i', [], [1])
        meta['atype'] = ['i', [], None]
        cols['atype'] = o_lit_rows(at, n, [])
        ps = op.get('pos') or lit('f', [1, 3], [0.0, 0.0, 0.0])
        meta['pos'] = ['f', [3], None]
        # specification: positions are Cartesian coordinates, stored as floats whatever numeric dtype they are given in
        cols['pos'] = [tuple(o_cast('f', None, c) for c in r) for r in o_lit_rows(ps, n, [3])] if ps['dt'] in ('i', 'b') \
            else o_lit_rows(ps, n, [3])
        for kk, v in op.get('extra', []):
            trail = v['shape'][1:] if v['shape'] else []
            meta[kk] = [v['dt'], trail, v.get('w')]
            cols[kk] = o_lit_rows(v, n, trail)
        O['a%d' % op['id']] = ORec(n, meta, [{kk: cols[kk][i] for kk in meta} for i in range(n)])
    elif k in ('setv', 'pset', 'spset'):
        h = op['o'] if 'o' in op else OS[op['s']].atoms_h
        o = O[h]
        key, v = op['key'], op['val']
        if op.get('scale'):
            v = o_rel_to_cart(OS[op['s']].box, v)
        if key not in o.meta:
            trail = v['shape'][1:] if v['shape'] else []
            o.meta[key] = [v['dt'], trail, v.get('w')]
            rows = o_lit_rows(v, o.n, trail)
            for i in range(o.n):
                o.recs[i][key] = rows[i]
        else:
            cls, trail, w = o.meta[key]
            ix = op.get('ix')
            pos = list(range(o.n)) if ix is None else o_positions(o.n, ix)
            rows = o_lit_rows(v, len(pos), trail)
            for p, r in zip(pos, rows):
                o.recs[p][key] = tuple(o_cast(cls, w, c) for c in r)
            written.append((h, key))
    elif k in ('pget', 'spget'):
        h = op['o'] if 'o' in op else OS[op['s']].atoms_h
        o = O[h]
        ix = op.get('ix')
        pos = list(range(o.n)) if ix is None else o_positions(o.n, ix)
        out = [o.recs[p][op['key']] for p in pos]
        if op.get('scale'):
            out = [o_ctr_row(OS[op['s']].box, r) for r in out]
    elif k in ('geti', 'pgeta', 'spgeta', 'ixget'):
        h = op['o'] if 'o' in op else OS[op['s']].atoms_h
        o = O[h]
        nw = o.clone_rows(range(o.n) if op.get('ix') is None else o_positions(o.n, op['ix']))
        O['a%d' % op['id']] = nw
        if op.get('scale'):
            # newatoms.pos = box.position_cartesian_to_relative(newatoms.pos): the NEW object's positions only
            cls, _, w = nw.meta['pos']
            for r in nw.recs:
                r['pos'] = tuple(o_cast(cls, w, c) for c in o_ctr_row(OS[op['s']].box, r['pos']))
        if k == 'ixget':
            y = OS[op['s']]
            nw = O['a%d' % op['id']]
            OS['s%d' % op['id']] = new_osys('a%d' % op['id'], y.box, o_natypes(nw), y.get_symbols(o_natypes(o)), [], y.pbc)
    elif k == 'dcopy':
        o = O[op['o']]
        O['a%d' % op['id']] = o.clone_rows(range(o.n))
    elif k == 'sdcopy':
        y = OS[op['s']]
        o = O[y.atoms_h]
        O['a%d' % op['id']] = o.clone_rows(range(o.n))
        OS['s%d' % op['id']] = y.copy_for('a%d' % op['id'])
    elif k in ('seti', 'pseta', 'spseta', 'ixset'):
        if k == 'ixset':
            h = OS[op['s']].atoms_h
            src = op['src'][1] if op['src'][0] == 'a' else OS[op['src'][1]].atoms_h
        else:
            h = op['o'] if 'o' in op else OS[op['s']].atoms_h
            src = op['src']
        o, d = O[h], O[src]
        if k == 'spseta' and op.get('scale'):
            # `value.pos = box.position_relative_to_cartesian(value.pos)`: the DONOR's positions are overwritten
            # first (what the code does and the model transcribes), then the item assignment
            cls, _, w = d.meta['pos']
            for r in d.recs:
                r['pos'] = tuple(o_cast(cls, w, c) for c in o_rtc_row(OS[op['s']].box, r['pos']))
            written.append((src, 'pos'))
        if op.get('refuse'):
            return None, written
        ix = op.get('ix')
        pos = list(range(o.n)) if ix is None else o_positions(o.n, ix)
        donor = [dict(r) for r in d.recs]       # read the donor before writing (it may be the same object)
        for j, p in enumerate(pos):
            for key, (cls, trail, w) in o.meta.items():
                o.recs[p][key] = tuple(o_cast(cls, w, c) for c in donor[j][key])
        written.extend((h, key) for key in o.meta)
    elif k == 'patype':
        o = O[op['o']]
        key, v, t = op['key'], op['val'], op.get('t')
        if t is None:
            trail = v['shape'][1:]
            w = _prod(trail)
            table = [tuple(o_cell(v['dt'], x) for x in v['data'][i * w:(i + 1) * w]) for i in range(v['shape'][0])]
            rows = [table[int(r['atype'][0]) - 1] for r in o.recs]
            if key not in o.meta:
                o.meta[key] = [v['dt'], trail, v.get('w')]
                for i in range(o.n):
                    o.recs[i][key] = rows[i]
            else:
                cls, _, wd = o.meta[key]
                for i in range(o.n):
                    o.recs[i][key] = tuple(o_cast(cls, wd, c) for c in rows[i])
                written.append((op['o'], key))
        else:
            if key not in o.meta:
                trail = list(v['shape'])
                o.meta[key] = [v['dt'], trail, v.get('w')]
                for i in range(o.n):
                    o.recs[i][key] = tuple([o_zero(v['dt'])] * _prod(trail))
            cls, trail, wd = o.meta[key]
            sel = [i for i, r in enumerate(o.recs) if int(r['atype'][0]) == t]   # types before the write
            row = o_lit_rows(v, 1, trail)[0]
            for i in sel:
                o.recs[i][key] = tuple(o_cast(cls, wd, c) for c in row)
            written.append((op['o'], key))
    elif k in ('exti', 'exta', 'sext'):
        if k == 'sext':
            y = OS[op['s']]
            h = y.atoms_h
            val = op['value']
            # `symbols = self.symbols` is read before anything else happens
            sext_syms = op['symbols'] if op.get('symbols') is not None else y.get_symbols(o_natypes(O[h]))
        else:
            h = op['o']
            val = ['i', op['n']] if k == 'exti' else ['a', op['src']]
        o = O[h]
        if val[0] == 'i':
            d = ORec(val[1], OrderedDict([('atype', ['i', [], None]), ('pos', ['f', [3], None])]),
                     [{'atype': (1,), 'pos': (Fraction(0),) * 3} for _ in range(val[1])])
        else:
            d = O[val[1]]
        nw = o.clone_rows(range(o.n))
        for key, m in d.meta.items():
            if key not in nw.meta:
                nw.meta[key] = list(m)
                for r in nw.recs:
                    r[key] = tuple([o_zero(m[0])] * _prod(m[1]))
        for r in d.recs:
            rec = {}
            for key, (cls, trail, w) in nw.meta.items():
                if key in d.meta:
                    rec[key] = tuple(o_cast(cls, w, c) for c in r[key])
                else:
                    rec[key] = tuple([o_zero(cls)] * _prod(trail))
            nw.recs.append(rec)
        nw.n = o.n + d.n
        if k == 'sext' and op['scale']:
            b = y.box
            for j, r in enumerate(d.recs):
                nw.recs[o.n + j]['pos'] = o_rtc_row(b, r['pos'])
        O['a%d' % op['id']] = nw
        if k == 'sext':
            OS['s%d' % op['id']] = new_osys('a%d' % op['id'], y.box, o_natypes(nw), sext_syms, [], y.pbc)
    elif k == 'mksys':
        ms = op.get('masses') or []
        sy = op['symbols'] if op.get('symbols') is not None else [None] * len(ms)
        ah = op['o']
        if op.get('safecopy'):               # the system is built on a deep copy: the given atoms stay as they are
            ah = 'a%d' % op['id']
            O[ah] = O[op['o']].clone_rows(range(O[op['o']].n))
        box = [Fraction(x) for x in op['box']]
        OS['s%d' % op['id']] = new_osys(ah, box, o_natypes(O[ah]), sy, ms, op['pbc'])
        if op.get('scale'):                  # the positions handed in are box-relative: overwritten by their Cartesian image
            cls, _, w = O[ah].meta['pos']
            for r in O[ah].recs:
                r['pos'] = tuple(o_cast(cls, w, c) for c in o_rtc_row(box, r['pos']))
            written.append((ah, 'pos'))
    elif k == 'symset':
        y = OS[op['s']]
        y.set_symbols(o_natypes(O[y.atoms_h]), op['symbols'])
    elif k == 'massset':
        y = OS[op['s']]
        y.set_masses(o_natypes(O[y.atoms_h]), op['masses'])
    elif k in OBSERVERS:
        out = oracle_observe(op, O, OS)
    elif k in ('df', 'sdf'):
        pass
    elif k == 'natypes':
        out = ('ok n %d' % o_natypes(O[op['o']]), None)
    elif k == 'ainfo':
        o = O[op['o']]
        out = ('ok i %d %d %s' % (o.n, o.n, ','.join(str(t + 1) for t in range(o_natypes(o)))), None)
    elif k == 'sinfo':
        o = O[OS[op['s']].atoms_h]
        out = ('ok i %d %d 1' % (o.n, o.n), None)
    elif k == 'pbcset':
        OS[op['s']].pbc = [bool(b) for b in op['pbc']]
    elif k in ('pkeys', 'spkeys'):
        pass
    else:
        raise AssertionError(k)
    return out, written


def oracle_observe(op, O, OS):
    """what a getter must reply (wire form of exec_real) and the lower bounds the property puts on its length."""
    y = OS[op['s']]
    o = O[y.atoms_h]
    nt = o_natypes(o)
    k = op['op']
    if k == 'symget':
        return 'ok y ' + syms_wire(y.get_symbols(nt)), nt
    if k == 'massget':
        return 'ok w ' + masses_wire(y.get_masses(nt)), y.natypes(nt)
    if k in ('snatypes', 'sstr'):
        return 'ok n %d' % y.natypes(nt), nt
    if k == 'satypes':
        n = y.natypes(nt)
        return ' '.join(['ok t', str(n)] + [str(i + 1) for i in range(n)]), nt
    c = y.composition(nt, [int(r['atype'][0]) for r in o.recs])
    return 'ok c ' + ('~' if c is None else '_' + c), None


def o_rtc_row(b, r):
    """relpos.dot(vects) + origin with Fractions."""
    return tuple(sum(Fraction(r[i]) * b[3 * i + j] for i in range(3)) + b[9 + j] for j in range(3))


_O_INV = {}


def o_ctr_row(b, r):
    """np.inner(pos - origin, inv(vects).T) with Fractions: rel_i = sum_j (pos - origin)_j inv(vects)[j][i]."""
    key = tuple(b[:9])
    if key not in _O_INV:
        M = [[Fraction(b[3 * i + j]) for j in range(3)] for i in range(3)]
        det = (M[0][0] * (M[1][1] * M[2][2] - M[1][2] * M[2][1]) - M[0][1] * (M[1][0] * M[2][2] - M[1][2] * M[2][0])
               + M[0][2] * (M[1][0] * M[2][1] - M[1][1] * M[2][0]))
        cof = [[M[(i + 1) % 3][(j + 1) % 3] * M[(i + 2) % 3][(j + 2) % 3]
                - M[(i + 1) % 3][(j + 2) % 3] * M[(i + 2) % 3][(j + 1) % 3] for j in range(3)] for i in range(3)]
        _O_INV[key] = [[cof[j][i] / det for j in range(3)] for i in range(3)]
    inv = _O_INV[key]
    d = [(Fraction(int(r[j])) if isinstance(r[j], bool) else Fraction(r[j])) - b[9 + j] for j in range(3)]
    return tuple(sum(d[j] * inv[j][i] for j in range(3)) for i in range(3))


def o_rel_to_cart(box, v):
    data = [Fraction(x) if not isinstance(x, bool) else Fraction(int(x)) for x in v['data']]
    out = []
    for i in range(len(data) // 3):
        out.extend(o_rtc_row(box, data[3 * i:3 * i + 3]))
    return {'dt': 'f', 'shape': v['shape'], 'data': out}


def rows_close(rows, want, rtol=1e-9, atol=1e-12):
    """float rows agree with the exact rows up to rounding (and differ): the exact regime was left."""
    if len(rows) != len(want):
        return False
    for r, w in zip(rows, want):
        if len(r) != len(w):
            return False
        for x, y in zip(r, w):
            try:
                fx, fy = float(x), float(y)
            except (TypeError, ValueError):
                return False
            if abs(fx - fy) > atol + rtol * max(abs(fx), abs(fy)):
                return False
    return True


def check_clauses(op, W, O, OS, pre_arrays, out, created):
    """the property's clauses on the real objects after an operation."""
    np = _np()
    k = op['op']
    for h, a in W.atoms.items():
        o = O[h]
        keys = list(a.view.keys())
        if a.natoms != o.n:
            raise Violation('natoms', f'{h}: natoms {a.natoms}, record model has {o.n} atoms')
        if keys != list(o.meta.keys()):
            raise Violation('keys', f'{h}: property keys {keys}, record model {list(o.meta.keys())}')
        for key in keys:
            arr = a.view[key]
            cls, trail, w = o.meta[key]
            if not isinstance(arr, np.ndarray) or arr.ndim < 1 or arr.shape[0] != a.natoms:
                raise Violation('rectangular', f'{h}.{key}: shape {getattr(arr, "shape", None)} with natoms {a.natoms}: '
                                'not one entry per atom')
            if list(arr.shape[1:]) != list(trail) or arr_info(arr)[0] != cls:
                raise Violation('dtype-shape', f'{h}.{key}: dtype/trailing shape {arr.dtype}{arr.shape[1:]}, record model '
                                f'{cls}{trail}')
            if cls == 's' and w is not None and arr.dtype.itemsize // 4 != w:
                raise Violation('str-width', f'{h}.{key}: string column of width {arr.dtype.itemsize // 4}, record model '
                                f'keeps {w} characters (after {k})')
            rows = real_rows(arr)
            want = [r[key] for r in o.recs]
            if rows != want:
                if cls == 'f' and rows_close(rows, want):
                    raise Inexact()
                i = next(i for i in range(o.n) if rows[i] != want[i])
                raise Violation('values:' + k, f'{h}.{key}: row {i} reads {rows[i]} but atom {i} of the record model has '
                                f'{want[i]} (after {k})')
            if key == 'atype' and a.natoms > 0 and np.min(arr) < 1:
                raise Violation('atype<1', f'{h}: atype {arr.tolist()} contains a value < 1 (after {k})')
            if key not in type(a).__dict__ and getattr(a, key, None) is not arr:
                raise Violation('mirror', f'{h}.{key}: attribute no longer mirrors view[{key!r}] (after {k})')
    for h, y in W.syss.items():
        if h in OS and OS[h].pbc is not None:
            got = pbc_tokens(y)
            want = ['1' if b else '0' for b in OS[h].pbc]
            if got != want:
                raise Violation('pbc', f'{h}.pbc reads {got} (dtype {getattr(y.pbc, "dtype", None)}), the record of the '
                                f'system has {want} (after {k})')
        if h in OS and OS[h].atoms_h in W.atoms and y.atoms is not W.atoms[OS[h].atoms_h]:
            raise Violation('system-atoms', f'{h}.atoms is no longer the Atoms object the system was built on (after {k})')
    # System.symbols / masses / natypes / atypes / composition are NOT read here: reading them pads the stored tuples
    # (it would heal a stale tuple before the history's own reads see it).  They are observed only by the getter
    # operations of the history (check_observed), in whatever order the history issues them.
    # copies do not alias, operands of copying operations are covered by the value clause above
    if k in ('pget', 'spget') and out is not None:
        r = getattr(W, 'last_out', None)
        if isinstance(r, np.ndarray):
            for (h, key, arr) in W.live_arrays():
                if np.shares_memory(r, arr):
                    raise Violation('alias:prop', f'prop({op["key"]!r}) returned an array sharing memory with {h}.{key}')
    copying = k in ('pgeta', 'spgeta', 'dcopy', 'sdcopy', 'exti', 'exta', 'sext') or (k == 'mksys' and op.get('safecopy')) or \
        (k in ('geti', 'ixget') and op['ix'][0] in ('L', 'K'))
    if copying:
        for kind, hname, obj in created:
            if kind != 'a':
                continue
            for key in obj.view:
                for (h, key2, arr) in pre_arrays:
                    if np.shares_memory(obj.view[key], arr):
                        raise Violation('alias:' + k, f'{k}: new object {hname}.{key} shares memory with {h}.{key2}')


def check_df(op, df, o, box=None):
    """Atoms.df() / System.atoms_df(): one row per atom, one column per component of every property (C order,
    `key[i][j]`), values those of the record model; with scale=True / scale=[keys] the named 3-vector properties are
    box-relative (compared to rounding: the table is a float computation on any box)."""
    k = op['op']
    sc = op.get('scale')
    scaled = ['pos'] if sc is True else (list(sc) if isinstance(sc, list) else ([] if not sc else [sc]))
    who = op.get('o', op.get('s'))
    cols = []
    for key, (cls, trail, w) in o.meta.items():
        idxs = [[]]
        for d in trail:
            idxs = [ix + [i] for ix in idxs for i in range(d)]
        for c, ix in enumerate(idxs):
            cols.append((key + ''.join('[%d]' % i for i in ix), key, c, cls))
    if list(df.columns) != [c[0] for c in cols]:
        raise Violation('df:columns', f"{who}.{k}: columns {list(df.columns)}, record model {[c[0] for c in cols]}")
    if len(df) != o.n:
        raise Violation('df:rows', f'{who}.{k}: {len(df)} rows for {o.n} atoms')
    for name, key, c, cls in cols:
        if key in scaled:
            got = [float(x) for x in df[name].tolist()]
            want = [o_ctr_row(box, r[key])[c] for r in o.recs]
            for i in range(o.n):
                if abs(got[i] - float(want[i])) > 1e-12 + 1e-9 * abs(float(want[i])):
                    raise Violation('df:values', f'{who}.{k}(scale={sc!r}): column {name} row {i} reads {got[i]!r} but the '
                                    f'box-relative value of atom {i} of the record model is {float(want[i])!r}')
            continue
        got = [o_cell(cls, x) for x in df[name].tolist()]
        want = [r[key][c] for r in o.recs]
        if got != want:
            i = next(i for i in range(o.n) if got[i] != want[i])
            raise Violation('df:values', f'{who}.{k}: column {name} row {i} reads {got[i]!r} but atom {i} of the record '
                            f'model has {want[i]!r}')


def check_observed(op, rep, exp):
    """clauses of a getter operation: never shorter than the number of atom types (of the record model), and equal to
    the specification's reply."""
    want, lower = exp
    k = op['op']
    tk = rep.split(' ')
    if lower is not None and k in ('symget', 'massget', 'satypes') and int(tk[2]) < lower:
        what = {'symget': 'symbols', 'massget': 'masses', 'satypes': 'atypes'}[k]
        raise Violation('padding', f"{op['s']}.{what} returned {int(tk[2])} entries ({rep[5:]}) with {lower} atom types "
                        f'(read as `{k}` at this point of the history)')
    if lower is not None and k in ('snatypes', 'sstr') and tk[2].isdigit() and int(tk[2]) < lower:
        raise Violation('padding', f"{op['s']}.natypes = {tk[2]} ({k}) but the atoms hold {lower} atom types")
    if rep != want:
        raise Violation('observed:' + k, f"{op.get('s', op.get('o'))}: {k} replied `{rep}`, the specification `{want}`")


def resync(W, O, written):
    """a write changes the written columns (as specified) and whatever shares memory with them (unspecified):
    the record model re-reads exactly those other columns."""
    np = _np()
    for (h, key) in written:
        if h not in W.atoms:
            continue
        if key not in W.atoms[h].view:
            raise Violation('keys', f'{h}: the operation writes property {key!r} (record model), but the object has no such '
                            f'property afterwards: keys {list(W.atoms[h].view.keys())}')
        warr = W.atoms[h].view[key]
        for h2, a2 in W.atoms.items():
            for key2 in a2.view:
                if (h2, key2) == (h, key):
                    continue
                arr = a2.view[key2]
                if np.shares_memory(warr, arr) and key2 in O[h2].meta and arr.shape[0] == O[h2].n:
                    rows = real_rows(arr)
                    for i in range(O[h2].n):
                        O[h2].recs[i][key2] = rows[i]


def gen_valid_lit(rng, cls, trail, k, key=None, allow_row=True, scalar_ok=True):
    if cls == 's':
        dt = 's'
    else:
        dt = cls if rng.random() < 0.7 else rng.choice(['i', 'f', 'b'])
    if key == 'atype':
        dt = rng.choice(['i', 'i', 'f'])
    c = rng.random()
    if c < 0.55:
        shape = [k] + trail
    elif c < 0.75 and scalar_ok:
        shape = []
    elif c < 0.9 or not trail or not allow_row:
        shape = [1] + trail
    else:
        shape = list(trail)
    return gen_lit(rng, dt, shape, key)


def gen_valid_index(rng, n, nonempty=False, unique=True):
    for _ in range(20):
        ix = gen_index(rng, n, bad=False)
        if ix[0] == 'L' and unique and len({i % n for i in ix[1]}) != len(ix[1]):
            continue
        if ix[0] == 'S' and ix[3] == 0:
            continue
        if nonempty and not o_positions(n, ix):
            continue
        return ix
    return ['S', None, None, None]


def mismatched_donor(rng, o, k, m):
    """a `new` operation building a donor of m atoms whose property SET differs from that of the record object o: a
    strict subset (extras dropped), a strict superset (one more property) or the same number of properties under
    another name; dtypes / trailing shapes of the shared properties agree, so that only the key sets are at odds."""
    extras = [kk for kk in o.meta if kk not in ('atype', 'pos')]
    free = [kk for kk in KEYS + ['q0', 'q1'] if kk not in o.meta]
    modes = ['superset'] + (['subset', 'subset', 'swap'] if extras else [])
    mode = rng.choice(modes)
    keep = list(extras)
    rng.shuffle(keep)
    if mode == 'subset':
        keep = keep[:rng.randint(0, len(keep) - 1)]
    extra = [[kk, gen_lit(rng, o.meta[kk][0], [m] + o.meta[kk][1])] for kk in keep]
    if mode == 'swap':
        extra[-1][0] = free[0]
    if mode == 'superset':
        extra.insert(rng.randint(0, len(extra)), [free[0], gen_lit(rng, rng.choice(['i', 'f']), [m] + rng.choice(TRAILS))])
    return {'op': 'new', 'id': k, 'atype': gen_lit(rng, 'i', [m], 'atype'), 'pos': gen_lit(rng, 'f', [m, 3]),
            'extra': extra, 'donor_mode': mode}


def index_of_count(rng, n, m):
    """an index (any form) selecting exactly m >= 1 of n atoms."""
    c = rng.random()
    if m == 1 and c < 0.4:
        i = rng.randrange(n)
        return vary_index(rng, ['I', i if rng.random() < 0.5 else i - n])
    if c < 0.6:
        st = rng.randint(0, n - m)
        return ['S', st if rng.random() < 0.7 or st == 0 else st - n, st + m if st + m < n or rng.random() < 0.5 else None,
                rng.choice([None, 1])]
    pool = list(range(n))
    rng.shuffle(pool)
    if c < 0.8:
        return vary_index(rng, ['L', [i if rng.random() < 0.7 else i - n for i in pool[:m]]])
    chosen = set(pool[:m])
    return vary_index(rng, ['K', [i in chosen for i in range(n)]])


REFUSALS = ['keys'] * 6 + ['both', 'mask-length', 'mask-length', 'out-of-range', 'first-dimension', 'trailing-shape',
                          'trailing-shape', 'missing-key', 'short-table', 'absent-type', 'too-many-masses', 'pbc-length',
                          'scale-int-extend', 'zero-step', 'negative-extend']


def gen_refusal(rng, W, O, OS, k, why=None):
    """an operation the accessors must REFUSE (raise) while leaving every live object as it was; `refuse` names the
    reason.  May return a `new` operation that builds the donor first and queue the refusal behind it."""
    A, S = W.atoms, W.syss
    cand = [h for h in A if O[h].n >= 1]
    if not cand:
        return None
    why = why or rng.choice(REFUSALS)
    scands = [x for x in S if x in OS and OS[x].atoms_h in A and O[OS[x].atoms_h].n >= 1]
    via_sys = bool(scands) and rng.random() < 0.5
    if via_sys:
        sh = rng.choice(scands)
        h = OS[sh].atoms_h
    else:
        sh = None
        h = rng.choice(cand)
    o = O[h]
    n = o.n
    keys = list(o.meta)
    R = {'refuse': why}
    if why == 'keys':
        m = rng.randint(1, min(n, 3))
        donors = [hh for hh in A if set(O[hh].meta) != set(o.meta) and O[hh].n == m]
        ix = index_of_count(rng, n, m)
        kinds = ['seti', 'pseta'] + (['spseta', 'spseta', 'ixset', 'ixset'] if via_sys else [])
        kind = rng.choice(kinds)
        if donors and rng.random() < 0.5:
            src, first = rng.choice(donors), None
        else:
            first = mismatched_donor(rng, o, k, m)
            src = 'a%d' % k
        if kind == 'seti':
            op = {'op': 'seti', 'o': h, 'ix': ix, 'src': src}
        elif kind == 'pseta':
            op = with_aid(rng, {'op': 'pseta', 'o': h, 'ix': ix, 'src': src})
        elif kind == 'spseta':
            op = with_aid(rng, {'op': 'spseta', 's': sh, 'ix': ix, 'src': src, 'scale': rng.random() < 0.4})
        else:
            sdon = [x for x in S if x in OS and OS[x].atoms_h == src]
            op = {'op': 'ixset', 's': sh, 'ix': ix, 'src': ['s', rng.choice(sdon)] if sdon and rng.random() < 0.5
                  else ['a', src]}
        op.update(R)
        if first is None:
            return op
        W.pending.insert(0, op)
        return first
    if why == 'both':
        ix = gen_valid_index(rng, n)
        c = rng.random()
        if c < 0.4:
            op = {'op': 'pget', 'o': h, 'key': rng.choice(keys), 'ix': ix}
        elif c < 0.6:
            op = {'op': 'pgeta', 'o': h, 'ix': ix, 'id': k}
        else:
            key = rng.choice(keys)
            cls, trail, _ = o.meta[key]
            op = {'op': 'pset', 'o': h, 'key': key, 'ix': ix, 'val': gen_lit(rng, cls, [], key)}
        if via_sys:
            op['op'] = 's' + op['op']
            op['s'] = sh
            del op['o']
            if op['op'] == 'spset':
                op['scale'] = False
        op['aid'] = 'both'
        op.update(R)
        return op
    if why in ('mask-length', 'out-of-range', 'zero-step'):
        if why == 'mask-length':
            ix = vary_index(rng, ['K', [rng.random() < 0.6 for _ in range(n + rng.choice([1, 2, -1]) if n > 1 else n + 1)]])
        elif why == 'out-of-range':
            ix = vary_index(rng, rng.choice([['I', n], ['I', -n - 1], ['I', n + 3], ['L', [0, n]], ['L', [-n - 1]]]))
        else:
            ix = ['S', rng.choice([None, 0, 1]), None, 0]
        c = rng.random()
        if ix[0] == 'I':
            # an out-of-range int handed to Atoms[...] / prop(index=) becomes the empty slice [i:i+1] (`__intslice`, as
            # coded and modelled): only the keyed accessors index the array itself and must raise
            c = rng.choice([0.1, 0.7])
        key = rng.choice(keys)
        cls, trail, _ = o.meta[key]
        if c < 0.3:
            op = {'op': 'pget', 'o': h, 'key': key, 'ix': ix}
        elif c < 0.5:
            op = {'op': rng.choice(['geti', 'pgeta']), 'o': h, 'ix': ix, 'id': k}
        elif c < 0.8 or ix[0] == 'S':
            op = {'op': 'pset', 'o': h, 'key': key, 'ix': ix, 'val': gen_lit(rng, 'i' if key == 'atype' else cls, [], key)}
        else:
            same = [hh for hh in A if set(O[hh].meta) == set(o.meta) and O[hh].n == 1]
            if not same:
                op = {'op': 'pget', 'o': h, 'key': key, 'ix': ix}
            else:
                op = {'op': 'seti', 'o': h, 'ix': ix, 'src': rng.choice(same)}
        if via_sys and op['op'] in ('pget', 'pgeta', 'pset', 'geti'):
            op['op'] = {'pget': 'spget', 'pgeta': 'spgeta', 'pset': 'spset', 'geti': 'ixget'}[op['op']]
            op['s'] = sh
            del op['o']
            if op['op'] == 'spset':
                op['scale'] = False
        op.update(R)
        return op
    if why == 'first-dimension':
        key = rng.choice(keys + [kk for kk in KEYS if kk not in keys][:1])
        cls, trail = (o.meta[key][0], o.meta[key][1]) if key in o.meta else ('f', rng.choice(TRAILS))
        bad_n = rng.choice([n + 1, n + 2] + ([n - 1] if n >= 3 else []))
        op = {'op': 'setv', 'o': h, 'key': key, 'val': gen_lit(rng, 'i' if key == 'atype' else cls, [bad_n] + trail, key),
              'via': rng.choice(['view', 'attr'])}
        op.update(R)
        return op
    if why == 'trailing-shape':
        key = rng.choice(keys)
        cls, trail, _ = o.meta[key]
        if key == 'atype':
            cls = 'i'
        ix = gen_valid_index(rng, n, nonempty=True)
        cnt = len(o_positions(n, ix))
        as_setv = rng.random() < 0.5
        if ix[0] == 'I' or as_setv:
            ix, cnt = ['S', 0, n, None], n       # (whole-column assignment: the value is measured against natoms)
        wrong = [cnt, 2] if trail != [2] else [cnt, 4]
        if trail == [3, 3]:
            wrong = [cnt, 3, 2]
        if rng.random() < 0.5 and cnt >= 2:
            # the right NUMBER of cells in the wrong arrangement (a lenient reshape would scramble rows)
            if trail == []:
                wrong = [cnt, 1]
            elif trail == [3] and cnt != 3:
                wrong = rng.choice([[3, cnt], [cnt * 3]])
            elif trail == [3, 3]:
                wrong = rng.choice([[cnt, 9], [cnt * 3, 3]] if cnt != 3 else [[cnt, 9]])
        if not as_setv:
            op = {'op': 'pset', 'o': h, 'key': key, 'ix': ix, 'val': gen_lit(rng, cls, wrong, key)}
        else:
            op = {'op': 'setv', 'o': h, 'key': key, 'val': gen_lit(rng, cls, wrong, key), 'via': rng.choice(['view', 'attr'])}
        op.update(R)
        return op
    if why == 'missing-key':
        op = {'op': 'pget', 'o': h, 'key': 'nokey', 'ix': None if rng.random() < 0.5 else gen_valid_index(rng, n)}
        if via_sys:
            op = {'op': 'spget', 's': sh, 'key': 'nokey', 'ix': op['ix'], 'scale': rng.random() < 0.3}
        op.update(R)
        return op
    if why in ('short-table', 'absent-type'):
        nt = o_natypes(o)
        key = rng.choice([kk for kk in keys if kk != 'pos'] + KEYS[:2])
        cls, trail = (o.meta[key][0], o.meta[key][1]) if key in o.meta else ('f', [])
        if key == 'atype':
            cls = 'i'
        if why == 'short-table':
            if nt < 2:
                return None
            op = {'op': 'patype', 'o': h, 'key': key, 'val': gen_lit(rng, cls, [nt - 1] + trail, key), 't': None}
        else:
            op = {'op': 'patype', 'o': h, 'key': key, 'val': gen_lit(rng, cls, trail, key), 't': rng.choice([0, nt + 1, -1])}
        op.update(R)
        return op
    if not scands:
        return None
    sh = sh or rng.choice(scands)
    o = O[OS[sh].atoms_h]
    if why == 'too-many-masses':
        nt = max(len(OS[sh].symbols), o_natypes(o))
        op = {'op': 'massset', 's': sh, 'masses': gen_masses(rng, nt + 1, nt + 2)}
    elif why == 'pbc-length':
        op = with_forms(rng, {'op': 'pbcset', 's': sh, 'pbc': [rng.random() < 0.5 for _ in range(rng.choice([2, 4, 1]))]})
    elif why == 'scale-int-extend':
        op = {'op': 'sext', 's': sh, 'value': ['i', rng.choice([1, 2])], 'scale': True, 'symbols': None, 'id': k}
    elif why == 'negative-extend':
        if rng.random() < 0.5:
            op = {'op': 'exti', 'o': OS[sh].atoms_h, 'n': rng.choice([-1, -2]), 'id': k}
        else:
            op = {'op': 'sext', 's': sh, 'value': ['i', rng.choice([-1, -3])], 'scale': False, 'symbols': None, 'id': k}
    else:
        return None
    op.update(R)
    return op


def gen_valid_op(rng, W, O, OS, k):
    np = _np()
    A, S = W.atoms, W.syss
    pend = next_pending(W)
    if pend is not None:
        ph = pend['o'] if 'o' in pend else OS[pend['s']].atoms_h
        if ph in A and O[ph].n > 0:
            return pend
    if S and rng.random() < 0.06:
        cands = [x for x in S if OS[x].atoms_h in A and O[OS[x].atoms_h].n > 0]
        if cands:
            sh = rng.choice(cands)
            g = gen_grow(rng, W, sh, o_natypes(O[OS[sh].atoms_h]))
            if g is not None:
                return g
    if not A or (len(A) < 2 and rng.random() < 0.5) or rng.random() < 0.04:
        n = rng.choice([1, 2, 3, 4, 5])
        op = {'op': 'new', 'id': k, 'atype': gen_lit(rng, 'i', [n], 'atype'), 'pos': gen_lit(rng, 'f', [n, 3])}
        if rng.random() < 0.15:
            op.pop('pos')
        elif rng.random() < 0.1:
            op.pop('atype')
        extra = []
        keys = KEYS[:]
        rng.shuffle(keys)
        for kk in keys[:rng.choice([0, 1, 2, 2, 3])]:
            dt = rng.choice(['i', 'f', 'f', 'b', 's'])
            trail = rng.choice(TRAILS)
            extra.append([kk, gen_lit(rng, dt, rng.choice([[n] + trail, [n] + trail, [1] + trail]))])
        op['extra'] = extra
        if rng.random() < 0.15:
            op['safecopy'] = True
        return op
    if len(A) <= 6 and rng.random() < 0.04:
        tw = gen_twin(rng, A[rng.choice(list(A))], k)
        if tw is not None:
            return tw
    if len(A) > 6:
        bound = {id(s.atoms) for s in S.values()}
        free = [h for h, a in A.items() if id(a) not in bound]
        if free:
            return {'op': 'drop', 'o': rng.choice(free)}
        return {'op': 'drop', 's': rng.choice(list(S))}
    if rng.random() < 0.05:
        r = gen_refusal(rng, W, O, OS, k)
        if r is not None:
            return r
    empties = [hh for hh in A if O[hh].n == 0]
    if empties and rng.random() < 0.08:
        return gen_empty_op(rng, W, O, rng.choice(empties), k)
    h = rng.choice([hh for hh in A if O[hh].n > 0] or list(A))
    o = O[h]
    n = o.n
    if n == 0:
        return gen_empty_op(rng, W, O, h, k)
    kinds = ['setv'] * 8 + ['pget'] * 5 + ['pgeta'] * 3 + ['pset'] * 9 + ['pseta'] * 3 + ['geti'] * 7 + ['seti'] * 5 \
        + ['patype'] * 5 + ['exti'] * 3 + ['exta'] * 5 + ['dcopy'] * 2 + ['mksys'] * 5 + ['natypes'] * 2 + ['df'] * 3 \
        + ['ainfo'] * 2
    if S:
        kinds += ['symget', 'symset', 'massget', 'massset', 'snatypes', 'pbcset'] * 2 + ['satypes', 'scomp', 'sstr'] \
            + ['sinfo'] + ['sdf'] * 4 + ['spget'] * 6 + ['spgeta'] * 8 + ['spset'] * 5 + ['spseta'] * 3 + ['sext'] * 6 + ['ixget'] * 5 \
            + ['ixset'] * 4 + ['sdcopy'] * 2 + ['spkeys']
    kind = rng.choice(kinds)
    sh = None
    if rng.random() < 0.03:
        # an attempt to store an atom type < 1 through one of the write paths: must be refused (or at least
        # must not leave a type < 1 behind)
        c = rng.random()
        bad = rng.choice([0, -1, 0.5])
        dt = 'f' if isinstance(bad, float) else 'i'
        scands = [x for x in S if OS[x].atoms_h in A and O[OS[x].atoms_h].n >= 3]
        if scands and rng.random() < 0.3:
            # the same through System.atoms_prop(..., scale=True): box-relative [-5,-5,-5] or [0,0,0] is below 1 in
            # every Cartesian component for every generated box
            x = rng.choice(scands)
            m = O[OS[x].atoms_h].n
            pool = list(range(m))
            rng.shuffle(pool)
            r = rng.choice([-5, 0])
            return {'op': 'spset', 's': x, 'key': 'atype', 'ix': ['L', pool[:3]], 'val': lit('i', [3], [r, r, r]),
                    'scale': True, 'hostile': True}
        if c < 0.4:
            return {'op': 'pset', 'o': h, 'key': 'atype', 'ix': gen_valid_index(rng, n, nonempty=True),
                    'val': lit(dt, [], [bad]), 'hostile': True}
        if c < 0.7:
            return {'op': 'patype', 'o': h, 'key': 'atype', 'val': lit(dt, [], [bad]), 't': rng.randint(1, o_natypes(o)),
                    'hostile': True}
        data = [1] * n
        data[rng.randrange(n)] = bad
        return {'op': 'setv', 'o': h, 'key': 'atype', 'val': lit(dt, [n], data), 'via': 'view', 'hostile': True}
    if kind in ('symget', 'symset', 'massget', 'massset', 'snatypes', 'satypes', 'scomp', 'sstr', 'sdf', 'spget',
                'spgeta', 'spset', 'spseta', 'sext', 'ixget', 'ixset', 'sdcopy', 'spkeys', 'pbcset', 'sinfo'):
        cands = [x for x in S if OS[x].atoms_h in A and O[OS[x].atoms_h].n > 0]
        if not cands:
            return {'op': 'pkeys', 'o': h}
        sh = rng.choice(cands)
        h = OS[sh].atoms_h
        o = O[h]
        n = o.n
    keys = list(o.meta.keys())
    if kind == 'setv':
        key = rng.choice(keys + KEYS)
        if key in o.meta:
            cls, trail, _ = o.meta[key]
        else:
            cls, trail = rng.choice(['i', 'f', 'f', 'b', 's']), rng.choice(TRAILS)
        # (a scalar assigned to an existing vector-valued column is refused by the code: the scalar is first
        #  broadcast to (natoms,), which numpy cannot write into (natoms, 3); a clean refusal, not generated here)
        v = gen_valid_lit(rng, cls, trail, n, key, allow_row=False, scalar_ok=(key not in o.meta or not trail))
        return {'op': 'setv', 'o': h, 'key': key, 'val': v, 'via': rng.choice(['view', 'attr'])}
    if kind in ('pget', 'spget'):
        ix = None if rng.random() < 0.3 else gen_valid_index(rng, n)
        key = rng.choice(keys)
        if kind == 'pget':
            return with_aid(rng, {'op': 'pget', 'o': h, 'key': key, 'ix': ix})
        op = {'op': 'spget', 's': sh, 'key': key, 'ix': ix}
        vec = [kk for kk in keys if o.meta[kk][0] in 'ifb' and o.meta[kk][1] == [3]]
        if vec and box_exact(W.box.get(sh)) and rng.random() < 0.5:
            op['key'], op['scale'] = rng.choice(vec), True
        return with_aid(rng, op)
    if kind in ('pgeta', 'spgeta', 'geti', 'ixget'):
        ix = gen_valid_index(rng, n, nonempty=(kind == 'ixget'), unique=False)
        d = {'op': kind, 'ix': ix, 'id': k}
        d['s' if kind in ('spgeta', 'ixget') else 'o'] = sh if kind in ('spgeta', 'ixget') else h
        if kind == 'spgeta' and box_exact(W.box.get(sh)) and rng.random() < 0.6:
            d['scale'] = True
            if rng.random() < 0.15:
                d['ix'] = None
            elif n >= 2 and rng.random() < 0.4:
                d['ix'] = gen_span(rng, n)
        return with_aid(rng, d) if kind in ('pgeta', 'spgeta') else d
    if kind == 'sdcopy':
        return {'op': 'sdcopy', 's': sh, 'id': k}
    if kind == 'spkeys':
        return {'op': 'spkeys', 's': sh}
    if kind == 'pbcset':
        return with_forms(rng, {'op': 'pbcset', 's': sh, 'pbc': [rng.random() < 0.5 for _ in range(3)]})
    if kind in ('pset', 'spset'):
        scale = kind == 'spset' and rng.random() < 0.6
        if scale:
            key = rng.choice([kk for kk in keys if o.meta[kk][0] == 'f' and o.meta[kk][1] == [3]])
        else:
            key = rng.choice(keys)
        cls, trail, _ = o.meta[key]
        if rng.random() < 0.2:
            ix, cnt = None, n
            fresh = [kk for kk in KEYS if kk not in o.meta]
            if fresh and not scale and rng.random() < 0.3:
                # prop(key, value=...) on a NEW key stores a copy of the caller's array under that name
                cls, trail = rng.choice(['i', 'f', 'b', 's']), rng.choice(TRAILS)
                v = gen_lit(rng, cls, [n] + trail)
                return {'op': kind, ('o' if kind == 'pset' else 's'): (h if kind == 'pset' else sh), 'key': fresh[0],
                        'ix': None, 'val': v, **({'scale': False} if kind == 'spset' else {})}
        else:
            ix = gen_valid_index(rng, n)
            cnt = len(o_positions(n, ix))
        if ix is not None and ix[0] == 'I':
            shape = rng.choice([trail, trail, []])
            dt = cls if cls == 's' or rng.random() < 0.7 else rng.choice(['i', 'f', 'b'])
            if scale:
                shape, dt = [3], 'f'
            v = gen_lit(rng, 'i' if key == 'atype' else dt, shape, key)
        elif scale:
            v = gen_lit(rng, rng.choice(['f', 'i']),
                        rng.choice([[cnt, 3], [cnt, 3], [3], [1, 3]] if ix is not None else [[cnt, 3], [1, 3]]))
        else:
            v = gen_valid_lit(rng, cls, trail, cnt, key, allow_row=(ix is not None),
                              scalar_ok=(ix is not None or not trail))
            if ix is None and v['shape'] == trail and trail:
                v = gen_lit(rng, v['dt'], [1] + trail, key)
            # a 1-D boolean assignment takes values of rank <= 1 only; keep to forms every index kind accepts
            if ix is not None and ix[0] == 'K' and not trail and len(v['shape']) > 1:
                v = gen_lit(rng, v['dt'], [], key)
        if kind == 'pset':
            return with_aid(rng, {'op': 'pset', 'o': h, 'key': key, 'ix': ix, 'val': v})
        return with_aid(rng, {'op': 'spset', 's': sh, 'key': key, 'ix': ix, 'val': v, 'scale': scale})
    if kind in ('pseta', 'seti', 'ixset', 'spseta'):
        def fits(hh):
            d = O[hh]
            return set(d.meta) == set(o.meta) and all(
                d.meta[kk][1] == o.meta[kk][1] and (d.meta[kk][0] == 's') == (o.meta[kk][0] == 's') for kk in o.meta) \
                and d.n >= 1
        donors = [hh for hh in A if fits(hh)]
        if not donors:
            return {'op': 'pkeys', 'o': h}
        src = rng.choice(donors)
        m = O[src].n
        if m > n:
            return {'op': 'pkeys', 'o': h}
        # an index selecting exactly m rows
        c = rng.random()
        if c < 0.35:
            st = rng.randint(0, n - m)
            ix = ['S', st, st + m, None] if m != 1 or rng.random() < 0.5 else ['I', st if rng.random() < 0.5 else st - n]
        elif c < 0.7:
            pool = list(range(n))
            rng.shuffle(pool)
            ix = ['L', [i if rng.random() < 0.7 else i - n for i in pool[:m]]]
        else:
            pool = list(range(n))
            rng.shuffle(pool)
            chosen = set(pool[:m])
            ix = ['K', [i in chosen for i in range(n)]]
            # (a donor overlapping the target in memory is fine for every index kind since fix c2a392c: numpy's 1-D
            #  boolean / unequal-stride slice assignment is not overlap-safe, Atoms.__setitem__ copies such a donor)
        ix = vary_index(rng, ix)
        if m == n and rng.random() < 0.3 and kind in ('pseta', 'spseta'):
            ix = None
        if kind == 'pseta':
            return with_aid(rng, {'op': 'pseta', 'o': h, 'ix': ix, 'src': src})
        if kind == 'spseta':
            # scale=True overwrites the donor's positions with their Cartesian image first (model = code)
            return with_aid(rng, {'op': 'spseta', 's': sh, 'ix': ix, 'src': src, 'scale': rng.random() < 0.5})
        if kind == 'seti':
            return {'op': 'seti', 'o': h, 'ix': ix, 'src': src}
        sdon = [x for x in S if x in OS and OS[x].atoms_h == src]
        if sdon and rng.random() < 0.5:
            return {'op': 'ixset', 's': sh, 'ix': ix, 'src': ['s', rng.choice(sdon)]}
        return {'op': 'ixset', 's': sh, 'ix': ix, 'src': ['a', src]}
    if kind == 'patype':
        nt = o_natypes(o)
        key = rng.choice(KEYS + [kk for kk in keys if kk != 'pos'])
        if key in o.meta:
            cls, trail, _ = o.meta[key]
        else:
            cls, trail = rng.choice(['i', 'f', 'f', 'b', 's']), rng.choice(TRAILS)
        dt = cls if (cls == 's' or rng.random() < 0.8) else rng.choice(['i', 'f', 'b'])
        if key == 'atype':
            dt = 'i'
        if rng.random() < 0.5:
            v = gen_lit(rng, dt, [nt + rng.choice([0, 0, 1])] + trail, key)
            return {'op': 'patype', 'o': h, 'key': key, 'val': v, 't': None}
        v = gen_lit(rng, dt, trail, key)
        return {'op': 'patype', 'o': h, 'key': key, 'val': v, 't': rng.randint(1, nt)}
    if kind == 'exti':
        return {'op': 'exti', 'o': h, 'n': rng.choice([0, 1, 1, 2, 3]), 'id': k}
    if kind in ('exta', 'sext'):
        def fits(hh):
            d = O[hh]
            return d.n >= 1 and all(d.meta[kk][1] == o.meta[kk][1] and (d.meta[kk][0] == 's') == (o.meta[kk][0] == 's')
                                    for kk in d.meta if kk in o.meta)
        donors = [hh for hh in A if fits(hh)]
        if kind == 'exta':
            if not donors:
                return {'op': 'pkeys', 'o': h}
            return {'op': 'exta', 'o': h, 'src': rng.choice(donors), 'id': k}
        scale = rng.random() < 0.5 and bool(donors)
        if scale or (donors and rng.random() < 0.7):
            val = ['a', rng.choice(donors)]
        else:
            val = ['i', rng.choice([0, 1, 2])]
        return {'op': 'sext', 's': sh, 'value': val, 'scale': scale, 'safecopy': rng.random() < 0.2,
                'symbols': gen_syms(rng, 0, 4) if rng.random() < 0.3 else None, 'id': k}
    if kind == 'dcopy':
        return {'op': 'dcopy', 'o': h, 'id': k}
    if kind == 'natypes':
        return {'op': 'natypes', 'o': h}
    if kind == 'ainfo':
        return {'op': 'ainfo', 'o': h}
    if kind == 'sinfo':
        return {'op': 'sinfo', 's': sh}
    if kind == 'df':
        return {'op': 'df', 'o': h}
    if kind == 'sdf':
        vec = [kk for kk in keys if o.meta[kk][0] in 'ifb' and o.meta[kk][1] == [3]]
        c = rng.random()
        sc = False if c < 0.3 else (True if c < 0.6 else (rng.sample(vec, rng.randint(1, len(vec))) if c < 0.9
                                                          else rng.choice(vec)))
        return {'op': 'sdf', 's': sh, 'scale': sc}
    if kind == 'mksys':
        nt = o_natypes(o)
        op = {'op': 'mksys', 'o': h, 'id': k, 'box': gen_box(rng), 'pbc': [rng.random() < 0.5 for _ in range(3)]}
        if rng.random() < 0.7:
            op['symbols'] = gen_syms(rng)
        ns = max(nt, len(op.get('symbols') or []))
        if rng.random() < 0.5:
            op['masses'] = gen_masses(rng, 0, ns if op.get('symbols') is not None else min(ns, 3))
            if op.get('symbols') is None:
                op['masses'] = op['masses'][:max(nt, len(op['masses']) and nt)]
        return with_forms(rng, op)
    if kind in OBSERVERS:
        return {'op': kind, 's': sh}
    if kind == 'symset':
        return with_forms(rng, {'op': 'symset', 's': sh, 'symbols': gen_syms(rng, 0, 5)})
    if kind == 'massset':
        # as many masses as System.natypes allows at this moment (computed from the specification's hidden tuple
        # without reading it, so that the choice does not pad anything)
        nt = max(len(OS[sh].symbols), o_natypes(o))
        return with_forms(rng, {'op': 'massset', 's': sh, 'masses': gen_masses(rng, 0, nt)})
    raise RuntimeError(kind)


def gen_empty_op(rng, W, O, h, k):
    """operations on an object without atoms (the result of an empty selection): reads, copies, whole-column
    assignment of zero rows, extension BY it."""
    o = O[h]
    keys = list(o.meta)
    c = rng.random()
    if c < 0.2:
        return {'op': 'pget', 'o': h, 'key': rng.choice(keys), 'ix': rng.choice([None, ['S', None, None, None], ['L', []]])}
    if c < 0.35:
        return {'op': rng.choice(['geti', 'pgeta']), 'o': h, 'ix': rng.choice([['S', None, None, None], ['L', []],
                                                                              ['S', 0, 2, None]]), 'id': k}
    if c < 0.5:
        return {'op': 'dcopy', 'o': h, 'id': k}
    if c < 0.6:
        return {'op': 'df', 'o': h}
    if c < 0.75:
        key = rng.choice(keys)
        cls, trail, _ = o.meta[key]
        return {'op': 'setv', 'o': h, 'key': key, 'val': gen_lit(rng, cls, [0] + trail, key), 'via': rng.choice(['view', 'attr'])}
    # another object extended by the empty one: a copy of that object (every property of the empty donor that the
    # other lacks would need `view[prop][0]` of an empty array: only donors whose keys the target has)
    tg = [hh for hh in W.atoms if O[hh].n > 0 and set(o.meta) <= set(O[hh].meta) and all(
        o.meta[kk][1] == O[hh].meta[kk][1] and (o.meta[kk][0] == 's') == (O[hh].meta[kk][0] == 's') for kk in o.meta)]
    if tg:
        return {'op': 'exta', 'o': rng.choice(tg), 'src': h, 'id': k}
    return {'op': 'pkeys', 'o': h}


def describe_accepted(op, W, O, OS):
    """message for an operation that had to be refused but returned: what it is and what it changed."""
    why = {'keys': "the donor's property set differs from the target's (`Can only set Atoms with matching properties`)",
           'both': 'index and a_id are both given', 'mask-length': 'the boolean mask has the wrong length',
           'out-of-range': 'the index is out of range', 'zero-step': 'the slice step is zero',
           'first-dimension': 'the first dimension of the value is neither 1 nor natoms',
           'trailing-shape': 'the trailing shape of the value does not fit the property',
           'missing-key': 'the property does not exist', 'short-table': 'the table is shorter than natypes',
           'absent-type': 'the atom type is not among the atom types', 'too-many-masses': 'more masses than atom types',
           'pbc-length': 'pbc needs exactly three entries', 'scale-int-extend': 'scale=True needs an Atoms value',
           'negative-extend': 'a negative number of atoms'}.get(op['refuse'], op['refuse'])
    changed = []
    for h, a in W.atoms.items():
        if h not in O:
            continue
        o = O[h]
        for key in a.view:
            if key in o.meta and a.view[key].shape[0] == o.n:
                rows = real_rows(a.view[key])
                want = [r[key] for r in o.recs]
                if rows != want:
                    i = next(i for i in range(o.n) if rows[i] != want[i])
                    changed.append(f'{h}.{key}[{i}]: {want[i]} -> {rows[i]}')
    extra = ''
    if op['op'] in ('seti', 'pseta', 'spseta', 'ixset'):
        src = op['src'] if isinstance(op['src'], str) else (op['src'][1] if op['src'][0] == 'a' else OS[op['src'][1]].atoms_h)
        tgt = op['o'] if 'o' in op else OS[op['s']].atoms_h
        extra = f' (target keys {list(O[tgt].meta)}, donor keys {list(O[src].meta)})'
    return (f"{op['op']} was accepted although {why}{extra}; it must raise and change nothing"
            + (': changed ' + '; '.join(changed[:4]) if changed else ''))


# ----------------------------------------------------------------------------------------------
# the accessor matrix: EVERY accessor x EVERY index form x scale x key x value, as short fixed histories
# ----------------------------------------------------------------------------------------------

def matrix_index_forms(n):
    """(name, index spec) for every index form against n = 5 atoms."""
    assert n == 5
    forms = [
        ('int', ['I', 2]), ('int0', ['I', 0]), ('int-last', ['I', 4]), ('neg-int', ['I', -1]), ('neg-int2', ['I', -4]),
        ('np-int', ['I', 3, 'np']), ('np-neg-int', ['I', -2, 'np']),
        ('slice', ['S', 1, 4, None]), ('slice-all', ['S', None, None, None]), ('slice-open-start', ['S', None, 3, None]),
        ('slice-open-stop', ['S', 2, None, None]), ('slice-neg-bounds', ['S', -4, -1, None]),
        ('slice-step2', ['S', None, None, 2]), ('slice-rev', ['S', None, None, -1]), ('slice-rev-open', ['S', 3, None, -1]),
        ('slice-rev-bounds', ['S', 4, 1, -1]), ('slice-rev-step2', ['S', -1, None, -2]), ('slice-one', ['S', 2, 3, None]),
        ('slice-empty', ['S', 3, 3, None]), ('slice-beyond', ['S', 3, 9, None]),
        ('list', ['L', [0, 3]]), ('list-one', ['L', [4]]), ('list-neg', ['L', [-1, 1, 2]]), ('list-unordered', ['L', [3, 0, 2]]),
        ('list-empty', ['L', []]), ('np-array', ['L', [1, 4, 2], 'np']), ('np-array-neg', ['L', [-5, -1], 'np']),
        ('mask', ['K', [True, False, True, True, False]]), ('mask-one', ['K', [False, False, False, True, False]]),
        ('mask-none', ['K', [False] * 5]), ('mask-all', ['K', [True] * 5]), ('mask-list', ['K', [False, True, True, False, True], 'list']),
    ]
    return forms


def matrix_extra(rng, base, mksys, box, donor):
    """deterministic versions of what the random histories sample: observation order after a growth of the atom types,
    read -> write -> read on one object, hostile atom types through every write path, extensions by nothing, every
    refusal reason through several accessors."""
    n = 5
    out = []
    msys = dict(mksys, masses=[26.5, 63.5, 58.75])
    # ---- the number of atom types grows THROUGH THE ATOMS, then ONE observer reads first, then all the others
    grows = [
        ('spset-int', [{'op': 'spset', 's': 's1', 'key': 'atype', 'ix': ['I', -1], 'val': lit('i', [], [5]), 'scale': False}]),
        ('pset-list', [{'op': 'pset', 'o': 'a0', 'key': 'atype', 'ix': ['L', [0, 2]], 'val': lit('i', [], [4])}]),
        ('pset-mask', [{'op': 'pset', 'o': 'a0', 'key': 'atype', 'ix': ['K', [False, True, False, False, True]],
                        'val': lit('i', [2], [4, 5])}]),
        ('patype-relabel', [{'op': 'patype', 'o': 'a0', 'key': 'atype', 'val': lit('i', [], [6]), 't': 2}]),
        ('patype-table', [{'op': 'patype', 'o': 'a0', 'key': 'atype', 'val': lit('i', [3], [2, 4, 1]), 't': None}]),
        ('setv-view', [{'op': 'setv', 'o': 'a0', 'key': 'atype', 'val': lit('i', [n], [1, 2, 5, 3, 2]), 'via': 'view'}]),
        ('setv-attr', [{'op': 'setv', 'o': 'a0', 'key': 'atype', 'val': lit('i', [n], [4, 2, 1, 3, 2]), 'via': 'attr'}]),
        ('seti', [dict(donor(1, ['p3', 'p1', 'p0', 'p2']), atype=lit('i', [1], [5])),
                  {'op': 'seti', 'o': 'a0', 'ix': ['I', 1], 'src': 'a2'}]),
        ('ixset', [dict(donor(2, ['p0', 'p1', 'p2', 'p3']), atype=lit('i', [2], [4, 6])),
                   {'op': 'ixset', 's': 's1', 'ix': ['S', 1, 3, None], 'src': ['a', 'a2']}]),
    ]
    firsts = [[{'op': g, 's': 's1'}] for g in OBSERVERS] + \
        [[{'op': 'massset', 's': 's1', 'masses': [1.5, 2.5, 3.5, 4.5]}, {'op': 'massget', 's': 's1'}],
         [{'op': 'sdcopy', 's': 's1', 'id': 7}, {'op': 'massget', 's': 's7'}],
         [{'op': 'ixget', 's': 's1', 'ix': ['S', None, None, None], 'id': 7}, {'op': 'massget', 's': 's7'}, {'op': 'symget', 's': 's7'}]]
    for gname, gops in grows:
        for f in firsts:
            rest = [{'op': g, 's': 's1'} for g in OBSERVERS if g != f[0]['op']]
            rng.shuffle(rest)
            out.append((f"grow:{gname}:{f[0]['op']}", [base, msys] + gops + f + rest))
    # symbols longer than the atoms use types; masses of that length (constructor order: symbols before masses)
    out.append(('mksys:long-symbols', [base, dict(mksys, symbols=['Al', 'Cu', 'Ni', 'Fe', 'X'], masses=[1.5, 2.5, 3.5, 4.5, 5.5]),
                                       {'op': 'massget', 's': 's1'}, {'op': 'snatypes', 's': 's1'}, {'op': 'satypes', 's': 's1'}]))
    out.append(('massset:fewer', [base, msys, {'op': 'massset', 's': 's1', 'masses': [9.25]}, {'op': 'massget', 's': 's1'},
                                  {'op': 'massset', 's': 's1', 'masses': []}, {'op': 'massget', 's': 's1'}]))
    # symbols lengthened beyond the atom types the atoms use, then masses (never shorter than System.natypes)
    out.append(('symset:longer-then-masses', [base, msys, {'op': 'symset', 's': 's1', 'symbols': ['Al', 'Cu', 'Ni', 'Fe', 'X']},
                                              {'op': 'massget', 's': 's1'}, {'op': 'snatypes', 's': 's1'},
                                              {'op': 'massset', 's': 's1', 'masses': [1.5, 2.5, 3.5, 4.5, 5.5]}, {'op': 'massget', 's': 's1'},
                                              {'op': 'symset', 's': 's1', 'symbols': ['Al']}, {'op': 'massget', 's': 's1'},
                                              {'op': 'symget', 's': 's1'}]))
    # ---- per-type assignment: new / existing key x dtype x trailing shape x one type / table of all types
    for key, cls, trail in (('p4', 'i', []), ('p4', 'f', []), ('p4', 's', []), ('p4', 'b', []), ('p4', 'f', [3]), ('p4', 'i', [3]),
                            ('p4', 'f', [3, 3]), ('p0', 'i', []), ('p0', 'f', []), ('p1', 'f', [3]), ('p1', 'i', [3]), ('p2', 's', []),
                            ('p3', 'b', []), ('atype', 'i', [])):
        for t in (1, 2, 3, None):
            v = gen_lit(rng, cls, trail if t is not None else [3] + trail, key)
            out.append((f'patype:{key}:{cls}{trail}:t={t}', [base, {'op': 'patype', 'o': 'a0', 'key': key, 'val': v, 't': t},
                                                            {'op': 'pget', 'o': 'a0', 'key': key, 'ix': None},
                                                            {'op': 'natypes', 'o': 'a0'}]))
    # ---- per-type assignment for a type NO atom has (a gap in the atom types: 2 of 1..3): a new key is created all the
    #      same (natoms rows of zeros of the value's shape and dtype), an existing one is left as it is
    gap = dict(base, atype=lit('i', [n], [1, 3, 1, 3, 3]))
    lr = random.Random(20260929)          # (own stream: the literals of the entries below do not depend on this block)
    for key, cls, trail in (('p4', 'f', []), ('p4', 'i', [3]), ('p4', 'f', [3, 3]), ('p4', 'f', [1]), ('a-b', 'i', []), ('p0', 'i', []),
                            ('p1', 'f', [3])):
        out.append((f'patype:unused-type:{key}:{cls}{trail}', [gap, {'op': 'patype', 'o': 'a0', 'key': key, 'val': gen_lit(lr, cls, trail), 't': 2},
                                                                 {'op': 'pkeys', 'o': 'a0'}, {'op': 'pget', 'o': 'a0', 'key': key, 'ix': None},
                                                                 {'op': 'patype', 'o': 'a0', 'key': key, 'val': gen_lit(lr, cls, trail), 't': 3},
                                                                 {'op': 'pget', 'o': 'a0', 'key': key, 'ix': None}]))
    # ---- the donor is a VIEW of the target (aliasing between a slice and its parent): rows stay aligned for every
    #      index kind and stride (numpy alone protects neither a 1-D boolean nor an unequal-stride 1-D slice assignment)
    views = [('head', ['S', 0, 3, None]), ('every-other', ['S', None, None, 2]), ('tail-rev', ['S', None, 1, -1]),
             ('middle', ['S', 1, 4, None])]
    targets = [('stride2', ['S', None, None, 2]), ('mask', ['K', [True, False, True, False, True]]), ('list', ['L', [0, 2, 4]]),
               ('shift', ['S', 2, 5, None]), ('rev-stride2', ['S', None, None, -2]), ('head', ['S', 0, 3, None]),
               ('np-array', ['L', [4, 1, 3], 'np']), ('mask-list', ['K', [False, True, True, True, False], 'list'])]
    for vname, vix in views:
        for tname, tix in targets:
            for kind in ('seti', 'pseta', 'ixset'):
                op = {'seti': {'op': 'seti', 'o': 'a0', 'ix': tix, 'src': 'a3'}, 'pseta': {'op': 'pseta', 'o': 'a0', 'ix': tix, 'src': 'a3'},
                      'ixset': {'op': 'ixset', 's': 's1', 'ix': tix, 'src': ['a', 'a3']}}[kind]
                if kind != 'seti' and (len(vname) + len(tname)) % 2:
                    continue
                out.append((f'overlap:{kind}:{vname}->{tname}', [base, mksys, {'op': 'geti', 'o': 'a0', 'ix': vix, 'id': 3}, op,
                                                                {'op': 'pget', 'o': 'a0', 'key': 'p0', 'ix': None},
                                                                {'op': 'pget', 'o': 'a3', 'key': 'p1', 'ix': None}]))
    out.append(('overlap:self-reversed', [base, {'op': 'seti', 'o': 'a0', 'ix': ['S', None, None, -1], 'src': 'a0'},
                                          {'op': 'pget', 'o': 'a0', 'key': 'p0', 'ix': None}]))
    # ---- read -> write -> the same read again (memoised / cached reads)
    reads = [('pget', {'op': 'pget', 'o': 'a0', 'key': 'p0', 'ix': None}), ('pget-ix', {'op': 'pget', 'o': 'a0', 'key': 'p1', 'ix': ['S', 1, 4, None]}),
             ('spget-scaled', {'op': 'spget', 's': 's1', 'key': 'p1', 'ix': None, 'scale': True}),
             ('natypes', {'op': 'natypes', 'o': 'a0'}), ('df', {'op': 'df', 'o': 'a0'}), ('sdf', {'op': 'sdf', 's': 's1', 'scale': True}),
             ('sdf-keys', {'op': 'sdf', 's': 's1', 'scale': ['p1', 'pos']}), ('ainfo', {'op': 'ainfo', 'o': 'a0'}),
             ('sinfo', {'op': 'sinfo', 's': 's1'}), ('spkeys', {'op': 'spkeys', 's': 's1'})]
    writes = [('pset', [{'op': 'pset', 'o': 'a0', 'key': 'p0', 'ix': ['I', 2], 'val': lit('i', [], [41])},
                        {'op': 'pset', 'o': 'a0', 'key': 'p1', 'ix': ['L', [1, 3]], 'val': lit('f', [3], [0.5, -1.5, 2.0])},
                        {'op': 'pset', 'o': 'a0', 'key': 'atype', 'ix': ['I', 0], 'val': lit('i', [], [4])}]),
              ('seti', [donor(2, ['p3', 'p1', 'p0', 'p2']), {'op': 'seti', 'o': 'a0', 'ix': ['S', 1, 3, None], 'src': 'a2'}]),
              ('setv', [{'op': 'setv', 'o': 'a0', 'key': 'p0', 'val': lit('i', [], [13]), 'via': 'attr'},
                        {'op': 'setv', 'o': 'a0', 'key': 'p1', 'val': gen_lit(rng, 'f', [n, 3]), 'via': 'view'},
                        {'op': 'setv', 'o': 'a0', 'key': 'p4', 'val': gen_lit(rng, 'f', [n]), 'via': 'view'}]),
              ('spset-scaled', [{'op': 'spset', 's': 's1', 'key': 'p1', 'ix': ['S', None, None, 2],
                                 'val': gen_lit(rng, 'f', [3, 3]), 'scale': True}])]
    for rname, r in reads:
        for wname, w in writes:
            out.append((f'read-write-read:{rname}:{wname}', [base, mksys, dict(r)] + w + [dict(r)]))
    # ---- atom types < 1 through every write path: refused (or at least never stored)
    for bad in (0, -1, 0.5):
        dt = 'f' if isinstance(bad, float) else 'i'
        hostile = [
            {'op': 'pset', 'o': 'a0', 'key': 'atype', 'ix': ['I', 1], 'val': lit(dt, [], [bad])},
            {'op': 'pset', 'o': 'a0', 'key': 'atype', 'ix': ['S', 1, 4, None], 'val': lit(dt, [3], [1, bad, 2])},
            {'op': 'pset', 'o': 'a0', 'key': 'atype', 'ix': ['L', [4, 0]], 'val': lit(dt, [], [bad])},
            {'op': 'pset', 'o': 'a0', 'key': 'atype', 'ix': ['K', [True, False, False, True, False]], 'val': lit(dt, [2], [bad, 1])},
            {'op': 'pset', 'o': 'a0', 'key': 'atype', 'ix': None, 'val': lit(dt, [n], [1, 2, bad, 1, 1])},
            {'op': 'setv', 'o': 'a0', 'key': 'atype', 'val': lit(dt, [n], [1, 2, 3, bad, 1]), 'via': 'view'},
            {'op': 'setv', 'o': 'a0', 'key': 'atype', 'val': lit(dt, [], [bad]), 'via': 'attr'},
            {'op': 'patype', 'o': 'a0', 'key': 'atype', 'val': lit(dt, [], [bad]), 't': 2},
            {'op': 'patype', 'o': 'a0', 'key': 'atype', 'val': lit(dt, [3], [1, bad, 2]), 't': None},
            {'op': 'spset', 's': 's1', 'key': 'atype', 'ix': ['I', 0], 'val': lit(dt, [], [bad]), 'scale': False},
        ]
        for h in hostile:
            out.append((f"hostile:{h['op']}:{bad}", [base, mksys, dict(h, hostile=True), {'op': 'natypes', 'o': 'a0'}]))
    for r in (-5, 0):       # box-relative 3-vector landing in three atom types: below 1 in every Cartesian component?
        cart = o_rtc_row([Fraction(x) for x in box], (r, r, r))
        if all(c < 1 for c in cart):
            out.append((f'hostile:spset-scaled:{r}', [base, mksys, {'op': 'spset', 's': 's1', 'key': 'atype', 'ix': ['L', [0, 2, 4]],
                                                                   'val': lit('i', [3], [r, r, r]), 'scale': True, 'hostile': True},
                                                     {'op': 'natypes', 'o': 'a0'}]))
    # ---- extension by nothing returns a NEW object all the same
    out.append(('extend:nothing', [base, mksys, {'op': 'exti', 'o': 'a0', 'n': 0, 'id': 3},
                                   {'op': 'geti', 'o': 'a0', 'ix': ['S', 2, 2, None], 'id': 4}, {'op': 'exta', 'o': 'a0', 'src': 'a4', 'id': 5},
                                   {'op': 'sext', 's': 's1', 'value': ['i', 0], 'scale': False, 'symbols': None, 'id': 6},
                                   {'op': 'sext', 's': 's1', 'value': ['a', 'a4'], 'scale': True, 'symbols': None, 'id': 7}]))
    out.append(('pset:new-key', [base, {'op': 'pset', 'o': 'a0', 'key': 'p4', 'ix': None, 'val': gen_lit(rng, 'f', [n, 3])},
                                 {'op': 'pset', 'o': 'a0', 'key': 'q0', 'ix': None, 'val': lit('s', [n], ['a', 'b', 'Fe', '', 'xyz'], 3)},
                                 {'op': 'pget', 'o': 'a0', 'key': 'p4', 'ix': None}]))
    # ---- every refusal reason through several accessors
    R = []
    for ix in (['K', [True] * 6], ['K', [True, False, True, False]], ['K', [False, True, True, False, True, True], 'list']):
        R += [('mask-length', {'op': 'geti', 'o': 'a0', 'ix': ix, 'id': 3}), ('mask-length', {'op': 'pgeta', 'o': 'a0', 'ix': ix, 'id': 3}),
              ('mask-length', {'op': 'pget', 'o': 'a0', 'key': 'p1', 'ix': ix}),
              ('mask-length', {'op': 'pset', 'o': 'a0', 'key': 'p0', 'ix': ix, 'val': lit('i', [], [3])}),
              ('mask-length', {'op': 'spgeta', 's': 's1', 'ix': ix, 'id': 3}),
              ('mask-length', {'op': 'spgeta', 's': 's1', 'ix': ix, 'id': 3, 'scale': True}),
              ('mask-length', {'op': 'spget', 's': 's1', 'key': 'pos', 'ix': ix, 'scale': True}),
              ('mask-length', {'op': 'ixget', 's': 's1', 'ix': ix, 'id': 3})]
    for ix in (['I', 5], ['I', -6], ['I', 7, 'np'], ['L', [0, 5]], ['L', [-6], 'np']):
        R += [('out-of-range', {'op': 'pget', 'o': 'a0', 'key': 'p0', 'ix': ix}),
              ('out-of-range', {'op': 'pset', 'o': 'a0', 'key': 'p1', 'ix': ix, 'val': lit('f', [3], [1.0, 2.0, 3.0])}),
              ('out-of-range', {'op': 'spget', 's': 's1', 'key': 'pos', 'ix': ix, 'scale': True})]
        if ix[0] == 'L':
            R += [('out-of-range', {'op': 'geti', 'o': 'a0', 'ix': ix, 'id': 3}), ('out-of-range', {'op': 'spgeta', 's': 's1', 'ix': ix, 'id': 3, 'scale': True})]
    z = ['S', None, None, 0]
    R += [('zero-step', {'op': 'geti', 'o': 'a0', 'ix': z, 'id': 3}), ('zero-step', {'op': 'pget', 'o': 'a0', 'key': 'p0', 'ix': z}),
          ('zero-step', {'op': 'pset', 'o': 'a0', 'key': 'p0', 'ix': z, 'val': lit('i', [], [1])}),
          ('zero-step', {'op': 'spgeta', 's': 's1', 'ix': z, 'id': 3, 'scale': True})]
    for key, cls, shape in (('p4', 'f', [6]), ('p4', 'f', [4, 3]), ('p0', 'i', [6]), ('p0', 'i', [4]), ('p1', 'f', [6, 3]), ('pos', 'f', [2, 3]),
                            ('atype', 'i', [4]), ('p2', 's', [7])):
        for via in ('view', 'attr'):
            R.append(('first-dimension', {'op': 'setv', 'o': 'a0', 'key': key, 'val': gen_lit(rng, cls, shape, key), 'via': via}))
    for key, cls, shape in (('p1', 'f', [5, 2]), ('p1', 'f', [5, 1, 3]), ('p0', 'i', [5, 1]), ('p0', 'i', [5, 2]), ('pos', 'f', [5, 2]),
                            ('pos', 'f', [5, 3, 1]), ('p3', 'b', [5, 1]), ('atype', 'i', [5, 1])):
        R.append(('trailing-shape', {'op': 'setv', 'o': 'a0', 'key': key, 'val': gen_lit(rng, cls, shape, key), 'via': 'view'}))
    for key, cls, shape in (('p1', 'f', [15]), ('p1', 'f', [3, 5]), ('pos', 'f', [15])):   # right number of cells, wrong first dimension
        R.append(('first-dimension', {'op': 'setv', 'o': 'a0', 'key': key, 'val': gen_lit(rng, cls, shape, key), 'via': 'view'}))
    for ix, m in ((['S', 1, 4, None], 3), (['L', [0, 4]], 2), (['K', [True, True, False, True, True]], 4)):
        for key, cls, shape in (('p1', 'f', [m, 2]), ('p0', 'i', [m, 1]), ('p0', 'i', [m, 2]), ('p1', 'f', [m + 1, 3]), ('p0', 'i', [m + 1])) \
                + ((('p1', 'f', [3, m]), ('p1', 'f', [3 * m])) if m != 3 else ()):
            R.append(('trailing-shape', {'op': 'pset', 'o': 'a0', 'key': key, 'ix': ix, 'val': gen_lit(rng, cls, shape, key)}))
    R += [('missing-key', {'op': 'pget', 'o': 'a0', 'key': 'nokey', 'ix': None}), ('missing-key', {'op': 'pget', 'o': 'a0', 'key': 'nokey', 'ix': ['I', 0]}),
          ('missing-key', {'op': 'spget', 's': 's1', 'key': 'nokey', 'ix': None}), ('missing-key', {'op': 'spget', 's': 's1', 'key': 'nokey', 'ix': ['S', 0, 2, None], 'scale': True}),
          ('short-table', {'op': 'patype', 'o': 'a0', 'key': 'p0', 'val': lit('i', [2], [7, 8]), 't': None}),
          ('short-table', {'op': 'patype', 'o': 'a0', 'key': 'p4', 'val': gen_lit(rng, 'f', [2, 3]), 't': None}),
          ('absent-type', {'op': 'patype', 'o': 'a0', 'key': 'p0', 'val': lit('i', [], [7]), 't': 0}),
          ('absent-type', {'op': 'patype', 'o': 'a0', 'key': 'p4', 'val': lit('f', [], [7.5]), 't': 4}),
          ('absent-type', {'op': 'patype', 'o': 'a0', 'key': 'p1', 'val': lit('f', [3], [1.0, 2.0, 3.0]), 't': -1}),
          ('too-many-masses', {'op': 'massset', 's': 's1', 'masses': [1.5, 2.5, 3.5, 4.5]}),
          ('pbc-length', {'op': 'pbcset', 's': 's1', 'pbc': [True, False]}), ('pbc-length', {'op': 'pbcset', 's': 's1', 'pbc': [True] * 4, 'pbc_as': 'np'}),
          ('scale-int-extend', {'op': 'sext', 's': 's1', 'value': ['i', 1], 'scale': True, 'symbols': None, 'id': 3}),
          ('negative-extend', {'op': 'exti', 'o': 'a0', 'n': -1, 'id': 3}),
          ('negative-extend', {'op': 'sext', 's': 's1', 'value': ['i', -2], 'scale': False, 'symbols': None, 'id': 3})]
    for ix in (['I', 1], ['S', 0, 2, None], ['L', [2]]):
        R += [('both', {'op': 'pget', 'o': 'a0', 'key': 'p0', 'ix': ix, 'aid': 'both'}), ('both', {'op': 'pgeta', 'o': 'a0', 'ix': ix, 'id': 3, 'aid': 'both'}),
              ('both', {'op': 'pset', 'o': 'a0', 'key': 'p0', 'ix': ix, 'val': lit('i', [], [3]), 'aid': 'both'}),
              ('both', {'op': 'spget', 's': 's1', 'key': 'pos', 'ix': ix, 'aid': 'both'}),
              ('both', {'op': 'spget', 's': 's1', 'key': 'pos', 'ix': ix, 'scale': True, 'aid': 'both'}),
              ('both', {'op': 'spgeta', 's': 's1', 'ix': ix, 'id': 3, 'scale': True, 'aid': 'both'}),
              ('both', {'op': 'spset', 's': 's1', 'key': 'p0', 'ix': ix, 'val': lit('i', [], [3]), 'scale': False, 'aid': 'both'}),
              ('both', {'op': 'spset', 's': 's1', 'key': 'pos', 'ix': ix, 'val': lit('f', [3], [0.5, 0.5, 0.5]), 'scale': True, 'aid': 'both'})]
    for j, (why, op) in enumerate(R):
        out.append((f"refuse:{why}:{op['op']}#{j}", [base, mksys, dict(op, refuse=why)]))
    return out


def matrix_histories(rng, refusals=True):
    """short fixed histories [Atoms(5 atoms, int / float-vector / str / bool extras), System on a box that is neither
    the unit cube nor axis-aligned (exact), (donor,) ONE accessor call, read-backs]: the cross product the random
    histories only sample.  Every history is checked after every operation like any other (full state of every live
    object, aliasing, reads must not write)."""
    n = 5
    base = {'op': 'new', 'id': 0, 'atype': lit('i', [n], [1, 2, 1, 3, 2]), 'pos': gen_lit(rng, 'f', [n, 3]),
            'extra': [['p0', gen_lit(rng, 'i', [n])], ['p1', gen_lit(rng, 'f', [n, 3])],
                      ['p2', lit('s', [n], ['Al', 'Cu', 'a', 'xyz', ''], 3)], ['p3', gen_lit(rng, 'b', [n])]]}
    while True:
        box = gen_box(rng)
        if box_exact(box) and (box[3] != 0.0 or box[6] != 0.0 or box[7] != 0.0) and box[:9:4] != [1.0, 1.0, 1.0] \
                and box[9:] != [0.0, 0.0, 0.0]:
            break
    mksys = {'op': 'mksys', 'o': 'a0', 'id': 1, 'box': box, 'pbc': [True, False, True], 'symbols': ['Al', 'Cu', 'Ni']}
    meta = {'atype': ('i', []), 'pos': ('f', [3]), 'p0': ('i', []), 'p1': ('f', [3]), 'p2': ('s', []), 'p3': ('b', []),
            'p4': ('f', [])}
    rot = [0]

    def donor(m, order):
        ex = [[kk, gen_lit(rng, meta[kk][0], [m] + meta[kk][1])] for kk in order]
        return {'op': 'new', 'id': 2, 'atype': gen_lit(rng, 'i', [m], 'atype'), 'pos': gen_lit(rng, 'f', [m, 3]), 'extra': ex}

    out = []
    for name, ix in matrix_index_forms(n):
        pos = o_positions(n, ix)
        m = len(pos)
        scalar = ix[0] == 'I'
        # ---- reads: key given / absent x scale False / True
        for key in ('atype', 'pos', 'p1', 'p2'):
            out.append((f'pget:{key}[{name}]', [base, {'op': 'pget', 'o': 'a0', 'key': key, 'ix': ix}]))
        out.append((f'pget:a_id[{name}]', [base, {'op': 'pget', 'o': 'a0', 'key': 'p0', 'ix': ix, 'aid': 'aid'}]))
        for key in ('p0', 'pos'):
            out.append((f'spget:{key}[{name}]', [base, mksys, {'op': 'spget', 's': 's1', 'key': key, 'ix': ix}]))
        for key in ('pos', 'p1'):
            out.append((f'spget:scaled:{key}[{name}]',
                        [base, mksys, {'op': 'spget', 's': 's1', 'key': key, 'ix': ix, 'scale': True},
                         {'op': 'spget', 's': 's1', 'key': key, 'ix': ix, 'scale': True}]))
        out.append((f'geti[{name}]', [base, {'op': 'geti', 'o': 'a0', 'ix': ix, 'id': 3}]))
        out.append((f'pgeta[{name}]', [base, {'op': 'pgeta', 'o': 'a0', 'ix': ix, 'id': 3}]))
        out.append((f'spgeta[{name}]', [base, mksys, {'op': 'spgeta', 's': 's1', 'ix': ix, 'id': 3}]))
        out.append((f'spgeta:scaled[{name}]',
                    [base, mksys, {'op': 'spgeta', 's': 's1', 'ix': ix, 'id': 3, 'scale': True},
                     {'op': 'spgeta', 's': 's1', 'ix': ix, 'id': 4, 'scale': True},
                     {'op': 'spget', 's': 's1', 'key': 'pos', 'ix': None}]))
        out.append((f'spgeta:scaled:a_id[{name}]',
                    [base, mksys, {'op': 'spgeta', 's': 's1', 'ix': ix, 'id': 3, 'scale': True, 'aid': 'aid'}]))
        if m >= 1:
            out.append((f'ixget[{name}]', [base, mksys, {'op': 'ixget', 's': 's1', 'ix': ix, 'id': 3},
                                           {'op': 'symget', 's': 's3'}, {'op': 'massget', 's': 's3'}]))
        # ---- writes: key given (value array / scalar / row) x scale False / True
        cnt = None if scalar else m
        for key in ('p0', 'p1', 'p2', 'p3', 'atype'):
            cls, trail = meta[key]
            shapes = [([] if scalar else [m]) + trail, []] + ([trail] if trail else [])
            for shape in shapes:
                v = gen_lit(rng, cls, shape, key)
                out.append((f'pset:{key}{shape}[{name}]',
                            [base, {'op': 'pset', 'o': 'a0', 'key': key, 'ix': ix, 'val': v},
                             {'op': 'pget', 'o': 'a0', 'key': key, 'ix': ix}]))
        v = gen_lit(rng, 'f', ([] if scalar else [m]) + [3])
        out.append((f'spset[{name}]', [base, mksys, {'op': 'spset', 's': 's1', 'key': 'p1', 'ix': ix, 'val': v, 'scale': False}]))
        for key in ('pos', 'p1'):
            out.append((f'spset:scaled:{key}[{name}]',
                        [base, mksys, {'op': 'spset', 's': 's1', 'key': key, 'ix': ix, 'val': v, 'scale': True},
                         {'op': 'spget', 's': 's1', 'key': key, 'ix': ix, 'scale': True}]))
        # ---- writes: no key, value = Atoms (donor with the same properties in another order)
        if m >= 1:
            order = ['p3', 'p1', 'p0', 'p2']
            for kind in ('seti', 'pseta', 'spseta', 'spseta:scaled', 'ixset:a', 'ixset:s'):
                d = donor(m, order)
                pre = [base, mksys, d]
                if kind == 'seti':
                    op = {'op': 'seti', 'o': 'a0', 'ix': ix, 'src': 'a2'}
                elif kind == 'pseta':
                    op = {'op': 'pseta', 'o': 'a0', 'ix': ix, 'src': 'a2'}
                elif kind.startswith('spseta'):
                    op = {'op': 'spseta', 's': 's1', 'ix': ix, 'src': 'a2', 'scale': kind.endswith('scaled')}
                elif kind == 'ixset:a':
                    op = {'op': 'ixset', 's': 's1', 'ix': ix, 'src': ['a', 'a2']}
                else:
                    pre = pre + [{'op': 'mksys', 'o': 'a2', 'id': 5, 'box': box, 'pbc': [True, True, True]}]
                    op = {'op': 'ixset', 's': 's1', 'ix': ix, 'src': ['s', 's5']}
                out.append((f'{kind}[{name}]', pre + [op, {'op': 'pgeta', 'o': 'a0', 'ix': ix, 'id': 6}]))
                if refusals:
                    # donors whose property SET differs, in either direction: refused, nothing changes
                    modes = (('subset', order[:2]), ('subset0', []), ('superset', order + ['p4']),
                             ('swap', order[:3] + ['p4']))
                    rot[0] += 1
                    for mode, ex in (modes[rot[0] % 4],):     # every (accessor, mode) pair occurs under 8 index forms
                        bad = donor(m, ex)
                        pre2 = [base, mksys, bad] + pre[3:]
                        rop = dict(op, refuse='keys')
                        out.append((f'refuse:{kind}:{mode}[{name}]', pre2 + [rop]))
    # ---- no index at all
    out.append(('spgeta:scaled[none]', [base, mksys, {'op': 'spgeta', 's': 's1', 'ix': None, 'id': 3, 'scale': True},
                                        {'op': 'spgeta', 's': 's1', 'ix': None, 'id': 4, 'scale': True}]))
    out.append(('spget:scaled[none]', [base, mksys, {'op': 'spget', 's': 's1', 'key': 'pos', 'ix': None, 'scale': True}]))
    out.append(('sdcopy', [base, dict(mksys, masses=[1.5, None]), {'op': 'sdcopy', 's': 's1', 'id': 3},
                           {'op': 'pset', 'o': 'a0', 'key': 'atype', 'ix': ['I', 0], 'val': lit('i', [], [5])},
                           {'op': 'sdcopy', 's': 's1', 'id': 4}, {'op': 'massget', 's': 's4'}, {'op': 'symget', 's': 's3'}]))
    for sc in (False, True):
        for cp in (False, True):
            if not (sc or cp):
                continue
            out.append((f'mksys:scale={sc}:safecopy={cp}',
                        [base, dict(mksys, scale=sc, safecopy=cp), {'op': 'spget', 's': 's1', 'key': 'pos', 'ix': None},
                         {'op': 'spget', 's': 's1', 'key': 'pos', 'ix': None, 'scale': True},
                         {'op': 'pset', 'o': 'a0', 'key': 'p0', 'ix': ['I', 1], 'val': lit('i', [], [77])},
                         {'op': 'spget', 's': 's1', 'key': 'p0', 'ix': None}, {'op': 'pget', 'o': 'a0', 'key': 'pos', 'ix': None}]))
    out.append(('new:safecopy', [dict(base, safecopy=True), {'op': 'pget', 'o': 'a0', 'key': 'p1', 'ix': None}]))
    # ---- the other spellings of symbols / masses (tuple, ONE bare str / float) and pbc (tuple, 0/1 ints, numpy array)
    for form in ('bare', 'tuple'):
        sy = ['Al'] if form == 'bare' else ['Al', 'Cu', 'Ni']
        ms = [26.5] if form == 'bare' else [26.5, None, 58.75]
        out.append((f'forms:{form}', [base, dict(mksys, symbols=sy, masses=ms, symbols_as=form, masses_as=form),
                                      {'op': 'symget', 's': 's1'}, {'op': 'massget', 's': 's1'}, {'op': 'scomp', 's': 's1'},
                                      {'op': 'symset', 's': 's1', 'symbols': ['Cu'] if form == 'bare' else ['Fe', 'Cu', 'Ni'],
                                       'symbols_as': form},
                                      {'op': 'massset', 's': 's1', 'masses': [63.5] if form == 'bare' else [55.75, 63.5],
                                       'masses_as': form},
                                      {'op': 'symget', 's': 's1'}, {'op': 'massget', 's': 's1'}, {'op': 'scomp', 's': 's1'}]))
    for form in ('tuple', 'int', 'np'):
        out.append((f'forms:pbc:{form}', [base, dict(mksys, pbc=[False, True, False], pbc_as=form),
                                          {'op': 'pbcset', 's': 's1', 'pbc': [True, False, False], 'pbc_as': form},
                                          {'op': 'ixget', 's': 's1', 'ix': ['S', 0, 2, None], 'id': 3},
                                          {'op': 'sext', 's': 's1', 'value': ['i', 1], 'scale': False, 'symbols': None, 'id': 4}]))
    for d_as in ('a', 'i'):
        for scale in (False, True):
            if d_as == 'i' and scale:
                continue
            val = ['a', 'a2'] if d_as == 'a' else ['i', 2]
            out.append((f'sext:{d_as}:{scale}', [base, mksys, donor(2, ['p1']),
                                                 {'op': 'sext', 's': 's1', 'value': val, 'scale': scale, 'symbols': None, 'id': 3}]))
    out += matrix_extra(rng, base, mksys, box, donor)
    out += matrix_names(rng)
    out += matrix_tables(rng)
    out += matrix_shapes(rng)
    out += matrix_flags(rng)
    out += matrix_posdtype(rng)
    return out


def matrix_names(rng):
    """every way of CREATING a per-atom property crossed with the name pool NAMES: constructor keyword, `view[name] =`,
    attribute set, `prop(name, value=)`, `System.atoms_prop(name, value=)`, `prop_atype` (table / one type), and
    inheritance from a donor through `extend`; full-length, scalar and one-row values of int / float-vector / str dtype.
    After the creation the property is read back through every observer (`prop()`, `prop(name)`, indexed), written again
    through the two whole-column routes (attribute set and view set on the EXISTING name), and must follow the atoms
    through `atoms[...]`, `extend`, `deepcopy`, `atoms_ix`, `df()`; the full state of every live object is compared after
    every operation as in any other history."""
    n = 5
    out = []
    kinds = [('i', []), ('f', [3]), ('s', []), ('f', []), ('b', [])]
    box = [2.0, 0.0, 0.0, 1.0, 4.0, 0.0, 0.0, 0.0, 0.5, 1.0, 0.0, 0.0]
    routes = ('ctor', 'view', 'attr', 'prop', 'sprop', 'patype-table', 'patype-one', 'extend-donor')
    j = 0
    for name in NAMES:
        for route in routes:
            if route == 'attr' and name in CLASS_ATTRS:
                continue            # `atoms.df = ...` is ordinary attribute assignment (shadows the method): not a property
            j += 1
            cls, trail = kinds[j % len(kinds)]
            if route.startswith('patype') and cls in ('s', 'b'):
                cls, trail = 'f', [3]
            shape = [[n] + trail, [], [1] + trail][(j // len(kinds)) % 3] if route in ('ctor', 'view', 'attr') else [n] + trail
            if shape == [] and trail:
                shape = [n] + trail
            v = gen_lit(rng, cls, shape)
            base = {'op': 'new', 'id': 0, 'atype': lit('i', [n], [1, 2, 1, 3, 2]), 'pos': gen_lit(rng, 'f', [n, 3]),
                    'extra': [['p0', gen_lit(rng, 'i', [n])]]}
            mksys = {'op': 'mksys', 'o': 'a0', 'id': 1, 'box': box, 'pbc': [True, False, True], 'symbols': ['Al', 'Cu', 'Ni']}
            tgt = 'a0'
            if route == 'ctor':
                pre = [dict(base, extra=base['extra'] + [[name, v]]), mksys]
            elif route in ('view', 'attr'):
                pre = [base, mksys, {'op': 'setv', 'o': 'a0', 'key': name, 'val': v, 'via': route}]
            elif route == 'prop':
                pre = [base, mksys, {'op': 'pset', 'o': 'a0', 'key': name, 'ix': None, 'val': v}]
            elif route == 'sprop':
                pre = [base, mksys, {'op': 'spset', 's': 's1', 'key': name, 'ix': None, 'val': v, 'scale': False}]
            elif route == 'patype-table':
                pre = [base, mksys, {'op': 'patype', 'o': 'a0', 'key': name, 'val': gen_lit(rng, cls, [3] + trail), 't': None}]
            elif route == 'patype-one':
                pre = [base, mksys, {'op': 'patype', 'o': 'a0', 'key': name, 'val': gen_lit(rng, cls, trail), 't': 2}]
            else:
                donor = {'op': 'new', 'id': 2, 'atype': lit('i', [2], [2, 1]), 'pos': gen_lit(rng, 'f', [2, 3]),
                         'extra': [[name, gen_lit(rng, cls, [2] + trail)], ['p0', gen_lit(rng, 'i', [2])]]}
                pre = [base, donor, {'op': 'exta', 'o': 'a0', 'src': 'a2', 'id': 3},
                       {'op': 'mksys', 'o': 'a3', 'id': 1, 'box': box, 'pbc': [True, False, True], 'symbols': ['Al', 'Cu', 'Ni']}]
                tgt = 'a3'
            m = n + 2 if tgt == 'a3' else n
            again = gen_lit(rng, cls, [m] + trail)
            reads = [{'op': 'pkeys', 'o': tgt}, {'op': 'pget', 'o': tgt, 'key': name, 'ix': None},
                     {'op': 'pget', 'o': tgt, 'key': name, 'ix': ['L', [3, 1]]}]
            rewrite = []
            if name not in CLASS_ATTRS:
                rewrite.append({'op': 'setv', 'o': tgt, 'key': name, 'val': again, 'via': 'attr'})
            rewrite += [{'op': 'pget', 'o': tgt, 'key': name, 'ix': ['I', -1]},
                        {'op': 'setv', 'o': tgt, 'key': name, 'val': gen_lit(rng, cls, [1] + trail), 'via': 'view'},
                        {'op': 'pset', 'o': tgt, 'key': name, 'ix': ['S', 1, 4, 2], 'val': gen_lit(rng, cls, trail)}]
            follow = [{'op': 'geti', 'o': tgt, 'ix': ['L', [3, 1]], 'id': 4}, {'op': 'pkeys', 'o': 'a4'},
                      {'op': 'pget', 'o': 'a4', 'key': name, 'ix': None},
                      {'op': 'exti', 'o': tgt, 'n': 2, 'id': 5}, {'op': 'pget', 'o': 'a5', 'key': name, 'ix': None},
                      {'op': 'dcopy', 'o': tgt, 'id': 6}, {'op': 'pget', 'o': 'a6', 'key': name, 'ix': None},
                      {'op': 'ixget', 's': 's1', 'ix': ['S', 1, 4, None], 'id': 7}, {'op': 'spkeys', 's': 's7'},
                      {'op': 'spget', 's': 's7', 'key': name, 'ix': None},
                      {'op': 'df', 'o': tgt}, {'op': 'ainfo', 'o': tgt}]
            out.append((f'names:{route}:{name}', pre + reads + rewrite + follow))
    return out


def matrix_tables(rng):
    """Atoms.df() / System.atoms_df() (every scale form) on properties with TWO trailing dimensions: a per-atom 3x3 tensor
    with all nine components different (a transposed component order shows), a non-square (2, 3) one, a string-valued
    (3, 3) one, next to scalars and vectors; read, written to, read again; on the object, a slice of it and a system."""
    n = 4
    box = [2.0, 0.0, 0.0, 1.0, 4.0, 0.0, 0.0, 0.0, 0.5, 1.0, 0.0, 0.0]
    tens = lit('f', [n, 3, 3], [float(100 * i + 10 * j + k) / 4 for i in range(n) for j in range(3) for k in range(3)])
    rect = lit('i', [n, 2, 3], [100 * i + 10 * j + k for i in range(n) for j in range(2) for k in range(3)])
    strs = lit('s', [n, 3, 3], ['%s%d%d' % ('abcd'[i], j, k) for i in range(n) for j in range(3) for k in range(3)], 3)
    out = []
    for label, extra in (('square', [['p4', tens], ['p0', gen_lit(rng, 'i', [n])]]),
                         ('rect', [['p1', gen_lit(rng, 'f', [n, 3])], ['p4', rect]]),
                         ('str', [['p2', strs], ['p4', tens]])):
        base = {'op': 'new', 'id': 0, 'atype': lit('i', [n], [1, 2, 1, 3]), 'pos': gen_lit(rng, 'f', [n, 3]), 'extra': extra}
        mksys = {'op': 'mksys', 'o': 'a0', 'id': 1, 'box': box, 'pbc': [True, False, True], 'symbols': ['Al', 'Cu', 'Ni']}
        tkey = 'p4'
        cls = 'f' if label != 'rect' else 'i'
        trail = [3, 3] if label != 'rect' else [2, 3]
        out.append((f'tables:{label}', [
            base, mksys, {'op': 'df', 'o': 'a0'}, {'op': 'sdf', 's': 's1', 'scale': False}, {'op': 'sdf', 's': 's1', 'scale': True},
            {'op': 'sdf', 's': 's1', 'scale': ['pos']},
            {'op': 'pset', 'o': 'a0', 'key': tkey, 'ix': ['I', 2], 'val': gen_lit(rng, cls, trail)},
            {'op': 'df', 'o': 'a0'}, {'op': 'sdf', 's': 's1', 'scale': True},
            {'op': 'geti', 'o': 'a0', 'ix': ['S', 1, 4, 2], 'id': 3}, {'op': 'df', 'o': 'a3'},
            {'op': 'ixget', 's': 's1', 'ix': ['L', [3, 0]], 'id': 4}, {'op': 'sdf', 's': 's4', 'scale': False},
            {'op': 'sdf', 's': 's4', 'scale': True}]))
    # ---- extension by a donor whose donor-only string property has a SHORT first entry (dtype of the column = dtype of the
    #      donor's array, not of its first element), and by a donor-only tensor; through Atoms.extend and atoms_extend
    base = {'op': 'new', 'id': 0, 'atype': lit('i', [n], [1, 2, 1, 3]), 'pos': gen_lit(rng, 'f', [n, 3]),
            'extra': [['p0', gen_lit(rng, 'i', [n])]]}
    mksys = {'op': 'mksys', 'o': 'a0', 'id': 1, 'box': box, 'pbc': [True, False, True], 'symbols': ['Al', 'Cu', 'Ni']}
    donor = {'op': 'new', 'id': 2, 'atype': lit('i', [3], [2, 1, 4]), 'pos': gen_lit(rng, 'f', [3, 3]),
             'extra': [['p2', lit('s', [3], ['a', 'xyz', 'Fe'], 3)], ['p4', lit('f', [3, 3, 3], [float(i) / 2 for i in range(27)])],
                       ['p0', gen_lit(rng, 'i', [3])]]}
    out.append(('tables:extend-donor-only', [
        base, mksys, donor, {'op': 'exta', 'o': 'a0', 'src': 'a2', 'id': 3}, {'op': 'pget', 'o': 'a3', 'key': 'p2', 'ix': None},
        {'op': 'df', 'o': 'a3'}, {'op': 'sext', 's': 's1', 'value': ['a', 'a2'], 'scale': False, 'symbols': None, 'id': 4},
        {'op': 'spget', 's': 's4', 'key': 'p2', 'ix': None}, {'op': 'sdf', 's': 's4', 'scale': True},
        {'op': 'exta', 'o': 'a2', 'src': 'a0', 'id': 5}, {'op': 'pget', 'o': 'a5', 'key': 'p2', 'ix': None}]))
    return out


# the degenerate per-atom shapes: a per-atom entry that is itself a 1-vector, a 1x1 matrix, a row or a column vector.
# Their cell count equals that of a scalar (or of a plain 3-vector), so anything that decides by `size`, squeezes,
# flattens (np.repeat, ravel, reshape(-1)) or strips length-1 axes keeps the right NUMBER of cells in the wrong shape;
# and it shows only where the leading axis is 1 as well: a ONE-row value, a selection of exactly one atom, a one-atom
# object (every sub-Atoms is rebuilt through the same setter).
DEGENERATE = [[1], [1, 1], [1, 3], [3, 1], [1, 1, 1]]


def matrix_one_atom_forms(n):
    """every index form that selects exactly ONE of n = 5 atoms, and three controls."""
    assert n == 5
    return [('int', ['I', 2]), ('int0', ['I', 0]), ('neg-int', ['I', -1]), ('neg-int-first', ['I', -5]), ('np-int', ['I', 3, 'np']),
            ('slice-one', ['S', 2, 3, None]), ('slice-last', ['S', -1, None, None]), ('slice-first-rev', ['S', 0, None, -1]),
            ('slice-step-one', ['S', 4, None, 3]),
            ('list-one', ['L', [4]]), ('list-one-neg', ['L', [-2]]), ('np-array-one', ['L', [1], 'np']),
            ('mask-one', ['K', [False, False, False, True, False]]), ('mask-list-one', ['K', [True, False, False, False, False], 'list']),
            ('slice-two', ['S', 1, 3, None]), ('list-two', ['L', [3, 0]]), ('slice-empty', ['S', 3, 3, None])]


def matrix_shapes(rng):
    """the degenerate trailing shapes (1,), (1,1), (1,3), (3,1), (1,1,1) of every dtype class, crossed with
    * every way of selecting exactly ONE atom, through every extracting accessor (`atoms[...]`, `prop(index=)`,
      `atoms_prop(index=, scale=False / True)`, `atoms_ix[...]`) and every keyed read / write;
    * every way of CREATING such a property from a full-length, a ONE-row and a bare per-atom value (constructor, view,
      attribute, prop, atoms_prop, prop_atype with one type / a table), and of overwriting it with a one-row value;
    * one-atom objects carrying them, read, copied, indexed, extended, used as donors of item assignment and extension."""
    n = 5
    out = []
    box = [2.0, 0.0, 0.0, 1.0, 4.0, 0.0, 0.0, 0.0, 0.5, 1.0, 0.0, 0.0]
    classes = ['f', 'i', 's', 'b', 'f']
    for ti, trail in enumerate(DEGENERATE):
        cls = classes[ti]
        tname = 'x'.join(str(d) for d in trail)

        def val(shape, c=None):
            return gen_lit(rng, c or cls, shape)

        def mkbase(c=None):
            return {'op': 'new', 'id': 0, 'atype': lit('i', [n], [1, 2, 1, 3, 2]), 'pos': gen_lit(rng, 'f', [n, 3]),
                    'extra': [['p0', gen_lit(rng, 'i', [n])], ['p4', val([n] + trail, c)]]}
        mksys = {'op': 'mksys', 'o': 'a0', 'id': 1, 'box': box, 'pbc': [True, False, True], 'symbols': ['Al', 'Cu', 'Ni']}
        # ---- extraction / keyed access x index form
        for j, (name, ix) in enumerate(matrix_one_atom_forms(n)):
            c = classes[(ti + j) % 4]              # every dtype class meets every trailing shape and index form
            base = mkbase(c)
            m = len(o_positions(n, ix))
            scalar = ix[0] == 'I'
            tag = f'{tname}:{c}[{name}]'
            back = [{'op': 'pkeys', 'o': 'a3'}, {'op': 'pget', 'o': 'a3', 'key': 'p4', 'ix': None}] + \
                ([{'op': 'pget', 'o': 'a3', 'key': 'p4', 'ix': ['I', 0]}, {'op': 'pget', 'o': 'a3', 'key': 'p4', 'ix': ['S', None, None, None]},
                  {'op': 'geti', 'o': 'a3', 'ix': ['I', -1], 'id': 8}, {'op': 'pget', 'o': 'a8', 'key': 'p4', 'ix': None}] if m else []) + \
                ([{'op': 'df', 'o': 'a3'}, {'op': 'ainfo', 'o': 'a3'}] if m else [])
            out.append((f'shapes:geti:{tag}', [base, {'op': 'geti', 'o': 'a0', 'ix': ix, 'id': 3}] + back))
            out.append((f'shapes:pgeta:{tag}', [base, {'op': 'pgeta', 'o': 'a0', 'ix': ix, 'id': 3}] + back[:2]))
            out.append((f'shapes:spgeta:{tag}', [base, mksys, {'op': 'spgeta', 's': 's1', 'ix': ix, 'id': 3,
                                                               'scale': bool((ti + j) % 2)}] + back[:2]))
            if m:
                out.append((f'shapes:ixget:{tag}', [base, mksys, {'op': 'ixget', 's': 's1', 'ix': ix, 'id': 3}, {'op': 'spkeys', 's': 's3'},
                                                    {'op': 'spget', 's': 's3', 'key': 'p4', 'ix': None},
                                                    {'op': 'spgeta', 's': 's3', 'ix': None, 'id': 4, 'scale': True},
                                                    {'op': 'pget', 'o': 'a4', 'key': 'p4', 'ix': None}, {'op': 'sdf', 's': 's3', 'scale': False}]))
            out.append((f'shapes:pget:{tag}', [base, mksys, {'op': 'pget', 'o': 'a0', 'key': 'p4', 'ix': ix},
                                               {'op': 'spget', 's': 's1', 'key': 'p4', 'ix': ix}]))
            shapes = [([] if scalar else [m]) + trail, [], [1] + trail, list(trail)]
            for sh in shapes:
                out.append((f'shapes:pset{sh}:{tag}', [base, {'op': 'pset', 'o': 'a0', 'key': 'p4', 'ix': ix, 'val': val(sh, c)},
                                                       {'op': 'pget', 'o': 'a0', 'key': 'p4', 'ix': None}]))
            if m:
                # item assignment from a donor of m atoms with the same properties (another key order)
                donor = {'op': 'new', 'id': 2, 'atype': gen_lit(rng, 'i', [m], 'atype'), 'pos': gen_lit(rng, 'f', [m, 3]),
                         'extra': [['p4', val([m] + trail, c)], ['p0', gen_lit(rng, 'i', [m])]]}
                kind = ('seti', 'pseta', 'ixset')[j % 3]
                op = {'seti': {'op': 'seti', 'o': 'a0', 'ix': ix, 'src': 'a2'}, 'pseta': {'op': 'pseta', 'o': 'a0', 'ix': ix, 'src': 'a2'},
                      'ixset': {'op': 'ixset', 's': 's1', 'ix': ix, 'src': ['a', 'a2']}}[kind]
                out.append((f'shapes:{kind}:{tag}', [base, mksys, donor, op, {'op': 'pget', 'o': 'a0', 'key': 'p4', 'ix': None}]))
        # ---- creation: full-length / ONE row / bare per-atom value, every route; then overwritten with one row
        base0 = {'op': 'new', 'id': 0, 'atype': lit('i', [n], [1, 2, 1, 3, 2]), 'pos': gen_lit(rng, 'f', [n, 3]),
                 'extra': [['p0', gen_lit(rng, 'i', [n])]]}
        reads = [{'op': 'pkeys', 'o': 'a0'}, {'op': 'pget', 'o': 'a0', 'key': 'p4', 'ix': None},
                 {'op': 'pget', 'o': 'a0', 'key': 'p4', 'ix': ['I', 1]}, {'op': 'geti', 'o': 'a0', 'ix': ['L', [2]], 'id': 3},
                 {'op': 'pget', 'o': 'a3', 'key': 'p4', 'ix': None}, {'op': 'df', 'o': 'a0'}]
        for c in ('f', 'i', 's', 'b'):
            for vname, sh in (('full', [n] + trail), ('row', [1] + trail), ('bare', list(trail))):
                routes = [('ctor', [dict(base0, extra=base0['extra'] + [['p4', val(sh, c)]]), mksys]),
                          ('view', [base0, mksys, {'op': 'setv', 'o': 'a0', 'key': 'p4', 'val': val(sh, c), 'via': 'view'}]),
                          ('attr', [base0, mksys, {'op': 'setv', 'o': 'a0', 'key': 'p4', 'val': val(sh, c), 'via': 'attr'}]),
                          ('prop', [base0, mksys, {'op': 'pset', 'o': 'a0', 'key': 'p4', 'ix': None, 'val': val(sh, c)}]),
                          ('sprop', [base0, mksys, {'op': 'spset', 's': 's1', 'key': 'p4', 'ix': None, 'val': val(sh, c), 'scale': False}])]
                for rname, pre in routes:
                    if vname == 'bare' and trail[0] != 1:
                        # a bare (3, 1) value is neither one row nor one row per atom: refused, nothing created
                        out.append((f'shapes:create:{rname}:{vname}:{tname}:{c}', pre[:-1] + [dict(pre[-1], refuse='first-dimension')]
                                    if rname != 'ctor' else [dict(pre[0], refuse='first-dimension')]))
                        continue
                    again = [{'op': 'setv', 'o': 'a0', 'key': 'p4', 'val': val([1] + trail, c), 'via': ('view', 'attr')[len(rname) % 2]},
                             {'op': 'pget', 'o': 'a0', 'key': 'p4', 'ix': None}] if vname != 'bare' else []
                    out.append((f'shapes:create:{rname}:{vname}:{tname}:{c}', pre + reads + again))
        for c in ('f', 'i'):
            for t, sh in ((2, list(trail)), (None, [3] + trail)):
                out.append((f'shapes:create:patype:t={t}:{tname}:{c}',
                            [base0, {'op': 'patype', 'o': 'a0', 'key': 'p4', 'val': val(sh, c), 't': t}] + reads[:5]
                            + [{'op': 'patype', 'o': 'a0', 'key': 'p4', 'val': val(sh, c), 't': t},
                               {'op': 'pget', 'o': 'a0', 'key': 'p4', 'ix': None}]))
        # ---- one-atom objects
        for c in ('f', 'i', 's', 'b'):
            for vname, sh in (('row', [1] + trail), ('bare', list(trail))):
                one = {'op': 'new', 'id': 2, 'atype': lit('i', [1], [3]), 'pos': gen_lit(rng, 'f', [1, 3]),
                       'extra': [['p4', val(sh, c)], ['p0', gen_lit(rng, 'i', [1])]]}
                base = mkbase(c)
                tag = f'{vname}:{tname}:{c}'
                if vname == 'bare' and trail[0] != 1:
                    out.append((f'shapes:one:read:{tag}', [dict(one, refuse='first-dimension')]))
                    continue
                out.append((f'shapes:one:read:{tag}', [
                    one, {'op': 'pkeys', 'o': 'a2'}, {'op': 'pget', 'o': 'a2', 'key': 'p4', 'ix': None},
                    {'op': 'pget', 'o': 'a2', 'key': 'p4', 'ix': ['I', 0]}, {'op': 'pget', 'o': 'a2', 'key': 'p4', 'ix': ['I', -1]},
                    {'op': 'geti', 'o': 'a2', 'ix': ['I', 0], 'id': 3}, {'op': 'pget', 'o': 'a3', 'key': 'p4', 'ix': None},
                    {'op': 'geti', 'o': 'a2', 'ix': ['S', None, None, None], 'id': 4}, {'op': 'pget', 'o': 'a4', 'key': 'p4', 'ix': None},
                    {'op': 'geti', 'o': 'a2', 'ix': ['K', [True]], 'id': 5}, {'op': 'pget', 'o': 'a5', 'key': 'p4', 'ix': None},
                    {'op': 'dcopy', 'o': 'a2', 'id': 6}, {'op': 'pget', 'o': 'a6', 'key': 'p4', 'ix': None},
                    {'op': 'df', 'o': 'a2'}, {'op': 'ainfo', 'o': 'a2'}]))
                if vname == 'bare':
                    continue      # (a bare value on one atom is a one-row value of the shorter trailing shape: read above)
                out.append((f'shapes:one:grow:{tag}', [
                    one, {'op': 'exti', 'o': 'a2', 'n': 2, 'id': 3}, {'op': 'pget', 'o': 'a3', 'key': 'p4', 'ix': None},
                    base, {'op': 'exta', 'o': 'a0', 'src': 'a2', 'id': 4}, {'op': 'pget', 'o': 'a4', 'key': 'p4', 'ix': None},
                    {'op': 'exta', 'o': 'a2', 'src': 'a0', 'id': 5}, {'op': 'pget', 'o': 'a5', 'key': 'p4', 'ix': None},
                    {'op': 'exta', 'o': 'a2', 'src': 'a2', 'id': 6}, {'op': 'pget', 'o': 'a6', 'key': 'p4', 'ix': None},
                    {'op': 'df', 'o': 'a4'},
                    # the degenerate property exists in the donor only / in the extended object only (zero rows of its shape)
                    dict(base0, id=7), {'op': 'exta', 'o': 'a7', 'src': 'a2', 'id': 8}, {'op': 'pget', 'o': 'a8', 'key': 'p4', 'ix': None},
                    {'op': 'exta', 'o': 'a2', 'src': 'a7', 'id': 9}, {'op': 'pget', 'o': 'a9', 'key': 'p4', 'ix': None},
                    {'op': 'exta', 'o': 'a7', 'src': 'a0', 'id': 10}, {'op': 'pget', 'o': 'a10', 'key': 'p4', 'ix': None},
                    {'op': 'df', 'o': 'a8'}]))
                out.append((f'shapes:one:system:{tag}', [
                    one, {'op': 'mksys', 'o': 'a2', 'id': 1, 'box': box, 'pbc': [True, True, False], 'symbols': ['Al', 'Cu', 'Ni']},
                    {'op': 'ixget', 's': 's1', 'ix': ['I', 0], 'id': 3}, {'op': 'spget', 's': 's3', 'key': 'p4', 'ix': None},
                    {'op': 'spgeta', 's': 's1', 'ix': None, 'id': 4, 'scale': True}, {'op': 'pget', 'o': 'a4', 'key': 'p4', 'ix': None},
                    {'op': 'spgeta', 's': 's1', 'ix': ['I', -1], 'id': 5}, {'op': 'pget', 'o': 'a5', 'key': 'p4', 'ix': None},
                    {'op': 'sext', 's': 's1', 'value': ['i', 2], 'scale': False, 'symbols': None, 'id': 6},
                    {'op': 'spget', 's': 's6', 'key': 'p4', 'ix': None}, {'op': 'sdcopy', 's': 's1', 'id': 7},
                    {'op': 'spget', 's': 's7', 'key': 'p4', 'ix': None}, {'op': 'sdf', 's': 's1', 'scale': True}]))
                out.append((f'shapes:one:donor:{tag}', [
                    base, mksys, one, {'op': 'seti', 'o': 'a0', 'ix': ['I', 3], 'src': 'a2'}, {'op': 'pget', 'o': 'a0', 'key': 'p4', 'ix': None},
                    {'op': 'pseta', 'o': 'a0', 'ix': ['L', [1]], 'src': 'a2'}, {'op': 'ixset', 's': 's1', 'ix': ['S', 4, None, None], 'src': ['a', 'a2']},
                    {'op': 'pget', 'o': 'a0', 'key': 'p4', 'ix': None},
                    {'op': 'sext', 's': 's1', 'value': ['a', 'a2'], 'scale': False, 'symbols': None, 'id': 5},
                    {'op': 'spget', 's': 's5', 'key': 'p4', 'ix': None}]))
    return out


def matrix_posdtype(rng):
    """the dtype decision of the constructor for `pos`: integer / boolean positions (full, one row; also with natoms) are stored as floats - read back, written with halves (which an integer column would truncate), extracted,
    copied, extended, wrapped in a System and read scaled."""
    out = []
    box = [2.0, 0.0, 0.0, 1.0, 4.0, 0.0, 0.0, 0.0, 0.5, 1.0, 0.0, 0.0]
    for dt in ('i', 'b'):
        cells = (lambda k: [((7 * j) % 5) - 1 for j in range(k)]) if dt == 'i' else (lambda k: [j % 3 == 0 for j in range(k)])
        for form, shape, extra in (('full', [4, 3], {}), ('row', [1, 3], {'natoms': 4}), ('row1', [1, 3], {})):
            n = extra.get('natoms', shape[0] if len(shape) == 2 else 1)
            base = dict({'op': 'new', 'id': 0, 'pos': lit(dt, shape, cells(_prod(shape))),
                         'extra': [['p0', gen_lit(rng, 'i', [n])]]}, **extra)
            if form != 'row1':
                base['atype'] = lit('i', [n], [1 + j % 2 for j in range(n)])
            ops = [base, {'op': 'pget', 'o': 'a0', 'key': 'pos', 'ix': None},
                   {'op': 'pset', 'o': 'a0', 'key': 'pos', 'ix': ['I', 0], 'val': lit('f', [3], [0.5, 1.5, -2.25])},
                   {'op': 'pget', 'o': 'a0', 'key': 'pos', 'ix': None},
                   {'op': 'geti', 'o': 'a0', 'ix': ['I', 0], 'id': 1}, {'op': 'pget', 'o': 'a1', 'key': 'pos', 'ix': None},
                   {'op': 'dcopy', 'o': 'a0', 'id': 2}, {'op': 'exti', 'o': 'a0', 'n': 1, 'id': 3},
                   {'op': 'pget', 'o': 'a3', 'key': 'pos', 'ix': None},
                   {'op': 'mksys', 'o': 'a0', 'id': 4, 'box': box, 'pbc': [True, True, True], 'symbols': ['Al', 'Cu']},
                   {'op': 'spset', 's': 's4', 'key': 'pos', 'ix': ['I', 0], 'val': lit('f', [3], [0.25, 0.5, 0.75]), 'scale': True},
                   {'op': 'spget', 's': 's4', 'key': 'pos', 'ix': None}, {'op': 'spget', 's': 's4', 'key': 'pos', 'ix': None, 'scale': True},
                   {'op': 'df', 'o': 'a0'}]
            out.append((f'posdtype:{dt}:{form}', ops))
    return out


def matrix_flags(rng):
    """boolean flags of the calls given as 1 / 0 / numpy.True_ / numpy.False_ / 1.0; integer-typed data and indices in the
    narrower and unsigned dtypes (uint64 is what Atoms itself uses for the default atype).
    * `scale` of System(...), atoms_prop: documented as bool; the code refuses anything else with TypeError.  Clause:
      a non-bool flag is either refused (TypeError, nothing changes) or taken as its truth value - never a third thing
      (`flags:strict:`: search only, the model has no notion of a flag's spelling).
    * `scale` of atoms_extend, `safecopy` everywhere: tested for truth by the code; the model sees the bool
      (`flags:truthy:`).
    * `dtypes:`: the same numbers as uint64 / uint8 / uint16 / int32 (float32) arrays and numpy scalars, for atom types,
      values written into int64 / float64 columns, per-type tables and index arrays; the model sees the numbers."""
    n = 5
    out = []
    box = [2.0, 0.0, 0.0, 1.0, 4.0, 0.0, 0.0, 0.0, 0.5, 1.0, 0.0, 0.0]
    base = {'op': 'new', 'id': 0, 'atype': lit('i', [n], [1, 2, 1, 3, 2]), 'pos': gen_lit(rng, 'f', [n, 3]),
            'extra': [['p0', gen_lit(rng, 'i', [n])], ['p1', gen_lit(rng, 'f', [n, 3])]]}
    mksys = {'op': 'mksys', 'o': 'a0', 'id': 1, 'box': box, 'pbc': [True, False, True], 'symbols': ['Al', 'Cu', 'Ni']}
    donor = {'op': 'new', 'id': 2, 'atype': lit('i', [2], [2, 1]), 'pos': gen_lit(rng, 'f', [2, 3]),
             'extra': [['p1', gen_lit(rng, 'f', [2, 3])], ['p0', gen_lit(rng, 'i', [2])]]}
    look = [{'op': 'spget', 's': 's1', 'key': 'pos', 'ix': None}, {'op': 'pget', 'o': 'a0', 'key': 'p1', 'ix': None}]
    for form in ('int', 'np', 'float'):
        for sc in (True, False):
            f = {'scale': sc, 'scale_as': form}
            tag = f'{form}:{sc}'
            out.append((f'flags:strict:mksys:{tag}', [base, dict(mksys, **f), {'op': 'spget', 's': 's1', 'key': 'pos', 'ix': None}]))
            out.append((f'flags:strict:spget:{tag}', [base, mksys, dict({'op': 'spget', 's': 's1', 'key': 'pos', 'ix': None}, **f)] + look))
            out.append((f'flags:strict:spget-ix:{tag}', [base, mksys, dict({'op': 'spget', 's': 's1', 'key': 'p1', 'ix': ['I', 1]}, **f)]))
            out.append((f'flags:strict:spgeta:{tag}', [base, mksys, dict({'op': 'spgeta', 's': 's1', 'ix': ['S', 1, 3, None], 'id': 3}, **f)] + look))
            out.append((f'flags:strict:spset:{tag}', [base, mksys, dict({'op': 'spset', 's': 's1', 'key': 'pos', 'ix': ['I', 0],
                                                                        'val': lit('f', [3], [0.5, 0.25, 0.5])}, **f)] + look))
            out.append((f'flags:strict:spseta:{tag}', [base, mksys, donor, dict({'op': 'spseta', 's': 's1', 'ix': ['L', [1, 3]], 'src': 'a2'}, **f)]
                        + look + [{'op': 'pget', 'o': 'a2', 'key': 'pos', 'ix': None}]))
            out.append((f'flags:truthy:sext:{tag}', [base, mksys, donor, dict({'op': 'sext', 's': 's1', 'value': ['a', 'a2'], 'symbols': None,
                                                                              'id': 3}, **f),
                                                     {'op': 'spget', 's': 's3', 'key': 'pos', 'ix': None},
                                                     {'op': 'pget', 'o': 'a2', 'key': 'pos', 'ix': None}]))
        out.append((f'flags:truthy:safecopy:{form}', [
            dict(base, safecopy=True, safecopy_as=form), dict(mksys, safecopy=True, safecopy_as=form),
            {'op': 'pset', 'o': 'a0', 'key': 'p0', 'ix': ['I', 1], 'val': lit('i', [], [77])},
            {'op': 'spget', 's': 's1', 'key': 'p0', 'ix': None}, donor,
            {'op': 'sext', 's': 's1', 'value': ['a', 'a2'], 'scale': False, 'symbols': None, 'id': 3, 'safecopy': True,
             'safecopy_as': form}, {'op': 'spget', 's': 's3', 'key': 'p1', 'ix': None}]))
        out.append((f'flags:truthy:mksys-both:{form}', [
            base, dict(mksys, scale=True, safecopy=True, safecopy_as=form), {'op': 'spget', 's': 's1', 'key': 'pos', 'ix': None},
            {'op': 'pget', 'o': 'a0', 'key': 'pos', 'ix': None}]))
    # ---- narrower / unsigned dtypes of the same numbers
    for dt in ('uint64', 'uint8', 'uint16', 'int32', 'int8'):
        b = dict(base, atype=dict(base['atype'], **{'as': dt}))
        out.append((f'dtypes:atype:{dt}', [
            b, mksys, {'op': 'pget', 'o': 'a0', 'key': 'atype', 'ix': None}, {'op': 'natypes', 'o': 'a0'},
            {'op': 'symget', 's': 's1'}, {'op': 'massget', 's': 's1'}, {'op': 'snatypes', 's': 's1'}, {'op': 'satypes', 's': 's1'},
            {'op': 'scomp', 's': 's1'}, {'op': 'geti', 'o': 'a0', 'ix': ['L', [3, 1]], 'id': 3}, {'op': 'natypes', 'o': 'a3'},
            {'op': 'dcopy', 'o': 'a0', 'id': 4}, {'op': 'ixget', 's': 's1', 'ix': ['S', 1, 4, None], 'id': 5}, {'op': 'symget', 's': 's5'},
            {'op': 'exti', 'o': 'a0', 'n': 2, 'id': 6}, {'op': 'pget', 'o': 'a6', 'key': 'atype', 'ix': None},
            {'op': 'patype', 'o': 'a0', 'key': 'p4', 'val': lit('f', [3], [0.5, 1.5, 2.5]), 't': None},
            {'op': 'pget', 'o': 'a0', 'key': 'p4', 'ix': None},
            {'op': 'patype', 'o': 'a0', 'key': 'p0', 'val': lit('i', [], [9]), 't': 2}, {'op': 'pget', 'o': 'a0', 'key': 'p0', 'ix': None},
            donor, {'op': 'exta', 'o': 'a0', 'src': 'a2', 'id': 7}, {'op': 'pget', 'o': 'a7', 'key': 'atype', 'ix': None},
            {'op': 'exta', 'o': 'a2', 'src': 'a0', 'id': 8}, {'op': 'pget', 'o': 'a8', 'key': 'atype', 'ix': None},
            {'op': 'df', 'o': 'a0'}, {'op': 'ainfo', 'o': 'a0'}]))
        if dt == 'int8':
            continue
        u = {'as': dt}
        out.append((f'dtypes:values:{dt}', [
            base, mksys,
            {'op': 'pset', 'o': 'a0', 'key': 'p0', 'ix': ['L', [0, 3]], 'val': dict(lit('i', [2], [7, 41]), **u)},
            {'op': 'pset', 'o': 'a0', 'key': 'p0', 'ix': ['I', -1], 'val': dict(lit('i', [], [5]), **u)},
            {'op': 'pset', 'o': 'a0', 'key': 'p1', 'ix': ['S', 1, 3, None], 'val': dict(lit('i', [3], [1, 2, 3]), **u)},
            {'op': 'pset', 'o': 'a0', 'key': 'atype', 'ix': ['K', [False, True, False, False, True]], 'val': dict(lit('i', [2], [4, 1]), **u)},
            {'op': 'massget', 's': 's1'}, {'op': 'natypes', 'o': 'a0'},
            {'op': 'setv', 'o': 'a0', 'key': 'p0', 'val': dict(lit('i', [1], [3]), **u), 'via': 'view'},
            {'op': 'setv', 'o': 'a0', 'key': 'atype', 'val': dict(lit('i', [n], [2, 1, 5, 1, 2]), **u), 'via': 'attr'},
            {'op': 'symget', 's': 's1'},
            {'op': 'patype', 'o': 'a0', 'key': 'p0', 'val': dict(lit('i', [5], [10, 20, 30, 40, 50]), **u), 't': None},
            {'op': 'patype', 'o': 'a0', 'key': 'atype', 'val': dict(lit('i', [], [3]), **u), 't': 5},
            {'op': 'spset', 's': 's1', 'key': 'p0', 'ix': ['I', 2], 'val': dict(lit('i', [], [8]), **u), 'scale': False},
            {'op': 'pget', 'o': 'a0', 'key': 'p0', 'ix': None}, {'op': 'pget', 'o': 'a0', 'key': 'p1', 'ix': None},
            {'op': 'pget', 'o': 'a0', 'key': 'atype', 'ix': None}, {'op': 'satypes', 's': 's1'}]))
        # hostile: an atom type of 0 in an unsigned dtype (no sign to give it away)
        for h in ({'op': 'pset', 'o': 'a0', 'key': 'atype', 'ix': ['I', 1], 'val': dict(lit('i', [], [0]), **u)},
                  {'op': 'setv', 'o': 'a0', 'key': 'atype', 'val': dict(lit('i', [n], [1, 2, 0, 1, 1]), **u), 'via': 'view'},
                  {'op': 'patype', 'o': 'a0', 'key': 'atype', 'val': dict(lit('i', [], [0]), **u), 't': 2}):
            out.append((f"dtypes:hostile:{h['op']}:{dt}", [base, mksys, dict(h, hostile=True), {'op': 'natypes', 'o': 'a0'}]))
    out.append(('dtypes:float32', [
        dict(base, pos=dict(base['pos'], **{'as': 'float32'})), {'op': 'pget', 'o': 'a0', 'key': 'pos', 'ix': None},
        {'op': 'pset', 'o': 'a0', 'key': 'p1', 'ix': ['I', 2], 'val': dict(lit('f', [3], [0.5, -1.25, 2.0]), **{'as': 'float32'})},
        {'op': 'pset', 'o': 'a0', 'key': 'pos', 'ix': ['L', [0, 4]], 'val': lit('f', [3], [0.5, 0.25, -3.5])},
        {'op': 'geti', 'o': 'a0', 'ix': ['S', None, None, 2], 'id': 3}, {'op': 'pget', 'o': 'a3', 'key': 'pos', 'ix': None},
        {'op': 'dcopy', 'o': 'a0', 'id': 4}, {'op': 'exti', 'o': 'a0', 'n': 1, 'id': 5}, {'op': 'pget', 'o': 'a5', 'key': 'pos', 'ix': None},
        {'op': 'pget', 'o': 'a0', 'key': 'p1', 'ix': None}]))
    # ---- index arrays / scalars of unsigned and 32-bit integer dtypes
    for name, ix in (('uint8-scalar', ['I', 3, 'npu']), ('uint8-zero', ['I', 0, 'npu']), ('uint16-array', ['L', [1, 4, 2], 'npu']),
                     ('uint16-one', ['L', [3], 'npu']), ('uint16-dup', ['L', [2, 2, 0], 'npu']), ('int32-array', ['L', [-1, 0, 3], 'np32']),
                     ('uint16-empty', ['L', [], 'npu'])):
        m = len(o_positions(n, ix))
        scalar = ix[0] == 'I'
        pre = [base, mksys]
        out.append((f'dtypes:index:read:{name}', pre + [
            {'op': 'pget', 'o': 'a0', 'key': 'p1', 'ix': ix}, {'op': 'spget', 's': 's1', 'key': 'pos', 'ix': ix, 'scale': True},
            {'op': 'geti', 'o': 'a0', 'ix': ix, 'id': 3}, {'op': 'pgeta', 'o': 'a0', 'ix': ix, 'id': 4},
            {'op': 'spgeta', 's': 's1', 'ix': ix, 'id': 5, 'scale': True}] + ([{'op': 'ixget', 's': 's1', 'ix': ix, 'id': 6}] if m else [])))
        if 'dup' in name:
            continue
        out.append((f'dtypes:index:write:{name}', pre + [
            {'op': 'pset', 'o': 'a0', 'key': 'p0', 'ix': ix, 'val': gen_lit(rng, 'i', [] if scalar else [m])},
            {'op': 'pset', 'o': 'a0', 'key': 'p1', 'ix': ix, 'val': gen_lit(rng, 'f', [3])},
            {'op': 'spset', 's': 's1', 'key': 'pos', 'ix': ix, 'val': gen_lit(rng, 'f', [3]), 'scale': True}]
            + ([dict(donor, atype=gen_lit(rng, 'i', [m], 'atype'), pos=gen_lit(rng, 'f', [m, 3]),
                     extra=[['p1', gen_lit(rng, 'f', [m, 3])], ['p0', gen_lit(rng, 'i', [m])]]),
                {'op': 'seti', 'o': 'a0', 'ix': ix, 'src': 'a2'}] if m else [])
            + [{'op': 'pget', 'o': 'a0', 'key': 'p0', 'ix': None}, {'op': 'pget', 'o': 'a0', 'key': 'pos', 'ix': None}]))
    return out


def run_oracle_history(ops_or_gen, rng=None, length=0, ctx=None):
    """run a history on the real code next to the record model; returns (ops executed, Violation|None)."""
    W, O, OS = World(), {}, {}
    ops = []
    fixed = isinstance(ops_or_gen, list)
    i = 0
    closing = None
    while True:
        if fixed:
            if i >= len(ops_or_gen):
                break
            op = ops_or_gen[i]
        elif len(ops) < length:
            op = gen_valid_op(rng, W, O, OS, i)
        else:
            # the history ends with a full observation of every system, each getter once, in random order (only now:
            # a full dump after every operation would pad every stale tuple before the history's own reads see it)
            if closing is None:
                closing = []
                for sh in rng.sample(list(W.syss), len(W.syss)):
                    if OS[sh].atoms_h in W.atoms and O[OS[sh].atoms_h].n > 0:
                        closing += [{'op': g, 's': sh} for g in rng.sample(list(OBSERVERS), len(OBSERVERS))]
            if not closing:
                break
            op = closing.pop(0)
        i += 1
        if op['op'] == 'drop':
            apply_drop(op, W)
            ops.append(op)
            continue
        try:
            # handles of removed operations (during shrinking)
            for f in ('o', 'src'):
                if f in op and isinstance(op[f], str) and op[f] not in W.atoms:
                    raise KeyError(op[f])
            if 's' in op and op['s'] not in W.syss:
                raise KeyError(op['s'])
            if op['op'] in ('sext', 'ixset'):
                v = op.get('value') or op.get('src')
                if v[0] == 'a' and v[1] not in W.atoms:
                    raise KeyError(v[1])
                if v[0] == 's' and v[1] not in W.syss:
                    raise KeyError(v[1])
        except KeyError:
            continue
        ops.append(op)
        pre_arrays = W.live_arrays()
        try:
            rep, created = exec_real(op, W)
            if rep.startswith('err') and op.get('hostile'):
                check_clauses(op, W, O, OS, pre_arrays, None, [])      # refused: nothing may have changed
                continue
            if (op.get('scale_as') or op.get('safecopy_as')) and rep == 'err:type':
                # a flag that is not a python bool: refused with TypeError (nothing may have changed) - or taken as its
                # truth value, in which case the operation is the one with the bool and is checked as such below
                check_clauses(op, W, O, OS, pre_arrays, None, [])
                if ctx is not None:
                    ctx.stats.case('oracle:flag-refused', json.dumps(op, sort_keys=True, default=str))
                continue
            if op.get('refuse'):
                if not rep.startswith('err'):
                    raise Violation('not-refused:' + op['refuse'], describe_accepted(op, W, O, OS))
                if op['op'] == 'spseta' and op.get('scale'):
                    _, written = oracle_apply(op, O, OS)        # the donor's positions were converted before the refusal
                    resync(W, O, written)
                check_clauses(op, W, O, OS, pre_arrays, None, [])      # refused: nothing may have changed
                if ctx is not None:
                    ctx.stats.case('oracle:refuse:' + op['refuse'], json.dumps(op, sort_keys=True, default=str))
                continue
            if rep.startswith('err'):
                try:        # is the operation well-formed at all (shrinking may have removed what made it so)?
                    oracle_apply(op, copy.deepcopy(O), copy.deepcopy(OS))
                except (AssertionError, KeyError, IndexError, ValueError, ZeroDivisionError) as e:
                    return ops, Violation('oracle-internal', f'not a well-formed operation here: {op}: {e!r}')
                raise Violation('valid-op-raised:' + op['op'],
                                f"{op['op']} is a well-formed operation but raised {getattr(W, 'last_exc', rep)}")
            for kind, hname, obj in created:
                (W.atoms if kind == 'a' else W.syss)[hname] = obj
                W.mid[hname] = 0
            try:
                out, written = oracle_apply(op, O, OS)
            except (AssertionError, KeyError, IndexError, ValueError) as e:   # generator produced something the spec
                return ops, Violation('oracle-internal', f'oracle cannot follow {op}: {e!r}')  # does not define
            resync(W, O, written)
            if op['op'] in ('df', 'sdf'):
                check_df(op, W.last_obs, O[op['o']] if op['op'] == 'df' else O[OS[op['s']].atoms_h],
                         None if op['op'] == 'df' else OS[op['s']].box)
            if op['op'] in OBSERVERS or op['op'] in ('natypes', 'ainfo', 'sinfo'):
                check_observed(op, rep, out)
                out = None
            if op['op'] in ('pget', 'spget'):
                ho = O[op['o'] if 'o' in op else OS[op['s']].atoms_h]
                ix = op.get('ix')
                want_shape = ([] if ix is not None and ix[0] == 'I' else [len(out)]) + list(ho.meta[op['key']][1])
                if list(_np().shape(W.last_out)) != want_shape:
                    raise Violation('shape:pget', f"prop({op['key']!r}, {ix}) returned shape {list(_np().shape(W.last_out))}; "
                                    f'one entry per selected atom is shape {want_shape}')
                got = real_rows(_np().asarray(W.last_out).reshape((len(out),) + (-1,))) if len(out) else []
                if [tuple(r) for r in got] != [tuple(r) for r in out]:
                    raise Violation('values:pget', f"prop({op['key']!r}, {op.get('ix')}) returned {got}, record model {out}")
            check_clauses(op, W, O, OS, pre_arrays, out, created)
        except Violation as v:
            return ops, v
        except Inexact:
            return ops, None
        except cm.InfraError:
            raise
        except Exception as e:      # noqa: BLE001 - evaluating a clause on a broken object is an observation, not a crash
            return ops, Violation('observation-raised:' + op['op'],
                                  f"evaluating the property's clauses after {op['op']} raised {type(e).__name__}: {e}")
        if not fixed and closing is None:
            schedule_obs(rng, W, op, nmass=lambda x: (max(len(OS[x].symbols), o_natypes(O[OS[x].atoms_h]))
                                                      if OS[x].atoms_h in W.atoms and O[OS[x].atoms_h].n > 0 else None))
        if ctx is not None:
            ctx.stats.case('oracle:' + op['op'], json.dumps(op, sort_keys=True, default=str))
    return ops, None


def shrink_oracle(ops, key, budget=120):
    ops = list(ops)
    used = 0
    changed = True
    while changed and used < budget:
        changed = False
        for i in range(len(ops) - 2, -1, -1):
            cand = ops[:i] + ops[i + 1:]
            used += 1
            done, v = run_oracle_history(cand)
            if v is not None and v.key == key:
                ops = done
                changed = True
                break
            if used >= budget:
                break
    return ops


def search(ctx, broken):
    rng = random.Random(ctx.seed * 7919 + 17)
    nhist = ctx.n(350, 12000) * (3 if broken else 1)
    found = set()
    nmat = 0
    for name, mops in matrix_histories(rng):
        nmat += 1
        ops, v = run_oracle_history(mops, ctx=ctx)
        if v is None:
            continue
        if v.key == 'oracle-internal':
            raise cm.InfraError(f'C06 oracle (matrix {name}): ' + v.what)
        fam = v.key + '|' + name.split('[')[0]
        if fam in found or len([f for f in found if f.startswith(v.key + '|')]) >= 2:
            continue
        found.add(fam)
        small = shrink_oracle(ops, v.key)
        _, v2 = run_oracle_history(small)
        v2 = v2 or v
        ctx.violate(v.key, f'accessor matrix `{name}`: ' + v2.what, {'op': 'oracle-history', 'ops': small, 'clause': v.key,
                                                                     'matrix': name})
        if len(found) >= 6:
            break
    ctx.extra['c06_oracle_matrix_histories'] = nmat
    found = {f.split('|')[0] for f in found}
    for hno in range(nhist):
        if len(found) >= 4:
            break
        ops, v = run_oracle_history(None, rng, rng.randint(4, 28), ctx)
        if v is None:
            continue
        if v.key == 'oracle-internal':
            raise cm.InfraError('C06 oracle: ' + v.what)
        if v.key in found:
            continue
        found.add(v.key)
        small = shrink_oracle(ops, v.key)
        _, v2 = run_oracle_history(small)
        v2 = v2 or v
        ctx.violate(v.key, v2.what, {'op': 'oracle-history', 'ops': small, 'clause': v.key})
        if len(found) >= 4:
            break
    ctx.extra['c06_oracle_histories'] = nhist


def replay(ctx, payload):
    r = payload.get('replay', {})
    if r.get('op') == 'history' and ctx.driver is not None:
        e = run_fixed(ctx.driver, r['ops'])
        if e is not None:
            print('replay: still differs:', e.what)
            ctx.disagree(e.key, e.what, r)
        else:
            print('replay: model and implementation agree on this history now')
    elif r.get('op') == 'oracle-history':
        ops, v = run_oracle_history(r['ops'])
        if v is not None:
            print('replay: still violates:', v.what)
            ctx.violate(v.key, v.what, r)
        else:
            print('replay: the record model and the implementation agree on this history now')
    else:
        search(ctx, True)


MANIFEST = {
    'text': 'Two-layer Lean 4 model of Atoms/System: a heap of numpy buffers (dtype, trailing shape, rows) and objects '
            'mapping property names to arrays (buffer + exposed rows), with every method transcribed as coded '
            '(PropertyDict.__setitem__ with its broadcast copies and atype check, __getitem__/__setitem__/__deepcopy__, '
            'prop, prop_atype, extend, System symbols/masses padding, atoms_prop with scale, atoms_ix, atoms_extend) in a '
            'state monad where the state survives exceptions. Proved by induction over ALL operation histories '
            '(inv_step / inv_reachable): every buffer is rectangular and homogeneously typed, every property of every '
            'object exposes exactly natoms distinct existing rows, names are distinct, atype cells are >= 1, atype and '
            'pos exist, Systems point at live Atoms; symbols/masses are at least natypes long once read, and - over the '
            'lazily padded hidden tuples - every observer (symbols, masses, natypes, atypes, composition) has a closed '
            'form in the stored tuples and atoms.natypes, is padded in every state, only replaces a stored tuple by its '
            'view, and replies the same whatever was read before it, on any system, in any order (read_order_irrelevant, '
            'reachable_observers_padded). Refinement to '
            'the record-per-atom view, per operation family: atoms[index] and deepcopy return, for every property, the '
            'operand\'s rows at the SAME positions (row alignment), reads return the selected rows, an indexed write is '
            'the record update with later duplicates winning and nothing else changing (also atoms[index] = other, '
            'property by property, overlap-safe), whole-column assignment overwrites in place, extend(other) is self rows '
            'followed by the cast donor rows with zero fill on either side; copying operations (list/bool index, deepcopy, prop(index), extend, constructor) '
            'return objects in fresh buffers and leave every pre-existing object and buffer literally unchanged; the reading '
            'branches of atoms_prop(scale=True) are operations of the model as well: the keyed read changes nothing and '
            'returns the exact box-relative image, atoms_prop(index=, scale=True) returns a fresh object for every index '
            'form and leaves every operand reading the same, System(safecopy=True) never touches the given atoms, '
            'deepcopy(system) carries the stored tuples; one '
            'lemma per refusal. Tied to the code by a differential run over random operation histories comparing '
            'replies, full state (stored tuples, read without any getter) and the complete memory-sharing relation after '
            'every operation, the observation order being part of the generated history (every getter is an operation of '
            'its own, queued in random order after mutations); the clauses are re-evaluated on the real objects next to an '
            'independent record-per-atom oracle that reads a getter only where the history does.',
    'note': 'Trusted: Lean kernel + propext/Classical.choice/Quot.sound; the hand-written model (tied by the '
            'correspondence only); numpy. Partial: closed forms of the values after extend, atoms[index] = other, '
            'prop_atype and new-key assignment are checked by correspondence and oracle on every run, not proved '
            '(their invariant, freshness and frame are proved). Genuine defects found and fixed in /repo: '
            'atoms_prop(\'atype\', index, value, scale=True) stored atom types < 1 (4a5d993, by the proof attempt); '
            'prop_atype(key, vector, atype=t) on a new key made the value itself the column (778419b, round 3).',
    'technique': 'Lean 4 theorems over a hand-written two-layer model whose branch decisions, defaults, guards and reserved keys '
                 'are proved equal to definitions regenerated from Atoms.py / System.py with ast on every run '
                 '(Generated/AtomsSource.lean, gen_..._eq_model) + differential correspondence on histories + '
                 'independent record-per-atom oracle on the real code',
}
