"""C09 — unit conversion: parser precedence, inverse, working-unit independence, reset_units, style tables."""
from __future__ import annotations

import ast
import math
import random
from fractions import Fraction

from .. import common as cm
from ..translate import TranslationError, get_function, strip_doc

PROP = 'C09'
STYLES = ['lj', 'real', 'metal', 'si', 'cgs', 'electron', 'micro', 'nano']
BASE = ['m', 'kg', 's', 'C', 'K']
KINDS = ['length', 'mass', 'time', 'energy', 'charge']
KIND_DIM = {'length': (1, 0, 0, 0, 0), 'mass': (0, 1, 0, 0, 0), 'time': (0, 0, 1, 0, 0),
            'energy': (2, 1, -2, 0, 0), 'charge': (0, 0, 0, 1, 0)}
LABEL_DIM = {'mass': (0, 1, 0, 0, 0), 'length': (1, 0, 0, 0, 0), 'time': (0, 0, 1, 0, 0),
             'energy': (2, 1, -2, 0, 0), 'velocity': (1, 0, -1, 0, 0), 'force': (1, 1, -2, 0, 0),
             'torque': (2, 1, -2, 0, 0), 'pressure': (-1, 1, -2, 0, 0), 'dynamic viscosity': (-1, 1, -1, 0, 0),
             'density': (-3, 1, 0, 0, 0), 'ang-mom': (2, 1, -1, 0, 0), 'ang-vel': (0, 0, -1, 0, 0),
             'volume': (3, 0, 0, 0, 0), 'temperature': (0, 0, 0, 0, 1)}


# ----------------------------------------------------------------------------------------
# translator
# ----------------------------------------------------------------------------------------
def _chars(s: str) -> str:
    """Lean `List Char` literal (code points, so that no escaping question arises)."""
    return '[' + ', '.join(f'Char.ofNat {ord(c)}' for c in s) + ']'


def nu_table():
    """numericalunits name -> (SI value as Fraction, dimension exponents (m,kg,s,C,K) as Fractions).

    The dimension is recovered by evaluating the package's own `set_derived_units_and_constants`
    with one base unit at a time set to 4.0 (so half-integral exponents stay exact powers of two),
    then cross-checked under two generic scalings; anything not a multiple of 1/2 or not
    reproducing the cross-check is rejected."""
    import numericalunits as nu
    saved = {b: getattr(nu, b) for b in BASE}

    def table():
        return {k: v for k, v in vars(nu).items() if k[:1] != '_' and isinstance(v, float)}

    def setbase(vals):
        for b, v in zip(BASE, vals):
            setattr(nu, b, float(v))
        nu.set_derived_units_and_constants()
    try:
        setbase([1, 1, 1, 1, 1])
        si = table()
        dims = {k: [] for k in si}
        for i in range(5):
            vals = [1.0] * 5
            vals[i] = 4.0
            setbase(vals)
            t = table()
            if set(t) != set(si):
                raise TranslationError('numericalunits: name set depends on the base units')
            for k in si:
                if si[k] == 0 or t[k] <= 0 or si[k] <= 0:
                    raise TranslationError(f'numericalunits: {k} is not positive')
                x = math.log2(t[k] / si[k])       # = 2 * exponent
                if abs(x - round(x)) > 1e-9:
                    raise TranslationError(f'numericalunits: {k} has a non half-integral exponent of {BASE[i]}')
                dims[k].append(Fraction(round(x), 2))
        # cross-check: generic scalings reproduce value = si * prod scale^dim
        for vals in ([3.0, 0.7, 11.0, 0.13, 5.0], [0.021, 17.0, 0.3, 2.5, 0.9]):
            setbase(vals)
            t = table()
            for k in si:
                pred = si[k] * math.prod(v ** float(d) for v, d in zip(vals, dims[k]))
                if abs(t[k] - pred) > 1e-9 * abs(pred):
                    raise TranslationError(f'numericalunits: {k} is not si * prod(base^dim)')
    finally:
        for b, v in saved.items():
            setattr(nu, b, v)
        nu.set_derived_units_and_constants()
    return {k: (Fraction(si[k]), tuple(dims[k])) for k in si}


def style_tables():
    """evaluate `unit(style)` of the working tree's atomman/lammps/style.py in isolation."""
    src = cm.source('atomman/lammps/style.py')
    tree = ast.parse(src)
    for node in ast.walk(tree):
        if isinstance(node, (ast.Import, ast.ImportFrom)):
            mods = [a.name for a in node.names] if isinstance(node, ast.Import) else [node.module]
            if any(m not in ('collections',) for m in mods):
                raise TranslationError(f'style.py imports {mods}: not a pure table any more')
    ns = {}
    exec(compile(tree, 'style.py', 'exec'), ns)
    out = {}
    for st in STYLES:
        try:
            d = ns['unit'](st)
        except Exception as e:  # noqa
            raise TranslationError(f'style.unit({st!r}) raised {type(e).__name__}: {e}')
        ent = []
        for label, expr in d.items():
            if expr is None:
                continue
            if not isinstance(expr, str) or not isinstance(label, str):
                raise TranslationError(f'style.unit({st!r})[{label!r}] is not a string')
            if st == 'lj' and 'None' in expr:
                continue       # derived entries of the unit-less style ('None*None*None')
            ent.append((label, expr))
        out[st] = ent
    return out


def _dim_lean(d):
    return '⟨' + ', '.join(str(int(x)) for x in d) + '⟩'


def translate():
    tab = nu_table()
    integral = {k: v for k, v in tab.items() if all(x.denominator == 1 for x in v[1])}
    half = sorted(k for k in tab if k not in integral)
    lines = ['/- GENERATED by harness/props/c09.py from numericalunits (installed package) — do not edit. -/',
             'import Atomman.C09', 'namespace Atomman.Gen', 'open Atomman.C09', '',
             '/-- name, numerator, denominator of the value under reset_units(\'SI\') (exact value of the double),',
             '    exponents of (m, kg, s, C, K). -/',
             'def unitTable : List UnitEntry := [']
    items = list(integral.items())
    for i, (k, (v, d)) in enumerate(items):
        sep = '' if i == len(items) - 1 else ','
        lines.append(f'  ⟨{_chars(k)}, {v.numerator}, {v.denominator}, {_dim_lean(d)}⟩{sep} /- {k} -/')
    lines.append(']')
    lines.append('')
    lines.append('/-- names whose dimension has a half-integral exponent (outside the numeric model). -/')
    lines.append('def halfIntegralNames : List (List Char) := [' + ', '.join(_chars(k) for k in half) + ']')
    lines.append('')
    lines.append('end Atomman.Gen\n')
    unit_text = '\n'.join(lines)

    st = style_tables()
    lines = ['/- GENERATED by harness/props/c09.py from atomman/lammps/style.py — do not edit. -/',
             'import Atomman.C09', 'namespace Atomman.Gen', 'open Atomman.C09', '',
             'def styleTables : List StyleTable := [']
    blocks = []
    for name in STYLES:
        ents = ',\n'.join(f'    ({_lstr(l)}, {_chars(e)}) /- {e} -/' for l, e in st[name])
        blocks.append(f'  ⟨{_lstr(name)}, [\n{ents}]⟩')
    lines.append(',\n'.join(blocks))
    lines.append(']')
    lines.append('')
    lines.append('end Atomman.Gen\n')
    return {'UnitTable': unit_text, 'LammpsStyle': '\n'.join(lines), 'UnitconvertSource': translate_source()}


def _lstr(s):
    if not all(32 <= ord(c) < 127 and c not in '"\\' for c in s):
        raise TranslationError(f'label {s!r} is not plain ASCII')
    return '"' + s + '"'


# ----------------------------------------------------------------------------------------
# translator, part 2: atomman/unitconvert.py itself (ast) -> Generated/UnitconvertSource.lean
# ----------------------------------------------------------------------------------------
_SKIP_FIELDS = ('ctx', 'kind', 'type_comment')


def _unify(node, tmpl, b):
    """structural match of `node` against the template `tmpl`; names `H_x` of the template are holes (bound to the
    sub-tree found there, equal sub-trees if used twice); the operator `@` of the template matches any binary
    operator (recorded in order under b['@'])."""
    if isinstance(tmpl, ast.Name) and tmpl.id.startswith('H_'):
        if tmpl.id in b:
            return isinstance(node, ast.AST) and ast.dump(b[tmpl.id]) == ast.dump(node)
        if not isinstance(node, ast.AST):
            return False
        b[tmpl.id] = node
        return True
    if isinstance(tmpl, ast.BinOp) and isinstance(tmpl.op, ast.MatMult):
        if not isinstance(node, ast.BinOp):
            return False
        b.setdefault('@', []).append(type(node.op).__name__)
        return _unify(node.left, tmpl.left, b) and _unify(node.right, tmpl.right, b)
    if type(node) is not type(tmpl):
        return False
    if isinstance(node, ast.AST):
        return all(_unify(getattr(node, f, None), getattr(tmpl, f, None), b)
                   for f in node._fields if f not in _SKIP_FIELDS)
    if isinstance(node, list):
        return len(node) == len(tmpl) and all(_unify(x, y, b) for x, y in zip(node, tmpl))
    return node == tmpl


def _match(stmts, code, what):
    """unify a statement list with template source; TranslationError naming `what` otherwise."""
    import textwrap
    tmpl = ast.parse(textwrap.dedent(code)).body
    b = {}
    if not isinstance(stmts, list):
        stmts = [stmts]
    if not _unify(stmts, tmpl, b):
        got = '\n'.join(ast.unparse(s) for s in stmts)
        raise TranslationError(f'unitconvert.py: {what} no longer has the translated form; found:\n{got[:600]}')
    return b


def _const(node, typ, what):
    if isinstance(node, ast.UnaryOp) and isinstance(node.op, ast.USub) and isinstance(node.operand, ast.Constant):
        v = -node.operand.value
    elif isinstance(node, ast.Constant):
        v = node.value
    else:
        raise TranslationError(f'unitconvert.py: {what}: constant expected, found {ast.unparse(node)}')
    if type(v) is not typ:
        raise TranslationError(f'unitconvert.py: {what}: {typ.__name__} expected, found {v!r}')
    return v


def _lchar(c):
    esc = {'\n': "'\\n'", '\r': "'\\r'", '\t': "'\\t'", "'": "'\\''", '\\': "'\\\\'"}
    if c in esc:
        return esc[c]
    if 32 <= ord(c) < 127:
        return f"'{c}'"
    return f'(Char.ofNat {ord(c)})'


def _lchars(s):
    return '[' + ', '.join(_lchar(c) for c in s) + ']'


def _in_set(var, s, what):
    if not s:
        raise TranslationError(f'unitconvert.py: {what}: empty character set')
    return '(' + ' || '.join(f'{var} = {_lchar(c)}' for c in s) + ')'


_OP_OF_CHAR = {'*': 'mul', '/': 'div', '^': 'pow'}
_ACT_OF_AST = {'Mult': 'mul', 'Div': 'div', 'Pow': 'pow'}
_FIELD_OF_BASE = {'m': 'm', 'kg': 'kg', 's': 's', 'C': 'c'}
_CHOICE_FIELDS = ['length', 'mass', 'time', 'energy', 'charge']


def _tok_op(node, what):
    ch = _const(node, str, what)
    if ch not in _OP_OF_CHAR:
        raise TranslationError(f'unitconvert.py: {what}: operator string {ch!r} is not one of * / ^')
    return _OP_OF_CHAR[ch]


def _act(name, what):
    if name not in _ACT_OF_AST:
        raise TranslationError(f'unitconvert.py: {what}: python operator {name} is not one of * / **')
    return _ACT_OF_AST[name]


def _nat(node, what):
    v = _const(node, int, what)
    if v < 0:
        raise TranslationError(f'unitconvert.py: {what}: non-negative integer expected, found {v}')
    return v


def _sig(fn):
    a = fn.args
    if a.posonlyargs or a.kwonlyargs:
        raise TranslationError(f'unitconvert.py: {fn.name}: positional-only / keyword-only parameters')
    names = [x.arg for x in a.args]
    defs = [''] * (len(names) - len(a.defaults)) + [ast.unparse(d) for d in a.defaults]
    out = list(zip(names, defs))
    if a.vararg:
        out.append(('*' + a.vararg.arg, ''))
    if a.kwarg:
        out.append(('**' + a.kwarg.arg, ''))
    return out


def _reset_formula(node, what):
    """a formula of the energy block over J, nu.m, nu.kg, nu.s: (lean expression, [denominators], is_sqrt)."""
    sqrt = False
    if isinstance(node, ast.BinOp) and isinstance(node.op, ast.Pow) and isinstance(node.right, ast.Constant) \
            and node.right.value == 0.5 and type(node.right.value) is float:
        sqrt = True
        node = node.left
    dens = []

    def go(n):
        if isinstance(n, ast.Name) and n.id == 'J':
            return 'j'
        if isinstance(n, ast.Attribute) and isinstance(n.value, ast.Name) and n.value.id == 'nu' \
                and n.attr in ('m', 'kg', 's'):
            return _FIELD_OF_BASE[n.attr]
        if isinstance(n, ast.BinOp) and isinstance(n.op, ast.Pow):
            if isinstance(n.right, ast.Constant) and type(n.right.value) is int and n.right.value == 2:
                x = go(n.left)
                return f'({x} * {x})'
            raise TranslationError(f'unitconvert.py: {what}: power other than **2 in {ast.unparse(n)}')
        if isinstance(n, ast.BinOp) and isinstance(n.op, ast.Mult):
            return f'({go(n.left)} * {go(n.right)})'
        if isinstance(n, ast.BinOp) and isinstance(n.op, ast.Div):
            a, d = go(n.left), go(n.right)
            dens.append(d)
            return f'({a} / {d})'
        raise TranslationError(f'unitconvert.py: {what}: cannot translate {ast.unparse(n)}')
    e = go(node)
    if len(dens) != 1:
        raise TranslationError(f'unitconvert.py: {what}: exactly one division expected in {ast.unparse(node)}')
    return e, dens[0], sqrt


def translate_source():
    src = cm.source('atomman/unitconvert.py')
    fns = {n: get_function(src, n) for n in ('build_unit', 'reset_units', 'set_literal', 'set_in_units', 'get_in_units',
                                              'value_unit', 'error_unit', 'model', 'parse')}
    L = ['/- GENERATED by harness/props/c09.py from atomman/unitconvert.py (python ast) — do not edit.',
         '   Every definition is assembled from what the current source says: character sets, branch order of the',
         '   tokeniser, the parenthesis scan, which string each reduction loop looks for, which list positions it reads,',
         '   which slices it keeps and which python operator it applies, the decision chain and the formulas of',
         '   reset_units, the split loop of set_literal, the operator of set_in_units / get_in_units, the glue of',
         '   value_unit / model.  lean/Proofs/C09_Source.lean proves each equal to the hand model (gen_…_eq_model). -/',
         'import Atomman.C09', 'set_option linter.unusedVariables false', 'namespace Atomman.Gen.UC', 'open Atomman.C09', '']

    # ---- signatures ---------------------------------------------------------------------------------------
    L.append('/-- parameters (with defaults) of the public functions, in source order -/')
    L.append('def signatures : List (String × List (String × String)) := [')
    rows = []
    for n in ('build_unit', 'reset_units', 'set_literal', 'set_in_units', 'get_in_units', 'value_unit', 'error_unit',
              'model', 'parse'):
        ps = ', '.join(f'({_lstr(a)}, {_lstr(d)})' for a, d in _sig(fns[n]))
        rows.append(f'  ({_lstr(n)}, [{ps}])')
    L.append(',\n'.join(rows) + ']')
    L.append('')

    # ---- build_unit ---------------------------------------------------------------------------------------
    b = _match(strip_doc(fns['build_unit'].body), '''
        global unit
        unit = {}
        for key, value in nu.__dict__.items():
            try:
                key = key.decode('UTF-8')
            except:
                pass
            if H_cond:
                unit[key] = value
        ''', 'build_unit')
    cond = b['H_cond']
    if not (isinstance(cond, ast.BoolOp) and isinstance(cond.op, ast.And)):
        raise TranslationError('unitconvert.py: build_unit: filter is not a conjunction')
    L.append('/-- `build_unit`: an attribute of numericalunits enters `unit` iff all of these hold (statement pin; the unit')
    L.append('    table of `Generated/UnitTable.lean` is measured with the same filter) -/')
    L.append('def buildUnitFilter : List String := [' + ', '.join(_lstr(ast.unparse(v).replace('"', "'"))
                                                                  for v in cond.values) + ']')
    L.append('')

    # ---- parse --------------------------------------------------------------------------------------------
    body = strip_doc(fns['parse'].body)
    if len(body) != 1 or not isinstance(body[0], ast.If):
        raise TranslationError('unitconvert.py: parse: body is not one if / elif / else')
    top = body[0]
    b = {}
    if not _unify(top.test, ast.parse('units is None or units == H_scaled', mode='eval').body, b):
        raise TranslationError(f'unitconvert.py: parse: first test is {ast.unparse(top.test)}')
    scaled = _const(b['H_scaled'], str, "parse: the word 'scaled'")
    bb = _match(top.body, 'return H_one', 'parse (None / scaled branch)')
    one = _const(bb['H_one'], int, 'parse: value returned for None')
    if len(top.orelse) != 1 or not isinstance(top.orelse[0], ast.If):
        raise TranslationError('unitconvert.py: parse: elif isinstance(units, str) missing')
    mid = top.orelse[0]
    if ast.unparse(mid.test) != 'isinstance(units, str)':
        raise TranslationError(f'unitconvert.py: parse: second test is {ast.unparse(mid.test)}')
    _match(mid.orelse, 'return units', 'parse (number branch)')
    sb = mid.body
    if len(sb) != 6:
        raise TranslationError(f'unitconvert.py: parse: string branch has {len(sb)} statements, expected 6')
    _match(sb[0:2], 'i = 0\nterms = []', 'parse (initialisation)')
    loop = sb[2]
    if not (isinstance(loop, ast.While) and ast.unparse(loop.test) == 'i < len(units)' and not loop.orelse
            and len(loop.body) == 1 and isinstance(loop.body[0], ast.If)):
        raise TranslationError('unitconvert.py: parse: tokeniser loop is not `while i < len(units): if …`')

    # the if / elif chain of the tokeniser, in source order
    branches = []
    node = loop.body[0]
    while True:
        branches.append((node.test, node.body))
        if len(node.orelse) == 1 and isinstance(node.orelse[0], ast.If):
            node = node.orelse[0]
        else:
            final = node.orelse
            break
    bb = _match(final, 'raise ValueError(H_msg)', 'parse (tokeniser: final else)')
    scan_lines = []
    aux = []
    seen = set()

    def T(code):
        return ast.parse(code, mode='eval').body
    for test, bd in branches:
        b = {}
        if _unify(test, T('units[i] == H_c'), b):
            ch = _const(b['H_c'], str, 'parse: tokeniser test')
            if len(bd) == 1 and isinstance(bd[0], ast.Raise):
                _match(bd, 'raise ValueError(H_msg)', 'parse (tokeniser: refusal)')
                scan_lines.append((f'c = {_lchar(ch)}', 'none'))
                seen.add('refuse')
                continue
            # the parenthesis branch
            pb = _match(bd, '''
                j = i + H_j0
                pcount = H_start
                while True:
                    if j == len(units):
                        raise ValueError(H_msg)
                    elif units[j] == H_close:
                        if pcount == H_zero:
                            break
                        else:
                            pcount -= H_dec
                    elif units[j] == H_open:
                        pcount += H_inc
                    j += H_step
                terms.append(parse(units[i + H_s0:j]))
                i = j + H_skip
                ''', 'parse (parenthesis branch)')
            for h in ('H_j0', 'H_step', 'H_s0', 'H_skip'):
                if _nat(pb[h], 'parse: parenthesis scan offset') != 1:
                    raise TranslationError(f'unitconvert.py: parse: parenthesis scan offset {h[2:]} is '
                                           f'{ast.unparse(pb[h])}, the list model needs 1')
            popen, pclose = _const(pb['H_open'], str, 'parse: ('), _const(pb['H_close'], str, 'parse: )')
            if ch != popen or len(popen) != 1 or len(pclose) != 1:
                raise TranslationError('unitconvert.py: parse: parenthesis characters')
            aux += ['/-- the scan for the matching closing parenthesis (`pcount`): `(inside, after)` -/',
                    'def splitParen : List Char → Nat → Option (List Char × List Char)',
                    '  | [], _ => none',
                    '  | c :: cs, k =>',
                    f'    if c = {_lchar(pclose)} then',
                    f'      (if k = {_nat(pb["H_zero"], "pcount test")} then some ([], cs)',
                    f'       else (splitParen cs (k - {_nat(pb["H_dec"], "pcount decrement")})).map fun p => (c :: p.1, p.2))',
                    f'    else if c = {_lchar(popen)} then (splitParen cs (k + {_nat(pb["H_inc"], "pcount increment")})).map '
                    'fun p => (c :: p.1, p.2)',
                    '    else (splitParen cs k).map fun p => (c :: p.1, p.2)', '']
            scan_lines.append((f'c = {_lchar(popen)}', f'''
      match splitParen cs {_nat(pb["H_start"], "pcount start")} with
      | none => none
      | some (inner, rest) =>
        (scan alg env f inner).bind fun its =>
        (reduce alg its).bind fun v =>
        (scan alg env f rest).map (.val v :: ·)'''))
            seen.add('paren')
            continue
        if ast.unparse(test) == 'units[i].isalpha()':
            nb = _match(bd, '''
                term = ''
                while i < len(units) and units[i] not in H_stop:
                    term += units[i]
                    i += 1
                terms.append(unit[term])
                ''', 'parse (name branch)')
            stop = _const(nb['H_stop'], str, 'parse: stop set of names')
            aux += ['/-- the characters that end a unit name -/',
                    f'def isStopName (c : Char) : Bool := {_in_set("c", stop, "stop set")}', '']
            scan_lines.append(('isAlphaStart c', '''
      (env (c :: cs.takeWhile (fun x => !isStopName x))).bind fun v =>
      (scan alg env f (cs.dropWhile (fun x => !isStopName x))).map (.val v :: ·)'''))
            seen.add('name')
            continue
        if isinstance(test, ast.BoolOp) and isinstance(test.op, ast.Or):
            parts = []
            for v in test.values:
                b2 = {}
                if ast.unparse(v) == 'units[i].isdigit()':
                    parts.append('isDigit c')
                elif _unify(v, T('units[i] == H_c'), b2):
                    parts.append(f'c = {_lchar(_const(b2["H_c"], str, "parse: start of a number"))}')
                else:
                    raise TranslationError(f'unitconvert.py: parse: number test {ast.unparse(v)}')
            nb = _match(bd, '''
                term = ''
                while i < len(units) and units[i] not in H_stop:
                    term += units[i]
                    i += 1
                terms.append(float(term))
                ''', 'parse (number branch)')
            stop = _const(nb['H_stop'], str, 'parse: stop set of numbers')
            aux += ['/-- the characters that end a number -/',
                    f'def isStopNum (c : Char) : Bool := {_in_set("c", stop, "stop set")}',
                    '/-- the characters that start a number -/',
                    f'def isNumStart (c : Char) : Bool := {" || ".join(parts)}', '']
            scan_lines.append(('isNumStart c', '''
      (numLit (c :: cs.takeWhile (fun x => !isStopNum x))).bind fun me =>
      (alg.num me.1 me.2).bind fun v =>
      (scan alg env f (cs.dropWhile (fun x => !isStopNum x))).map (.val v :: ·)'''))
            seen.add('num')
            continue
        if _unify(test, T('units[i] in H_set'), b):
            st = _const(b['H_set'], str, 'parse: character set')
            if ast.unparse(ast.Module(body=bd, type_ignores=[])) == 'terms.append(units[i])\ni += 1':
                for ch in st:
                    if ch not in _OP_OF_CHAR:
                        raise TranslationError(f'unitconvert.py: parse: operator character {ch!r}')
                    scan_lines.append((f'c = {_lchar(ch)}', f'(scan alg env f cs).map (.op .{_OP_OF_CHAR[ch]} :: ·)'))
                seen.add('op')
                continue
            if ast.unparse(ast.Module(body=bd, type_ignores=[])) == 'i += 1':
                aux += ['/-- blanks between tokens -/', f'def isWs (c : Char) : Bool := {_in_set("c", st, "blanks")}', '']
                scan_lines.append(('isWs c', 'scan alg env f cs'))
                seen.add('ws')
                continue
        raise TranslationError(f'unitconvert.py: parse: tokeniser branch `{ast.unparse(test)}` not understood')
    if seen != {'paren', 'name', 'num', 'op', 'ws', 'refuse'}:
        raise TranslationError(f'unitconvert.py: parse: tokeniser branches found: {sorted(seen)}')

    # the two reduction loops
    pw = _match(sb[3], '''
        while H_tok in terms:
            c = terms.index(H_tok)
            value = [terms[c - H_b] @ terms[c + H_e]]
            terms = terms[:c - H_h] + value + terms[c + H_t:]
        ''', 'parse (power loop)')
    pow_args = (f'.{_tok_op(pw["H_tok"], "power loop")} .{_act(pw["@"][0], "power loop")} '
                f'{_nat(pw["H_b"], "power loop")} {_nat(pw["H_e"], "power loop")} {_nat(pw["H_h"], "power loop")} '
                f'{_nat(pw["H_t"], "power loop")}')
    # the chain of `terms[1] == …` branches
    md = sb[4]
    if not (isinstance(md, ast.While) and not md.orelse and len(md.body) == 1 and isinstance(md.body[0], ast.If)):
        raise TranslationError('unitconvert.py: parse: multiplication loop')
    hb = {}
    if not _unify(md.test, T('len(terms) > H_one'), hb) or _nat(hb['H_one'], 'multiplication loop') != 1:
        raise TranslationError(f'unitconvert.py: parse: multiplication loop runs while {ast.unparse(md.test)}')
    mbr = []
    pos = set()
    node = md.body[0]
    while True:
        b1 = {}
        if not _unify(node.test, T('terms[H_iop] == H_tok'), b1):
            raise TranslationError(f'unitconvert.py: parse: multiplication loop test {ast.unparse(node.test)}')
        b2 = _match(node.body, '''
            value = [terms[H_a] @ terms[H_b]]
            terms = value + terms[H_d:]
            ''', 'parse (multiplication loop branch)')
        mbr.append((_tok_op(b1['H_tok'], 'multiplication loop'), _act(b2['@'][0], 'multiplication loop')))
        pos.add((_nat(b1['H_iop'], 'mul loop'), _nat(b2['H_a'], 'mul loop'), _nat(b2['H_b'], 'mul loop'),
                 _nat(b2['H_d'], 'mul loop')))
        if len(node.orelse) == 1 and isinstance(node.orelse[0], ast.If):
            node = node.orelse[0]
        else:
            _match(node.orelse, 'raise ValueError(H_msg)', 'parse (multiplication loop: else)')
            break
    if len(pos) != 1:
        raise TranslationError('unitconvert.py: parse: the branches of the multiplication loop read different positions')
    iop, ia, ib, nd = pos.pop()
    rb = _match(sb[5], 'return terms[H_r]', 'parse (return)')
    if _nat(rb['H_r'], 'parse: returned position') != 0:
        raise TranslationError('unitconvert.py: parse: does not return terms[0]')
    md_args = '[' + ', '.join(f'(.{t}, .{a})' for t, a in mbr) + f'] {iop} {ia} {ib} {nd}'

    L += ['/-! ### `parse` -/', '',
          f'/-- `units == {scaled!r}` -/', f'def scaledWord : List Char := {_lchars(scaled)}',
          '/-- the number returned for `None` / the scaled word -/', f'def noneValue : Int := {one}', '']
    L += aux
    L += ['/-- `while \'^\' in terms: …` with the string, operator, positions and slices of the source -/',
          'def powLoop {V : Type} (alg : Alg V) : Nat → List (Item V) → Option (List (Item V)) :=',
          f'  pyPowLoop alg {pow_args}', '',
          '/-- `while len(terms) > 1: …; return terms[0]` with the branches, positions and slice of the source -/',
          'def mulDivLoop {V : Type} (alg : Alg V) : Nat → List (Item V) → Option V :=',
          f'  pyMulDivLoop alg {md_args}', '',
          '/-- the two loops one after the other -/',
          'def reduce {V : Type} (alg : Alg V) (its : List (Item V)) : Option V :=',
          '  (powLoop alg (its.length + 1) its).bind fun l => mulDivLoop alg (l.length + 1) l', '']
    L += ['/-- the tokeniser: the branches of `while i < len(units)` in source order -/',
          'def scan {V : Type} (alg : Alg V) (env : List Char → Option V) :',
          '    Nat → List Char → Option (List (Item V))',
          '  | _, [] => some []', '  | 0, _ :: _ => none', '  | f + 1, c :: cs =>']
    for k, (cond, act) in enumerate(scan_lines):
        kw = 'if' if k == 0 else 'else if'
        if act.startswith('\n'):
            L.append(f'    {kw} {cond} then{act}')
        else:
            L.append(f'    {kw} {cond} then {act}')
    L += ['    else none', '',
          'def parse {V : Type} (alg : Alg V) (env : List Char → Option V) (cs : List Char) : Option V :=',
          '  (scan alg env cs.length cs).bind (reduce alg)', '',
          '/-- `parse(units)` with the `None` / scaled-word test in front -/',
          'def parseUnits {V : Type} (alg : Alg V) (env : List Char → Option V) (u : Option (List Char)) : Option V :=',
          '  match u with', '  | none => alg.num noneValue 0',
          '  | some s => if s = scaledWord then alg.num noneValue 0 else parse alg env s', '']

    # ---- set_in_units / get_in_units --------------------------------------------------------------------------
    L.append('/-! ### `set_in_units` / `get_in_units` / `set_literal` -/')
    L.append('')
    for fn, lean in (('set_in_units', 'setInUnits'), ('get_in_units', 'getInUnits')):
        b = _match(strip_doc(fns[fn].body), 'units = parse(units)\nreturn np.asarray(value) @ units', fn)
        act = _act(b['@'][0], fn)
        if act == 'pow':
            raise TranslationError(f'unitconvert.py: {fn} raises the value to a power')
        cls, sym = ('Mul', '*') if act == 'mul' else ('Div', '/')
        L += [f'/-- `{fn}`: `np.asarray(value) {sym} parse(units)` -/',
              f'def {lean} {{K : Type}} [{cls} K] (vals : List K) (f : K) : List K := vals.map (· {sym} f)', '']

    # ---- set_literal ----------------------------------------------------------------------------------------------
    b = _match(strip_doc(fns['set_literal'].body), '''
        j = len(term)
        while True:
            value = term[:j].strip()
            unit = term[j:].strip()
            if len(unit) == 0:
                unit = None
            try:
                return set_in_units(ast.literal_eval(value), unit)
            except:
                try:
                    j = term[:j].rindex(H_ch)
                except:
                    raise ValueError(H_msg)
        ''', 'set_literal')
    sp = _const(b['H_ch'], str, 'set_literal: split character')
    if len(sp) != 1:
        raise TranslationError('unitconvert.py: set_literal splits at a string of several characters')
    L += ['/-- positions tried by `set_literal`: `len(term)`, then repeatedly `term[:j].rindex(…)` -/',
          'def splitPoints (term : List Char) : List Nat :=',
          f'  let spaces := (List.range term.length).filter (fun i => term[i]? = some {_lchar(sp)})',
          '  term.length :: spaces.reverse', '',
          '/-- `set_literal`: value = `term[:j].strip()`, unit = `term[j:].strip()` (empty: `None`), the first split',
          '    for which `set_in_units(ast.literal_eval(value), unit)` does not raise -/',
          'def setLiteralV {K : Type} [Mul K] [Div K] [OfNat K 1] [IntCast K] [NatCast K]',
          '    (alg : Alg K) (env : List Char → Option K) (term : List Char) : Option (List Nat × List K) :=',
          '  (splitPoints term).findSome? fun j =>',
          '    let value := strip (term.take j)', '    let unit := strip (term.drop j)',
          '    match readLit value with', '    | none => none', '    | some lit =>',
          '      match lit.shape? with', '      | none => none', '      | some sh =>',
          '        match parseUnits alg env (if unit.isEmpty then none else some unit) with',
          '        | none => none',
          '        | some f => some (sh, setInUnits (lit.flat.map fun me => litVal me.1 me.2) f)', '']

    # ---- value_unit / error_unit / model ---------------------------------------------------------------------------
    for fn, key in (('value_unit', 'value'), ('error_unit', 'error')):
        _match(strip_doc(fns[fn].body), f'''
            unit = term.get('unit', None)
            if unit is None:
                {key} = np.asarray(term['{key}'])
            else:
                {key} = set_in_units(term['{key}'], unit)
            if 'shape' in term:
                shape = tuple(term['shape'])
                {key} = {key}.reshape(shape)
            return {key}
            ''', fn)
    L += ['/-! ### `value_unit` (`error_unit` is the same text on the key `error`) and `model` -/', '',
          '/-- `value_unit`: no unit → the value as it is, else `set_in_units`; a shape → `reshape` -/',
          'def valueUnit {K : Type} [Mul K] (alg : Alg K) (env : List Char → Option K) (t : UCModel K) : Option (Arr K) :=',
          '  let conv : Option (List K) :=', '    match t.unit with', '    | none => some t.vals',
          '    | some u => (parseUnits alg env (some u)).map fun f => setInUnits t.vals f',
          '  conv.bind fun vs =>', '    match t.shape with',
          '    | some sh => if vs.length = sh.foldr (· * ·) 1 then some ⟨sh, vs⟩ else none',
          '    | none => if t.scalar then (if vs.length = 1 then some ⟨[], vs⟩ else none) else some ⟨[vs.length], vs⟩', '']
    mb = _match(strip_doc(fns['model'].body), '''
        datamodel = DM()
        if units is not None:
            value = get_in_units(value, units)
        else:
            value = np.asarray(value)
        if error is not None:
            error = get_in_units(error, units)
        if value.ndim == H_n0:
            datamodel['value'] = value.item()
            if error is not None:
                datamodel['error'] = error.item()
        elif value.ndim == H_n1:
            datamodel['value'] = value.tolist()
            if error is not None:
                datamodel['error'] = error.tolist()
        else:
            shape = value.shape
            datamodel['value'] = value.flatten().tolist()
            if error is not None:
                datamodel['error'] = error.flatten().tolist()
            datamodel['shape'] = list(shape)
        if units is not None:
            datamodel['unit'] = units
        return datamodel
        ''', 'model')
    n0, n1 = _nat(mb['H_n0'], 'model: ndim of a single value'), _nat(mb['H_n1'], 'model: ndim of a list')
    L += ['/-- the number of dimensions written as a single number / as a plain list -/',
          f'def ndimScalar : Nat := {n0}', f'def ndimList : Nat := {n1}', '',
          '/-- `model(value, units)`: `get_in_units` when units are given; the three `ndim` cases; the unit key -/',
          'def ucModel {K : Type} [Div K] [OfNat K 0] [DecidableEq K] (alg : Alg K) (env : List Char → Option K)',
          '    (a : Arr K) (units : Option (List Char)) : Option (UCModel K) :=',
          '  let conv : Option (List K) :=', '    match units with', '    | none => some a.vals',
          '    | some u => (parseUnits alg env (some u)).bind fun f => if f = 0 then none else some (getInUnits a.vals f)',
          '  conv.map fun vs =>',
          '    if a.shape.length = ndimScalar then ⟨true, vs, none, units⟩',
          '    else if a.shape.length = ndimList then ⟨false, vs, none, units⟩',
          '    else ⟨false, vs, some a.shape, units⟩', '']

    # ---- reset_units ------------------------------------------------------------------------------------------------
    rbody = strip_doc(fns['reset_units'].body)
    if len(rbody) != 1 or not isinstance(rbody[0], ast.If):
        raise TranslationError('unitconvert.py: reset_units: body is not one if / elif / else')
    top = rbody[0]
    b = {}
    if not _unify(top.test, T('len(kwargs) == H_z'), b) or _nat(b['H_z'], 'reset_units') != 0:
        raise TranslationError(f'unitconvert.py: reset_units: first test is {ast.unparse(top.test)}')
    _match(top.body, 'nu.reset_units(seed)\nbuild_unit()', 'reset_units (seed branch)')
    if len(top.orelse) != 1 or not isinstance(top.orelse[0], ast.If) or ast.unparse(top.orelse[0].test) != 'seed is None':
        raise TranslationError('unitconvert.py: reset_units: `elif seed is None` missing')
    named = top.orelse[0]
    _match(named.orelse, 'raise ValueError(H_msg)', 'reset_units (seed with keywords)')
    nb = named.body
    if len(nb) != 10:
        raise TranslationError(f'unitconvert.py: reset_units: named branch has {len(nb)} statements, expected 10')
    b = _match(nb[0], 'if len(kwargs) > H_max:\n    raise ValueError(H_msg)', 'reset_units (count check)')
    kmax = _nat(b['H_max'], 'reset_units: maximum number of keywords')
    _match(nb[1:3], "nu.reset_units('SI')\nbuild_unit()", 'reset_units (SI baseline)')
    _match(nb[8:10], 'nu.set_derived_units_and_constants()\nbuild_unit()', 'reset_units (rebuild)')
    base = {}        # field -> (base name, keyword)
    for st in nb[3:7]:
        b = _match(st, 'if H_kw in kwargs:\n    H_t = unit[H_b] / unit[kwargs[H_kw]]', 'reset_units (base unit)')
        t = b['H_t']
        if not (isinstance(t, ast.Attribute) and isinstance(t.value, ast.Name) and t.value.id == 'nu'
                and t.attr in _FIELD_OF_BASE):
            raise TranslationError(f'unitconvert.py: reset_units: assignment to {ast.unparse(t)}')
        kw = _const(b['H_kw'], str, 'reset_units: keyword')
        if kw not in _CHOICE_FIELDS or _FIELD_OF_BASE[t.attr] in base:
            raise TranslationError(f'unitconvert.py: reset_units: keyword {kw!r} / base unit {t.attr} twice')
        base[_FIELD_OF_BASE[t.attr]] = (_const(b['H_b'], str, 'reset_units: base unit name'), kw)
    if set(base) != {'m', 'kg', 's', 'c'}:
        raise TranslationError('unitconvert.py: reset_units: the four base-unit assignments')
    eb = _match(nb[7], '''
        if H_kw in kwargs:
            J = unit[H_b] / unit[kwargs[H_kw]]
            if H_k1 not in kwargs:
                H_t1 = H_f1
            elif H_k2 not in kwargs:
                H_t2 = H_f2
            elif H_k3 not in kwargs:
                H_t3 = H_f3
        ''', 'reset_units (energy block)')
    ekw = _const(eb['H_kw'], str, 'reset_units: energy keyword')
    ebase = _const(eb['H_b'], str, 'reset_units: energy unit name')
    if ekw not in _CHOICE_FIELDS or ekw in [v[1] for v in base.values()]:
        raise TranslationError('unitconvert.py: reset_units: energy keyword')
    ebr = []
    for k in '123':
        t = eb['H_t' + k]
        if not (isinstance(t, ast.Attribute) and isinstance(t.value, ast.Name) and t.value.id == 'nu'
                and t.attr in ('m', 'kg', 's')):
            raise TranslationError(f'unitconvert.py: reset_units: energy block assigns {ast.unparse(t)}')
        kw = _const(eb['H_k' + k], str, 'reset_units: energy block keyword')
        if kw not in _CHOICE_FIELDS:
            raise TranslationError(f'unitconvert.py: reset_units: energy block keyword {kw!r}')
        ebr.append((kw, _FIELD_OF_BASE[t.attr]) + _reset_formula(eb['H_f' + k], 'reset_units (energy block)'))

    def bs(f):
        return f'baseScale si {_lchars(base[f][0])} ch.{base[f][1]}'
    klass = '[Mul K] [Div K] [OfNat K 0] [OfNat K 1] [DecidableEq K]'
    L += ['/-! ### `reset_units` -/', '',
          '/-- the keyword each field of a choice is read from (`\'length\' in kwargs` … ) -/',
          'def choiceOf (kw : List (String × List Char)) : Choice :=',
          '  ⟨' + ', '.join(f'kwGet kw {_lstr(k)}' for k in (base['m'][1], base['kg'][1], base['s'][1], ekw, base['c'][1]))
          + '⟩', '',
          '/-- `if len(kwargs) == 0 / elif seed is None (if len(kwargs) > max: raise) / else: raise` -/',
          'def resetPath (a : ResetArgs) : ResetPath :=',
          '  if a.kw.length = 0 then .seeded',
          f'  else if !a.seedGiven then (if {kmax} < a.kw.length then .refuseCount else .named (choiceOf a.kw))',
          '  else .refuseSeed', '']
    field_order = ['m', 'kg', 's', 'c']

    def struct(repl=None):
        fs = {f: f for f in field_order}
        if repl:
            fs[repl[0]] = repl[1]
        return '⟨' + ', '.join(fs[f] for f in field_order) + ', 1⟩'
    L += ['/-- the quantity under the square root, when the branch taken has one -/',
          f'def radicand {{K : Type}} {klass} (si : List Char → Option K)', '    (ch : Choice) : Option K :=',
          f'  match ch.{ekw} with', '  | none => none', '  | some en =>',
          f'    match {bs("m")}, {bs("kg")}, {bs("s")},', f'          baseScale si {_lchars(ebase)} (some en) with',
          '    | some m, some kg, some s, some j =>']
    for k, (kw, fld, e, den, sq) in enumerate(ebr):
        L.append(f'      {"if" if k == 0 else "else if"} ch.{kw}.isNone then {("some " + e) if sq else "none"}')
    L += ['      else none', '    | _, _, _, _ => none', '',
          '/-- base scalings after `reset_units(**kwargs)`; `r` stands for `(radicand) ** 0.5` -/',
          f'def resetScales {{K : Type}} {klass} (si : List Char → Option K)',
          '    (ch : Choice) (r : K) : Option (Scales K) :=',
          f'  if {kmax} < ch.count then none else',
          f'  match {bs("m")}, {bs("kg")}, {bs("s")},', f'        {bs("c")} with',
          '  | some m, some kg, some s, some c =>', f'    match ch.{ekw} with', f'    | none => some {struct()}',
          '    | some en =>', f'      match baseScale si {_lchars(ebase)} (some en) with', '      | none => none',
          '      | some j =>']
    for k, (kw, fld, e, den, sq) in enumerate(ebr):
        val = 'r' if sq else e
        L.append(f'        {"if" if k == 0 else "else if"} ch.{kw}.isNone then')
        L.append(f'          if {den} = 0 then none else some {struct((fld, val))}')
    L += [f'        else some {struct()}', '  | _, _, _, _ => none', '']

    # ---- atomman/__init__.py: the working units `import atomman` puts in force --------------------------------------
    isrc = cm.source('atomman/__init__.py')
    calls = [n.value for n in ast.parse(isrc).body
             if isinstance(n, ast.Expr) and isinstance(n.value, ast.Call) and ast.unparse(n.value.func).endswith('reset_units')]
    if len(calls) != 1:
        raise TranslationError(f'atomman/__init__.py: {len(calls)} module-level calls of reset_units, expected one')
    call = calls[0]
    if ast.unparse(call.func) != 'unitconvert.reset_units' or len(call.args) > 1 or any(k.arg is None for k in call.keywords):
        raise TranslationError(f'atomman/__init__.py: {ast.unparse(call)}')
    seed_nodes = list(call.args) + [k.value for k in call.keywords if k.arg == 'seed']
    seed_given = any(not (isinstance(n, ast.Constant) and n.value is None) for n in seed_nodes)
    dkw = [(k.arg, _const(k.value, str, '__init__: working unit name')) for k in call.keywords if k.arg != 'seed']
    L += ['/-! ### `atomman/__init__.py`: the call that sets the default working units -/', '',
          f'def defaultSeedGiven : Bool := {"true" if seed_given else "false"}',
          'def defaultKw : List (String × List Char) :=',
          '  [' + ', '.join(f'({_lstr(k)}, {_lchars(v)})' for k, v in dkw) + ']', '',
          'end Atomman.Gen.UC', '']
    return '\n'.join(L)


GENERATED = ['UnitTable', 'LammpsStyle', 'UnitconvertSource']
THEOREMS = [
    # precedence of the hand-coded tokeniser/reducer (every rendering, every value algebra)
    'C09.parse_precedence', 'C09.parse_render_precedence',
    # set/get inverse
    'C09.set_get_inverse', 'C09.set_get_inverse_parse',
    # … for complex values (re, im): the real factor promoted to f + 0j, complex product / quotient; neither part lost
    'C09.set_get_inverse_complex', 'C09.set_in_units_complex_parts', 'C09.get_in_units_complex_parts',
    'C09.set_in_units_complex_of_real', 'C09.set_in_units_complex_flat',
    # dimension homomorphism and working-unit independence
    'C09.eval_dimension_hom', 'C09.eval_dimension_hom_ast', 'C09.same_dim_ratio_invariant', 'C09.dim_analysis_sound',
    # reset_units with named working units: every chosen unit is 1
    'C09.reset_named_units_are_one', 'C09.reset_named_units_parse_one', 'C09.parse_name', 'C09.table_names_valid',
    'C09.reset_refuses_five', 'C09.reset_over_determined_ignores_energy',
    # set_literal = literal value (number, nested list / tuple) times parsed factor
    'C09.set_literal_value_unit', 'C09.set_literal_scalar', 'C09.set_literal_eq_set_in_units',
    # sessions: a call is answered from the scalings the last state-changing call left, whatever came before
    'C09.session_reply_last', 'C09.session_state_after_reset', 'C09.session_state_after_rebase',
    'C09.session_state_after_failed_reset', 'C09.session_chosen_units_one', 'C09.session_conversion_invariant',
    # rational exponents (Pa*m^0.5, MPa*m^(3/2), s^-1.5): rpow a parameter with the three laws of RpowLaws
    'C09.rpow_rpow', 'C09.rpow_unique', 'C09.ratRpowE_exact', 'C09.rpow_agrees_with_driver', 'C09.eval_dimension_hom_rpow', 'C09.eval_dimension_hom_ast_rpow', 'C09.same_dim_ratio_invariant_rpow',
    'C09.set_get_inverse_parse_rpow', 'C09.dim_analysis_sound_rpow', 'C09.parse_rpow_extends', 'C09.track_rpow_extends',
    'C09.session_conversion_invariant_rpow', 'C09.session_chosen_units_one_rpow',
    # generated tables: numericalunits table facts, LAMMPS style tables
    'C09.unit_table_ok', 'C09.style_table_dims', 'C09.style_table_names', 'C09.style_entry_scaling',
    # source tie (Generated/UnitconvertSource.lean, regenerated from unitconvert.py with ast on every run): the two while
    # loops of parse as python writes them compute the single passes of the model; every generated definition = model
    'C09.pyPowLoop_eq_powGo', 'C09.pyMulDivLoop_eq_mulDivPass',
    'C09.gen_isStopName_eq_model', 'C09.gen_isStopNum_eq_model', 'C09.gen_isWs_eq_model', 'C09.gen_isNumStart_eq_model',
    'C09.gen_splitParen_eq_model', 'C09.gen_powLoop_eq_model', 'C09.gen_mulDivLoop_eq_model', 'C09.gen_reduce_eq_model',
    'C09.gen_scan_eq_model', 'C09.gen_parse_eq_model', 'C09.gen_parseUnits_eq_model', 'C09.gen_setInUnits_eq_model',
    'C09.gen_getInUnits_eq_model', 'C09.gen_splitPoints_eq_model', 'C09.gen_setLiteralV_eq_model',
    'C09.gen_valueUnit_eq_model', 'C09.gen_ucModel_eq_model', 'C09.gen_choiceOf_eq_model', 'C09.gen_resetPath_eq_model',
    'C09.gen_radicand_eq_model', 'C09.gen_resetScales_eq_model', 'C09.gen_signatures_pinned',
    # end to end over the generated definitions; the entry point reset_units(seed, **kwargs); uc.model / uc.value_unit
    'C09.gen_parse_precedence', 'C09.gen_set_get_inverse', 'C09.reset_path_refuses_iff', 'C09.reset_path_which_refusal',
    'C09.choiceOf_count_le', 'C09.reset_path_named', 'C09.reset_call_refused_keeps_state',
    'C09.reset_call_chosen_units_one', 'C09.get_set_inverse', 'C09.value_unit_model_inverse', 'C09.uc_model_keys',
    'C09.default_units_are_one', 'C09.gen_same_dim_ratio_invariant', 'C09.conversion_after_named_call',
]
PARTIAL = {}
RULE = ('expression trees over {numeric literal, unit name, *, /, ^} generated to depth 6 (exponents: integer-valued '
        'literals or small integer-valued sub-expressions, negative included; non-integer rationals written as literals '
        '0.5 1.5 -2.5 .25 0.1 15e-1 … or parenthesised quotients (3/2) (-1/3) (3/-2) …, magnitude below and above one, both '
        'signs; rational roots 4^0.5 as exponents), rendered by the harness with minimal '
        'parentheses plus random redundant parentheses and random runs of the four blank characters around every token, and '
        'by the model renderer (driver op rparse) with a uniform blank string; '
        'malformed stream = 1-2 character edits of valid renderings plus a fixed list; working-unit configurations = SI, '
        'the atomman default, numericalunits seeds, and named choices (every non-empty subset of the five keywords incl. the '
        'over-determined and the five-keyword one, names drawn from the generated table by dimension, every name of every '
        'kind at least once); values: float / int64 / int32 arrays, lists, tuples, mixed int-float lists, python and numpy '
        'scalars of shapes (), (1,), (1,1), (3,), (2,2), (2,1,3), (5,) and empty arrays, dyadic, generic and integer entries, '
        'and complex values of the same shapes (python complex, lists / tuples / mixed lists, complex128 / complex64 arrays, '
        'strided and read-only Fortran views, numpy complex scalars; purely imaginary, y = +-x, one part 2^-20..2^-45 of '
        'the other, parts swept independently by 2^k), decided part by part; '
        'set_literal terms "[blanks]value[ unit-expression][blanks]" with value a numeral, a (nested) list / tuple literal '
        'or a python-specific spelling (leading-zero integer, +2, "1, 2", "1,", [], ragged, unbalanced); numerals with '
        'leading zeros; nesting 8-40 deep; sessions = sequences of configurations in one process: every ordered pair of a '
        'core list (named choices differing in exactly one base quantity m / kg / s / C, charge named / absent / SI by '
        'name, energy fixing each of the three mechanical base units, SI, seeds, numericalunits set directly for K alone), '
        'A B A B for every unordered pair, one-keyword-at-a-time random walks with failing / refused resets and steps '
        'back, a pool of ~100 expressions over every base dimension re-evaluated after every step as first spelled and '
        'with a blank run no earlier call has seen; refused calls of every kind (five keywords with valid / unknown / empty / '
        'wrong-kind names, a foreign keyword among five, six keywords, a seed next to 1..5 keywords) after every kind of state, '
        'the whole table, the base units and values stored before the call read back after it; calls reset_units(seed, **kwargs) of '
        'every shape (seed absent / None / int / 0 / SI, positional or keyword; 0-6 keywords in any order, up to two foreign '
        'ones; valid / wrong-kind / unknown names); uc.model / uc.value_unit on arrays of rank 0-3 incl. empty and '
        'one-element ones, lists, scalars, with and without units, edited shapes; all eight style tables entry by '
        'entry; distinct = distinct '
        '(configuration, string) resp. (choice) resp. (step, string) canonical form; non-trivial = the model returns a '
        'value (not an error case)')
ASSUMPTIONS = [
    'x ** 0.5 in reset_units is a parameter r of the model with r*r = x and r != 0 (the harness feeds the double square root)',
    'float ** float with a non-integer exponent is a parameter rpow : K -> Rat -> K of the model (numAlgR / trackAlgR) with '
    'the assumed laws, for positive x, y: rpow x (a+b) = rpow x a * rpow x b, rpow (x*y) a = rpow x a * rpow y a, '
    'rpow x 1 = x (RpowLaws; satisfied by the real power function: example over the reals in Proofs/C09.lean); everything '
    'else about powers — positivity, agreement with integer powers, (x^a)^b = x^(a b) — is proved from them in an '
    'ordered field; an integer-valued exponent never reaches rpow (exact integer power, any base); a non-integer '
    'exponent needs a positive base (0 ** positive = 0, 0 ** negative raises, negative ** non-integer is a python '
    'complex: no scaling factor, both sides answer "no value"); the driver runs rpow exactly when the power is rational '
    'and to 2^-200 relative otherwise; exponents that are themselves irrational (m^(2^0.5)) are outside the model',
    'IEEE double rounding: each float operation of the implementation has relative error <= 2^-53, libm pow <= 2 ulp, '
    'every numericalunits value is within 16 roundings of const * m^a kg^b s^c C^d K^e; tolerances are derived from the '
    'expression tree by first-order propagation (no tuned constants); cases whose exact intermediate magnitudes leave '
    '[2^-830, 2^830] are not generated (overflow/underflow is outside the model)',
    'the name rtHz (half-integral dimension of a table entry), numerals beyond '
    '[-]digits[.digits][e[+-]digits] (Python float() also reads 1_0, inf, nan, other Unicode digits), blank characters '
    'other than space/tab/CR/LF, and alphabets other than ASCII/Latin/Greek letters are outside the model',
    'malformed strings whose first token in a parenthesis group (or in the whole string) is ^ make uc.parse loop without '
    'end (terms[c-1] wraps around to terms[-1]); a group consisting of the single token * or / is returned as that '
    'string and then acts as an operator of the enclosing expression: both classes are outside the model (the model '
    'answers "error") and are not sent to the real code',
    'exception classes are not modelled: every exception of the real code corresponds to the model answering none '
    '(except the two ValueErrors of reset_units, told apart by resetPath)',
    'python list semantics in pyPowLoop / pyMulDivLoop (Atomman/C09.lean): terms.index, terms[i], slices; an index c-1 '
    'that would be negative (python wraps around) has no value in the model; the error= argument of uc.model and '
    'error_unit beyond its text being value_unit on the key error are outside the model',
    'the value part of set_literal is ast.literal_eval restricted to numbers ([+-]numeral, no leading-zero integers) and '
    'nested lists / tuples of them; 1_000, hex / complex literals, a sign separated from its digits by blanks, strings, '
    'booleans and blanks other than the four are outside the model; np.asarray on a ragged nesting raises (numpy >= 1.24)',
    'a reset_units(**kwargs) that raises half-way leaves uc.unit at the SI baseline (numericalunits\' own attributes are '
    'then inconsistent with it; the model follows uc.unit); numericalunits set directly + build_unit() is taken as a way '
    'of putting working units in force (the only way to move K alone)',
]
TRUSTED = ['numericalunits (the generated table is measured from the installed package on every run)', 'numpy broadcasting',
           'the rational power the model driver executes (Atomman/C09.lean ratRpowE: integer Newton root; where it reports an '
           'exact result that result is proved to be the value of every law-abiding rpow — rpow_agrees_with_driver —, the '
           'inexact branch is trusted to 2^-200) and the '
           'decimal power of the search oracle (python decimal, 60 digits) — two independent implementations compared with libm pow',
           'the size guard of the model driver (lean/Drivers/C09.lean: a request whose exact value would need > 2*10^5 bits is '
           'answered err:size and not compared; every other request is evaluated by the proved numAlg)',
           'ast.literal_eval / float() on the modelled numerals', 'fractions.Fraction oracle in search()',
           'the template matcher of the source translator (harness/props/c09.py _unify / _match / translate_source: which '
           'python statement is read as which Lean fragment; a source that does not fit raises TranslationError)',
           'DataModelDict (uc.model builds one; only item assignment and lookup are used)']

U = 2.0 ** -53
EU = 16.0            # roundings between a numericalunits value and const * prod(base^dim)
WS = ' \n\r\t'
ZERO5 = (0, 0, 0, 0, 0)
MECH = ['mass', 'length', 'time', 'energy', 'velocity', 'force', 'torque', 'pressure', 'dynamic viscosity', 'density',
        'ang-mom', 'ang-vel', 'volume', 'temperature']


def _np():
    import numpy as np
    return np


def _cps(s):
    return ' '.join(str(ord(c)) for c in s)


def _cpn(s):
    return ','.join(str(ord(c)) for c in s)


def _uncpn(t):
    return ''.join(chr(int(x)) for x in t.split(','))


# ----------------------------------------------------------------------------------------
# working-unit configurations
# ----------------------------------------------------------------------------------------
_DEFAULT = None


def _snapshot_default():
    """the table as `import atomman` left it (atomman/__init__.py names angstrom/amu/eV/e), captured before the first
    reset issued by this module."""
    global _DEFAULT
    if _DEFAULT is None:
        import atomman.unitconvert as uc
        _DEFAULT = dict(uc.unit)
    return _DEFAULT


def _apply(cfg):
    """put the real module in the configuration; -> (nu.m, nu.kg, nu.s, nu.C, nu.K) or raises."""
    import atomman.unitconvert as uc
    import numericalunits as nu
    k = cfg['kind']
    if k == 'SI':
        _timed(uc.reset_units, 'SI')
    elif k == 'SI-kw':
        _timed(uc.reset_units, seed='SI')
    elif k == 'seed':
        _timed(uc.reset_units, cfg['seed'])
    elif k == 'seed-kw':
        _timed(uc.reset_units, seed=cfg['seed'])
    elif k == 'random':
        _timed(uc.reset_units)            # no argument: numericalunits chooses random working units
    else:
        _timed(uc.reset_units, **cfg['kw'])
    return [float(getattr(nu, b)) for b in BASE]


def _restore():
    import atomman.unitconvert as uc
    uc.reset_units(length='angstrom', mass='amu', energy='eV', charge='e')


DEFAULT_KW = {'length': 'angstrom', 'mass': 'amu', 'energy': 'eV', 'charge': 'e'}


class _Tab:
    """names by dimension from the translator's own measurement of numericalunits."""

    def __init__(self):
        tab = nu_table()
        self.dims = {}
        self.half = []
        for k, (v, d) in tab.items():
            if all(x.denominator == 1 for x in d):
                self.dims[k] = tuple(int(x) for x in d)
            else:
                self.half.append(k)
        self.names = sorted(self.dims)
        self.by_kind = {kd: sorted(n for n, d in self.dims.items() if d == KIND_DIM[kd]) for kd in KINDS}
        self.si = {k: tab[k][0] for k in self.dims}


_TAB = None


def _tab():
    global _TAB
    if _TAB is None:
        _TAB = _Tab()
    return _TAB


def _subsets():
    out = []
    for mask in range(1, 32):
        out.append([k for i, k in enumerate(KINDS) if mask >> i & 1])
    return out


def _over(kinds):
    return all(k in kinds for k in ('length', 'mass', 'time', 'energy'))


def predict_scales(kw, si):
    """what the named working units demand of the base units (exact up to the one square root; the docstring of
    reset_units: SI baseline, named units become 1, energy fixes the one remaining base unit): (m, kg, s, C, K) as
    floats, or None when a name is unknown."""
    try:
        m = 1 / si[kw['length']] if 'length' in kw else Fraction(1)
        kg = 1 / si[kw['mass']] if 'mass' in kw else Fraction(1)
        sc = 1 / si[kw['time']] if 'time' in kw else Fraction(1)
        c = 1 / si[kw['charge']] if 'charge' in kw else Fraction(1)
        m, kg, sc, c = float(m), float(kg), float(sc), float(c)
        if 'energy' in kw:
            j = float(1 / si[kw['energy']])
            if 'mass' not in kw:
                kg = j * sc * sc / (m * m)
            elif 'time' not in kw:
                sc = math.sqrt(kg * m * m / j)
            elif 'length' not in kw:
                m = math.sqrt(j * sc * sc / kg)
    except (KeyError, ZeroDivisionError, OverflowError, ValueError):
        return None
    return [m, kg, sc, c, 1.0]


def in_float_range(scales, t):
    """numericalunits takes up to fourth powers of derived constants (kB**4, hbar**3): a configuration is inside the
    float model when the fourth power of every table entry, at its exact predicted magnitude, is a normal double
    (|log2 value| <= 255)."""
    if scales is None or any(not (x > 0) or x == float('inf') for x in scales):
        return False
    lg = [math.log2(x) for x in scales]
    for n, d in t.dims.items():
        v = t.si[n]
        l2 = (v.numerator.bit_length() - v.denominator.bit_length()) + sum(a * b for a, b in zip(d, lg))
        if abs(l2) > 255:
            return False
    return True


def _choice_line(kw):
    return ' '.join(_cpn(kw[k]) if k in kw else '-' for k in KINDS)


# ----------------------------------------------------------------------------------------
# expression trees, harness-side renderer, exact evaluation
# ----------------------------------------------------------------------------------------
class Outside(Exception):
    """the case is outside the modelled/generated domain (non-integer exponent, magnitude)."""


class EvalErr(Exception):
    """the expression has no value (division by zero, 0 ** negative, unknown name)."""


import re  # noqa: E402
import time  # noqa: E402
import sys  # noqa: E402
if hasattr(sys, 'set_int_max_str_digits'):
    sys.set_int_max_str_digits(0)        # exact model replies can have thousands of digits
_LIT = re.compile(r'^(-?)(\d*)(?:\.(\d*))?(?:[eE]([+-]?\d+))?$')


def lit_value(text):
    m = _LIT.match(text)
    if not m or (m.group(2) == '' and not m.group(3)):
        raise EvalErr('literal')
    digs = (m.group(2) or '') + (m.group(3) or '')
    v = Fraction(int(digs or '0'))
    ex = int(m.group(4) or 0) - len(m.group(3) or '')
    v = v * Fraction(10) ** ex
    return -v if m.group(1) else v


def _dstr(d):
    return '(' + ', '.join(str(Fraction(x)) for x in d) + ')'


def _mag_ok(v):
    if v == 0:
        return True
    b = v.numerator.bit_length() - v.denominator.bit_length()
    return -830 < b < 830


class Approx(Fraction):
    """a value that is NOT exact: a non-integer power whose result is irrational, rounded to 60 significant digits
    (far below the double rounding it is compared with).  Marker only: arithmetic is Fraction arithmetic."""
    __slots__ = ()


def _iroot(n, d):
    """floor of the d-th root of the non-negative integer n (Newton, integers only)."""
    if n < 2 or d == 1:
        return n
    x = 1 << (-(-n.bit_length() // d) + 1)
    while True:
        y = ((d - 1) * x + n // x ** (d - 1)) // d
        if y >= x:
            return x
        x = y


def rat_pow(v, q):
    """v ** q for a positive Fraction v and a non-integer Fraction q: the exact Fraction when numerator and denominator
    of v ** q.numerator are perfect q.denominator-th powers, else an `Approx` (decimal arithmetic, 60 digits:
    independent of libm)."""
    import decimal
    y = v ** q.numerator
    d = q.denominator
    ra, rb = _iroot(y.numerator, d), _iroot(y.denominator, d)
    if ra ** d == y.numerator and rb ** d == y.denominator:
        return Fraction(ra, rb)
    with decimal.localcontext() as c:
        c.prec = 60
        c.Emax, c.Emin = 999999, -999999
        dv = decimal.Decimal(v.numerator) / decimal.Decimal(v.denominator)
        r = dv ** (decimal.Decimal(q.numerator) / decimal.Decimal(q.denominator))
    return Approx(Fraction(r))


MAX_EXP = 12          # |exponent| of a power
MAX_EXP_DEN = 1000    # denominator of a non-integer exponent (0.5 = 1/2, 0.1 = 1/10, 1.25 = 5/4, 1e-3 = 1/1000)


def ev(t, vals, dims, name_err):
    """-> (value, dimension, first-order rounding bound in units of 2^-53) of the float evaluation of the tree in
    the order the grammar prescribes. vals: name -> Fraction, dims: name -> 5-tuple (None: do not track).
    The value is the exact Fraction, or an `Approx` once an irrational power occurred; the dimension exponents are
    exact (ints / Fractions): `MPa*m^0.5` has dimension (-1/2, 1, -2, 0, 0).  Exponents: any dimensionless
    sub-expression with an exact rational value q, |q| <= 12; integer q: any base; non-integer q: positive base
    (0 ** positive = 0; 0 ** negative and negative ** non-integer have no real value).  Rounding bound of a ** q
    computed in doubles from a (ea roundings) and q (eb roundings): |q| ea + |q ln a| eb + 2."""
    k = t[0]
    if k == 'num':
        v = lit_value(t[1])
        if not _mag_ok(v):
            raise Outside('magnitude')
        return v, ZERO5, (0.0 if v.denominator & (v.denominator - 1) == 0 and abs(v.numerator) < 2 ** 53 else 1.0)
    if k == 'name':
        if t[1] not in vals:
            raise EvalErr('name')
        return vals[t[1]], (dims[t[1]] if dims is not None else ZERO5), name_err
    va, da, ea = ev(t[1], vals, dims, name_err)
    vb, db, eb = ev(t[2], vals, dims, name_err)
    inexact = isinstance(va, Approx) or isinstance(vb, Approx)
    if k == 'mul':
        v, d, e = va * vb, tuple(x + y for x, y in zip(da, db)), ea + eb + 1
    elif k == 'div':
        if vb == 0:
            raise EvalErr('zerodiv')
        v, d, e = va / vb, tuple(x - y for x, y in zip(da, db)), ea + eb + 1
    else:
        if tuple(db) != ZERO5:
            raise Outside('exponent with a dimension')
        if isinstance(vb, Approx):
            raise Outside('irrational exponent')
        q = Fraction(vb)
        if abs(q) > MAX_EXP or q.denominator > MAX_EXP_DEN:
            raise Outside('exponent size')
        if va == 0:
            lna = 0.0
        else:
            lna = (abs(va.numerator.bit_length() - va.denominator.bit_length()) + 1) * 0.6932
        if eb and (va < 0 or float(abs(q)) * lna * eb > 2 ** 20):
            raise Outside('inexact exponent of a negative base')
        if q.denominator == 1:
            n = int(q)
            if va == 0 and n < 0:
                raise EvalErr('zeropow')
            v = va ** n
        else:
            if va < 0:
                raise EvalErr('negative base, non-integer exponent (python: complex)')
            if va == 0:
                if q < 0:
                    raise EvalErr('zeropow')
                v = Fraction(0)
            else:
                v = rat_pow(Fraction(va), q)
                inexact = inexact or isinstance(v, Approx)
        d = tuple(q * x for x in da)
        e = float(abs(q)) * ea + float(abs(q)) * lna * eb + 2
    if not _mag_ok(v):
        raise Outside('magnitude')
    if inexact and not isinstance(v, Approx):
        v = Approx(v)
    return v, d, e


def _exact_small(t):
    """literal-only tree all of whose intermediate values are small dyadic rationals: its float evaluation is exact."""
    try:
        if t[0] == 'name':
            return False
        if t[0] == 'num':
            v = lit_value(t[1])
        else:
            if not (_exact_small(t[1]) and _exact_small(t[2])):
                return False
            v, _, _ = ev(t, {}, None, 0.0)
    except (EvalErr, Outside):
        return False
    if isinstance(v, Approx):
        return False
    d = v.denominator
    return d & (d - 1) == 0 and d <= 2 ** 20 and abs(v.numerator) < 2 ** 40


def exp_tree(rng, q):
    """a way of writing the rational exponent q: a literal when it is a short decimal, or a parenthesised quotient."""
    q = Fraction(q)
    if q.denominator == 1:
        return ('num', str(int(q)))
    forms = [('div', ('num', str(q.numerator)), ('num', str(q.denominator)))]
    dec = _short_decimal(q)
    if dec is not None:
        forms.append(('num', dec))
    return rng.choice(forms) if rng is not None else forms[-1]


def _short_decimal(q):
    d = q.denominator
    while d % 2 == 0:
        d //= 2
    while d % 5 == 0:
        d //= 5
    if d != 1:
        return None
    k = 0
    while (q * 10 ** k).denominator != 1:
        k += 1
    n = int(q * 10 ** k)
    sgn = '-' if n < 0 else ''
    digs = str(abs(n)).rjust(k + 1, '0')
    return sgn + digs[:-k] + '.' + digs[-k:] if k else sgn + digs


def shadow_parse(s):
    """independent reading of a string in the ordinary grammar (recursive descent):
         chain := power (('*'|'/') power)*      left to right
         power := atom ('^' atom)*              left to right
         atom  := name | number | '(' chain ')'
    blanks (space, tab, CR, LF) anywhere between tokens. -> tree, or None when the string is not in the grammar."""
    toks = []
    i = 0
    while i < len(s):
        c = s[i]
        if c in WS:
            i += 1
        elif c in '()*/^':
            toks.append(c)
            i += 1
        else:
            j = i
            while j < len(s) and s[j] not in WS + '*/^()':
                j += 1
            w = s[i:j]
            if w[0].isalpha():
                toks.append(('name', w))
            elif (w[0].isdigit() or w[0] in '-.') and _LIT.match(w) and lit_ok(w):
                toks.append(('num', w))
            else:
                return None
            i = j
    pos = [0]

    def peek():
        return toks[pos[0]] if pos[0] < len(toks) else None

    def atom():
        t = peek()
        if t is None:
            return None
        pos[0] += 1
        if isinstance(t, tuple):
            return t
        if t == '(':
            e = chain()
            if e is None or peek() != ')':
                return None
            pos[0] += 1
            return e
        return None

    def power():
        a = atom()
        while a is not None and peek() == '^':
            pos[0] += 1
            b = atom()
            if b is None:
                return None
            a = ('pow', a, b)
        return a

    def chain():
        a = power()
        while a is not None and peek() in ('*', '/'):
            op = 'mul' if peek() == '*' else 'div'
            pos[0] += 1
            b = power()
            if b is None:
                return None
            a = (op, a, b)
        return a
    e = chain()
    if e is None or pos[0] != len(toks):
        return None
    return e


def lit_ok(w):
    try:
        lit_value(w)
        return True
    except EvalErr:
        return False


NUMS = ['2', '3', '10', '5', '7', '0.5', '2.5', '.25', '1.', '4.0', '1e3', '1e-3', '2E2', '1.5e+2', '1e-21', '1e-18',
        '0.1', '12', '100', '-2', '-1', '-0.5', '1', '6.02e23', '1.602e-19', '-3', '8', '0.125', '16', '1e0', '9', '0',
        '007', '010', '00.5', '-0', '-.5', '5.', '1E+2', '1e+02', '1e-03', '0e0', '0.0', '-08', '2.50', '1E0', '000',
        # factors a hair off one (absolute / relative tolerances hidden in shortcuts), extreme but representable exponents
        '1.000001', '0.999999', '1.0000000001', '0.99999999', '-1.00001', '1e-30', '1E30', '2.5e-25', '1.0e+21', '123456789e-8']
EXPS = ['2', '3', '-1', '-2', '-3', '1', '2', '2', '-1', '3', '0', '2.0', '-2.0', '1e0', '2e0', '4', '-4', '02', '-01', '2.']
# non-integer exponents, literal: magnitude below and above one, both signs, dyadic (exact doubles) and not
FRAC_EXPS = ['0.5', '1.5', '2.5', '-0.5', '-1.5', '-2.5', '.5', '-.5', '0.25', '0.75', '1.25', '-0.25', '3.5', '-3.5',
             '0.125', '1.75', '5e-1', '15e-1', '-15E-1', '2.5e0', '0.1', '1.2', '-0.3', '2.4', '0.50', '01.5', '1.50',
             '0.2', '-1.1', '4.5', '0.05e1', '25e-2']
# … and as parenthesised quotients (numerator, denominator)
FRAC_QUOT = [(1, 2), (3, 2), (5, 2), (-1, 2), (-3, 2), (-5, 2), (1, 3), (2, 3), (4, 3), (-1, 3), (-4, 3), (1, 4), (3, 4),
             (5, 4), (7, 2), (1, -2), (3, -2), (-3, -2), (5, 3), (1, 5), (6, 4), (2, 4), (9, 6), (7, 3), (-7, 4)]


def gen_exp(rng):
    r = rng.random()
    if r < 0.52:
        return ('num', rng.choice(EXPS))
    if r < 0.57:
        a = rng.choice([2, 4, 6, -4, -6, 8])
        return ('div', ('num', str(a)), ('num', '2'))
    if r < 0.62:
        return ('mul', ('num', rng.choice(['-1', '1', '2'])), ('num', rng.choice(['1', '2', '-1'])))
    if r < 0.66:
        return ('pow', ('num', rng.choice(['2', '-1', '1'])), ('num', rng.choice(['1', '2'])))
    if r < 0.82:
        return ('num', rng.choice(FRAC_EXPS))
    if r < 0.95:
        a, b = rng.choice(FRAC_QUOT)
        return ('div', ('num', str(a)), ('num', str(b)))
    if r < 0.98:       # a product / power that is a non-integer rational: 0.5*3, 3*0.5, 0.5^2, (1/2)^-1*0.75
        return rng.choice([('mul', ('num', '0.5'), ('num', '3')), ('mul', ('num', '3'), ('num', '0.5')),
                           ('pow', ('num', '0.5'), ('num', '2')), ('mul', ('num', '-1'), ('num', '1.5')),
                           ('div', ('num', '1.5'), ('num', '2')), ('div', ('num', '3'), ('num', '0.5'))])
    return ('pow', ('num', rng.choice(['4', '0.25', '9', '2.25'])), ('num', rng.choice(['0.5', '-0.5', '1.5'])))   # rational root


def gen_tree(rng, depth, names, pleaf=0.18):
    if depth <= 0 or rng.random() < pleaf:
        if rng.random() < 0.72:
            return ('name', rng.choice(names))
        return ('num', rng.choice(NUMS))
    k = rng.choice(['mul', 'mul', 'div', 'div', 'pow'])
    if k == 'pow':
        return ('pow', gen_tree(rng, depth - 1, names, pleaf), gen_exp(rng))
    return (k, gen_tree(rng, depth - 1, names, pleaf), gen_tree(rng, depth - 1, names, pleaf))


def deep_cases(names):
    """nesting well beyond the random trees: redundant parentheses d deep, and chains nested to the right / in the
    base of a power d deep (d = 8 … 40)."""
    out = []
    for d in (8, 12, 20, 40):
        a, b, c = names[d % len(names)], names[(3 * d + 1) % len(names)], names[(7 * d + 2) % len(names)]
        t = ('div', ('name', a), ('name', b))
        out.append(('(' * d + a + '/' + b + ')' * d, t))
        t = ('name', c)
        s = c
        for k in range(d):
            n = names[(k * 5 + d) % len(names)]
            if k % 2:
                t, s = ('div', ('name', n), t), n + '/(' + s + ')'
            else:
                t, s = ('mul', ('name', n), t), n + ' * ( ' + s + ' )'
        out.append((s, t))
        t, s = ('name', a), a
        for k in range(d):
            e = ['2', '-1', '1', '-2'][k % 4]
            t, s = ('pow', t, ('num', e)), '(' + s + ')^' + e
        out.append((s, t))
    return out


def depth_of(t):
    return 0 if t[0] in ('num', 'name') else 1 + max(depth_of(t[1]), depth_of(t[2]))


def tree_str(t):
    if t[0] in ('num', 'name'):
        return t[1]
    return '(' + tree_str(t[1]) + {'mul': '*', 'div': '/', 'pow': '^'}[t[0]] + tree_str(t[2]) + ')'


def render(rng, t, lvl=2, messy=0.0, extra=0.0, wsfix=None):
    """a way of writing the tree in the ordinary grammar: level 2 = chains of * and / (left to right), level 1 = chains
    of ^ (left to right, as the property's grammar reads them), level 0 = name | number | ( level 2 ); blanks around
    every token with probability `messy`, redundant parentheses with probability `extra`."""
    def ws():
        if wsfix is not None:
            return wsfix
        if messy and rng.random() < messy:
            return ''.join(rng.choice(WS) for _ in range(rng.choice([1, 1, 1, 2, 3])))
        return ''
    k = t[0]
    if k in ('num', 'name'):
        s, nat = ws() + t[1] + ws(), 0
    elif k == 'pow':
        s, nat = render(rng, t[1], 1, messy, extra, wsfix) + '^' + render(rng, t[2], 0, messy, extra, wsfix), 1
    else:
        s = render(rng, t[1], 2, messy, extra, wsfix) + ('*' if k == 'mul' else '/') + render(rng, t[2], 1, messy, extra, wsfix)
        nat = 2
    while nat > lvl or (extra and rng.random() < extra):
        s, nat = ws() + '(' + s + ')' + ws(), 0
    return s


def mutate(rng, s):
    alphabet = '()*/^ \t\n-.e2m0#+)(^*/'
    for _ in range(rng.choice([1, 1, 2])):
        op = rng.choice(['del', 'ins', 'dup', 'swap', 'trunc', 'rep'])
        if not s:
            s = rng.choice(alphabet)
            continue
        i = rng.randrange(len(s))
        if op == 'del':
            s = s[:i] + s[i + 1:]
        elif op == 'ins':
            s = s[:i] + rng.choice(alphabet) + s[i:]
        elif op == 'dup':
            s = s[:i] + s[i] + s[i:]
        elif op == 'swap' and i + 1 < len(s):
            s = s[:i] + s[i + 1] + s[i] + s[i + 2:]
        elif op == 'trunc':
            s = s[:i] if rng.random() < 0.5 else s[i:]
        else:
            s = s[:i] + rng.choice(alphabet) + s[i + 1:]
    return s


MALFORMED = ['', ' ', '()', '( )', '(', ')', '2 3', 'm s', '2*', '*2', '/2', '2/', '2^', '2**3', '2//3', '2^^3', '2*/3',
             '2 ^ * 3', '2 * ^ 3', '(2', '2)', '((2)', '(2))', '2(3)', '(2)(3)', 'm(s)', '2m', 'm2', '+2', '2+3', '1-2',
             '--2', '-', '.', '-.', '1e', 'e5', '1e+', '1.2.3', '2 /0', '0^-1', '2/(3-3)', 'm^s', '2^0.5', 'notaunit',
             'kg*notaunit', 'm^(1/2)', '#', 'm#', '2,3', '[2]', '2 * (3 / )', '( * 3)', 'm/(s*)', '2^(^2)', '*', '/',
             'scaled', 'scaled*2', '2*scaled', '0x10', '1__0', 'm^-', 'm^-s', '1/0.0', '(((((2)))))', '2^-2^-2',
             # python-style power, signs after an operator, scientific notation glued to names, case, prefixes of names
             'm**2', 'm ** 2', '2**0.5', 'm^+2', 'm^ -2', 'm^- 2', 'm/-2', 'm/ -2', 'm*-1', 'm/+2', '-m', '- 2', '-(2)',
             '1e3m', '1e3*m', '1E3*m', '1e+3*m', '1e-3*m', '1.e3', '.5e1', '5.e-1', '1e3.5', '1e', '1e+', 'E3', '2e', '2e3e4',
             '1d3', '1e 3', '1 e3', 'M', 'KG', 'Kg', 'kG', 'EV', 'ev', 'Ev', 'PA', 'pa', 'GPA', 'gpa', 'ANGSTROM', 'Angstrom',
             'J', 'j', 'Nm', 'nM', 'mM', 'MM', 'mm', 'Mm', 'k', 'K', 'c', 'C', 'S', 's', 'mmm', 'kgg', 'kgs', 'eVV', 'eV2',
             'angstro', 'angstroms', 'am', 'amuu', 'p', 'ps', 'pss', 'fss', 'Paa', 'GPaa', 'G', 'GP', 'me', 'mee', 'kB', 'kb',
             'KB', 'hbar', 'Hbar', 'HBAR', 'm^0.5.5', 'm^(1/2', 'm^1/2)', 'm^(1/)', 'm^(/2)', 'm^1.5.', 'm^.', 'm^-.',
             '-2^0.5', '(-8)^(1/3)', '0^-0.5', '0^(-1/2)', '(2-2)^0.5', 'm^(1/0)', 'm^(0/0)', '-1^1.5', '-4^-0.5', '-1^(2/3)']
_HANG = re.compile(r'^\^|\(\^')
_SOLEOP = re.compile(r'\([*/]\)')
_WEIRDNUM = re.compile(r'-(inf|nan)|_|[eE][+-]?\d{4,}', re.I)


def outside_malformed(s):
    """the two malformed classes that are not sent to the real code (see ASSUMPTIONS), plus float() spellings."""
    z = ''.join(c for c in s if c not in WS)
    return bool(_HANG.search(z) or _SOLEOP.search(z) or _WEIRDNUM.search(z)) or 'rtHz' in s


class Hang(Exception):
    """the real code did not return within the CPU-time limit."""


_WATCH = {'fired': False, 'limit': 10.0, 'hangs': [], 'on': False, 't0': None, 'old': None, 'count': {}}


def _on_vtalrm(signum, frame):
    t0 = _WATCH['t0']
    if t0 is not None and time.process_time() - t0 > _WATCH['limit']:
        _WATCH['fired'] = True
        raise Hang('no result within the CPU-time limit')


def _watch_on():
    import signal
    _WATCH['old'] = signal.signal(signal.SIGVTALRM, _on_vtalrm)
    signal.setitimer(signal.ITIMER_VIRTUAL, 0.02, 0.02)
    _WATCH['on'] = True


def _watch_off():
    import signal
    if _WATCH['on']:
        signal.setitimer(signal.ITIMER_VIRTUAL, 0.0)
        signal.signal(signal.SIGVTALRM, _WATCH['old'] or signal.SIG_DFL)
        _WATCH['on'] = False


def _timed(fn, *a, **k):
    """call into the real code under a CPU-time watchdog (one repeating ITIMER_VIRTUAL for the whole phase — `check`
    itself uses the real-time alarm; the handler looks at the CPU time the current call has used), so that a loop
    that never ends is reported as the failing input instead of stalling the run. The timer repeats (set_literal's
    bare `except:` can swallow one delivery, not all of them); after the first hang the limit drops so that a
    systematically hanging implementation does not cost 10 s per case."""
    if not _WATCH['on']:
        _watch_on()
    name = getattr(fn, '__name__', str(fn))
    _WATCH['t0'] = time.process_time()
    try:
        return fn(*a, **k)
    finally:
        _WATCH['t0'] = None
        if _WATCH['fired']:
            _WATCH['fired'] = False
            _WATCH['count'][name] = _WATCH['count'].get(name, 0) + 1
            if len(_WATCH['hangs']) < 5:
                _WATCH['hangs'].append((getattr(fn, '__name__', str(fn)), repr(a)[:300], _WATCH['limit']))
            _WATCH['limit'] = 0.03


def _report_hangs(ctx):
    _watch_off()
    for name, args, limit in _WATCH['hangs'][:1]:
        ctx.violate('hang:' + name, f'uc.{name}{args} did not return within {limit} s of CPU time',
                    {'op': 'hang', 'fn': name, 'args': args})
    _WATCH['hangs'].clear()


def _real_parse(uc, s):
    """-> float value or 'err' (any exception, or a non-numeric / non-finite result)."""
    try:
        r = _timed(uc.parse, s)
    except Exception:  # noqa
        return 'err'
    if isinstance(r, bool) or not isinstance(r, (int, float)) or r != r or r in (float('inf'), float('-inf')):
        return 'err'
    return r


def _real_parse_raw(uc, s):
    """like _real_parse, but a non-finite or non-real result is reported as it is (for the refusal clause: `inf` from
    an overflow is not an acceptance)."""
    try:
        r = _timed(uc.parse, s)
    except Exception:  # noqa
        return 'err'
    if isinstance(r, bool) or not isinstance(r, (int, float)) or r != r or r in (float('inf'), float('-inf')):
        return 'err'
    return r


def _why_no_value(s, vals):
    tree = shadow_parse(s)
    if tree is None:
        return 'operand / operator missing, unbalanced parentheses or unknown character'
    try:
        ev(tree, vals, None, 0.0)
    except EvalErr as ex:
        return str(ex)
    except Outside as ex:
        return str(ex)
    return ''


def _f(x):
    """float for messages (huge/tiny exact values do not convert)."""
    try:
        return float(x)
    except OverflowError:
        return float('inf') if x > 0 else float('-inf')


def _tol(v, e):
    """first-order bound of the float evaluation: (e + 4) roundings, safety factor 1.5 (exact rational)."""
    return Fraction((e + 4.0) * 1.5 * U) * abs(Fraction(v))


# ----------------------------------------------------------------------------------------
# correspondence
# ----------------------------------------------------------------------------------------
def _configs(ctx, rng, n_seed, n_named):
    t = _tab()
    out = [{'kind': 'SI'}, {'kind': 'named', 'kw': dict(DEFAULT_KW)}]
    for _ in range(n_seed):
        out.append({'kind': 'seed', 'seed': rng.randrange(1, 10 ** 6)})
    subs = [s for s in _subsets() if len(s) <= 4]
    while n_named > 0:
        ks = rng.choice(subs)
        kw = {k: rng.choice(t.by_kind[k]) for k in ks}
        if in_float_range(predict_scales(kw, t.si), t):
            out.append({'kind': 'named', 'kw': kw})
            n_named -= 1
    return out


def _cfg_str(cfg):
    if cfg['kind'] == 'SI':
        return "reset_units('SI')"
    if cfg['kind'] == 'SI-kw':
        return "reset_units(seed='SI')"
    if cfg['kind'] == 'seed':
        return f"reset_units({cfg['seed']})"
    if cfg['kind'] == 'seed-kw':
        return f"reset_units(seed={cfg['seed']})"
    if cfg['kind'] == 'random':
        return 'reset_units()'

    return 'reset_units(' + ', '.join(f'{k}={v!r}' for k, v in cfg['kw'].items()) + ')'


def _cmp_val(impl, out, tol_of):
    """impl: float or 'err'; out: driver reply. -> message or None"""
    if out == 'err:size':
        return None         # the driver's size guard: the exact value is too large to write down, nothing to compare
    merr = out.startswith('err:')
    if impl == 'err' or merr:
        if (impl == 'err') != merr:
            return f'implementation {"raises" if impl == "err" else "returns " + repr(impl)}, model {"has no value" if merr else "returns " + str(_f(Fraction(out)))}'
        return None
    mv = Fraction(out)
    if abs(Fraction(impl) - mv) > tol_of(mv):
        return f'implementation {impl!r} != model {_f(mv)!r} (bound {_f(tol_of(mv)):.3e})'
    return None


def _check_table(ctx, uc, cfg, label):
    """every entry of the real uc.unit against envOf(generated table, current scalings) of the model."""
    t = _tab()
    real = dict(uc.unit)
    names = sorted(real)
    outs = ctx.driver.ask_many(['unit ' + _cps(n) for n in names])
    for n, out in zip(names, outs):
        if n in t.half:
            continue
        ctx.stats.case('unit-table', (label, n), nontrivial=cfg['kind'] != 'SI')
        msg = _cmp_val(real[n], out, lambda mv: Fraction((EU + 2) * U) * abs(mv))
        if msg:
            ctx.disagree('unit-table', f"unit[{n!r}] after {_cfg_str(cfg)}: {msg}",
                         {'op': 'unit', 'cfg': cfg, 'name': n})


def _corr_names(ctx, uc):
    """the generated table lists exactly the names the running module serves."""
    t = _tab()
    n = int(ctx.driver.ask('nunits'))
    gen = {_uncpn(x) for x in ctx.driver.ask_many([f'uname {i}' for i in range(n)])}
    half = {_uncpn(x) for x in ctx.driver.ask('halfnames').split()}
    real = set(uc.unit)
    ctx.stats.case('unit-names', len(real), nontrivial=False)
    if gen | half != real or gen & half or gen != set(t.names):
        ctx.disagree('unit-names', f'generated table names differ from uc.unit: only generated {sorted(gen - real)[:5]}, '
                     f'only real {sorted(real - gen - half)[:5]}', {'op': 'unit-names'})
    if ctx.driver.ask('tableok') != '1':
        ctx.disagree('unit-table-ok', 'tableOK unitTable is false in the compiled model', {'op': 'unit-names'})


def classify(s, vals, name_err):
    """what the ordinary grammar says about a string: ('outside',) not decided here (see ASSUMPTIONS) |
    ('reject',) not an expression | ('err',) an expression without value | ('val', value, rounding bound, tree)."""
    if s == 'scaled':
        return ('val', Fraction(1), 0.0, None)
    if outside_malformed(s):
        return ('outside',)
    tree = shadow_parse(s)
    if tree is None:
        return ('reject',)
    try:
        v, d, e = ev(tree, vals, None, name_err)
    except Outside:
        return ('outside',)
    except EvalErr:
        return ('err',)
    return ('val', v, e, tree)


def gen_strings(rng, names, vals, n_valid, n_bad):
    """-> [(kind, string, tree or None)]: grammar renderings (depth <= 6) and the malformed stream."""
    out = []
    tries = 0
    while len(out) < n_valid and tries < 20 * n_valid:
        tries += 1
        d = rng.choice([1, 2, 3, 4, 5, 6, 6])
        tree = gen_tree(rng, d, names, pleaf=0.12 if d >= 5 else 0.2)
        try:
            ev(tree, vals, None, EU)
        except Outside:
            continue
        except EvalErr:
            pass
        s = render(rng, tree, 2, messy=rng.choice([0.0, 0.3, 0.7]), extra=rng.choice([0.0, 0.1, 0.3]))
        if shadow_parse(s) != tree:
            raise cm.InfraError(f'harness self-check: shadow_parse(render(t)) != t for {tree_str(tree)} / {s!r}')
        out.append(('parse', s, tree))
    for s, tree in deep_cases(rng.sample(names, min(len(names), 12))):
        if shadow_parse(s) != tree:
            raise cm.InfraError(f'harness self-check: shadow_parse of the deep case {s!r}')
        try:
            ev(tree, vals, None, EU)
        except Outside:
            continue
        except EvalErr:
            pass
        out.append(('parse', s, tree))
    for _ in range(n_bad):
        r = rng.random()
        if r < 0.25:
            s = rng.choice(MALFORMED)
        elif r < 0.4:
            # a known name changed in case, shortened, lengthened or glued to a number, alone or inside an expression
            # (whether the result is still a name is for the table to say)
            n = rng.choice(names)
            n2 = rng.choice([n.upper(), n.lower(), n.swapcase(), n.capitalize(), n[:-1], n[1:], n + n[-1], n + rng.choice('smgKeVa2_'),
                             rng.choice('mkMGunpf') + n, '2' + n, n + '2', n + '.', '1e3' + n, n + '(2)', n.title()])
            tree = gen_tree(rng, rng.choice([0, 1, 2]), names)
            s = render(rng, tree, 2, messy=rng.choice([0.0, 0.4])).replace(rng.choice(_names_of(tree) or ['\0']), n2, 1) \
                if rng.random() < 0.6 else n2
        else:
            tree = gen_tree(rng, rng.choice([1, 2, 3, 4]), names)
            s = mutate(rng, render(rng, tree, 2, messy=rng.choice([0.0, 0.4]), extra=rng.choice([0.0, 0.2])))
        if len(s) <= 600:
            out.append(('parse:malformed', s, None))
    return out


def _corr_parse(ctx, rng, uc, cfg, n_valid, n_bad):
    t = _tab()
    vals = {k: Fraction(float(v)) for k, v in uc.unit.items()}
    items = []
    for kind, s, tree in gen_strings(rng, t.names, vals, n_valid, n_bad):
        cls = classify(s, vals, EU)
        if cls[0] == 'outside':
            ctx.stats.case('parse:outside-model', s, nontrivial=False)
            z = ''.join(c for c in s if c not in WS)
            if _HANG.search(z) or _SOLEOP.search(z):
                out = ctx.driver.ask('parseu ' + _cps(s))
                if not out.startswith('err:'):
                    ctx.disagree('parse:malformed', f'model gives a value for {s!r} (hang / sole-operator class)',
                                 {'op': 'parse', 'cfg': cfg, 'string': s})
            continue
        items.append((kind, s, _real_parse(uc, s), cls))
    outs = ctx.driver.ask_many(['parseu ' + _cps(s) for _, s, _, _ in items])
    for (kind, s, impl, cls), out in zip(items, outs):
        nontriv = not out.startswith('err:')
        ctx.stats.case(kind, (_cfg_str(cfg), s), nontrivial=nontriv,
                       sample={'cfg': _cfg_str(cfg), 'string': s, 'impl': impl,
                               'depth': depth_of(cls[3]) if cls[0] == 'val' and cls[3] else None})
        if cls[0] == 'val':
            tolf = (lambda mv, e=cls[2]: Fraction(_tol(mv, e)))
        else:
            tolf = (lambda mv: Fraction(1e-11) * abs(mv))
        msg = _cmp_val(impl, out, tolf)
        if msg:
            ctx.disagree(kind, f'uc.parse({s!r}) after {_cfg_str(cfg)}: {msg}',
                         {'op': 'parse', 'cfg': cfg, 'string': s, 'impl': impl, 'model': out})


def _corr_track(ctx, rng, n):
    """the tracked model (`trackAlgR`: SI value and rational dimension) and the kernel-decidable dimension analysis
    (`qdimAlg`) against the harness's exact evaluation, on grammar renderings — non-integer exponents included."""
    t = _tab()
    items = []
    tries = 0
    while len(items) < n and tries < 20 * n:
        tries += 1
        tree = gen_tree(rng, rng.choice([1, 2, 3, 4, 5]), t.names, pleaf=0.2)
        try:
            v, d, e = ev(tree, t.si, t.dims, 0.0)
        except (Outside, EvalErr):
            continue
        items.append((render(rng, tree, 2, messy=rng.choice([0.0, 0.4]), extra=rng.choice([0.0, 0.2])), v, d))
    for s1, s2 in SAME_DIM:
        for x in (s1, s2):
            try:
                v, d, e = ev(shadow_parse(x), t.si, t.dims, 0.0)
                items.append((x, v, d))
            except (Outside, EvalErr):
                pass
    outs = ctx.driver.ask_many(['track ' + _cps(s) for s, _, _ in items])
    douts = ctx.driver.ask_many(['dim ' + _cps(s) for s, _, _ in items])
    for (s, v, d), out, dout in zip(items, outs, douts):
        frac = any(Fraction(x).denominator != 1 for x in d)
        ctx.stats.case('track', s, sample={'string': s, 'dim': [str(x) for x in d]} if frac else None)
        if out == 'err:size':
            continue
        toks = out.split()
        md = tuple(Fraction(x) for x in toks[1:6]) if len(toks) == 6 else None
        if md != tuple(Fraction(x) for x in d):
            ctx.disagree('track:dimension', f'{s!r}: tracked model dimension {toks[1:]}, ordinary-grammar dimension '
                         f'{[str(x) for x in d]}', {'op': 'parse', 'cfg': {'kind': 'SI'}, 'string': s})
            continue
        if abs(Fraction(toks[0]) - v) > Fraction(1, 10 ** 40) * abs(v):
            ctx.disagree('track:value', f'{s!r}: tracked model SI value {_f(Fraction(toks[0]))!r}, exact {_f(v)!r}',
                         {'op': 'parse', 'cfg': {'kind': 'SI'}, 'string': s})
        dt = dout.split()
        if dout.startswith('err:') and _pow_in_exponent(shadow_parse(s)):
            continue            # 4^0.5 as an exponent: a value the dimension analysis does not know (it may refuse)
        if dout.startswith('err:') or tuple(Fraction(x) for x in dt[:5]) != md:
            ctx.disagree('track:dim-analysis', f'{s!r}: dimension analysis {dout}, tracked model {toks[1:]}',
                         {'op': 'parse', 'cfg': {'kind': 'SI'}, 'string': s})


def _pow_in_exponent(t, inside=False):
    if t is None or t[0] in ('num', 'name'):
        return False
    if t[0] == 'pow':
        return inside or _pow_in_exponent(t[1], inside) or _pow_in_exponent(t[2], True)
    return _pow_in_exponent(t[1], inside) or _pow_in_exponent(t[2], inside)


def _prefix(t):
    if t[0] == 'name':
        return 'N ' + _cpn(t[1])
    if t[0] == 'num':
        return 'L ' + _cpn(t[1])
    return {'mul': 'M', 'div': 'D', 'pow': 'P'}[t[0]] + ' ' + _prefix(t[1]) + ' ' + _prefix(t[2])


def _corr_lean_render(ctx, rng, uc, cfg, n):
    """the exact statement of `parse_render_precedence` on the real code: the MODEL renders the tree (its own `render`,
    blank string w, level 0..2), the real uc.parse reads that string; model parse = model evalAst = real value; and the
    harness's reader of the ordinary grammar recovers the tree from the model's rendering."""
    t = _tab()
    vals = {k: Fraction(float(v)) for k, v in uc.unit.items()}
    lines, metas = [], []
    tries = 0
    while len(lines) < n and tries < 20 * n:
        tries += 1
        tree = gen_tree(rng, rng.choice([1, 2, 3, 4, 5, 6]), t.names, pleaf=0.15)
        try:
            v, dm, e = ev(tree, vals, None, EU)
        except Outside:
            continue
        except EvalErr:
            v, e = None, 0.0
        w = ''.join(rng.choice(WS) for _ in range(rng.choice([0, 0, 1, 2, 3])))
        lines.append(f'rparse {rng.choice([0, 1, 2, 2])} {_cpn(w) if w else "-"} ' + _prefix(tree))
        metas.append((tree, v, e))
    outs = ctx.driver.ask_many(lines)
    for (tree, v, e), out, line in zip(metas, outs, lines):
        parts = [x.strip() for x in out.split('|')]
        if out == 'err:size':
            continue
        if len(parts) != 3:
            ctx.disagree('lean-render', f'driver reply {out[:80]!r} to {line[:80]!r}', {'op': 'lean-render', 'line': line})
            continue
        sstr = _uncpn(parts[0]) if parts[0] else ''
        ctx.stats.case('parse:lean-render', (_cfg_str(cfg), sstr), nontrivial=not parts[1].startswith('err:'),
                       sample={'cfg': _cfg_str(cfg), 'tree': tree_str(tree), 'rendered': sstr})
        if parts[1] != parts[2]:
            ctx.disagree('lean-render:theorem', f'model parse(render t) = {parts[1][:40]} but evalAst t = {parts[2][:40]} '
                         f'for t = {tree_str(tree)}', {'op': 'lean-render', 'line': line})
        if shadow_parse(sstr) != tree:
            ctx.disagree('lean-render:grammar', f'the harness reads the model rendering {sstr!r} as '
                         f'{shadow_parse(sstr)} instead of {tree_str(tree)}', {'op': 'lean-render', 'line': line})
        impl = _real_parse(uc, sstr)
        msg = _cmp_val(impl, parts[1], lambda mv, e=e: _tol(mv, e))
        if msg:
            ctx.disagree('parse', f'uc.parse({sstr!r}) after {_cfg_str(cfg)}: {msg}',
                         {'op': 'parse', 'cfg': cfg, 'string': sstr, 'impl': impl, 'model': parts[1][:200]})


def _corr_convert(ctx, rng, uc, cfg, n):
    """set_in_units / get_in_units / set_literal against the model, scalars, lists and nested arrays."""
    np = _np()
    t = _tab()
    vals = {k: Fraction(float(v)) for k, v in uc.unit.items()}
    lines, metas = [], []
    for it in range(n):
        tree = gen_tree(rng, rng.choice([0, 1, 2, 3]), t.names)
        try:
            v, dm, e = ev(tree, vals, None, EU)
        except (Outside, EvalErr):
            continue
        if v == 0:
            continue
        s = render(rng, tree, 2, messy=rng.choice([0.0, 0.5]), extra=rng.choice([0.0, 0.2]))
        shape = rng.choice([sh for sh in SHAPES if 0 not in sh])
        form = rng.choice([f for f in FORMS if f not in ('float32-array', 'np32-scalar', 'scaled-array',
                                                         'complex-scaled-array') and not _is_c64(f)])
        cplx = _is_c(form)                       # complex values: (re, im) pairs on the wire, model ops setc / getc
        cnt = int(np.prod(shape)) if shape else 1
        xs = gen_values(rng, form, cnt)
        arg, arr = make_arg(np, xs, shape, form)
        for op, f in (('set', uc.set_in_units), ('get', uc.get_in_units)):
            try:
                r = np.asarray(_timed(f, arg, s))
                impl = _parts(np, r, cplx) if r.shape == arr.shape and r.dtype.kind in ('fc' if cplx else 'f') else 'shape'
                if impl != 'shape' and not np.isfinite(r).all():
                    impl = 'err'
            except Exception:  # noqa
                impl = 'err'
            lines.append(f'{op}{"c" if cplx else ""} {len(xs)} ' + ' '.join(cm.fr(x) for x in xs) + ' ' + _cps(s))
            metas.append((op, s, xs, shape, impl, e))
    # None / 'scaled'
    for u in (None, 'scaled'):
        for op, f in (('set', uc.set_in_units), ('get', uc.get_in_units)):
            x = cm.dyadic(rng, -8, 8, 3)
            impl = [float(f(x, u))]
            lines.append(f'{op} 1 {cm.fr(x)} ' + (_cps(u) if u else _cps('scaled')))
            metas.append((op, u, [x], (), impl, 0.0))
    outs = ctx.driver.ask_many(lines)
    for (op, s, xs, shape, impl, e), out, line in zip(metas, outs, lines):
        ctx.stats.case(op + '_in_units', (_cfg_str(cfg), s, tuple(xs)),
                       sample={'cfg': _cfg_str(cfg), 'op': op, 'units': s, 'value': xs, 'shape': list(shape)})
        bad = None
        if out == 'err:size':
            continue
        if impl in ('err', 'shape') or out.startswith('err:'):
            if not (impl == 'err' and out.startswith('err:')):
                bad = f'implementation {impl}, model {out}'
        else:
            mv = cm.unfrs(out)
            if len(mv) != len(impl) or any(abs(Fraction(a) - b) > Fraction(_tol(b, e + 1)) for a, b in zip(impl, mv)):
                bad = f'implementation {impl} != model {[float(x) for x in mv]}'
        if bad:
            ctx.disagree(op + '_in_units', f'uc.{op}_in_units({xs} as {"complex (re, im, …) of " if len(xs) > max(1, int(np.prod(shape))) else ""}shape {shape}, {s!r}) after {_cfg_str(cfg)}: {bad}',
                         {'op': op, 'cfg': cfg, 'units': s, 'value': xs, 'shape': list(shape)})
    # set_literal
    lines, metas = [], []
    for it in range(n):
        term, e = gen_literal(rng, t, vals)
        impl = _real_setlit(uc, term)
        lines.append('setlitv ' + _cps(term))
        metas.append((term, impl, e))
    outs = ctx.driver.ask_many(lines)
    for (term, impl, e), out in zip(metas, outs):
        ctx.stats.case('set_literal', (_cfg_str(cfg), term), nontrivial=not out.startswith('err:'),
                       sample={'cfg': _cfg_str(cfg), 'term': term, 'impl': impl if impl == 'err' else [list(impl[0]), impl[1]]})
        msg = _cmp_setlit(impl, out, lambda mv, e=e: Fraction(_tol(mv, e + 2)))
        if msg:
            ctx.disagree('set_literal', f'uc.set_literal({term!r}) after {_cfg_str(cfg)}: {msg}',
                         {'op': 'setlit', 'cfg': cfg, 'term': term})


def _real_setlit(uc, term):
    """-> (shape, flat values) of the array uc.set_literal returns, or 'err'."""
    np = _np()
    try:
        r = np.asarray(_timed(uc.set_literal, term))
        if r.dtype.kind not in 'fiu' or not np.isfinite(r).all():
            return 'err'
        return tuple(r.shape), [x for x in r.ravel().tolist()]
    except Exception:  # noqa
        return 'err'


def _cmp_setlit(impl, out, tol_of):
    """impl: (shape, values) or 'err'; out: reply of the driver op setlitv (`shape | values`). -> message or None"""
    if out == 'err:size':
        return None
    merr = out.startswith('err:')
    if impl == 'err' or merr:
        if (impl == 'err') != merr:
            return f'implementation {"raises" if impl == "err" else "returns " + repr(impl)}, model {"has no value" if merr else "returns " + out[:80]}'
        return None
    sh, _, vs = out.partition('|')
    mshape = () if sh.strip() == '-' else tuple(int(x) for x in sh.strip().split(','))
    mv = cm.unfrs(vs)
    if mshape != impl[0] or len(mv) != len(impl[1]):
        return f'implementation returns shape {impl[0]}, model shape {mshape}'
    for a, b in zip(impl[1], mv):
        if abs(Fraction(a) - b) > tol_of(b):
            return f'implementation {impl[1]} != model {[_f(x) for x in mv]}'
    return None


# values as python writes them: numbers (a leading-zero integer is refused by python, `+` is a sign), lists and tuples,
# nested, with blanks, trailing comma, empty; refused: ragged, unbalanced, missing comma
PY_VALUE_LITS = ['1,\n2', '[1,\n2]', '(1,\r2)', '1\n2', '[1]\n[2]', '1, 2', '1,', '1, 2,', '[1], [2]', '(1, 2), 3', ',', '1) (2', '010', '007', '00', '+2', '+.5', '-0', '00.5', '01e1', '-08', '1.5E+2', '[]', '()', '[1, 2', '[1,,2]',
                 '[[1, 2], [3]]', '(1, 2]', '[1 2]', '((1, 2), (3, 4))', '[010]', '[1, [2]]', '[1, 2,]', '(3)', '((3))',
                 '[(1.5)]', '[+1, -2]', '[[]]', '[[], []]', '(,)', '[,1]', '1, 2', '[1](2)', '+-2', '--2', '[ ]', '( 2 , )']
VALUE_LITS = ['1.124', '2', '10', '0.5', '-3', '1e3', '2.5e-3', '-1.5E2', '7.', '.5', '12345.678', '0', '1e-21', '100',
              '3.0', '-0.25', '6.02e23', '0.001']


def gen_literal(rng, t, vals):
    """'value unit' terms of set_literal (blanks inside the unit expression allowed) + malformed ones.
    -> (term, rounding bound) """
    value = rng.choice(VALUE_LITS)
    r = rng.random()
    if rng.random() < 0.35:
        value = rng.choice(LIST_LITS + PY_VALUE_LITS)
    if r < 0.12:
        return rng.choice([' ', '']) + value + rng.choice([' ', '', '  ']), 2.0
    if r < 0.2:
        return rng.choice(['', 'abc', 'mm', '1 2 mm', 'mm 2', '2 *', '2 notaunit', '1..2 m', '2 m m', '2 (m',
                           value + 'mm', value + ' scaled', value + '  scaled ', value + '\tmm', '2 m /', '5 1 1']), 2.0
    while True:
        tree = gen_tree(rng, rng.choice([0, 0, 1, 2, 3]), t.names)
        try:
            v, dm, e = ev(tree, vals, None, EU)
            break
        except (Outside, EvalErr):
            continue
    messy = rng.choice([0.0, 0.0, 0.5])
    s = render(rng, tree, 2, messy=messy, extra=rng.choice([0.0, 0.2]))
    sep = rng.choice([' ', ' ', '  ', ' \t', '   '])
    return rng.choice(['', ' ']) + value + sep + s + rng.choice(['', ' ']), e + 1


def _corr_reset_one(ctx, uc, kw, full_table):
    """one reset_units(**kw) against resetScales (and the whole table under the model's scalings). -> table checked"""
    cfg = {'kind': 'named', 'kw': kw}
    t = _tab()
    if len(kw) <= 4 and all(v in t.si for v in kw.values()) and not in_float_range(predict_scales(kw, t.si), t):
        ctx.stats.case('reset_units:outside-float-range', tuple(sorted(kw.items())), nontrivial=False)
        return False
    ch = _choice_line(kw)
    sendable = all(kw.values())
    rad = ctx.driver.ask('radicand ' + ch) if sendable else 'none'
    r = Fraction(1)
    if rad != 'none' and not rad.startswith('err:'):
        x = Fraction(rad)
        r = Fraction(math.sqrt(float(x))) if x >= 0 else Fraction(1)
    out = ctx.driver.ask(f'reset {ch} {cm.fr(r)}') if sendable else 'err:value'
    try:
        impl = _apply(cfg)
    except Exception:  # noqa
        impl = 'err'
    nontriv = not out.startswith('err:')
    ctx.stats.case('reset_units', tuple(sorted(kw.items())), nontrivial=nontriv, sample={'kw': kw, 'scales': impl})
    if 'rtHz' in kw.values():
        return False
    if impl == 'err' or not nontriv:
        if not (impl == 'err' and not nontriv):
            ctx.disagree('reset_units', f'{_cfg_str(cfg)}: implementation {"raises" if impl == "err" else impl}, model {out}',
                         {'op': 'reset', 'kw': kw})
        return False
    mv = cm.unfrs(out)
    if any(abs(Fraction(a) - b) > Fraction(24 * U) * abs(b) for a, b in zip(impl, mv)):
        ctx.disagree('reset_units', f'{_cfg_str(cfg)}: base units (m, kg, s, C, K) = {impl}, model {[float(x) for x in mv]}',
                     {'op': 'reset', 'kw': kw, 'impl': impl})
        return False
    if full_table:
        ctx.driver.ask('scales ' + ' '.join(cm.fr(x) for x in mv))
        _check_table(ctx, uc, cfg, 'reset')
    return full_table


def _corr_reset(ctx, rng, uc):
    """reset_units(**kw) for every keyword subset (incl. five keywords, over-determined, unknown and wrong-kind names)
    against resetScales; then the whole unit table under the model's scalings."""
    t = _tab()
    cases = []
    for kd in KINDS:                      # every name of every kind alone
        for n in t.by_kind[kd]:
            cases.append({kd: n})
    reps = ctx.n(6, 60)
    for ks in _subsets():
        if len(ks) == 1:
            continue
        for _ in range(reps if len(ks) < 5 else 2):
            cases.append({k: rng.choice(t.by_kind[k]) for k in ks})
    cases.append(dict(DEFAULT_KW))
    # wrong-kind and unknown names: the code does not look at dimensions, it divides
    for _ in range(ctx.n(20, 200)):
        ks = rng.choice([s for s in _subsets() if len(s) <= 4])
        kw = {k: rng.choice(t.names) for k in ks}
        if rng.random() < 0.3:
            kw[rng.choice(ks)] = rng.choice(['nounit', 'Angstrom', 'EV', '', 'kg*m', 'rtHz'])
        cases.append(kw)
    full_tables = 0
    for kw in cases:
        if _corr_reset_one(ctx, uc, kw, full_tables < ctx.n(40, 400) or kw == DEFAULT_KW):
            full_tables += 1
    # seed together with keywords is refused
    try:
        uc.reset_units(5, length='m')
        ctx.disagree('reset_units:seed+kw', 'reset_units(seed, length=...) is accepted', {'op': 'reset-seedkw'})
    except ValueError:
        pass
    except Exception as e:  # noqa
        ctx.disagree('reset_units:seed+kw', f'reset_units(seed, length=...) raises {type(e).__name__}', {'op': 'reset-seedkw'})


FOREIGN_KW = ['temperature', 'lenght', 'Length', 'current', 'units', 'MASS', 'amount', 'angle']
SEED_FORMS = ['absent', 'absent', 'none-kw', 'int', 'int-kw', 'zero', 'SI', 'SI-kw']


def gen_reset_call(rng, t):
    """-> (args, kwargs in call order): every way through reset_units(seed=None, **kwargs)."""
    sf = rng.choice(SEED_FORMS)
    n = rng.choice([0, 1, 1, 2, 3, 4, 4, 5, 5, 6])
    keys = []
    pool = list(KINDS) + FOREIGN_KW
    rng.shuffle(pool)
    nforeign = rng.choice([0, 0, 0, 1, 1, 2])
    own = [k for k in pool if k in KINDS]
    foreign = [k for k in pool if k not in KINDS]
    keys = (foreign[:nforeign] + own)[:n] if n <= 5 + nforeign else pool[:n]
    rng.shuffle(keys)
    kw = {}
    for k in keys:
        u = rng.random()
        if k in KINDS and u < 0.8:
            kw[k] = rng.choice(t.by_kind[k])
        elif u < 0.9:
            kw[k] = rng.choice(t.names)
        else:
            kw[k] = rng.choice(['nounit', 'Angstrom', 'EV', 'kg*m'])
    args = ()
    if sf == 'none-kw':
        kw = {**kw, 'seed': None} if rng.random() < 0.5 else {'seed': None, **kw}
    elif sf == 'int':
        args = (rng.randrange(1, 1000),)
    elif sf == 'zero':
        args = (0,)
    elif sf == 'int-kw':
        kw = {**kw, 'seed': rng.randrange(1, 1000)}
    elif sf == 'SI':
        args = ('SI',)
    elif sf == 'SI-kw':
        kw = {'seed': 'SI', **kw}
    return args, kw


def _corr_rpath(ctx, rng, uc, n):
    """the entry point reset_units(seed, **kwargs) against resetPath / resetCall: which calls are refused and with which
    message, which go the seed way, which by name (and with which choice: foreign keywords are counted but ignored); the
    model's state after the call against the real table (refused: unchanged; by name: resetScales or, raising half-way, SI)."""
    import numericalunits as nu
    t = _tab()
    base = {'kind': 'named', 'kw': dict(DEFAULT_KW)}
    for it in range(n):
        args, kw = gen_reset_call(rng, t)
        words = {k: v for k, v in kw.items() if k != 'seed'}
        seed_given = bool(args) or kw.get('seed') is not None
        call = 'reset_units(' + ', '.join([repr(a) for a in args] + [f'{k}={v!r}' for k, v in kw.items()]) + ')'
        if 'rtHz' in words.values() or any(v == '' for v in words.values()):
            continue
        known = {k: v for k, v in words.items() if k in KINDS}
        if (not seed_given and 0 < len(words) <= 4 and known and all(v in t.si for v in known.values())
                and not in_float_range(predict_scales(known, t.si), t)):
            continue          # numericalunits itself divides by zero / overflows under such scalings (outside the model)
        _sync(ctx, base)
        before = dict(uc.unit)
        try:
            _timed(uc.reset_units, *args, **kw)
            impl = 'seeded' if not words else 'named'
        except ValueError as e:
            m = str(e)
            impl = 'refuse-count' if 'four' in m else 'refuse-seed' if 'seed' in m else f'ValueError({m})'
        except Hang:
            raise
        except Exception as e:  # noqa
            impl = 'named-raises'
        line = ' '.join(f'{_cpn(k)} {_cpn(v)}' for k, v in words.items())
        path = ctx.driver.ask(f'rpath {1 if seed_given else 0} {line}'.rstrip())
        ctx.stats.case('reset_units:path', (args, tuple(kw.items())), sample={'call': call, 'path': path})
        want = path.split()[0]
        rep = {'op': 'rpath', 'args': list(args), 'kw': list(kw.items())}
        if want != impl.split('-raises')[0]:
            ctx.disagree('reset_units:path', f'{call}: implementation {impl}, model {path}', rep)
            continue
        if want == 'named':
            got = path.split()[1:]
            exp = [(_cpn(words[k]) if k in words else '-') for k in KINDS]
            exp = [exp[0], exp[1], exp[2], exp[3], exp[4]]
            if got != exp:
                ctx.disagree('reset_units:path', f'{call}: the model reads the choice {got}, the keywords say {exp}', rep)
                continue
        # the state after the call
        if want == 'seeded':
            ctx.driver.ask('scales ' + ' '.join(cm.fr(getattr(nu, b)) for b in BASE))
            continue
        r = Fraction(1)
        if want == 'named':
            ch = ' '.join(path.split()[1:])
            rad = ctx.driver.ask('radicand ' + ch)
            if rad != 'none' and not rad.startswith('err:') and Fraction(rad) >= 0:
                r = Fraction(math.sqrt(float(Fraction(rad))))
        out = ctx.driver.ask(f'rcall {1 if seed_given else 0} {cm.fr(r)} {line}'.rstrip())
        if want.startswith('refuse'):
            ch_ = [k for k in before if not (uc.unit.get(k) == before[k])]
            if ch_ or set(uc.unit) != set(before):
                ctx.disagree('reset_units:refused-state', f'{call} is refused ({impl}) but changes uc.unit ({len(ch_)} entries, '
                             f'e.g. {ch_[:3]})', rep)
                continue
        ok_model = 'err:' not in out
        if want == 'named' and ok_model != (impl == 'named'):
            ctx.disagree('reset_units:path', f'{call}: implementation {impl}, model {out}', rep)
            continue
        # a sample of the table under the model's state
        names = [rng.choice(t.names) for _ in range(6)] + [v for v in words.values() if v in t.si][:4]
        outs = ctx.driver.ask_many(['unit ' + _cps(nm) for nm in names])
        for nm, o in zip(names, outs):
            if o.startswith('err:'):
                continue
            mv = Fraction(o)
            if abs(Fraction(uc.unit[nm]) - mv) > Fraction(2 * _table_bound(t.dims[nm])) * abs(mv):
                ctx.disagree('reset_units:call-state', f'after {call} (from the atomman default): uc.unit[{nm!r}] = '
                             f'{uc.unit[nm]!r}, model {float(mv)!r} ({out})', rep)
                break


def _corr_model(ctx, rng, uc, cfg, n):
    """uc.model(value, units) against ucModel, uc.value_unit(term) against valueUnit (shape, entries, keys)."""
    np = _np()
    t = _tab()
    vals = {k: Fraction(float(v)) for k, v in uc.unit.items()}
    for it in range(n):
        if rng.random() < 0.15:
            s, e = None, 0.0
        else:
            tree = gen_tree(rng, rng.choice([0, 1, 2]), t.names)
            try:
                v, dm, e = ev(tree, vals, None, EU)
            except (Outside, EvalErr):
                continue
            if v == 0 or not _mag_ok(v):
                continue
            s = render(rng, tree, 2, messy=rng.choice([0.0, 0.5]))
        shape = rng.choice(SHAPES + [(4,), (2, 3), (1, 1, 1), (3, 1)])
        cnt = int(np.prod(shape)) if shape else 1
        xs = [cm.dyadic(rng, -64, 64, 6) for _ in range(cnt)]
        arr = np.array(xs, dtype=float).reshape(shape)
        form = rng.choice(['array', 'list', 'scalar'])
        arg = arr if form == 'array' else arr.tolist() if form == 'list' else (float(arr) if shape == () else arr)
        shape = tuple(np.asarray(arg).shape)        # a nested list forgets the dimensions behind an empty one
        sh = ','.join(map(str, shape)) if shape else '-'
        u = _cpn(s) if s is not None else '-'
        rep = {'op': 'ucmodel', 'cfg': cfg, 'units': s, 'value': xs, 'shape': list(shape)}
        try:
            m = _timed(uc.model, arg, s) if rng.random() < 0.5 else _timed(uc.model, value=arg, units=s)
            val = m['value']
            impl = ('L' if isinstance(val, list) else 'S', list(m['shape']) if 'shape' in m else None,
                    m.get('unit', None), [float(x) for x in (val if isinstance(val, list) else [val])], sorted(m.keys()))
        except Hang:
            raise
        except Exception as ex:  # noqa
            impl = 'err'
        out = ctx.driver.ask(f'ucmodel {sh} {u} {len(xs)} ' + ' '.join(cm.fr(x) for x in xs))
        ctx.stats.case('model', (_cfg_str(cfg), s, shape, tuple(xs)), nontrivial=not out.startswith('err:'),
                       sample={'cfg': _cfg_str(cfg), 'units': s, 'shape': list(shape), 'value': xs})
        if out == 'err:size':
            continue
        if impl == 'err' or out.startswith('err:'):
            if not (impl == 'err' and out.startswith('err:')):
                ctx.disagree('model', f'uc.model({form} of shape {shape}, {s!r}) after {_cfg_str(cfg)}: implementation '
                             f'{impl}, model {out}', rep)
            continue
        head, _, body = out.partition(' | ')
        kind, msh, mu = head.split()
        mv = cm.unfrs(body) if body.strip() else []
        msh = None if msh == '-' else [int(x) for x in msh.split(',')]
        mu = None if mu == '-' else _uncpn(mu)
        bad = None
        if (kind, msh, mu) != impl[:3]:
            bad = f'implementation writes value as {"a list" if impl[0] == "L" else "a number"}, shape {impl[1]}, unit ' \
                  f'{impl[2]!r}; model: {"a list" if kind == "L" else "a number"}, shape {msh}, unit {mu!r}'
        elif set(impl[4]) != {'value'} | ({'shape'} if msh is not None else set()) | ({'unit'} if mu is not None else set()):
            bad = f'keys {impl[4]}'
        elif len(mv) != len(impl[3]) or any(abs(Fraction(a) - b) > Fraction(_tol(b, e + 1)) for a, b in zip(impl[3], mv)):
            bad = f'values {impl[3]} != model {[float(x) for x in mv]}'
        if bad:
            ctx.disagree('model', f'uc.model({xs} as {form} of shape {shape}, {s!r}) after {_cfg_str(cfg)}: {bad}', rep)
            continue
        # value_unit on what model wrote (exactly those numbers), as DataModelDict and as a plain dict; and on edited terms
        terms = [(m, 'model output'), (dict(m), 'plain dict')]
        if rng.random() < 0.5:
            d = dict(m)
            d['shape'] = rng.choice([[cnt], [1, cnt], [cnt, 1], [cnt + 1], [2, 2], []])
            terms.append((d, 'edited shape'))
        if rng.random() < 0.3 and 'unit' in m:
            d = dict(m)
            del d['unit']
            terms.append((d, 'unit removed'))
        for term, what in terms:
            tv = term['value']
            flat = [float(x) for x in (tv if isinstance(tv, list) else [tv])]
            tsh = term.get('shape', None)
            if tsh is not None and len(tsh) == 0:
                continue          # an empty shape list: reshape(()) of a one-element list; not a form `model` writes
            tu = term.get('unit', None)
            try:
                r = np.asarray(_timed(uc.value_unit, term))
                impl2 = (list(r.shape), [float(x) for x in r.flatten()]) if np.isfinite(r).all() else 'err'
            except Hang:
                raise
            except Exception:  # noqa
                impl2 = 'err'
            o2 = ctx.driver.ask(f'valunit {"L" if isinstance(tv, list) else "S"} '
                                f'{",".join(map(str, tsh)) if tsh is not None else "-"} {_cpn(tu) if tu is not None else "-"} '
                                f'{len(flat)} ' + ' '.join(cm.fr(x) for x in flat))
            ctx.stats.case('value_unit', (_cfg_str(cfg), what, s, tuple(flat), tuple(tsh or ())),
                           nontrivial=not o2.startswith('err:'))
            rep2 = {'op': 'valunit', 'cfg': cfg, 'term': {k: term[k] for k in term}}
            if o2 == 'err:size':
                continue
            if impl2 == 'err' or o2.startswith('err:'):
                if not (impl2 == 'err' and o2.startswith('err:')):
                    ctx.disagree('value_unit', f'uc.value_unit({dict(term)!r}) [{what}] after {_cfg_str(cfg)}: implementation '
                                 f'{impl2}, model {o2}', rep2)
                continue
            h2, _, b2 = o2.partition(' | ')
            sh2 = [] if h2.strip() == '-' else [int(x) for x in h2.strip().split(',')]
            mv2 = cm.unfrs(b2) if b2.strip() else []
            if sh2 != impl2[0] or len(mv2) != len(impl2[1]) or any(
                    abs(Fraction(a) - b) > Fraction(_tol(b, e + 1)) for a, b in zip(impl2[1], mv2)):
                ctx.disagree('value_unit', f'uc.value_unit({dict(term)!r}) [{what}] after {_cfg_str(cfg)}: implementation '
                             f'shape {impl2[0]} values {impl2[1]}, model shape {sh2} values {[float(x) for x in mv2]}', rep2)


def _sync(ctx, cfg):
    """real module and model driver in the same working-unit configuration."""
    scales = _apply(cfg)
    ctx.driver.ask('scales ' + ' '.join(cm.fr(x) for x in scales))
    return scales


def _corr_styles(ctx, uc):
    """the running atomman.lammps.style.unit against the generated tables; dimension of each entry by the model."""
    import atomman.lammps as lmp
    _sync(ctx, {'kind': 'named', 'kw': dict(DEFAULT_KW)})
    n = int(ctx.driver.ask('nstyles'))
    gen = {}
    for i in range(n):
        toks = ctx.driver.ask(f'style {i}').split()
        ents = [(toks[2 + 2 * j].replace('_', ' '), _uncpn(toks[3 + 2 * j])) for j in range(int(toks[1]))]
        gen[toks[0]] = (i, ents)
    if sorted(gen) != sorted(STYLES):
        ctx.disagree('style:names', f'generated styles {sorted(gen)}', {'op': 'style'})
        return
    for st in STYLES:
        real = lmp.style.unit(st)
        ents = [(k, v) for k, v in real.items() if v is not None]
        i, g = gen[st]
        ctx.stats.case('style-table', st, nontrivial=st != 'lj')
        if ents != g:
            ctx.disagree('style:table', f'style.unit({st!r}) differs from the generated table: '
                         f'{[x for x in ents if x not in g][:3]} vs {[x for x in g if x not in ents][:3]}',
                         {'op': 'style', 'style': st})
            continue
        if ctx.driver.ask(f'styleok {i}') != '1':
            ctx.disagree('style:dims', f'styleDimsOK is false for style {st!r}', {'op': 'style', 'style': st})
        outs = ctx.driver.ask_many(['dim ' + _cps(v) for _, v in ents])
        pouts = ctx.driver.ask_many(['parse ' + _cps(v) for _, v in ents])
        for (label, expr), out, pout in zip(ents, outs, pouts):
            ctx.stats.case('style-entry', (st, label, expr), sample={'style': st, 'label': label, 'unit': expr})
            if label in LABEL_DIM:
                want = ' '.join(str(x) for x in LABEL_DIM[label])
                if out.startswith('err:') or ' '.join(out.split()[:5]) != want:
                    ctx.disagree('style:entry-dim', f'style {st!r}: {label!r} = {expr!r} has model dimension {out}, '
                                 f'label dimension {want}', {'op': 'style', 'style': st, 'label': label})
            msg = _cmp_val(_real_parse(uc, expr), pout, lambda mv: Fraction(_tol(mv, 8 * EU)))
            if msg:
                ctx.disagree('style:entry-value', f'style {st!r}: uc.parse({expr!r}): {msg}',
                             {'op': 'parse', 'cfg': None, 'string': expr})
    for bad in ('SI', 'Metal', '', 'lj '):
        try:
            lmp.style.unit(bad)
            ctx.disagree('style:unknown', f'style.unit({bad!r}) accepted', {'op': 'style', 'style': bad})
        except ValueError:
            pass


# ----------------------------------------------------------------------------------------
# sessions: sequences of working-unit configurations in ONE process, the same expression strings re-evaluated after
# every change (spelled identically: anything the module remembers about a string is hit; spelled as never before:
# it is missed), configurations differing in exactly one base quantity, all ordered pairs of a core list
# ----------------------------------------------------------------------------------------
POOL_SRC = ['m', 'kg', 's', 'C', 'K', 'angstrom', 'nm', 'amu', 'g', 'ps', 'fs', 'e', 'uC', 'mK', 'eV', 'J', 'N', 'Pa',
            'GPa', 'V', 'A', 'ohm', 'F', 'T', 'kB', 'hbar', 'eps0', 'mu0', 'Rgas', 'sigmaSB', 'debye', 'Hartree', 'aBohr',
            'e*angstrom', 'C*m', 'V/angstrom', 'N/C', 'e^2/(eps0*angstrom)', 'kB*K', 'eV/K', 'kB*mK/eV', 'J/(kg*K)',
            'W/(m*K)', 'kg*m^2/s^2', 'amu*angstrom^2/ps^2', '(eV/angstrom^3)', 'C^2*s^2/(kg*m^3)', 'A*s', 'C/kg', 'e/amu',
            'V*s/m^2', 'K^-1', '2*K^2', 'm^-1*s', 'g/cm^3', 'amu/angstrom^3', 'angstrom/ps', 'm/s', 'kg*m/s^2', 'dyn',
            '(C)', ' C ', 'C^2', '1/C', '1/K', 'K*K', 's^-2', 'kg^-1', 'm^3', '2^3', '10', 'eV*s', 'hbar/ps', '(m)', '(kg)',
            '(s)', '(K)', 'e*V', 'uC/e', 'mK/K', '1.5 * ( kB * K ) / eV', 'J/s', 'W', 'kg/s', 'm*kg', 'K*C', 'm*s*kg*C*K',
            # non-integer exponents, literal and parenthesised, below and above one, both signs, every base dimension
            'm^1.5', 'cm^1.5', 'm^(3/2)', 'm*m^0.5', 'angstrom^1.5', 'nm^(3/2)', '(m^3)^0.5', 'MPa*m^0.5', 'Pa*mm^0.5',
            'GPa*nm^1.5', 'MPa*m^(1/2)', 'kg/(m^0.5*s^2)', 'N/m^1.5', 's^-1.5', 'ps^(-3/2)', 's^-0.5', 'Hz^0.5', 'kg^0.5',
            'amu^(1/2)', 'g^.5', 'C^1.5', 'e^(3/2)', 'C^-0.5', 'e^-.5', 'K^0.5', 'mK^(1/2)', 'K^2.5', 'K^(5/2)',
            'eV^0.5', 'J^(1/2)', 'm^(1/3)', 'angstrom^(1/3)', 'm^-2.5', 'nm^(-5/2)', 'kg^1.5', 'amu^(3/2)', 's^2.5',
            'fs^(5/2)', '(eV/angstrom^3)^0.5', 'GPa^(1/2)', 'm^0.25', 'angstrom^(1/4)', '2^0.5', '4^0.5', '2^-1.5']
K_NAMES = ['K', 'mK', 'uK', 'nK']
_FRESH = [0]


def _fresh_ws():
    """a run of blanks no earlier call of this process has used (positional notation over the four blanks)."""
    _FRESH[0] += 1
    n, out = _FRESH[0], ''
    while n:
        out += WS[n % 4]
        n //= 4
    return out


class _Pool:
    """expression strings covering every base dimension alone and in combination; `items` = (string, tree, dimension,
    exact SI value, rounding bound).  Fixed list + names drawn per run from the table by kind."""

    def __init__(self, rng, t):
        src = list(POOL_SRC)
        for kd in KINDS:
            src += rng.sample(t.by_kind[kd], 2)
        src += rng.sample(K_NAMES, 2)
        for _ in range(12):
            tree = gen_tree(rng, rng.choice([1, 2, 3]), t.names)
            src.append(render(rng, tree, 2, messy=rng.choice([0.0, 0.4]), extra=rng.choice([0.0, 0.2])))
        self.items = []
        seen = set()
        for x in src:
            tree = shadow_parse(x)
            if tree is None or x in seen:
                continue
            try:
                v, d, e = ev(tree, t.si, t.dims, EU)
            except (Outside, EvalErr):
                continue
            if v == 0:
                continue
            seen.add(x)
            self.items.append((x, tree, tuple(d), v, e))
        for i in range(5):
            pure = [it for it in self.items if it[2][i] != 0 and sum(1 for y in it[2] if y) == 1]
            mixed = [it for it in self.items if it[2][i] != 0 and sum(1 for y in it[2] if y) > 1]
            if len(pure) < 3 or len(mixed) < 3:
                raise cm.InfraError(f'harness self-check: the session pool does not cover base dimension {BASE[i]}')
        self.by_dim = {}
        for it in self.items:
            self.by_dim.setdefault(it[2], []).append(it)
        self.pairs = [(a, b) for grp in self.by_dim.values() if len(grp) > 1 for a in grp for b in grp if a is not b]


def _L(**kw):
    return {'kind': 'named', 'kw': kw}


def core_configs():
    """named configurations such that for every base quantity (m, kg, s, C — and J, which moves the one base unit the
    other keywords leave free) two members differ in that quantity alone; charge named / absent / SI by name; SI;
    seeds; numericalunits set directly (the only way to move K alone)."""
    a, u, p, e = 'angstrom', 'amu', 'ps', 'e'
    ang = 1e10
    return [
        _L(length=a, mass=u, energy='eV', charge=e),            # the atomman default
        _L(length=a, mass=u, energy='eV', charge='C'),          # charge alone differs
        _L(length=a, mass=u, energy='eV'),                      # charge absent (same scalings as the previous one)
        _L(length=a, mass=u, energy='J', charge=e),             # energy alone differs: only s moves
        _L(length=a, mass=u, time=p, charge=e),
        _L(length='nm', mass=u, time=p, charge=e),              # only m
        _L(length=a, mass='g', time=p, charge=e),               # only kg
        _L(length=a, mass=u, time='fs', charge=e),              # only s
        _L(length=a, mass=u, time=p, charge='uC'),              # only C
        _L(length=a, mass=u, time=p),                           # charge absent
        _L(length='m', mass='kg', time='s', charge='C'),        # SI by name
        _L(length=a, time=p, energy='eV', charge=e),            # energy fixes the mass unit
        _L(length=a, time=p, energy='J', charge=e),             # only kg moves
        _L(mass=u, time=p, energy='eV', charge=e),              # energy fixes the length unit
        _L(mass=u, time=p, energy='J', charge=e),               # only m moves
        _L(charge='e'), _L(energy='eV'),
        {'kind': 'SI'}, {'kind': 'SI-kw'}, {'kind': 'random'},
        {'kind': 'seed', 'seed': 12345}, {'kind': 'seed-kw', 'seed': 54321},
        {'kind': 'direct', 'scales': [ang, 6.0221407e26, 1e12, 1.0, 1.0]},
        {'kind': 'direct', 'scales': [ang, 6.0221407e26, 1e12, 1.0, 1000.0]},     # only K
        {'kind': 'direct', 'scales': [1.0, 1.0, 1.0, 1.0, 0.25]},                # SI but for K
    ]


def euler_walk(n):
    """closed walk through every ordered pair (i, j), i != j, of range(n) exactly once (Hierholzer)."""
    if n < 2:
        return list(range(n))
    nxt = {i: [j for j in range(n) if j != i] for i in range(n)}
    stack, out = [0], []
    while stack:
        v = stack[-1]
        if nxt[v]:
            stack.append(nxt[v].pop())
        else:
            out.append(stack.pop())
    return out[::-1]


def pair_walk(n):
    """A B A B for every unordered pair: both directions and both returns (A -> B -> A, B -> A -> B) consecutively."""
    out = []
    for i in range(n):
        for j in range(i + 1, n):
            out += [i, j, i, j]
    return out


def one_key_walk(rng, t, steps, refusals=False):
    """random walk over working-unit configurations changing exactly ONE keyword per step (another name of the kind,
    keyword dropped, keyword added), with excursions: SI, a seed, the temperature unit alone (numericalunits set
    directly), a reset that raises half-way (unknown name: leaves SI) and a refused one (five keywords: leaves the
    state alone)."""
    kw = dict(DEFAULT_KW)
    out = [{'kind': 'named', 'kw': dict(kw)}]
    while len(out) < steps:
        r = rng.random()
        if r < 0.06:
            out.append({'kind': rng.choice(['SI', 'SI', 'SI-kw'])})
        elif r < 0.12:
            out.append(rng.choice([{'kind': 'seed', 'seed': rng.randrange(1, 10 ** 6)}, {'kind': 'random'},
                                   {'kind': 'seed-kw', 'seed': rng.randrange(1, 10 ** 6)}]))
        elif r < 0.18:
            out.append({'kind': 'direct-k', 'k': rng.choice([0.25, 4.0, 1000.0, 1e-3, 3.0])})
        elif r < 0.22:
            bad = dict(kw)
            bad[rng.choice(list(bad))] = rng.choice(['nounit', 'Angstrom', 'EV', ''])
            out.append({'kind': 'fail', 'kw': bad, 'leaves': 'SI'})
        elif r < 0.25:
            out.append({'kind': 'fail', 'kw': {k: rng.choice(t.by_kind[k]) for k in KINDS}, 'leaves': 'same'})
        elif r < 0.31 and refusals:      # (search only: the session model's call alphabet has the five keywords only)
            out.append(gen_refusal(rng, t, rng.choice(REFUSAL_KINDS)))
        elif r < 0.33 and len(out) >= 2 and out[-2]['kind'] in ('named', 'SI', 'seed', 'SI-kw', 'seed-kw'):
            out.append(dict(out[-2]))               # there and back
            if out[-1]['kind'] == 'named':
                kw = dict(out[-1]['kw'])
        else:
            for _ in range(50):
                new = dict(kw)
                k = rng.choice(KINDS)
                if k in new and rng.random() < 0.25 and len(new) > 1:
                    del new[k]
                else:
                    if k not in new and len(new) >= 4:
                        continue
                    new[k] = rng.choice([n for n in t.by_kind[k] if n != new.get(k)])
                if new != kw and in_float_range(predict_scales(new, t.si), t):
                    kw = new
                    out.append({'kind': 'named', 'kw': dict(kw)})
                    break
    return out


REFUSAL_KINDS = ['five', 'five-unknown-name', 'five-wrong-kind', 'five-empty-name', 'unknown-keyword', 'six',
                 'seed+one', 'seed+four', 'seed+five', 'SI+named', 'positional-seed+named']


def gen_refusal(rng, t, why):
    """one call of reset_units that the documentation REFUSES (`Raises ValueError: If seed is given with any other parameters,
    or if more than four of the working unit parameters are given`), of the given kind: five keywords (valid names; an unknown /
    empty / wrong-kind name among them), more than four keywords one of which is no working-unit keyword, six keywords, a seed
    (int, 'SI', positional or by keyword) next to 1 .. 5 keywords.  The keywords come in a random order."""
    five = {k: rng.choice(t.by_kind[k]) for k in KINDS}
    cfg = {'kind': 'refuse', 'why': why}
    if why == 'five':
        kw = five
    elif why == 'five-unknown-name':
        kw = dict(five)
        kw[rng.choice(KINDS)] = rng.choice(['nounit', 'Angstrom', 'EV', 'metre', 'angstroms'])
    elif why == 'five-empty-name':
        kw = dict(five)
        kw[rng.choice(KINDS)] = ''
    elif why == 'five-wrong-kind':
        kw = dict(five)
        a, b = rng.sample(KINDS, 2)
        kw[a] = rng.choice(t.by_kind[b])
    elif why == 'unknown-keyword':
        kw = {k: five[k] for k in rng.sample(KINDS, 4)}
        kw[rng.choice(['temperature', 'lenght', 'Length', 'force', 'pressure'])] = rng.choice(['K', 'nm', 'GPa', 'nounit'])
        cfg['documented'] = False      # four working-unit parameters and a foreign one: refused by the code (five keywords); the
        #                                documentation speaks of "more than four of the working unit parameters" — only "IF it is
        #                                refused nothing changes" is claimed
    elif why == 'six':
        kw = dict(five)
        kw[rng.choice(['temperature', 'pressure', 'force'])] = rng.choice(['K', 'GPa', 'nN'])
    else:
        n = {'seed+one': 1, 'seed+four': 4, 'seed+five': 5, 'SI+named': rng.choice([1, 2, 3, 4]),
             'positional-seed+named': rng.choice([1, 2, 3, 4])}[why]
        for _ in range(50):
            ks = rng.sample(KINDS, n)
            if not _over(ks):
                break
        kw = {k: five[k] for k in ks}
        cfg['seed'] = 'SI' if why == 'SI+named' else rng.choice([0, rng.randrange(1, 10 ** 6), rng.randrange(1, 10 ** 6)])
        cfg['positional'] = why == 'positional-seed+named' or rng.random() < 0.3
    keys = list(kw)
    rng.shuffle(keys)
    cfg['kw'] = {k: kw[k] for k in keys}
    return cfg


def refusal_tour(rng, t):
    """every kind of refused call after each of several kinds of working-unit state: named (4, 3, 1 keywords), SI, a seed,
    the temperature unit moved alone — base configuration, then the refused calls one after the other (each is evaluated
    against the state the base configuration left)."""
    def named(n):
        for _ in range(200):
            ks = rng.sample(KINDS, n)
            kw = {k: rng.choice(t.by_kind[k]) for k in ks}
            if not _over(ks) and in_float_range(predict_scales(kw, t.si), t):
                return {'kind': 'named', 'kw': kw}
        return {'kind': 'named', 'kw': dict(DEFAULT_KW)}
    bases = [{'kind': 'named', 'kw': dict(DEFAULT_KW)}, {'kind': 'named', 'kw': dict(length='nm', mass='amu', energy='eV', charge='e')},
             named(4), named(3), named(rng.choice([1, 2])), {'kind': 'seed', 'seed': rng.randrange(1, 10 ** 6)}, {'kind': 'SI'},
             {'kind': 'direct-k', 'k': rng.choice([0.25, 1000.0])}]
    out = []
    for b in bases:
        out.append(b)
        kinds = list(REFUSAL_KINDS)
        rng.shuffle(kinds)
        out += [gen_refusal(rng, t, why) for why in kinds]
    return out


def _apply_any(cfg, uc):
    """like _apply, plus numericalunits set directly followed by build_unit() and the failing resets.
    -> ('ok', scales) | ('raised', exception) """
    import numericalunits as nu
    k = cfg['kind']
    try:
        if k == 'direct':
            sc = list(cfg['scales'])
            for b, v in zip(BASE, sc):
                setattr(nu, b, float(v))
            nu.set_derived_units_and_constants()
            _timed(uc.build_unit)
            return 'ok', sc
        if k == 'fail':
            _timed(uc.reset_units, **cfg['kw'])
            return 'ok', [float(getattr(nu, b)) for b in BASE]
        if k == 'refuse':
            if 'seed' not in cfg:
                _timed(uc.reset_units, **cfg['kw'])
            elif cfg.get('positional'):
                _timed(uc.reset_units, cfg['seed'], **cfg['kw'])
            else:
                _timed(uc.reset_units, seed=cfg['seed'], **cfg['kw'])
            return 'ok', [float(getattr(nu, b)) for b in BASE]
        return 'ok', _apply(cfg)
    except Exception as e:  # noqa
        return 'raised', e


def _cfg_str_any(cfg):
    if cfg['kind'] == 'direct':
        return 'numericalunits (m, kg, s, C, K) = %r; build_unit()' % (tuple(cfg['scales']),)
    if cfg['kind'] == 'fail':
        return 'reset_units(' + ', '.join(f'{k}={v!r}' for k, v in cfg['kw'].items()) + ') [raises]'
    if cfg['kind'] == 'refuse':
        args = ([repr(cfg['seed']) if cfg.get('positional') else f"seed={cfg['seed']!r}"] if 'seed' in cfg else []) \
            + [f'{k}={v!r}' for k, v in cfg['kw'].items()]
        return 'reset_units(' + ', '.join(args) + ') [refused]'
    return _cfg_str(cfg)


def _claims_one(cfg):
    """named, <= 4 keywords, not over-determined: the property's 'each chosen unit is one'."""
    return cfg['kind'] == 'named' and 0 < len(cfg['kw']) <= 4 and not _over(cfg['kw'])


def _table_bound(d):
    """unit[name] = const * prod(base^dim): EU roundings inside numericalunits, each base scaling within 24 roundings
    of its exact value (reset_units: a division, the energy branch, one square root), one pow and one product per
    base unit."""
    return (EU + 4 + 26 * sum(abs(x) for x in d)) * U


class _Session:
    """the running history of one process: what was applied (for messages and replays)."""

    def __init__(self, ctx, uc, pool, mode):
        self.ctx, self.uc, self.pool, self.mode = ctx, uc, pool, mode
        self.trail = []          # configurations applied so far
        self.t = _tab()
        self.terms = {}          # set_literal terms spelled once and re-used: string -> (value literal, pool item)
        self.reported = set()
        self.slack = 0.0         # roundings (per unit of |dim|) by which the model's scalings may differ from the real ones

    # -- helpers -------------------------------------------------------------------------------------------------
    def _hist(self):
        return ' -> '.join(_cfg_str_any(c) for c in self.trail[-3:])

    def _replay(self, strings):
        return {'op': 'session', 'steps': self.trail[-3:], 'strings': list(strings)[:6]}

    def _viol(self, key, what, strings=()):
        if (key, 'v') in self.reported:
            return
        self.reported.add((key, 'v'))
        self.ctx.violate(key, what + f'   [session: {self._hist()}]', self._replay(strings))

    def _dis(self, key, what, strings=()):
        if (key, 'd') in self.reported:
            return
        self.reported.add((key, 'd'))
        self.ctx.disagree(key, what + f'   [session: {self._hist()}]', self._replay(strings))

    def expected_scales(self, cfg, prev):
        """what the configuration demands of (m, kg, s, C, K), independent of the module: named -> predict_scales, SI ->
        ones, direct -> as given, failing resets -> SI / unchanged; seeds -> None (numericalunits chooses)."""
        k = cfg['kind']
        if k == 'named':
            return predict_scales(cfg['kw'], self.t.si)
        if k in ('SI', 'SI-kw'):
            return [1.0] * 5
        if k == 'direct':
            return list(cfg['scales'])
        if k == 'fail':
            return [1.0] * 5 if cfg['leaves'] == 'SI' else prev
        if k == 'refuse':
            return prev
        return None

    # -- one step ------------------------------------------------------------------------------------------------
    def step(self, cfg, rng, prev_scales, n_fresh, n_pairs):
        """apply `cfg`, then evaluate the pool. -> scalings believed to be in force (or None)."""
        ctx, uc, t = self.ctx, self.uc, self.t
        np = _np()
        if cfg['kind'] == 'direct-k':         # the temperature unit alone: absolute form of "as now, but K"
            if prev_scales is None:
                return None
            cfg = {'kind': 'direct', 'scales': [float(x) for x in prev_scales[:4]] + [cfg['k']]}
        self.trail.append(cfg)
        sentinel = self._sentinel_before(rng) if self.mode == 'search' else None
        refused = cfg['kind'] == 'refuse' or (cfg['kind'] == 'fail' and cfg.get('leaves') == 'same')
        before = self._refusal_before(rng) if refused and self.mode == 'search' else None
        status, got = _apply_any(cfg, uc)
        if before is not None:
            self._refusal_after(cfg, before, status, got)
        ctx.stats.case(self.mode + ':session-step', (len(self.trail), _cfg_str_any(cfg)),
                       sample={'cfg': _cfg_str_any(cfg), 'after': _cfg_str_any(self.trail[-2]) if len(self.trail) > 1 else None})
        want_sc = self.expected_scales(cfg, prev_scales)
        if cfg['kind'] in ('fail', 'refuse'):
            if status != 'raised' and self.mode == 'corr':
                self._dis('session:reset-accepted', f'{_cfg_str_any(cfg)} is accepted')
            if status != 'raised' and refused:
                return None                    # (reported by _refusal_after; the state is whatever the accepted call made of it)
        elif status == 'raised':
            (self._viol if self.mode == 'search' else self._dis)(
                'session:reset-raises', f'{_cfg_str_any(cfg)} raises {type(got).__name__}: {got}')
            return None
        if cfg['kind'] in ('seed', 'seed-kw', 'random'):
            want_sc = got                      # numericalunits' own choice
        real = {k: float(v) for k, v in uc.unit.items()}
        vals = {k: Fraction(v) for k, v in real.items()}
        if self.mode == 'search':
            self._sentinel_after(cfg, sentinel, vals)
            # the state a reset that fails HALF-WAY leaves (unknown name: KeyError after the SI baseline was installed) is the
            # model's business (correspondence), not a clause of the property; a REFUSED call (ValueError before anything is
            # done) is no choice of working units: the ones in force before are still in force (want_sc = prev_scales)
            self._oracle(cfg, rng, None if (cfg['kind'] == 'fail' and not refused) else want_sc, real, vals, n_fresh, n_pairs, np)
        else:
            self._model(cfg, rng, want_sc, got if status == 'ok' else None, real, vals, n_fresh, n_pairs, np)
        return want_sc

    # -- a refused call changes nothing ------------------------------------------------------------------------------
    def _last_choice(self):
        """the keywords of the last successful named choice still in force (the units that must be one), or {}."""
        for c in reversed(self.trail[:-1]):
            if c['kind'] in ('refuse',) or (c['kind'] == 'fail' and c.get('leaves') == 'same'):
                continue
            return dict(c['kw']) if _claims_one(c) else {}
        return {}

    def _refusal_before(self, rng):
        """the state a refused call must leave alone: the whole unit table, numericalunits' base units, and values stored
        (converted to working units) before the call — to be read back after it."""
        import numericalunits as nu
        np = _np()
        uc = self.uc
        table = {k: float(v) for k, v in uc.unit.items()}
        vals = {k: Fraction(v) for k, v in table.items()}
        ok = self._inside(vals)
        items = [it for it in self.pool.items if it[0] in ok and any(it[2])]
        stored = []
        for it in rng.sample(items, min(5, len(items))):
            x = rng.choice([2.5, 1.0, cm.dyadic(rng, -8, 8, 3) or 0.5, rng.uniform(-100, 100)])
            if not _mag_ok(Fraction(x) * ok[it[0]][0]):
                continue
            try:
                w = float(_timed(uc.set_in_units, x, it[0]))
                lit = float(_timed(uc.set_literal, repr(x) + ' ' + it[0].strip()))
                p = _real_parse(uc, it[0])
            except Exception:  # noqa
                continue
            stored.append((it, x, w, lit, p))
        return {'table': table, 'base': [float(getattr(nu, b)) for b in BASE], 'stored': stored, 'chosen': self._last_choice()}

    def _refusal_after(self, cfg, before, status, got):
        import numericalunits as nu
        uc, ctx = self.uc, self.ctx
        label = _cfg_str_any(cfg)
        last = next((c for c in reversed(self.trail[:-1]) if not (c['kind'] == 'refuse' or c['kind'] == 'fail' and c.get('leaves') == 'same')), None)
        prior = _cfg_str_any(last) if last is not None else 'the state the process was in'
        ctx.stats.case('oracle:session-refusal', (len(self.trail), label), sample={'call': label, 'after': prior})
        if status == 'raised' and isinstance(got, Hang):
            return
        if status != 'raised' and not cfg.get('documented', True):
            return
        if status != 'raised':
            self._viol('session:refusal-removed', f'{label} is accepted; the documentation refuses it (ValueError: seed given with '
                       f'other parameters / more than four working units)')
            return
        if not isinstance(got, ValueError):
            self._viol('session:refusal-kind', f'{label} raises {type(got).__name__}: {got}; the documented refusal is a ValueError '
                       f'(raised before anything is looked up or changed)')
        # the whole unit table, bit for bit
        now = {k: float(v) for k, v in uc.unit.items()}
        if now != before['table']:
            ch = sorted(k for k in set(now) | set(before['table']) if now.get(k) != before['table'].get(k))
            first = [n for n in before['chosen'].values() if n in ch] + [n for n in ('angstrom', 'nm', 'm', 'eV', 'J', 'amu', 's') if n in ch] + ch
            n = first[0]
            self._viol('session:refused-call-changes-units', f'{label} raises {type(got).__name__} ({got}) but changes the working units: '
                       f'{len(ch)} of {len(now)} entries of uc.unit differ, e.g. unit[{n!r}] was {before["table"].get(n)!r} (after {prior}) and is '
                       f'now {now.get(n)!r}', [n])
        base = [float(getattr(nu, b)) for b in BASE]
        if base != before['base']:
            self._viol('session:refused-call-changes-units', f'{label} raises {type(got).__name__} ({got}) but changes numericalunits\' base '
                       f'units (m, kg, s, C, K) from {before["base"]} to {base}')
        # each unit chosen by the last successful call is still one
        for k, n in before['chosen'].items():
            ctx.stats.case('oracle:session-refusal-chosen', (len(self.trail), n))
            try:
                v = float(uc.unit[n])
            except Exception as ex:  # noqa
                v = f'{type(ex).__name__}: {ex}'
            if isinstance(v, str) or not abs(v - 1.0) <= 64 * U:
                self._viol('session:refused-call-changes-chosen', f'after {prior} and the refused {label}, uc.unit[{n!r}] = {v!r}, not 1 '
                           f'({k}={n!r} is still the chosen unit: the refused call chose nothing)', [n])
        # values stored before the call read back; expressions still have the value they had
        for it, x, w, lit, p in before['stored']:
            ctx.stats.case('oracle:session-refusal-readback', (len(self.trail), it[0], x))
            s = it[0]
            reads = [('get_in_units(w, %r) with w = set_in_units(%r, %r) stored before the call' % (s, x, s),
                      lambda: float(_timed(uc.get_in_units, w, s)), x, 4 + 2 * it[4]),
                     ('get_in_units(w, %r) with w = set_literal(%r) stored before the call' % (s, repr(x) + ' ' + s.strip()),
                      lambda: float(_timed(uc.get_in_units, lit, s)), x, 4 + 2 * it[4]),
                     ('set_in_units(%r, %r)' % (x, s), lambda: float(_timed(uc.set_in_units, x, s)), w, 0),
                     ('parse(%r)' % s, lambda: _real_parse(uc, s), p, 0)]
            for what, f, want, e in reads:
                try:
                    g = f()
                except Exception as ex:  # noqa
                    g = f'{type(ex).__name__}: {ex}'
                if isinstance(g, str) or g != g or not abs(g - want) <= e * U * abs(want):
                    self._viol('session:refused-call-changes-stored-value', f'after {prior}, then the refused {label}: uc.{what} gives '
                               f'{g!r}, expected {want!r} (the value it had before the refused call)', [s])
                    break

    # -- last call before / first call after a change of working units --------------------------------------------------
    def _sentinel_before(self, rng):
        """the LAST call into each entry point before the working units change uses the string that the FIRST call
        after the change will use (a one-entry "same as last time" shortcut is hit only this way)."""
        it = rng.choice([x for x in self.pool.items if any(x[2])])
        for f in (lambda: self.uc.parse(it[0]), lambda: self.uc.set_in_units(1.5, it[0]),
                  lambda: self.uc.get_in_units(1.5, it[0]), lambda: self.uc.set_literal('1.5 ' + it[0].strip())):
            try:
                _timed(f)
            except Exception:  # noqa
                pass
        return it

    def _sentinel_after(self, cfg, it, vals):
        if it is None:
            return
        try:
            v, _, e = ev(it[1], vals, None, 0.0)
        except (Outside, EvalErr):
            return
        if v == 0:
            return
        uc = self.uc
        calls = [('parse(%r)' % it[0], lambda: uc.parse(it[0]), v),
                 ('set_in_units(1.5, %r)' % it[0], lambda: float(uc.set_in_units(1.5, it[0])), Fraction(3, 2) * v),
                 ('get_in_units(1.5, %r)' % it[0], lambda: float(uc.get_in_units(1.5, it[0])), Fraction(3, 2) / v),
                 ('set_literal(%r)' % ('1.5 ' + it[0].strip()), lambda: float(uc.set_literal('1.5 ' + it[0].strip())),
                  Fraction(3, 2) * v)]
        for label, f, want in calls:
            self.ctx.stats.case('oracle:session-first-call', (len(self.trail), label))
            if not _mag_ok(want):
                continue
            try:
                g = _timed(f)
            except Exception as ex:  # noqa
                g = f'{type(ex).__name__}: {ex}'
            if isinstance(g, str) or g != g or not abs(Fraction(g) - want) <= Fraction(_tol(want, e + 2)):
                self._viol('session:first-call', f'the first call after {_cfg_str_any(cfg)}, uc.{label}, returns {g!r}; it is '
                           f'{_f(want)!r} with the units now in force (the same call was the last one before the change)', [it[0]])

    def _inside(self, vals):
        """pool items whose exact intermediate values stay inside the double range under the table now in force:
        item string -> (exact value, rounding bound)."""
        ok = {}
        for it in self.pool.items:
            try:
                v, _, e = ev(it[1], vals, None, 0.0)
            except (Outside, EvalErr):
                continue
            ok[it[0]] = (v, e)
        return ok

    def _spellings(self, rng, n_fresh, ok):
        """(item, string, cached?) : every pool item as first spelled, plus n_fresh items spelled as never before."""
        items = [it for it in self.pool.items if it[0] in ok]
        out = [(it, it[0], True) for it in items]
        for it in rng.sample(items, min(n_fresh, len(items))):
            out.append((it, render(None, it[1], 2, wsfix=_fresh_ws()), False))
        return out

    def _literal_terms(self, rng, n, ok):
        """'value unit' terms: a few spelled once per process and re-used at every step, a few new ones."""
        return [x for x in self._literal_terms0(rng, n) if x[2][0] in ok]

    def _literal_terms0(self, rng, n):
        out = []
        if len(self.terms) < 12:
            for it in rng.sample(self.pool.items, 12):
                value = rng.choice(VALUE_LITS + LIST_LITS[:6])
                self.terms.setdefault(value + ' ' + it[0].strip(), (value, it))
        for term, (value, it) in list(self.terms.items())[:n]:
            out.append((term, value, it))
        for it in rng.sample(self.pool.items, 2):
            value = rng.choice(VALUE_LITS)
            out.append((value + ' ' + render(None, it[1], 2, wsfix=_fresh_ws()), value, it))
        return out

    # -- the property's clauses on the real code -------------------------------------------------------------------
    def _oracle(self, cfg, rng, want_sc, real, vals, n_fresh, n_pairs, np):
        try:
            self._oracle_reads(cfg, rng, want_sc, real, vals, n_fresh, n_pairs, np)
        finally:
            # reads must not write: the table (and numericalunits' base units) are what the configuration left
            import numericalunits as nu
            now = {k: float(v) for k, v in self.uc.unit.items()}
            if now != real:
                ch = sorted(k for k in set(now) | set(real) if now.get(k) != real.get(k))
                self._viol('session:read-writes', f'evaluating expressions after {_cfg_str_any(cfg)} changed uc.unit: '
                           f'{len(ch)} entries, e.g. unit[{ch[0]!r}] {real.get(ch[0])!r} -> {now.get(ch[0])!r}', ch[:3])

    def _oracle_reads(self, cfg, rng, want_sc, real, vals, n_fresh, n_pairs, np):
        ctx, uc, t = self.ctx, self.uc, self.t
        ok = self._inside(vals)
        def clause_table():
            # (a) the table is const * prod(base^dim) for the scalings this configuration demands
            if want_sc is not None and all(x > 0 for x in want_sc):
                for n, d in t.dims.items():
                    pred = float(t.si[n]) * math.prod(x ** k for x, k in zip(want_sc, d))
                    r = real.get(n)
                    if r is None or not abs(r - pred) <= _table_bound(d) * abs(pred):
                        self._viol('session:unit-table', f'unit[{n!r}] = {r!r} after {_cfg_str_any(cfg)}; with base units '
                                   f'(m, kg, s, C, K) = {want_sc} it is {pred!r}', [n])
                        break
        def clause_chosen():
            # (b) each chosen unit is one — through every way of reading a unit
            if _claims_one(cfg):
                for k, n in cfg['kw'].items():
                    ctx.stats.case('oracle:session-chosen', (len(self.trail), n))
                    reads = {'unit[%r]' % n: lambda: uc.unit[n], 'parse(%r)' % n: lambda: _timed(uc.parse, n),
                             'set_in_units(1.0, %r)' % n: lambda: float(_timed(uc.set_in_units, 1.0, n)),
                             'get_in_units(1.0, %r)' % n: lambda: float(_timed(uc.get_in_units, 1.0, n)),
                             'set_literal(%r)' % ('1 ' + n): lambda: float(_timed(uc.set_literal, '1 ' + n))}
                    for label, f in reads.items():
                        try:
                            v = f()
                        except Exception as ex:  # noqa
                            v = f'{type(ex).__name__}: {ex}'
                        if isinstance(v, str) or not abs(v - 1.0) <= 64 * U:
                            self._viol('session:chosen-one', f'after {_cfg_str_any(cfg)} uc.{label} = {v!r}, not 1', [n])
        def clause_parse():
            # (c) every expression has the value the ordinary grammar gives it over the table now in force
            for it, s, cached in self._spellings(rng, n_fresh, ok):
                ctx.stats.case('oracle:session-parse', (len(self.trail), s))
                v, e = ok[it[0]]
                impl = _real_parse(uc, s)
                if impl == 'err' or abs(Fraction(impl) - v) > _tol(v, e):
                    self._viol('session:parse', f'uc.parse({s!r}) = {impl!r} after {_cfg_str_any(cfg)}; the expression is '
                               f'{tree_str(it[1])} = {_f(v)!r} with the units now in force '
                               f'({"spelled as in earlier calls" if cached else "spelled as never before"})', [s])
        def clause_indep():
            # (d) working-unit independence: x [s1] in [s2] is the SI ratio — one side spelled as before, the other fresh
            pairs = rng.sample(self.pool.pairs, min(n_pairs, len(self.pool.pairs)))
            for a, b in pairs:
                if a[0] not in ok or b[0] not in ok:
                    continue
                xs = [1.0, cm.dyadic(rng, -8, 8, 3), rng.uniform(-100, 100)]
                for s1, s2 in ((a[0], render(None, b[1], 2, wsfix=_fresh_ws())), (render(None, a[1], 2, wsfix=_fresh_ws()), b[0]),
                               (a[0], b[0])):
                    ctx.stats.case('oracle:session-independence', (len(self.trail), s1, s2))
                    if not all(_mag_ok(Fraction(x) * ok[a[0]][0]) for x in xs):
                        continue
                    want = [Fraction(x) * a[3] / b[3] for x in xs]
                    try:
                        gotv = np.asarray(_timed(uc.get_in_units, _timed(uc.set_in_units, np.array(xs), s1), s2)).tolist()
                    except Exception as ex:  # noqa
                        gotv = f'{type(ex).__name__}: {ex}'
                    if isinstance(gotv, str) or any(g != g or abs(g) == float('inf') or
                                                    not abs(Fraction(g) - w) <= Fraction(_tol(w, a[4] + b[4] + 2))
                                                    for g, w in zip(gotv, want)):
                        self._viol('session:independence', f'{xs} [{s1}] in [{s2}] after {_cfg_str_any(cfg)} is {gotv}; in SI '
                                   f'units it is {[float(x) for x in want]} (both have dimension {_dstr(a[2])})', [s1, s2])
        def clause_setlit():
            # (e) set_literal
            for term, value, it in self._literal_terms(rng, 6, ok):
                ctx.stats.case('oracle:session-set_literal', (len(self.trail), term))
                v, e = ok[it[0]]
                val = read_literal(value)
                want = [x * v for x in _flat(val)]
                try:
                    r = np.asarray(_timed(uc.set_literal, term))
                    gotv = r.ravel().tolist() if r.shape == _shape_of(val) else f'an array of shape {r.shape}'
                except Exception as ex:  # noqa
                    gotv = f'{type(ex).__name__}: {ex}'
                if isinstance(gotv, str) or any(not abs(Fraction(g) - w) <= Fraction(_tol(w, e + 2)) for g, w in zip(gotv, want)):
                    self._viol('session:set_literal', f'uc.set_literal({term!r}) = {gotv!r} after {_cfg_str_any(cfg)}; '
                               f'{value} [{it[0]}] is {[float(w) for w in want]!r}', [term])
        # the order in which the module is read is part of the history: a different one at every step
        clauses = [clause_table, clause_chosen, clause_parse, clause_indep, clause_setlit]
        rng.shuffle(clauses)
        for c in clauses:
            c()

    # -- the session model (driver ops sreset / scales / unit / parseu / conv / setlit) ------------------------------
    def _model(self, cfg, rng, want_sc, got_sc, real, vals, n_fresh, n_pairs, np):
        ctx, uc, t = self.ctx, self.uc, self.t
        if cfg['kind'] in ('named', 'fail'):
            kw = cfg['kw']
            if not all(kw.values()):
                out = 'err:value'
                ctx.driver.ask('scales 1 1 1 1 1')           # an empty name cannot travel; the call leaves SI
            else:
                ch = _choice_line(kw)
                rad = ctx.driver.ask('radicand ' + ch)
                r = Fraction(1)
                if rad != 'none' and not rad.startswith('err:'):
                    x = Fraction(rad)
                    r = Fraction(math.sqrt(float(x))) if x >= 0 else Fraction(1)
                out = ctx.driver.ask(f'sreset {ch} {cm.fr(r)}')
            if cfg['kind'] == 'fail':
                if not out.startswith('err:'):
                    self._dis('session:reset', f'model accepts {_cfg_str_any(cfg)}: {out}')
                    return
                if cfg['leaves'] == 'SI':
                    self.slack = 0.0
            else:
                if out.startswith('err:'):
                    self._dis('session:reset', f'{_cfg_str_any(cfg)}: implementation sets {got_sc}, model {out}')
                    return
                mv = cm.unfrs(out)
                if any(abs(Fraction(a) - b) > Fraction(24 * U) * abs(b) for a, b in zip(got_sc, mv)):
                    self._dis('session:reset', f'{_cfg_str_any(cfg)}: base units (m, kg, s, C, K) = {got_sc}, model '
                              f'{[float(x) for x in mv]}')
                    return
                self.slack = 26.0
        else:
            if want_sc is None:
                return
            ctx.driver.ask('scales ' + ' '.join(cm.fr(x) for x in want_sc))
            self.slack = 0.0
        slack = self.slack

        def bound(mv, e, d):
            return Fraction(_tol(mv, e)) + Fraction(slack * sum(abs(x) for x in d) * U) * abs(mv)
        # the table
        names = sorted(set(n for it in self.pool.items for n in _names_of(it[1])) | set(rng.sample(t.names, 20))
                       | (set(cfg['kw'].values()) & set(t.names) if 'kw' in cfg else set()))
        outs = ctx.driver.ask_many(['unit ' + _cps(n) for n in names])
        for n, out in zip(names, outs):
            ctx.stats.case('corr:session-unit', (len(self.trail), n))
            msg = _cmp_val(real.get(n, 'err'), out, lambda mv, n=n: bound(mv, EU, t.dims[n]))
            if msg:
                self._dis('session:unit-table', f'unit[{n!r}] after {_cfg_str_any(cfg)}: {msg}', [n])
        # parse
        ok = self._inside(vals)
        sp = self._spellings(rng, n_fresh, ok)
        outs = ctx.driver.ask_many(['parseu ' + _cps(s) for _, s, _ in sp])
        for (it, s, cached), out in zip(sp, outs):
            ctx.stats.case('corr:session-parse', (len(self.trail), s))
            msg = _cmp_val(_real_parse(uc, s), out, lambda mv, it=it: bound(mv, it[4], it[2]))
            if msg:
                self._dis('session:parse', f'uc.parse({s!r}) after {_cfg_str_any(cfg)}: {msg} '
                          f'({"spelled as in earlier calls" if cached else "spelled as never before"})', [s])
        # conversions
        lines, metas = [], []
        for a, b in rng.sample(self.pool.pairs, min(n_pairs, len(self.pool.pairs))):
            xs = [1.0, cm.dyadic(rng, -8, 8, 3), rng.uniform(-100, 100)]
            if a[0] not in ok or b[0] not in ok or not all(_mag_ok(Fraction(x) * ok[a[0]][0]) for x in xs):
                continue
            s1, s2 = (a[0], render(None, b[1], 2, wsfix=_fresh_ws())) if rng.random() < 0.5 else \
                (render(None, a[1], 2, wsfix=_fresh_ws()), b[0])
            try:
                r = np.asarray(_timed(uc.get_in_units, _timed(uc.set_in_units, np.array(xs), s1), s2))
                impl = r.tolist() if r.shape == (3,) and np.isfinite(r).all() else 'err'
            except Exception:  # noqa
                impl = 'err'
            lines.append('conv 3 ' + ' '.join(cm.fr(x) for x in xs) + ' ' + _cps(s1) + ' | ' + _cps(s2))
            metas.append((s1, s2, xs, impl, a, b))
        for (s1, s2, xs, impl, a, b), out in zip(metas, ctx.driver.ask_many(lines)):
            ctx.stats.case('corr:session-convert', (len(self.trail), s1, s2))
            if out == 'err:size':
                continue
            if impl == 'err' or out.startswith('err:'):
                bad = None if (impl == 'err' and out.startswith('err:')) else f'implementation {impl}, model {out}'
            else:
                mv = cm.unfrs(out)
                bad = None if all(abs(Fraction(g) - w) <= Fraction(_tol(w, a[4] + b[4] + 2)) for g, w in zip(impl, mv)) \
                    else f'implementation {impl} != model {[float(x) for x in mv]}'
            if bad:
                self._dis('session:convert', f'get_in_units(set_in_units({xs}, {s1!r}), {s2!r}) after {_cfg_str_any(cfg)}: {bad}',
                          [s1, s2])
        # set_literal
        terms = self._literal_terms(rng, 6, ok)
        outs = ctx.driver.ask_many(['setlitv ' + _cps(term) for term, _, _ in terms])
        for (term, value, it), out in zip(terms, outs):
            ctx.stats.case('corr:session-set_literal', (len(self.trail), term))
            msg = _cmp_setlit(_real_setlit(uc, term), out, lambda mv, it=it: bound(mv, it[4] + 2, it[2]))
            if msg:
                self._dis('session:set_literal', f'uc.set_literal({term!r}) after {_cfg_str_any(cfg)}: {msg}', [term])


def _names_of(tree):
    if tree[0] == 'name':
        return [tree[1]]
    if tree[0] == 'num':
        return []
    return _names_of(tree[1]) + _names_of(tree[2])


def run_sessions(ctx, rng, uc, mode, n_core, walk_steps, n_fresh, n_pairs):
    """(1) every ordered pair of the first n_core core configurations, consecutively: the pool is evaluated under A
    immediately before B is installed, for all A != B (correspondence: closed Euler walk; search: A B A B for every
    unordered pair, so that every return to a configuration after exactly one other is there too);
    (2) a one-keyword-at-a-time random walk which also steps back to the configuration before the last."""
    t = _tab()
    pool = _Pool(rng, t)
    sess = _Session(ctx, uc, pool, mode)
    core = [c for c in core_configs() if c['kind'] != 'named' or
            (all(v in t.si for v in c['kw'].values()) and in_float_range(predict_scales(c['kw'], t.si), t))]
    # the one-quantity-at-a-time members come first; keep the non-named ones inside any prefix
    core.sort(key=lambda c: c['kind'] == 'named')
    core = core[:n_core] if n_core < len(core) else core
    rng.shuffle(core)
    prev = None
    for i in (pair_walk(len(core)) if mode == 'search' else euler_walk(len(core))):
        prev = sess.step(core[i], rng, prev, n_fresh, n_pairs)
    for cfg in one_key_walk(rng, t, walk_steps, refusals=(mode == 'search')):
        prev = sess.step(cfg, rng, prev, n_fresh, n_pairs)
    if mode == 'search':
        # (3) every kind of REFUSED call after every kind of state: nothing may change (table, base units, stored values)
        for cfg in refusal_tour(rng, t):
            prev = sess.step(cfg, rng, prev, n_fresh, n_pairs)
    ctx.extra[mode + '_session_steps'] = len(sess.trail)
    ctx.extra['session_pool'] = len(pool.items)


def correspond(ctx):
    import atomman.unitconvert as uc
    rng = ctx.rng
    snap = _snapshot_default()
    try:
        _corr_names(ctx, uc)
        cfgs = _configs(ctx, rng, ctx.n(3, 10), ctx.n(4, 20))
        per = ctx.n(500, 4000)
        for ci, cfg in enumerate(cfgs):
            _sync(ctx, cfg)
            _check_table(ctx, uc, cfg, 'cfg')
            _corr_parse(ctx, rng, uc, cfg, per, per // 2)
            _corr_lean_render(ctx, rng, uc, cfg, per // 4)
            _corr_convert(ctx, rng, uc, cfg, ctx.n(120, 800))
            _corr_model(ctx, rng, uc, cfg, ctx.n(60, 400))
        _corr_styles(ctx, uc)
        _corr_track(ctx, rng, ctx.n(400, 3000))
        # uc.parse(None) / numbers pass through
        for u, want in ((None, 1), ('scaled', 1), (2.5, 2.5), (3, 3)):
            r = uc.parse(u)
            ctx.stats.case('parse:passthrough', repr(u), nontrivial=False)
            if r != want or (u is None and ctx.driver.ask('parsenone') != '1'):
                ctx.disagree('parse:passthrough', f'uc.parse({u!r}) = {r!r}', {'op': 'passthrough'})
        run_sessions(ctx, rng, uc, 'corr', ctx.n(14, 99), ctx.n(60, 600), ctx.n(6, 12), ctx.n(4, 10))
        _corr_reset(ctx, rng, uc)
        _corr_rpath(ctx, rng, uc, ctx.n(250, 2500))
    finally:
        _restore()
        _report_hangs(ctx)
    ctx.extra['unit_names'] = len(snap)


# ----------------------------------------------------------------------------------------
# search: the property's clauses on the REAL code with an exact Fraction oracle (no Lean involved)
# ----------------------------------------------------------------------------------------
def _guard(ctx, key, replay, fn, *args):
    """an oracle clause must not die on a raising implementation: the exception is the failing input."""
    try:
        with _np().errstate(all='ignore'):
            fn(*args)
    except cm.InfraError:
        raise
    except Exception as e:  # noqa
        ctx.violate(key + ':raises', f'{key}: the implementation raised {type(e).__name__}: {e} on {replay}', replay)


def _unit_fr(uc):
    return {k: Fraction(float(v)) for k, v in uc.unit.items()}


def _fails(uc, t, vals, w):
    s = render(None, t, 2, wsfix=w)
    cls = classify(s, vals, 0.0)
    if cls[0] != 'val':
        return None
    impl = _real_parse(uc, s)
    if impl == 'err' or abs(Fraction(impl) - cls[1]) > _tol(cls[1], cls[2]):
        return s, impl, cls[1]
    return None


def _smaller(t):
    """trees one edit smaller: a node replaced by one of its children, a leaf by the simplest leaf of its sort."""
    if t[0] == 'name':
        if t[1] != 'm':
            yield ('name', 'm')
        return
    if t[0] == 'num':
        if t[1] not in ('2', '3'):
            yield ('num', '2')
            yield ('num', '3')
        return
    yield t[1]
    yield t[2]
    for c in _smaller(t[1]):
        yield (t[0], c, t[2])
    for c in _smaller(t[2]):
        yield (t[0], t[1], c)


def _shrink(uc, t, vals):
    """greedy minimisation of a failing expression (plain rendering, or every token padded with one blank character):
    keep applying one-edit reductions while the code still differs from the ordinary-grammar value.
    -> (string, impl, expected) or None"""
    for w in ('', ' ', '\t', '\n', '\r'):
        best = _fails(uc, t, vals, w)
        if best is None:
            continue
        steps = 0
        changed = True
        while changed and steps < 400:
            changed = False
            for c in _smaller(t):
                f = _fails(uc, c, vals, w)
                if f:
                    t, best, changed = c, f, True
                    steps += 1
                    break
        return best
    return None


def _o_parse(ctx, uc, cfg, s, vals):
    """precedence clause: the string, read in the ordinary grammar by the harness, has the value the code returns."""
    cls = classify(s, vals, 0.0)
    if cls[0] in ('reject', 'err'):
        # refusals: a string that is not an expression of the grammar (operand or operator missing, unbalanced
        # parentheses, unknown character) or that has no value (unknown name, division by zero, 0 ** negative, a
        # negative base under a non-integer exponent) must not be given a number
        impl = _real_parse_raw(uc, s)
        if impl != 'err':
            why = 'is not an expression of the grammar' if cls[0] == 'reject' else 'has no value'
            ctx.violate('parse:accepts', f'uc.parse({s!r}) after {_cfg_str(cfg)} returns {impl!r}; the string {why} '
                        f'({_why_no_value(s, vals)})', {'op': 'parse', 'cfg': cfg, 'string': s})
        return
    if cls[0] != 'val':
        return
    impl = _real_parse(uc, s)
    v, e = cls[1], cls[2]
    replay = {'op': 'parse', 'cfg': cfg, 'string': s}
    bad = impl == 'err' or abs(Fraction(impl) - v) > _tol(v, e)
    key = 'parse:raises' if impl == 'err' else 'parse:precedence'
    if bad and cls[3] is not None and not any(f.key == key for f in ctx.violations):
        small = _shrink(uc, cls[3], vals)
        if small is not None and len(small[0]) < len(s):
            replay = {'op': 'parse', 'cfg': cfg, 'string': small[0], 'original': s}
            s, impl, v = small
            cls = classify(s, vals, 0.0)
    if impl == 'err':
        ctx.violate('parse:raises', f'uc.parse({s!r}) after {_cfg_str(cfg)} raises / returns no number; the expression '
                    f'is {tree_str(cls[3]) if cls[3] else s} = {_f(v)!r}', replay)
    elif bad:
        ctx.violate('parse:precedence', f'uc.parse({s!r}) after {_cfg_str(cfg)} = {impl!r}; with ordinary precedence the '
                    f'expression is {tree_str(cls[3]) if cls[3] else s} = {_f(v)!r}', dict(replay, impl=impl, expected=_f(v)))


FORMS = ['array', 'array', 'list', 'tuple', 'int-array', 'int32-array', 'int-list', 'mixed-list', 'np-scalar',
         'view', 'readonly', 'fortran', 'float32-array', 'scaled-array', 'scaled-array', 'np32-scalar']
# complex values ("all scalar/array values": Stroh eigenvector components, structure factors, dynamical-matrix elements):
# the flat value list of a complex form holds (re, im) pairs
CFORMS = ['complex-list', 'complex-list', 'complex-array', 'complex-array', 'complex64-array', 'complex-tuple',
          'complex-mixed-list', 'np-complex-scalar', 'np-complex64-scalar', 'complex-view', 'complex-scaled-array']
FORMS = FORMS + CFORMS
U32 = 2.0 ** -24
SHAPES = [(), (), (3,), (2, 2), (2, 1, 3), (1,), (1, 1), (0,), (0, 3), (5,)]


def _is_c(form):
    return isinstance(form, str) and 'complex' in form


def _is_c64(form):
    return isinstance(form, str) and 'complex64' in form


def _parts(np, a, cplx):
    """flat list of the real components of an array: the entries, or for complex values re, im, re, im, ...
    (a real-valued result for a complex argument has imaginary parts 0)."""
    a = np.asarray(a)
    if not cplx:
        return a.ravel().tolist()
    out = []
    for z in a.astype(complex).ravel().tolist():
        out += [z.real, z.imag]
    return out


def _nest(flat, shape, seq):
    if not shape:
        return flat[0]
    step = 1
    for d in shape[1:]:
        step *= d
    return seq(_nest(flat[i * step:(i + 1) * step], shape[1:], seq) for i in range(shape[0]))


def make_arg(np, xs, shape, form):
    """the value as the caller holds it: float/int ndarray, (nested) list or tuple, python or numpy scalar.
    -> (argument, reference float array); complex forms: xs = re, im, re, im, ... -> (argument, reference complex array)"""
    if _is_c(form):
        zs = [complex(xs[2 * i], xs[2 * i + 1]) for i in range(len(xs) // 2)]
        ref = np.array(zs, dtype=complex).reshape(shape)
        if form in ('complex-array', 'complex-scaled-array'):
            return ref.copy(), ref
        if form == 'complex64-array':
            a = np.array(zs, dtype=np.complex64).reshape(shape)
            return a, a.astype(complex)
        if form == 'np-complex-scalar' and not shape:
            return np.complex128(zs[0]), ref
        if form == 'np-complex64-scalar' and not shape:
            return np.complex64(zs[0]), np.asarray(np.complex64(zs[0]), dtype=complex)
        if form == 'np-complex64-scalar':
            a = np.array(zs, dtype=np.complex64).reshape(shape)
            a = np.array(a, order='F', copy=True)
            a.flags.writeable = False
            return a, a.astype(complex)
        if form == 'complex-view':
            big = np.full(tuple(2 * d for d in shape) if shape else (2,), 7.25 - 1.5j)
            v = big[tuple(slice(1, None, 2) for _ in shape)] if shape else big[1:2].reshape(())
            v[...] = ref
            return v, ref
        if form == 'complex-tuple':
            return _nest(zs, tuple(shape), tuple), ref
        if form == 'complex-mixed-list':        # real entries given as python floats / ints among the complex ones
            zs = [(int(z.real) if z.real == int(z.real) and abs(z.real) < 2 ** 40 else z.real) if z.imag == 0 else z for z in zs]
        return _nest(zs, tuple(shape), list), ref          # a python complex number when the shape is ()
    ref = np.array(xs, dtype=float).reshape(shape)
    if form == 'array':
        return ref.copy(), ref
    if form == 'int-array':
        return np.array(xs, dtype=np.int64).reshape(shape), ref
    if form == 'int32-array':
        return np.array(xs, dtype=np.int32).reshape(shape), ref
    if form == 'view':                      # a strided, non-contiguous view into a larger array
        big = np.full(tuple(2 * d for d in shape) if shape else (2,), 7.25)
        v = big[tuple(slice(1, None, 2) for _ in shape)] if shape else big[1:2].reshape(())
        v[...] = ref
        return v, ref
    if form == 'readonly':
        a = ref.copy()
        a.flags.writeable = False
        return a, ref
    if form == 'fortran':
        return np.array(ref, order='F', copy=True), ref
    if form == 'float32-array':
        a = np.array(xs, dtype=np.float32).reshape(shape)
        return a, a.astype(float)
    if form == 'np32-scalar' and not shape:
        return (np.int32(xs[0]) if isinstance(xs[0], int) else np.float32(xs[0])), np.asarray(np.float32(xs[0]), dtype=float)
    if form == 'tuple':
        return _nest(list(xs), tuple(shape), tuple), ref
    if form == 'np-scalar' and not shape:
        return (np.int64(xs[0]) if isinstance(xs[0], int) else np.float64(xs[0])), ref
    return _nest(list(xs), tuple(shape), list), ref          # list, int-list, mixed-list: the entries as given


def _gen_complex(rng, form, cnt):
    np = _np()
    out = []
    for _ in range(cnt):
        x = rng.choice([cm.dyadic(rng, -64, 64, 4), rng.uniform(-1e3, 1e3), rng.uniform(-1, 1) * 10.0 ** rng.randint(-12, 12)])
        y = rng.choice([cm.dyadic(rng, -64, 64, 4), rng.uniform(-1e3, 1e3), rng.uniform(-1, 1) * 10.0 ** rng.randint(-12, 12)])
        k = rng.randrange(10)
        if form == 'complex-scaled-array':     # magnitudes swept by exact powers of two, the two parts independently
            x = math.ldexp(rng.choice([1.0, -1.0, 1.5, rng.uniform(1, 2)]), rng.randint(-1000, 1000))
            y = math.ldexp(rng.choice([1.0, -1.0, 1.5, rng.uniform(1, 2)]), rng.randint(-1000, 1000))
        elif k == 0:
            x = 0.0                             # purely imaginary
        elif k == 1:
            y = x                               # on the diagonal
        elif k == 2:
            y = -x
        elif k == 3:
            y = math.ldexp(x, -rng.randint(20, 45)) or 1.0      # imaginary part far below the real one
        elif k == 4:
            x = math.ldexp(y, -rng.randint(20, 45))             # and the other way round
        elif k == 5 and form == 'complex-mixed-list':
            y = 0.0
        elif k == 6:
            x, y = float(rng.randint(-5, 5)), float(rng.choice([-2, -1, 1, 2, 3]))
        if form == 'complex-mixed-list' and rng.random() < 0.35:
            y = 0.0
        if _is_c64(form):
            x, y = float(np.float32(x)), float(np.float32(y))
        out += [x, y]
    return out


def gen_values(rng, form, cnt):
    if _is_c(form):
        return _gen_complex(rng, form, cnt)
    if form.startswith('int'):
        return [rng.choice([0, 1, -1, 2, 3, 7, -12, 100, rng.randint(-1000, 1000), 2 ** 31 - 1 if form == 'int32-array' else 2 ** 40])
                for _ in range(cnt)]
    if form == 'scaled-array':              # magnitudes swept by exact powers of two over the whole double range
        return [math.ldexp(rng.choice([1.0, -1.0, 1.5, cm.dyadic(rng, 1, 2, 20), rng.uniform(1, 2)]), rng.randint(-1000, 1000))
                for _ in range(cnt)]
    if form in ('float32-array', 'np32-scalar'):
        return [float(_np().float32(rng.choice([cm.dyadic(rng, -64, 64, 4), rng.uniform(-1e3, 1e3),
                                                 rng.uniform(-1, 1) * 10.0 ** rng.randint(-6, 6)]))) for _ in range(cnt)]
    out = [rng.choice([cm.dyadic(rng, -64, 64, 4), rng.uniform(-1e3, 1e3), rng.uniform(-1, 1) * 10.0 ** rng.randint(-12, 12)])
           for _ in range(cnt)]
    if form == 'mixed-list':
        out = [rng.randint(-50, 50) if rng.random() < 0.5 else x for x in out]
    return out


def _same_arg(np, a, b):
    if isinstance(a, np.ndarray):
        return isinstance(b, np.ndarray) and a.dtype == b.dtype and a.shape == b.shape and np.array_equal(a, b)
    return type(a) is type(b) and a == b


def _wide_ok(v, lim=1015):
    if v == 0:
        return True
    b = v.numerator.bit_length() - v.denominator.bit_length()
    return -lim < b < lim


def _o_inverse(ctx, np, uc, cfg, s, xs, shape, form, vals=None):
    """round trip, forward value (x times the exact factor), shape kept, the caller's object left alone, results
    fresh (no memory shared with the argument or with each other; scribbling over a result does not change the next) —
    for float / float32 / integer arrays, strided views, read-only and Fortran-ordered arrays, lists, tuples, python
    and numpy scalars, one-element and empty arrays, magnitudes over the whole double range."""
    import copy
    if form is True or form is False:            # replays written before the forms existed
        form = 'list' if form else 'array'
    shape = tuple(shape)
    cplx = _is_c(form)
    arg, ref = make_arg(np, xs, shape, form)
    ref = np.asarray(arg, dtype=complex if cplx else float)     # (an empty nested list has shape (0,) whatever was asked for)
    keep = copy.deepcopy(arg)
    replay = {'op': 'inverse', 'cfg': cfg, 'units': s, 'value': xs, 'shape': list(shape), 'form': form}
    # the factor the ordinary grammar gives the expression
    if s is None or s == 'scaled':
        v, e = Fraction(1), 0.0
    else:
        cls = classify(s, vals if vals is not None else _unit_fr(uc), 0.0)
        v, e = (cls[1], cls[2]) if cls[0] == 'val' else (None, 0.0)
    f32 = (getattr(arg, 'dtype', None) in (np.dtype('float32'), np.dtype('int32')) and form in ('float32-array', 'np32-scalar')
           or getattr(arg, 'dtype', None) == np.dtype('complex64') and _is_c64(form))
    u = U32 if f32 else U
    lim = 120 if f32 else 1015
    style = (len(xs) + len(s or '') + (1 if xs and xs[0] > 0 else 0)) % 4       # how the call is written
    if style == 1:                                   # keywords
        w = _timed(uc.set_in_units, value=arg, units=s)
        back = _timed(uc.get_in_units, units=s, value=w)
    elif style == 2 and isinstance(s, str):          # the unit string as numpy hands strings out
        w = _timed(uc.set_in_units, arg, np.str_(s))
        back = _timed(uc.get_in_units, w, np.array([s])[0])
    else:
        w = _timed(uc.set_in_units, arg, s)
        back = _timed(uc.get_in_units, w, s)
    if not _same_arg(np, arg, keep):
        ctx.violate('inverse:argument-changed', f'set_in_units / get_in_units({s!r}) change the value handed in: '
                    f'{keep!r} -> {arg!r}', replay)
        return
    wa, back = np.asarray(w), np.asarray(back)
    if wa.shape != ref.shape or back.shape != ref.shape:
        ctx.violate('inverse:shape', f'set_in_units/get_in_units({s!r}) change the shape {ref.shape} -> '
                    f'{wa.shape} -> {back.shape} ({form})', replay)
        return
    if wa.dtype.kind not in ('fiuc' if cplx else 'fiu') or back.dtype.kind not in ('fiuc' if cplx else 'fiu'):
        ctx.violate('inverse', f'set_in_units/get_in_units({s!r}) of {xs} ({form}) return dtype {wa.dtype} / {back.dtype}',
                    replay)
        return
    if isinstance(arg, np.ndarray) and arg.size and (np.shares_memory(wa, arg) or np.shares_memory(back, arg)
                                                       or np.shares_memory(back, wa)):
        ctx.violate('inverse:aliasing', f'set_in_units / get_in_units({s!r}) return an array that shares memory with the '
                    f'argument or with each other ({form}, shape {ref.shape})', replay)
        return
    # complex values: numpy promotes the real factor to f + 0j, so the product and the quotient act on the real and
    # the imaginary part separately (a*f - b*0 = a*f, a*0 + b*f = b*f; Smith's quotient with ratio 0/f = 0): the clause
    # is decided part by part, each part like a real value
    refp = _parts(np, ref, cplx)
    inside = [v is None and abs(x) < 2.0 ** 100 and not f32 or v is not None and _wide_ok(Fraction(x) * v, lim)
              and _wide_ok(Fraction(x), lim) and _wide_ok(v, lim) for x in refp]
    if cplx:                                     # both parts of a value inside, or the value is left out
        inside = [inside[i - i % 2] and inside[i - i % 2 + 1] for i in range(len(inside))]
    bad = [(i, x, b) for i, (x, b, ok) in enumerate(zip(refp, _parts(np, back, cplx), inside))
           if ok and not abs(b - x) <= 4 * u * abs(x)]
    if bad and cplx:
        i = bad[0][0] // 2
        ctx.violate('inverse', f'get_in_units(set_in_units(z, {s!r}), {s!r}) after {_cfg_str(cfg)}: z = '
                    f'{ref.ravel().tolist()[i]!r} ({form}) comes back as {back.ravel().tolist()[i]!r} (dtype {back.dtype}; '
                    f'in between: {wa.ravel().tolist()[i]!r}, dtype {wa.dtype})', replay)
        return
    if bad:
        ctx.violate('inverse', f'get_in_units(set_in_units(x, {s!r}), {s!r}) after {_cfg_str(cfg)}: x = {bad[0][1]!r} '
                    f'({form}) comes back as {bad[0][2]!r}', replay)
        return
    got_fwd = _parts(np, wa, cplx)
    # a second call after scribbling over the first result gives the first result again
    if isinstance(w, np.ndarray) and w.size and w.flags.writeable:
        first = wa.copy()
        w[...] = -12345.5
        w2 = np.asarray(_timed(uc.set_in_units, arg, s))
        if not _same_arg(np, arg, keep) or w2.shape != first.shape or not np.array_equal(w2, first, equal_nan=True):
            ctx.violate('inverse:aliasing', f'set_in_units({s!r}) ({form}, shape {ref.shape}): after overwriting the first '
                        f'result the same call returns {w2.ravel().tolist()[:3]} instead of {first.ravel().tolist()[:3]}, '
                        f'or the argument changed', replay)
            return
    # forward: x times the factor
    if v is None:
        return
    for x, g, ok in zip(refp, got_fwd, inside):
        want = Fraction(x) * v
        tol = Fraction((e + 5.0) * 1.5 * u) * abs(want)
        if ok and not abs(Fraction(g) - want) <= tol:
            ctx.violate('convert:value', f'set_in_units({x!r} ({form}), {s!r}) after {_cfg_str(cfg)} = {g!r}; '
                        f'{x!r} times the factor {_f(v)!r} is {_f(want)!r}', replay)
            return


def _o_datamodel(ctx, np, uc, cfg, s, xs, shape):
    """the same round trip through the data-model form: value_unit(model(x, u)) is x — shape and entries —, model writes
    x over the exact factor, the unit under 'unit', the shape (two and more dimensions only) under 'shape'."""
    shape = tuple(shape)
    arr = np.array(xs, dtype=float).reshape(shape)
    keep = arr.copy()
    replay = {'op': 'datamodel', 'cfg': cfg, 'units': s, 'value': xs, 'shape': list(shape)}
    if s is None:
        v, e = Fraction(1), 0.0
    else:
        cls = classify(s, _unit_fr(uc), 0.0)
        if cls[0] != 'val' or cls[1] == 0:
            return
        v, e = cls[1], cls[2]
    m = _timed(uc.model, arr, s)
    back = np.asarray(_timed(uc.value_unit, m))
    if not np.array_equal(arr, keep):
        ctx.violate('inverse:argument-changed', f'uc.model / uc.value_unit({s!r}) change the array handed in', replay)
        return
    if back.shape != shape:
        ctx.violate('inverse:shape', f'value_unit(model(x, {s!r})) changes the shape {shape} -> {back.shape} '
                    f'(model wrote {dict(m)!r})', replay)
        return
    ok = [_wide_ok(Fraction(x) / v) and _wide_ok(Fraction(x)) and _wide_ok(v) for x in xs]
    bad = [(x, b) for x, b, o in zip(xs, back.ravel().tolist(), ok) if o and not abs(b - x) <= 4 * U * abs(x)]
    if bad:
        ctx.violate('inverse', f'value_unit(model(x, {s!r})) after {_cfg_str(cfg)}: x = {arr.tolist()!r} comes back as '
                    f'{back.tolist()!r} (model wrote {dict(m)!r})', replay)
        return
    # what model wrote is x over the factor (the form of the record — number / list / shape key — is compared with the
    # Lean model in the correspondence, not claimed here)
    try:
        val = m['value']
        flat = [float(z) for z in np.asarray(val, dtype=float).ravel()]
    except Exception:  # noqa
        return
    if len(flat) != len(xs):
        return
    for x, g, o in zip(xs, flat, ok):
        want = Fraction(x) / v
        if o and not abs(Fraction(g) - want) <= Fraction((e + 5.0) * 1.5 * U) * abs(want):
            ctx.violate('convert:value', f'uc.model({arr.tolist()!r}, {s!r}) after {_cfg_str(cfg)} writes {val!r}; {x!r} over '
                        f'the factor {_f(v)!r} is {_f(want)!r}', replay)
            return

def _base_expr(rng, t, dim):
    """an expression of the given dimension written with other names: a numeric prefactor times/over powers of one
    randomly chosen name per base dimension."""
    alt = {0: t.by_kind['length'], 1: t.by_kind['mass'], 2: t.by_kind['time'], 3: t.by_kind['charge'],
           4: ['K', 'mK', 'uK', 'nK']}
    tree = ('num', rng.choice(['1', '2', '0.5', '1e3']))
    for i, n in enumerate(dim):
        if n == 0:
            continue
        name = ('name', rng.choice(alt[i]))
        n = Fraction(n)
        if n.denominator != 1 and rng.random() < 0.4:      # m^(5/2) as m^2 * m^0.5
            whole = n.numerator // n.denominator
            if whole:
                tree = ('mul', tree, ('pow', name, ('num', str(whole))))
            n -= whole
        if rng.random() < 0.5:
            tree = ('mul', tree, ('pow', name, exp_tree(rng, n)))
        else:
            tree = ('div', tree, ('pow', name, exp_tree(rng, -n)))
    return tree


SAME_DIM = [('dyn', 'kg*m/s^2'), ('eV', 'J'), ('Pa', 'N/m^2'), ('GPa', 'eV/angstrom^3'), ('mJ/s^2', 'W/s'),
            ('kcal/mol', 'eV'), ('atm', 'bar'), ('angstrom/ps', 'm/s'), ('g/cm^3', 'amu/angstrom^3'),
            ('Pa*s/10', 'pg/(um*us)'), ('hbar', 'J*s'), ('e*angstrom', 'debye'), ('V/angstrom', 'N/C'),
            ('kB*K', 'eV'), ('2*Ry', 'Hartree'), ('mile/hour', 'foot/s'), ('psi', 'lbf/inch^2'), ('kWh', 'MJ'),
            # non-integer exponents (fracture toughness and the like)
            ('m^1.5', 'cm^1.5'), ('MPa*m^0.5', 'Pa*mm^0.5'), ('GPa*nm^1.5', 'N/m^(1/2)'), ('MPa*m^(1/2)', 'kg/(m^0.5*s^2)'),
            ('s^-1.5', 'ms^(-3/2)'), ('m^(3/2)', 'm*m^0.5'), ('(m^3)^0.5', 'angstrom^1.5'), ('m^2.5/m^0.5', 'cm^2'),
            ('eV^0.5', 'J^(1/2)'), ('(kg/m^3)^0.5', 'g^0.5/cm^1.5'), ('Hz^0.5', 's^-0.5'), ('K^1.5', 'mK^(3/2)'),
            ('C^0.5', 'e^(1/2)'), ('m^(1/3)', 'nm^(1/3)'), ('angstrom^-2.5', 'nm^(-5/2)'), ('m^(4/3)', 'm*m^(1/3)')]


def _o_indep(ctx, np, uc, s1, s2, xs, cfgs, si_vals, dims):
    """working-unit independence: x [s1] expressed in [s2] is the same number under every configuration, namely
    x * v1/v2 with the SI values."""
    t1, t2 = shadow_parse(s1), shadow_parse(s2)
    v1, d1, e1 = ev(t1, si_vals, dims, EU)
    v2, d2, e2 = ev(t2, si_vals, dims, EU)
    if d1 != d2 or v2 == 0:
        return
    replay = {'op': 'indep', 's1': s1, 's2': s2, 'x': xs, 'cfgs': cfgs}
    want = [Fraction(x) * v1 / v2 for x in xs]
    if not all(_mag_ok(w) for w in want):
        return
    for cfg in cfgs:
        _apply(cfg)
        vals = _unit_fr(uc)
        try:
            w1, _, _ = ev(t1, vals, None, 0.0)
            ev(t2, vals, None, 0.0)
            if not all(_mag_ok(Fraction(x) * w1) for x in xs):
                raise Outside('magnitude')
        except (Outside, EvalErr):
            continue            # an intermediate leaves the double range under these working units
        res = np.asarray(_timed(uc.get_in_units, _timed(uc.set_in_units, np.array(xs), s1), s2))
        if res.shape != (len(xs),):
            ctx.violate('inverse:shape', f'get_in_units(set_in_units(x, {s1!r}), {s2!r}) of an array of shape '
                        f'{(len(xs),)} has shape {res.shape}', replay)
            return
        got = res.tolist()
        for g, w in zip(got, want):
            if g != g or abs(g) == float('inf') or not abs(Fraction(g) - w) <= Fraction(_tol(w, e1 + e2 + 2)):
                ctx.violate('independence', f'{xs} [{s1}] in [{s2}] after {_cfg_str(cfg)} is {got}; in SI units it is '
                            f'{[float(x) for x in want]} (both expressions have dimension {_dstr(d1)})', replay)
                return


def _o_reset(ctx, uc, kw):
    """after reset_units(**kw) with a non-over-determined choice of <= 4 kinds every chosen unit is 1 to rounding."""
    cfg = {'kind': 'named', 'kw': kw}
    t = _tab()
    if not in_float_range(predict_scales(kw, t.si), t):
        ctx.stats.case('oracle:reset:outside-float-range', tuple(sorted(kw.items())), nontrivial=False)
        return
    _apply(cfg)
    for k, n in kw.items():
        val = uc.unit[n]
        if not abs(val - 1.0) <= 64 * U:
            ctx.violate('reset:' + '+'.join(sorted(kw)), f"after {_cfg_str(cfg)} unit[{n!r}] = {val!r}, not 1",
                        {'op': 'reset', 'kw': kw})
            return


def _o_style(ctx, uc, lmp, st, dims, cfgs):
    """every mechanical entry of style `st` has the dimension of its label: by reading the expression in the ordinary
    grammar with the measured dimensions, and numerically: its value scales like the label under other base units."""
    import numericalunits as nu
    first = lmp.style.unit(st)
    before = list(first.items())
    for k in list(first):                     # a caller scribbling over the table it was handed
        first[k] = 'kg*bogus'
    real = lmp.style.unit(st)
    if real is first or list(real.items()) != before:
        ctx.violate('style:aliasing', f'style.unit({st!r}) hands out a table that a caller can change for everybody: after '
                    f'overwriting the entries of one result the next call returns {list(real.items())[:2]} …',
                    {'op': 'style', 'style': st})
        return
    for label, expr in real.items():
        if expr is None or label not in LABEL_DIM:
            continue
        ctx.stats.case('oracle:style', (st, label, expr))
        replay = {'op': 'style', 'style': st, 'label': label, 'unit': expr}
        tree = shadow_parse(expr)
        if tree is None:
            ctx.violate('style:entry', f'style {st!r}: {label!r} = {expr!r} is not a unit expression', replay)
            continue
        try:
            v, d, e = ev(tree, _unit_fr(uc), dims, 0.0)
        except (EvalErr, Outside) as ex:
            ctx.violate('style:entry', f'style {st!r}: {label!r} = {expr!r} cannot be evaluated ({ex})', replay)
            continue
        if tuple(d) != LABEL_DIM[label]:
            ctx.violate('style:dimension', f'style {st!r}: {label!r} = {expr!r} has dimension (m,kg,s,C,K) = {_dstr(d)}, '
                        f'a {label} is {LABEL_DIM[label]}', replay)
            continue
        ref = None
        for cfg in cfgs:
            sc = _apply(cfg)
            val = _real_parse(uc, expr)
            if val == 'err':
                ctx.violate('style:entry', f'style {st!r}: uc.parse({expr!r}) raises after {_cfg_str(cfg)}', replay)
                break
            red = Fraction(val)
            for x, n in zip(sc, LABEL_DIM[label]):
                red = red / Fraction(x) ** n
            if ref is None:
                ref = red
            elif abs(red - ref) > Fraction(_tol(ref, 10 * EU + 30)):
                ctx.violate('style:dimension', f'style {st!r}: {label!r} = {expr!r} does not scale like a {label} '
                            f'under {_cfg_str(cfg)}', replay)
                break


LIST_LITS = ['[1.0, 2.5]', '[1,2,3]', '(1.5, 2)', '[[1, 2], [3, 4]]', '[ 1.0 , -2.0 ]', '[7]', '(0.5,)',
             '[1e3, 2.5e-3, -1.5E2]', '[[1.5], [2.5]]', '[0, 1]', '(1, 2, 3)', '[[1.0, 0.0, 0.0], [0.0, 1.0, 0.0]]']


def read_literal(text):
    """a number, or a (nested) list / tuple of numbers as python writes them -> Fraction or nested lists of Fractions;
    None when the text is neither (independent of ast.literal_eval)."""
    pos = [0]

    def blanks():
        while pos[0] < len(text) and text[pos[0]] in ' \t':
            pos[0] += 1

    def item():
        blanks()
        if pos[0] >= len(text):
            return None
        c = text[pos[0]]
        if c in '[(':
            close = ']' if c == '[' else ')'
            pos[0] += 1
            out, comma = [], False
            while True:
                blanks()
                if pos[0] < len(text) and text[pos[0]] == close:
                    pos[0] += 1
                    break
                x = item()
                if x is None:
                    return None
                out.append(x)
                blanks()
                if pos[0] < len(text) and text[pos[0]] == ',':
                    pos[0] += 1
                    comma = True
                elif pos[0] < len(text) and text[pos[0]] == close:
                    pos[0] += 1
                    break
                else:
                    return None
            if c == '(' and len(out) == 1 and not comma:
                return out[0]                       # a parenthesised number, not a tuple
            return out
        k = pos[0]
        while k < len(text) and text[k] not in ' \t,[]()':
            k += 1
        w = text[pos[0]:k]
        if not w or not lit_ok(w):
            return None
        pos[0] = k
        return lit_value(w)
    x = item()
    blanks()
    return x if pos[0] == len(text) else None


def _flat(x):
    if isinstance(x, list):
        return [z for y in x for z in _flat(y)]
    return [x]


def _shape_of(x):
    return (len(x),) + (_shape_of(x[0]) if x else ()) if isinstance(x, list) else ()


def _o_setlit(ctx, uc, cfg, value, s, sep, vals, lead='', trail=''):
    """'value unit' terms: blanks before the value and after the unit, no unit at all (with trailing blanks),
    'scaled', list and tuple literals as values."""
    np = _np()
    term = lead + value + sep + s + trail
    cls = classify(s, vals, 0.0) if s else ('val', Fraction(1), 0.0, None)
    val = read_literal(value)
    if cls[0] != 'val' or val is None:
        return
    want = [x * cls[1] for x in _flat(val)]
    replay = {'op': 'setlit', 'cfg': cfg, 'value': value, 'units': s, 'sep': sep, 'lead': lead, 'trail': trail}
    try:
        r = np.asarray(_timed(uc.set_literal, term))
        got = r.ravel().tolist() if r.shape == _shape_of(val) else f'an array of shape {r.shape}'
    except Exception as ex:  # noqa
        got = f'{type(ex).__name__}: {ex}'
    if isinstance(got, str) or any(not abs(Fraction(g) - w) <= Fraction(_tol(w, cls[2] + 2)) for g, w in zip(got, want)):
        ctx.violate('set_literal', f'uc.set_literal({term!r}) after {_cfg_str(cfg)} = {got!r}; {value} [{s}] is '
                    f'{[float(w) for w in want] if isinstance(val, list) else float(want[0])!r}', replay)


def _reset_cases(ctx, rng, t, reps):
    cases = []
    for kd in KINDS:
        for n in t.by_kind[kd]:
            cases.append({kd: n})
    for ks in _subsets():
        if len(ks) == 1 or len(ks) > 4 or _over(ks):
            continue
        for _ in range(reps):
            cases.append({k: rng.choice(t.by_kind[k]) for k in ks})
    cases.append(dict(DEFAULT_KW))
    return cases


def search(ctx, broken):
    np = _np()
    import atomman.unitconvert as uc
    import atomman.lammps as lmp
    rng = random.Random(ctx.seed * 7919 + 9)
    mult = 3 if broken else 1
    t = _tab()
    snap = _snapshot_default()
    try:
        # 0. the configuration `import atomman` leaves behind (atomman/__init__.py)
        ctx.stats.case('oracle:default', 'import', nontrivial=True)
        for n in DEFAULT_KW.values():
            if not abs(snap.get(n, 0.0) - 1.0) <= 64 * U:
                ctx.violate('default-units', f"after `import atomman` unit[{n!r}] = {snap.get(n)!r}, not 1",
                            {'op': 'default'})
        dsc = predict_scales(DEFAULT_KW, t.si)
        for n, d in t.dims.items():              # … and the whole table is the angstrom / amu / eV / e one
            pred = float(t.si[n]) * math.prod(x ** k for x, k in zip(dsc, d))
            if n not in snap or not abs(snap[n] - pred) <= _table_bound(d) * abs(pred):
                ctx.violate('default-units', f"after `import atomman` unit[{n!r}] = {snap.get(n)!r}; in angstrom / amu / "
                            f"eV / e working units it is {pred!r}", {'op': 'default'})
                break
        # 1. named working units: every non-over-determined choice of <= 4 kinds
        for kw in _reset_cases(ctx, rng, t, ctx.n(10, 120) * mult):
            ctx.stats.case('oracle:reset', tuple(sorted(kw.items())), sample={'kw': kw})
            _guard(ctx, 'reset:' + '+'.join(sorted(kw)), {'op': 'reset', 'kw': kw}, _o_reset, ctx, uc, kw)
        # SI values (for the independence clause)
        _apply({'kind': 'SI'})
        si_vals = _unit_fr(uc)
        cfgs = _configs(ctx, rng, ctx.n(2, 6), ctx.n(3, 10))
        # 2./3./6. precedence, inverse, set_literal under each configuration
        per = ctx.n(400, 3000) * mult
        for cfg in cfgs:
            _apply(cfg)
            vals = _unit_fr(uc)
            strings = gen_strings(rng, t.names, vals, per, per // 4)
            if cfg is cfgs[0] or cfg is cfgs[-1]:
                strings += [('parse:malformed', x, None) for x in MALFORMED]       # the whole fixed list, twice per run
            for kind, s, tree in strings:
                ctx.stats.case('oracle:' + kind, (_cfg_str(cfg), s))
                _guard(ctx, 'parse', {'op': 'parse', 'cfg': cfg, 'string': s}, _o_parse, ctx, uc, cfg, s, vals)
            valid = [s for kind, s, tree in strings if kind == 'parse' and classify(s, vals, 0.0)[0] == 'val'
                     and classify(s, vals, 0.0)[1] != 0]
            simple = [None, 'scaled'] * 4 + [n for n in ('angstrom', 'eV', 'GPa', 'amu', 'ps', 'K', 'e', '10', '0.5')] * 2
            for s in simple + rng.sample(valid, min(len(valid), ctx.n(150, 1000) * mult)):
                shape = rng.choice(SHAPES)
                form = rng.choice(FORMS)
                cnt = int(np.prod(shape)) if shape else 1
                xs = gen_values(rng, form, cnt)
                ctx.stats.case('oracle:inverse', (_cfg_str(cfg), s, tuple(xs), shape, form))
                _guard(ctx, 'inverse', {'op': 'inverse', 'cfg': cfg, 'units': s, 'value': xs, 'shape': list(shape),
                                        'form': form}, _o_inverse, ctx, np, uc, cfg, s, xs, shape, form, vals)
            for s in [None, None, 'angstrom', 'eV', 'GPa', 'eV/angstrom^3'] * 2 + rng.sample(valid, min(len(valid), ctx.n(60, 400) * mult)):
                shape = rng.choice(SHAPES + [(4,), (2, 3), (1, 1, 1), (3, 1)])
                cnt = int(np.prod(shape)) if shape else 1
                xs = gen_values(rng, 'array', cnt)
                ctx.stats.case('oracle:data-model', (_cfg_str(cfg), s, tuple(xs), shape))
                _guard(ctx, 'data-model', {'op': 'datamodel', 'cfg': cfg, 'units': s, 'value': xs, 'shape': list(shape)},
                       _o_datamodel, ctx, np, uc, cfg, s, xs, shape)
            simple = ['', 'scaled', 'angstrom', 'eV', 'GPa', 'kg * m', 'eV/angstrom^3', ' ( m ) ']
            for s in simple * 6 + rng.sample(valid, min(len(valid), ctx.n(100, 600) * mult)):
                value = rng.choice(VALUE_LITS if rng.random() < 0.65 else LIST_LITS)
                sep = rng.choice([' ', '  ', ' \t', '   ']) if s else ''
                lead, trail = rng.choice(['', '', ' ', '  ']), rng.choice(['', '', ' ', '  '])
                ctx.stats.case('oracle:set_literal', (_cfg_str(cfg), lead, value, sep, s, trail))
                _guard(ctx, 'set_literal', {'op': 'setlit', 'cfg': cfg, 'value': value, 'units': s, 'sep': sep,
                                            'lead': lead, 'trail': trail},
                       _o_setlit, ctx, uc, cfg, value, s, sep, vals, lead, trail)
        # 4. working-unit independence
        pairs = list(SAME_DIM)
        tries = 0
        want_pairs = ctx.n(150, 1200) * mult
        while len(pairs) < want_pairs and tries < 20 * want_pairs:
            tries += 1
            tree = gen_tree(rng, rng.choice([1, 2, 3, 4, 5]), t.names)
            try:
                v, d, e = ev(tree, si_vals, t.dims, EU)
            except (Outside, EvalErr):
                continue
            if v == 0:
                continue
            other = _base_expr(rng, t, d)
            try:
                ev(other, si_vals, t.dims, EU)
            except (Outside, EvalErr):
                continue
            s1 = render(rng, tree, 2, messy=rng.choice([0.0, 0.3]), extra=rng.choice([0.0, 0.1]))
            s2 = render(rng, other, 2, messy=rng.choice([0.0, 0.3]))
            pairs.append((s1, s2) if rng.random() < 0.5 else (s2, s1))
        for s1, s2 in pairs:
            xs = [rng.choice([1.0, cm.dyadic(rng, -8, 8, 3), rng.uniform(-100, 100)]) for _ in range(rng.choice([1, 3]))]
            use = rng.sample(cfgs, min(len(cfgs), 4))
            ctx.stats.case('oracle:independence', (s1, s2, tuple(xs)), sample={'from': s1, 'to': s2, 'x': xs})
            _guard(ctx, 'independence', {'op': 'indep', 's1': s1, 's2': s2, 'x': xs, 'cfgs': use},
                   _o_indep, ctx, np, uc, s1, s2, xs, use, si_vals, t.dims)
        # 5. style tables
        scfgs = [{'kind': 'SI'}] + [c for c in cfgs if c['kind'] == 'seed'][:2]
        for st in STYLES:
            _guard(ctx, 'style', {'op': 'style', 'style': st}, _o_style, ctx, uc, lmp, st, t.dims, scfgs)
        # 7. sessions: every ordered pair of the core configurations, one-keyword-at-a-time walks
        _guard(ctx, 'session', {'op': 'session', 'steps': [], 'strings': []}, run_sessions, ctx, rng, uc, 'search',
               99, ctx.n(80, 800) * mult, ctx.n(8, 16), ctx.n(5, 12))
    finally:
        _restore()
        _report_hangs(ctx)


def replay(ctx, payload):
    """re-run one stored case against the current tree (oracle clause by input; model disagreements by input)."""
    np = _np()
    import atomman.unitconvert as uc
    import atomman.lammps as lmp
    r = payload.get('replay', {}) or {}
    if not r and payload.get('disagreements'):
        r = payload['disagreements'][0]
    op = r.get('op')
    t = _tab()
    _snapshot_default()
    try:
        cfg = r.get('cfg') or {'kind': 'named', 'kw': dict(DEFAULT_KW)}
        if op == 'parse':
            sc = _apply(cfg)
            _guard(ctx, 'parse', r, _o_parse, ctx, uc, cfg, r['string'], _unit_fr(uc))
            if ctx.driver is not None:
                ctx.driver.ask('scales ' + ' '.join(cm.fr(x) for x in sc))
                out = ctx.driver.ask('parseu ' + _cps(r['string']))
                impl = _real_parse(uc, r['string'])
                print('replay parse: implementation', impl, 'model', out if out.startswith('err') else float(Fraction(out)))
                cls = classify(r['string'], _unit_fr(uc), EU)
                tolf = (lambda mv: Fraction(_tol(mv, cls[2]))) if cls[0] == 'val' else (lambda mv: Fraction(1e-11) * abs(mv))
                msg = _cmp_val(impl, out, tolf) if cls[0] != 'outside' else None
                if msg:
                    ctx.disagree('parse', msg, r)
        elif op == 'inverse':
            _apply(cfg)
            _guard(ctx, 'inverse', r, _o_inverse, ctx, np, uc, cfg, r['units'], r['value'], tuple(r['shape']),
                   r.get('form', r.get('as_list', False)))
        elif op == 'datamodel':
            _apply(cfg)
            _guard(ctx, 'data-model', r, _o_datamodel, ctx, np, uc, cfg, r['units'], r['value'], tuple(r['shape']))
        elif op in ('ucmodel', 'valunit') and ctx.driver is not None:
            _sync(ctx, cfg)
            _corr_model(ctx, random.Random(1), uc, cfg, 200)
        elif op == 'rpath' and ctx.driver is not None:
            _corr_rpath(ctx, random.Random(1), uc, 400)
        elif op == 'indep':
            _apply({'kind': 'SI'})
            si_vals = _unit_fr(uc)
            _guard(ctx, 'independence', r, _o_indep, ctx, np, uc, r['s1'], r['s2'], r['x'], r['cfgs'], si_vals, t.dims)
        elif op == 'reset':
            kw = r['kw']
            if 0 < len(kw) <= 4 and not _over(kw) and all(kw[k] in t.by_kind.get(k, []) for k in kw):
                _guard(ctx, 'reset', r, _o_reset, ctx, uc, kw)
            if ctx.driver is not None:
                _corr_reset_one(ctx, uc, kw, True)
        elif op == 'style' and r.get('style') in STYLES:
            _guard(ctx, 'style', r, _o_style, ctx, uc, lmp, r['style'], t.dims, [{'kind': 'SI'}, {'kind': 'seed', 'seed': 11}])
            if ctx.driver is not None:
                _corr_styles(ctx, uc)
        elif op == 'setlit' and 'value' in r:
            _apply(cfg)
            _guard(ctx, 'set_literal', r, _o_setlit, ctx, uc, cfg, r['value'], r['units'], r['sep'], _unit_fr(uc),
                   r.get('lead', ''), r.get('trail', ''))
        elif op == 'session' and r.get('steps'):
            # the stored tail of the history (the pool is evaluated after every step, the stored strings first)
            rs = random.Random(0)
            pool = _Pool(rs, t)
            extra = []
            for x in r.get('strings', []):
                tree = shadow_parse(x)
                if tree is not None and all(x != it[0] for it in pool.items):
                    try:
                        v, d, e = ev(tree, t.si, t.dims, EU)
                        extra.append((x, tree, tuple(d), v, e))
                    except (Outside, EvalErr):
                        pass
            pool.items = extra + pool.items
            for mode in ('search',) + (('corr',) if ctx.driver is not None else ()):
                sess = _Session(ctx, uc, pool, mode)
                prev = None
                for cfg in r['steps']:
                    prev = sess.step(cfg, rs, prev, 8, 8)
        elif op == 'default':
            search(ctx, False)
        else:
            if ctx.driver is not None:
                correspond(ctx)
            search(ctx, True)
    finally:
        _restore()
    print(f'replay {op}: {"still fails" if (ctx.violations or ctx.disagreements) else "passes now"}')


MANIFEST = {
    'text': 'Lean 4 theorems over an executable model of uc.parse (character tokeniser with recursive parentheses, ^ reduced '
            'first, then * / left to right, written once over an abstract value algebra): every rendering of every '
            'expression tree in the ordinary grammar (any blanks, redundant parentheses, negative exponents, any depth) '
            'parses to the value of the tree; set/get are mutually inverse for a non-zero factor; an expression that '
            'evaluates to (v, dimension d) under SI evaluates to v * m^d1 kg^d2 s^d3 C^d4 K^d5 under any base-unit '
            'scalings, hence conversions between equal-dimension expressions do not depend on the working units — for '
            'integer exponents over any field without assumption, and for rational exponents (Pa*m^0.5, MPa*m^(3/2), s^-1.5; '
            'rational dimension exponents) over any ordered field with the power function a parameter obeying x^(a+b) = '
            'x^a x^b, (xy)^a = x^a y^a, x^1 = x (the power-of-a-power law is derived); after '
            'reset_units with any non-over-determined choice of <= 4 named kinds every chosen unit of that dimension is '
            'exactly 1 (square root as a parameter); set_literal("value unit"), value a number or nested list / tuple '
            'literal, is the array of the value times the parsed factor; the module as a session (state = the five base '
            'scalings): a read after any history is answered from the scalings the last state-changing call left, chosen '
            'units are 1 and equal-dimension conversions invariant in any session; '
            'all mechanical entries of the 8 LAMMPS style tables have the '
            'dimension of their label (kernel-decided on tables regenerated from style.py and numericalunits on every '
            'run). The model is tied to the code by the table translators and a differential run of uc.parse / '
            'set_in_units / get_in_units / set_literal / reset_units / style.unit against the compiled model on '
            'grammar-generated and malformed strings under SI, default, seeded and named working units, and of whole '
            'sessions (all ordered pairs of configurations differing in one base quantity, random one-keyword walks) '
            'against the session model. Source tie: unitconvert.py itself is translated with ast on every run '
            '(Generated/UnitconvertSource.lean: tokeniser branches and character sets, parenthesis counter, the two while '
            'loops of parse as python list indexing / slicing with the strings, positions, slices and operators of the '
            'source, the decision chain and formulas of reset_units, the split loop of set_literal, the operators of '
            'set_in_units / get_in_units, value_unit / model, the default call in __init__.py) and every generated '
            'definition is proved equal to the model; the loops as written are proved to compute the single passes the '
            'precedence theorem is about; reset_units(seed, **kwargs) refuses exactly when keywords come with a seed or '
            'number more than four; value_unit(model(x, u)) = x for every rank.',
    'note': 'Trusted: Lean kernel + propext/Classical.choice/Quot.sound; the table translators and the ast template '
            'matcher of the source translator (harness/props/c09.py); '
            'numericalunits and numpy; x**0.5 is a parameter with r*r = x; float rounding by first-order bounds derived '
            'from the expression tree; float ** float for non-integer exponents is a parameter with three assumed laws; '
            'irrational exponents, rtHz, exotic float() spellings and two malformed classes '
            '(leading ^ loops forever, a parenthesised lone * or / acts as an operator) are outside the model.',
    'technique': 'Lean 4 theorems over a hand-written model proved equal to definitions regenerated from the source (ast) '
                 '+ translator-generated tables + differential correspondence',
}
