"""C09 — unit conversion: parser precedence, inverse, working-unit independence, reset_units, style tables."""
from __future__ import annotations

import ast
import math
import random
from fractions import Fraction

from .. import common as cm
from ..translate import TranslationError

PROP = 'C09'
STYLES = ['lj', 'real', 'metal', 'si', 'cgs', 'electron', 'micro', 'nano']
BASE = ['m', 'kg', 's', 'C', 'K']
KINDS = ['length', 'mass', 'time', 'energy', 'charge']
KIND_DIM = {'length': (1, 0, 0, 0, 0), 'mass': (0, 1, 0, 0, 0), 'time': (0, 0, 1, 0, 0),
            'energy': (2, 1, -2, 0, 0), 'charge': (0, 0, 0, 1, 0)}
LABEL_DIM = {'mass': (0, 1, 0, 0, 0), 'length': (1, 0, 0, 0, 0), 'time': (0, 0, 1, 0, 0),
             'energy': (2, 1, -2, 0, 0), 'velocity': (1, 0, -1, 0, 0), 'force': (1, 1, -2, 0, 0),
             'torque': (2, 1, -2, 0, 0), 'pressure': (-1, 1, -2, 0, 0), 'dynamic viscosity': (-1, 1, -1, 0, 0),
             'density': (-3, 1, 0, 0, 0), 'ang-mom': (2, 1, -1, 0, 0), 'ang-vel': (0, 0, -1, 0, 0),
             'volume': (3, 0, 0, 0, 0), 'temperature': (0, 0, 0, 0, 1)}


# ----------------------------------------------------------------------------------------
# translator
# ----------------------------------------------------------------------------------------
def _chars(s: str) -> str:
    """Lean `List Char` literal (code points, so that no escaping question arises)."""
    return '[' + ', '.join(f'Char.ofNat {ord(c)}' for c in s) + ']'


def nu_table():
    """numericalunits name -> (SI value as Fraction, dimension exponents (m,kg,s,C,K) as Fractions).

    The dimension is recovered by evaluating the package's own `set_derived_units_and_constants`
    with one base unit at a time set to 4.0 (so half-integral exponents stay exact powers of two),
    then cross-checked under two generic scalings; anything not a multiple of 1/2 or not
    reproducing the cross-check is rejected."""
    import numericalunits as nu
    saved = {b: getattr(nu, b) for b in BASE}

    def table():
        return {k: v for k, v in vars(nu).items() if k[:1] != '_' and isinstance(v, float)}

    def setbase(vals):
        for b, v in zip(BASE, vals):
            setattr(nu, b, float(v))
        nu.set_derived_units_and_constants()
    try:
        setbase([1, 1, 1, 1, 1])
        si = table()
        dims = {k: [] for k in si}
        for i in range(5):
            vals = [1.0] * 5
            vals[i] = 4.0
            setbase(vals)
            t = table()
            if set(t) != set(si):
                raise TranslationError('numericalunits: name set depends on the base units')
            for k in si:
                if si[k] == 0 or t[k] <= 0 or si[k] <= 0:
                    raise TranslationError(f'numericalunits: {k} is not positive')
                x = math.log2(t[k] / si[k])       # = 2 * exponent
                if abs(x - round(x)) > 1e-9:
                    raise TranslationError(f'numericalunits: {k} has a non half-integral exponent of {BASE[i]}')
                dims[k].append(Fraction(round(x), 2))
        # cross-check: generic scalings reproduce value = si * prod scale^dim
        for vals in ([3.0, 0.7, 11.0, 0.13, 5.0], [0.021, 17.0, 0.3, 2.5, 0.9]):
            setbase(vals)
            t = table()
            for k in si:
                pred = si[k] * math.prod(v ** float(d) for v, d in zip(vals, dims[k]))
                if abs(t[k] - pred) > 1e-9 * abs(pred):
                    raise TranslationError(f'numericalunits: {k} is not si * prod(base^dim)')
    finally:
        for b, v in saved.items():
            setattr(nu, b, v)
        nu.set_derived_units_and_constants()
    return {k: (Fraction(si[k]), tuple(dims[k])) for k in si}


def style_tables():
    """evaluate `unit(style)` of the working tree's atomman/lammps/style.py in isolation."""
    src = cm.source('atomman/lammps/style.py')
    tree = ast.parse(src)
    for node in ast.walk(tree):
        if isinstance(node, (ast.Import, ast.ImportFrom)):
            mods = [a.name for a in node.names] if isinstance(node, ast.Import) else [node.module]
            if any(m not in ('collections',) for m in mods):
                raise TranslationError(f'style.py imports {mods}: not a pure table any more')
    ns = {}
    exec(compile(tree, 'style.py', 'exec'), ns)
    out = {}
    for st in STYLES:
        try:
            d = ns['unit'](st)
        except Exception as e:  # noqa
            raise TranslationError(f'style.unit({st!r}) raised {type(e).__name__}: {e}')
        ent = []
        for label, expr in d.items():
            if expr is None:
                continue
            if not isinstance(expr, str) or not isinstance(label, str):
                raise TranslationError(f'style.unit({st!r})[{label!r}] is not a string')
            if st == 'lj' and 'None' in expr:
                continue       # derived entries of the unit-less style ('None*None*None')
            ent.append((label, expr))
        out[st] = ent
    return out


def _dim_lean(d):
    return '⟨' + ', '.join(str(int(x)) for x in d) + '⟩'


def translate():
    tab = nu_table()
    integral = {k: v for k, v in tab.items() if all(x.denominator == 1 for x in v[1])}
    half = sorted(k for k in tab if k not in integral)
    lines = ['/- GENERATED by harness/props/c09.py from numericalunits (installed package) — do not edit. -/',
             'import Atomman.C09', 'namespace Atomman.Gen', 'open Atomman.C09', '',
             '/-- name, numerator, denominator of the value under reset_units(\'SI\') (exact value of the double),',
             '    exponents of (m, kg, s, C, K). -/',
             'def unitTable : List UnitEntry := [']
    items = list(integral.items())
    for i, (k, (v, d)) in enumerate(items):
        sep = '' if i == len(items) - 1 else ','
        lines.append(f'  ⟨{_chars(k)}, {v.numerator}, {v.denominator}, {_dim_lean(d)}⟩{sep} /- {k} -/')
    lines.append(']')
    lines.append('')
    lines.append('/-- names whose dimension has a half-integral exponent (outside the numeric model). -/')
    lines.append('def halfIntegralNames : List (List Char) := [' + ', '.join(_chars(k) for k in half) + ']')
    lines.append('')
    lines.append('end Atomman.Gen\n')
    unit_text = '\n'.join(lines)

    st = style_tables()
    lines = ['/- GENERATED by harness/props/c09.py from atomman/lammps/style.py — do not edit. -/',
             'import Atomman.C09', 'namespace Atomman.Gen', 'open Atomman.C09', '',
             'def styleTables : List StyleTable := [']
    blocks = []
    for name in STYLES:
        ents = ',\n'.join(f'    ({_lstr(l)}, {_chars(e)}) /- {e} -/' for l, e in st[name])
        blocks.append(f'  ⟨{_lstr(name)}, [\n{ents}]⟩')
    lines.append(',\n'.join(blocks))
    lines.append(']')
    lines.append('')
    lines.append('end Atomman.Gen\n')
    return {'UnitTable': unit_text, 'LammpsStyle': '\n'.join(lines)}


def _lstr(s):
    if not all(32 <= ord(c) < 127 and c not in '"\\' for c in s):
        raise TranslationError(f'label {s!r} is not plain ASCII')
    return '"' + s + '"'
