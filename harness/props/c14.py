"""C14 — surface and stacking-fault cells cut the right plane, between atomic layers.

Tie: correspondence.  The hand-written Lean model (lean/Atomman/C14.lean) is run by the compiled driver on
exactly the rational inputs the real code saw:
  * free_surface_basis: exhaustive planes |h|,|k|,|l| <= N in cells of every crystal family x 3 cut vectors x
    centred settings (uvws compared exactly as integers where the model certifies that no float tie decides
    the outcome; otherwise the relational model `validBasis` must accept the coded answer; refusals coincide)
  * FreeSurface: uvws, cut-vector refusals, layer shifts, surface() multiplier / pbc / vacuum box
  * StackingFault.fault: above-fault mask (exact), positions
Search: the clauses of the property evaluated on the real code with an independent oracle.
"""
from __future__ import annotations

import itertools
import math
import os
import random
from fractions import Fraction as F

from .. import common as cm

PROP = 'C14'
THEOREMS = [
    # free_surface_basis: starting vectors, enumeration, the two searches
    'C14.initVectors_eq_C16', 'C14.init_cross_parallel', 'C14.mem_genVectors', 'C14.basis_value_error_iff',
    'C14.freeSurfaceBasis_eq', 'C14.search_result_satisfies_filter',
    # integer / zone law / out of plane / right-handed (all three orderings) / normal
    'C14.basis_integer', 'C14.reduceGcd_smul', 'C14.reduceGcd_coprime',
    'C14.normal_component', 'C14.inPlane_iff_zone', 'C14.basis_in_plane', 'C14.basis_in_plane_p',
    'C14.basis_out_of_plane', 'C14.basis_right_handed_cart', 'C14.basis_right_handed', 'C14.orderRows_rows',
    'C14.normal_matches_miller', 'C14.normal_is_reciprocal', 'C14.c2p_det',
    # what the searches optimise
    'C14.basis_a_shortest', 'C14.basis_c_closest', 'C14.basis_b_shortest',
    # headline statement; division-free normal clause; the relational model used on float ties is sound
    'C14.free_surface_basis_correct', 'C14.normal_cofactor', 'C14.accepted_of_run', 'C14.accepted_properties',
    'C14.inRange_iff', 'C14.validBasis_sound', 'C14.validBasis_properties', 'C14.zone_conventional', 'C14.p2c_c2p',
    # documented refusal for an incompatible cut vector (against C05's normalised cell)
    'C14.cutCompatible_iff_normalized',
    # Miller-Bravais input / output
    'C14.plane4to3_spec', 'C14.vector3to4_spec',
    # FreeSurface: termination shifts
    'C14.withReplica_spec', 'C14.shifts_perm', 'C14.shifts_sorted', 'C14.shifts_length', 'C14.shift_between_planes',
    'C14.shifts_in_cell', 'C14.roundKey_mono', 'C14.layerCoords_spec', 'C14.shift_between_planes_atoms',
    # FreeSurface.surface: same crystal, multiplier, pbc, vacuum
    'C14.surfacePos_spec', 'C14.surface_same_crystal', 'C14.cutMult_none', 'C14.cutMult_some', 'C14.surface_pbc',
    'C14.vacuum_symmetric',
    # System.wrap on one atom (shared with C05), StackingFault.fault
    'C14.wrapPos_eq_C05', 'C14.wrapPos_reconstruct', 'C14.wrapPos_inside', 'C14.wrapPos_add_lattice',
    'C14.isAbove_iff', 'C14.fault_below_fixed', 'C14.fault_above_shifted', 'C14.faultShift_cut',
    'C14.fault_box_vector_restores', 'C14.fault_lattice_vector_restores', 'C14.wrapPos_insidePeriodic',
    'C14.wrapPos_cut', 'C14.orbit_shift_perm', 'C14.fault_orbit_restores', 'C14.push_restores_minimum_r',
    'C14.isFloor_ratFloor',
    # FreeSurface / StackingFault as objects: state kept between calls, histories of calls
    'C14.faultWith_maskOf', 'C14.sfNew_coherent', 'C14.sfStep_coherent', 'C14.sfRun_coherent', 'C14.surfaceBase_error',
    'C14.faultCore_eq', 'C14.fault_after_history', 'C14.fault_history_clauses', 'C14.surfaceSF_forgets',
    'C14.sfRun_history_independent', 'C14.history_eq_fresh', 'C14.surfaceSF_default_plane', 'C14.vacuum_same_crystal',
    'C14.sizesOf_mult', 'C14.sfNew_built', 'C14.sfStep_built', 'C14.sfRun_built', 'C14.stored_system_same_crystal',
    # vacuum and relative coordinates (tilted cut vector)
    'C14.cartToRel_z_of_flat', 'C14.vacuum_rel_cut_c', 'C14.vacuum_rel_cut_bounds', 'C14.vacuum_inplane_c',
    # counts and smallest sizes: the iterfaultmap mesh for every pair of counts, the one-layer rotated cell
    'C14.faultMesh_length', 'C14.mem_faultMesh', 'C14.faultMesh_unit', 'C14.faultMesh_nodup', 'C14.iterFaultMap_mesh',
    'C14.iterFaultMap_length', 'C14.shifts_single_layer', 'C14.single_layer_centered', 'C14.cutMult_exact',
    'C14.cutMult_minwidth',
    # source tie: definitions regenerated from /repo's current source (Generated/SurfaceSource.lean) = the model
    'C14.gen_initVectors_eq_model', 'C14.initVectors_div_exact', 'C14.gen_convertStart_eq_model',
    'C14.gen_defaultMaxIndex_eq_model', 'C14.gen_planeNormal_eq_model', 'C14.gen_genVectors_eq_model',
    'C14.gen_step1_eq_model', 'C14.gen_search1_eq_model', 'C14.cart_cross_of_icross_zero', 'C14.gen_step2_eq_model',
    'C14.gen_search2_eq_model', 'C14.gen_reduceC_eq_model', 'C14.gen_basisABC_eq_model', 'C14.gen_orderRows_eq_model',
    'C14.gen_hklForm_eq_model', 'C14.gen_fsb_signature', 'C14.gen_cutIndex_eq_model', 'C14.gen_cutRefuses_iff',
    'C14.gen_withReplica_eq_model', 'C14.gen_relShift_eq_model', 'C14.gen_shifts_eq_model', 'C14.gen_vacuumRefuses_iff',
    'C14.gen_vacuumBox_eq_model', 'C14.gen_cutMult_eq_model', 'C14.gen_surfacePbc_eq_model',
    'C14.gen_freeSurface_signatures', 'C14.gen_aIndex_eq_model', 'C14.gen_faultpos_setters_eq_model',
    'C14.gen_resolveFShift_eq_model', 'C14.gen_push_eq_model', 'C14.gen_stackingFault_signatures',
    # the public entry point (form of hkl, return_hexagonal, centring key) end to end; the headline for the generated code
    'C14.hklForm_refuses_iff', 'C14.hklForm_default', 'C14.planeOf_spec', 'C14.fsbEntry_correct',
    'C14.fsbEntry_value_error_iff', 'C14.gen_free_surface_basis_correct',
    # the cut is between atomic planes for EVERY atom (not only the kept layer representatives) and in the BUILT system
    'C14.roundKey_close', 'C14.shift_between_planes_all_atoms', 'C14.surface_cut_between_planes',
    'C14.surface_cut_between_planes_any', 'C14.gen_cutRefuses_eq_model',
    # the facts about C04's / C16's models that C14 uses, proved from the model files only (Proofs/C14_C04, C14_C16)
    'C14.c04_supersize_length', 'C14.c04_replicaPos_eq', 'C14.c04_superBox_volume', 'C14.c16_idx_cross_parallel',
    'C14.c16_normalOf_eq', 'C14.c16_normal_is_reciprocal',
]
PARTIAL = {
    'isclose_as_exact_zero': 'np.isclose(x, 0) / np.isclose(mag, b_mag) / the arccos-based angle comparisons are modelled '
                             'as exact tests (x = 0, equal squared lengths, cross-multiplied squared cosines); on inputs '
                             'where a float tie or near-tie decides the coded choice the correspondence does not '
                             'compare the vectors literally but requires the relational model `Rel.validBasis` to '
                             'accept the coded answer; `validBasis_properties` proves that every accepted answer has '
                             'the integer / zone-law / out-of-plane / right-handed clauses too (optimality only up to 1e-9)',
    'searches_succeed': 'no theorem says that the two searches find vectors (AssertionError is a documented outcome: '
                        'it does happen for an explicit small maxindex); all theorems are about successful runs, '
                        'refusals are compared by the correspondence',
    'fault_lattice_vector_restores': 'proved (a) exactly for integer combinations of the periodic cell vectors of the '
                                     'system (`fault_box_vector_restores`), (b) as a permutation for any translation that '
                                     'maps the upper half onto itself modulo the cell (`fault_lattice_vector_restores`), '
                                     '(c) as a permutation for a translation t with M t a periodic cell vector when the '
                                     'atoms are listed as orbits of t (`fault_orbit_restores`); that the list '
                                     '`surfaceAtoms` produces is such a union of orbits (a reordering of the replica '
                                     'loops) is not derived in Lean: the search oracle checks the restoration on the real '
                                     'systems for a1vect, a2vect and combinations',
    'shift_between_planes': 'closed in this round for every atom of the rotated cell (`shift_between_planes_all_atoms`: half the '
                            'interlayer gap minus the rounding step 10^-numdec) and for every atom of the BUILT system, all '
                            'three cuts (`surface_cut_between_planes_any`); left: when two genuine layers are closer than '
                            '2 * 10^-numdec the bound says nothing (the code itself merges them into one layer)',
    'rotate_and_normalize': 'the rotated cell itself (System.rotate + normalize) is C04/C05 territory: here it enters as the '
                            'given cell `rbox` with its atoms; the search oracle checks on the real objects that it is a '
                            'proper rotation of uvws.vects holding det(uvws) copies of every unit-cell atom',
    'minimum_r': 'only the final algebra of the push is proved (the pushed separation has length minimum_r); the '
                 'selection of the closest pair by System.dvect is not modelled (the search oracle recomputes the closest '
                 'pair across the plane on the real systems: common push t >= 0, closest pair exactly minimum_r apart)',
    'object_model': 'the Lean object (SFState / sfStep) covers shift, stored system, faultpos_rel / faultpos_cart, the cached '
                    'abovefault mask and the two shift vectors under set_shift / surface / the faultpos setters / fault / '
                    'iterfaultmap, with the state a refused call leaves behind; not in it: unique_shifts (spglib), the '
                    'uvw form stored by the a?vect_uvw setters (only the Cartesian vectors), minimum_r, the box stretch '
                    'wrap() applies across the non-periodic cut when atoms are pushed out of it (positions only)',
    'vacuum_relative_coordinates': 'vacuum_rel_cut_c / vacuum_inplane_c are stated for cutboxvector c (the LAMMPS-normal '
                                   'rotated cell allows a tilt of c in both in-plane directions; for cutboxvector a the cut '
                                   'vector has no tilt, for b the analogous statement is not written out)',
}
RULE = ('free_surface_basis: every plane |h|,|k|,|l| <= N (N=4 quick, 7 thorough; zeros and negatives included) against '
        'cells of all seven crystal families in two regimes — small dyadic cells on which every dot/cross product of the '
        'routine is exact in double precision (uvws compared exactly unless the model flags a tie) and family-constructor '
        'cells with generic parameters (tolerance 1e-9 on the normal; uvws exactly unless flagged) — x the three '
        'cutboxvectors x settings p/f/i/a/b/c/t1/t2 on centred primitive cells, Miller-Bravais input and output on '
        'hexagonal cells, explicit small maxindex (searches that fail), all-zero / malformed planes (refusals must '
        'coincide by class). FreeSurface/StackingFault: fcc, bcc, diamond, L1_2, B2, bct, hcp, primitive fcc/bcc with '
        'settings f/i, a two-atom orthorhombic cell x random low-index planes x cuts: refusal for an incompatible cut '
        'vector, uvws, shifts, surface() multiplier/pbc/vacuum box/positions (supersize+shift+wrap in the model), '
        'fault() mask (exact) and positions. distinct = distinct (cell, plane, cut, maxindex, setting) or system '
        'parameters; non-trivial = the call did not refuse. Search: the clauses on the real objects with an exact '
        'Fraction oracle (zone law, determinant, reciprocal direction, brute-force minimality in the exact regime) and '
        'a site census of the built systems against the unit cell. Object histories: 5-9 calls on ONE FreeSurface / '
        'StackingFault object (constructor shiftindex; surface() with shiftindex incl. negative / out of range, explicit '
        'shift absolute or shiftscale=True, both (refused), kept shift, sizemults ints / tuples / zero extent, minwidth, '
        'even, vacuumwidth incl. 0 and negative, faultpos_rel / faultpos_cart incl. the edges, outside, both; set_shift; '
        'the two faultpos setters; fault() with a1 / a2 / outofplane singly or together, faultshift, both (refused), '
        'fault-plane overrides midway between atomic layers, a1vect_uvw / a2vect_uvw overrides incl. out-of-plane vectors '
        '(refused) and 3-index forms on 4-index planes, minimum_r (search only); iterfaultmap(num_a1, num_a2, outofplane); '
        'fault() before any build). Every call is chosen after looking at the real object, mirrored on the Lean object, '
        'and followed by a comparison of every attribute; in the search every call is judged by a specification-level '
        'shadow of the final arguments, a fresh object given the same final arguments (bitwise equal reads), and the '
        'clause oracle on every returned fault configuration. Counts / sizes: a third of all cases use generated one- and '
        'two-atom cells (atoms at arbitrary fractional positions, seven families incl. b == c; two atoms in one layer); '
        'decimal lattice constants x high-index planes and planes with rational interplanar spacing ({221} {340} {236} '
        '{148} {447}); every offered shift judged on the rotated cell; iterfaultmap counts 0..60 and the float-division '
        'trap counts (thorough: all, quick: a fifth + two, rotating with the seed); systems of exactly 2^k - 1, 2^k, 2^k + 1 '
        'atoms (k = 10..13, 16); minwidth as exact multiples of the cell width; even as True / 1 / numpy.True_; the same '
        'fault request repeated later in a history; returned configurations scribbled over.')
ASSUMPTIONS = [
    'np.isclose(x, 0.0) is x = 0, np.isclose(mag, b_mag) is equality of lengths, and the comparisons of norms / '
    'arccos angles are the exact comparisons of squared lengths / cross-multiplied squared cosines (order-equivalent '
    'for exact reals); inputs on which a float tie decides are recognised by the model and handled relationally',
    'numpy.floor followed by the integer cast is the mathematical floor (parameter fl with fl s <= s < fl s + 1; the '
    'driver uses Rat.floor, `isFloor_ratFloor`)',
    'the square root of the minimum_r push is a parameter sq with sq*sq = radicand',
    'the free_surface_basis theorems hold over every linearly ordered commutative ring, so they cover the run at Z on the '
    'cell scaled to integers (what the driver executes; cross-checked against the run at Q) as well as Q and R',
    'the cell is non-singular (det vects != 0); the statements about the side of the normal and det(uvws) > 0 assume a '
    'right-handed cell (det > 0), the Cartesian form `basis_right_handed_cart` does not',
    'Box.ishexagonal is evaluated on the Gram matrix with a relative tolerance 1e-7 (generated boxes are hexagonal to '
    '1e-12 or far from it)',
    'np.unique(round(x, numdec)) keeps the first atom of each rounded layer coordinate, ascending (model `layerCoords`; '
    'cases within 1e-3 of a rounding boundary or with layer gaps near tol are not compared)',
    'object histories: the Lean object is created from what __init__ fixed on the real object (rotated cell, offered '
    'shifts, inv(uvws) . rcell.vects as the map from primitive indices to Cartesian vectors); atoms within 1e-9 of the '
    'fault plane are exempt from the mask / position comparison, atoms the model places on a periodic face may differ by '
    'a whole cell vector (floor of wrap is discontinuous there); np.isclose(x, 0.0) is |x| <= 1e-8 exactly',
]
TRUSTED = ['the reader in translate(): which Lean expression each recognised source form stands for (np.isclose(x, 0.0) '
           '-> x = 0; norm comparisons -> squared lengths; angle < c_angle -> angleLt; np.isclose(angle, 0 / 180) -> '
           'Parallel / AntiParallel; float quotient cast by dtype=int -> Int.tdiv; np.abs / np.sign / np.lcm / np.gcd on '
           'ints -> natAbs / Int.sign / lcm / gcd); unrecognised forms raise TranslationError',
           'numpy inside the implementation run', 'fractions.Fraction / numpy site census oracles in search()',
           "C05_Lemmas' atom_reconstruct / cartToRel_relToCart and C04_Lemmas' replicaPos_eq_aux / length_flatMap_range_const "
           '(imported helper files that do not depend on a regenerated source tie); the C16 / C04 facts used are re-proved '
           'in Proofs/C14_C16.lean / C14_C04.lean from the model files and audited here']

CUTS = ('a', 'b', 'c')
SETTINGS = ('p', 'f', 'i', 'a', 'b', 'c', 't1', 't2')
P2C = {  # rows of vector_primitive_to_conventional (as Fractions); checked against the source in correspond()
    'p': [[1, 0, 0], [0, 1, 0], [0, 0, 1]],
    'a': [[1, 0, 0], [0, F(1, 2), F(1, 2)], [0, F(-1, 2), F(1, 2)]],
    'b': [[F(1, 2), 0, F(1, 2)], [0, 1, 0], [F(-1, 2), 0, F(1, 2)]],
    'c': [[F(1, 2), F(1, 2), 0], [F(-1, 2), F(1, 2), 0], [0, 0, 1]],
    'i': [[F(1, 2), F(1, 2), F(1, 2)], [F(-1, 2), F(1, 2), F(-1, 2)], [F(-1, 2), F(-1, 2), F(1, 2)]],
    'f': [[F(1, 2), F(1, 2), 0], [0, F(1, 2), F(1, 2)], [F(1, 2), 0, F(1, 2)]],
    't1': [[F(2, 3), F(1, 3), F(1, 3)], [F(-1, 3), F(1, 3), F(1, 3)], [F(-1, 3), F(-2, 3), F(1, 3)]],
    't2': [[F(-2, 3), F(-1, 3), F(1, 3)], [F(1, 3), F(-1, 3), F(1, 3)], [F(1, 3), F(2, 3), F(1, 3)]],
}


# ----------------------------------------------------------------------------------------
# translator: the checked source tie.  Every run regenerates lean/Atomman/Generated/SurfaceSource.lean from
# /repo's CURRENT free_surface_basis.py / FreeSurface.py / StackingFault.py with `ast`; Proofs/C14_Source.lean
# proves each generated definition equal to the hand model (`gen_..._eq_model`).  Anything the reader below does
# not recognise raises TranslationError (never a silent pass).
# ----------------------------------------------------------------------------------------
import ast

from ..translate import TranslationError

GENERATED = ['SurfaceSource']
_FSB = 'atomman/defect/free_surface_basis.py'
_FS = 'atomman/defect/FreeSurface.py'
_SF = 'atomman/defect/StackingFault.py'


def _u(n):
    return ast.unparse(n)


def _te(msg, node=None):
    raise TranslationError(msg + ((': ' + _u(node)[:160]) if node is not None else ''))


def _nodoc(body):
    if body and isinstance(body[0], ast.Expr) and isinstance(body[0].value, ast.Constant) \
            and isinstance(body[0].value.value, str):
        return body[1:]
    return body


def _find_fn(tree, name, cls=None, setter=False):
    scope = tree.body
    if cls is not None:
        cs = [n for n in tree.body if isinstance(n, ast.ClassDef) and n.name == cls]
        if len(cs) != 1:
            _te(f'class {cls} not found exactly once')
        scope = cs[0].body
    fs = [n for n in scope if isinstance(n, ast.FunctionDef) and n.name == name
          and any(_u(d) == f'{name}.setter' for d in n.decorator_list) == setter]
    if len(fs) != 1:
        _te(f'function {cls or ""}.{name} (setter={setter}) not found exactly once ({len(fs)})')
    return fs[0]


def _one(stmts, pred, what):
    hit = [s for s in stmts if pred(s)]
    if len(hit) != 1:
        _te(f'{what}: expected exactly one statement, found {len(hit)}')
    return hit[0]


def _is_assign(s, target):
    return isinstance(s, ast.Assign) and len(s.targets) == 1 and _u(s.targets[0]) == target


def _defaults(fn):
    """{argument: source text of its default} in signature order ('<required>' when there is none)."""
    a = fn.args
    if a.vararg or a.kwarg or a.kwonlyargs or a.posonlyargs:
        _te(f'signature of {fn.name} has */** / keyword-only / positional-only arguments')
    names = [x.arg for x in a.args]
    dfl = ['<required>'] * (len(names) - len(a.defaults)) + [_u(d) for d in a.defaults]
    return list(zip(names, dfl))


def _lean_strs(xs):
    return '[' + ', '.join('"' + x.replace('\\', '\\\\').replace('"', '\\"') + '"' for x in xs) + ']'


def _sig_def(name, fn, drop_self=True):
    d = _defaults(fn)
    if drop_self and d and d[0][0] == 'self':
        d = d[1:]
    return (f'/-- signature of `{fn.name}`: argument names in order with the source text of each default. -/\n'
            f'def {name} : List (String × String) :=\n  [' +
            ', '.join(f'("{a}", "{v.replace(chr(34), chr(39))}")' for a, v in d) + ']\n')


def _cond(node, leaves, env=None):
    """boolean structure over recognised leaves (and / or / not); an unknown leaf is a TranslationError."""
    key = _u(node)
    if key in leaves:
        v = leaves[key]
        return v(env) if callable(v) else v
    if isinstance(node, ast.BoolOp):
        op = ' ∧ ' if isinstance(node.op, ast.And) else ' ∨ '
        return '(' + op.join(_cond(v, leaves, env) for v in node.values) + ')'
    if isinstance(node, ast.UnaryOp) and isinstance(node.op, ast.Not):
        return '(¬ ' + _cond(node.operand, leaves, env) + ')'
    _te('unrecognised condition', node)


# ---- free_surface_basis -------------------------------------------------------------------

_COMP = {'hkl[0]': 'hkl.x', 'hkl[1]': 'hkl.y', 'hkl[2]': 'hkl.z'}


def _iex(n):
    """integer expression of the starting-vector branches.  `x / y` inside `np.array(..., dtype=int)` is a float
    quotient cast to int: truncation (`Int.tdiv`; the divisions are exact, `initVectors_div_exact`)."""
    k = _u(n)
    if k in _COMP:
        return _COMP[k]
    if k == 'm':
        return 'm'
    if isinstance(n, ast.Constant) and isinstance(n.value, int) and not isinstance(n.value, bool):
        return str(n.value) if n.value >= 0 else f'({n.value})'
    if isinstance(n, ast.UnaryOp) and isinstance(n.op, ast.USub):
        return f'(-{_iex(n.operand)})'
    if isinstance(n, ast.BinOp) and isinstance(n.op, ast.Mult):
        return f'({_iex(n.left)} * {_iex(n.right)})'
    if isinstance(n, ast.BinOp) and isinstance(n.op, ast.Div):
        return f'(Int.tdiv {_iex(n.left)} {_iex(n.right)})'
    _te('unrecognised integer expression', n)


def _int_array(n):
    if not (isinstance(n, ast.Call) and _u(n.func) == 'np.array' and len(n.args) == 1
            and isinstance(n.args[0], ast.List) and len(n.args[0].elts) == 3
            and [(k.arg, _u(k.value)) for k in n.keywords] == [('dtype', 'int')]):
        _te('expected np.array([x, y, z], dtype=int)', n)
    return '⟨' + ', '.join(_iex(e) for e in n.args[0].elts) + '⟩'


def _init_leaf(stmts, ind):
    pad = ' ' * ind
    if len(stmts) == 1 and isinstance(stmts[0], ast.Raise):
        if not _u(stmts[0].exc).startswith('ValueError('):
            _te('the all-zero branch must raise ValueError', stmts[0])
        return pad + 'none'
    if len(stmts) != 4 or not all(isinstance(s, ast.Assign) and len(s.targets) == 1 for s in stmts) \
            or [_u(s.targets[0]) for s in stmts] != ['m', 's', 'a_uvw', 'b_uvw']:
        _te('a starting-vector branch must assign m, s, a_uvw, b_uvw', stmts[0] if stmts else None)
    mv, sv = stmts[0].value, stmts[1].value
    if isinstance(mv, ast.Constant) and mv.value == 1:
        m = '1'
    elif isinstance(mv, ast.Call) and _u(mv.func) == 'np.lcm' and len(mv.args) == 2 and not mv.keywords:
        m = f'ilcm {_iex(mv.args[0])} {_iex(mv.args[1])}'
    elif isinstance(mv, ast.Call) and _u(mv.func) == 'np.lcm.reduce' and len(mv.args) == 1 and not mv.keywords \
            and isinstance(mv.args[0], ast.List) and len(mv.args[0].elts) == 3:
        e = [_iex(x) for x in mv.args[0].elts]
        m = f'ilcm (ilcm {e[0]} {e[1]}) {e[2]}'
    else:
        _te('unrecognised m', mv)
    if not (isinstance(sv, ast.Call) and _u(sv.func) == 'np.sign' and len(sv.args) == 1 and not sv.keywords):
        _te('unrecognised s', sv)
    return (f'{pad}let m : Int := {m}\n{pad}some ⟨{_int_array(stmts[2].value)}, {_int_array(stmts[3].value)}, '
            f'Int.sign {_iex(sv.args[0])}⟩')


def _init_tree(node, ind):
    pad = ' ' * ind
    if isinstance(node, list):
        if len(node) == 1 and isinstance(node[0], ast.If):
            return _init_tree(node[0], ind)
        return _init_leaf(node, ind)
    t = node.test
    if not (isinstance(t, ast.Compare) and len(t.ops) == 1 and isinstance(t.ops[0], ast.NotEq)
            and _u(t.left) in _COMP and _u(t.comparators[0]) == '0'):
        _te('branch test must be hkl[i] != 0', t)
    return (f'{pad}if {_COMP[_u(t.left)]} ≠ 0 then\n{_init_tree(node.body, ind + 2)}\n{pad}else\n'
            f'{_init_tree(node.orelse, ind + 2)}')


_VNAME = {'a_uvw': 'a', 'b_uvw': 'b', 'c_uvw': 'c', 'hkl': 'hkl'}


def _if_tree(node_or_list, leaves, assigns, defs, ind):
    """an if / elif / else tree whose leaves are recognised sets of assignments -> nested Lean `if`."""
    pad = ' ' * ind
    stmts = node_or_list if isinstance(node_or_list, list) else [node_or_list]
    stmts = [s for s in stmts if not (isinstance(s, ast.Assign) and _u(s) in defs)]
    if not stmts:
        return pad + 'st'
    if len(stmts) == 1 and isinstance(stmts[0], ast.If):
        s = stmts[0]
        return (f'{pad}if {_cond(s.test, leaves)} then\n{_if_tree(s.body, leaves, assigns, defs, ind + 2)}\n'
                f'{pad}else\n{_if_tree(s.orelse, leaves, assigns, defs, ind + 2)}')
    key = frozenset(_u(s) for s in stmts)
    if all(isinstance(s, ast.Assign) for s in stmts) and key in assigns:
        return pad + assigns[key]
    _te('unrecognised block in a search loop', stmts[0])


def _parse(src):
    import warnings
    with warnings.catch_warnings():
        warnings.simplefilter('ignore')
        return ast.parse(src)


def _gen_fsb(src):
    tree = _parse(src)
    fsb = _find_fn(tree, 'free_surface_basis')
    body = _nodoc(fsb.body)
    out = []
    order = []      # (lineno, what) of the stages, must be increasing

    out.append(_sig_def('fsbSignature', fsb, drop_self=False))

    # -- the form of hkl / return_hexagonal (option handling at the head of the routine)
    out.append(_gen_hkl_form(body, order))

    # -- starting vectors
    top = _one(body, lambda s: isinstance(s, ast.If) and _u(s.test) == 'hkl[0] != 0', 'starting-vector tree')
    order.append((top.lineno, 'start'))
    out.append('/-- the zero-pattern branches (`none` = ValueError). `Int.tdiv` = the float quotient cast by `dtype=int`. -/\n'
               'def initVectors (hkl : IV) : Option Init :=\n' + _init_tree(top, 2) + '\n')

    # -- conversion of the starting vectors to the primitive cell
    cv = [s for s in body if isinstance(s, ast.If) and _u(s.test) == 'conventional_setting is not None'
          and any(_is_assign(x, 'a_uvw') or _is_assign(x, 'b_uvw') for x in s.body)]
    if len(cv) != 1:
        _te('conversion of the starting vectors to the primitive cell not found exactly once')
    order.append((cv[0].lineno, 'convert'))
    lets = []
    for s in cv[0].body:
        if _u(s) == 'box = primitive_box':
            continue
        if not (isinstance(s, ast.Assign) and len(s.targets) == 1 and _u(s.targets[0]) in ('a_uvw', 'b_uvw')
                and _u(s.value) == f'miller.vector_conventional_to_primitive({_u(s.targets[0])}, '
                                   f'setting=conventional_setting)'):
            _te('unrecognised statement in the conversion block', s)
        v = _VNAME[_u(s.targets[0])]
        lets.append(f'  let {v} := M3.vecMul {v} L')
    out.append('/-- `miller.vector_conventional_to_primitive` applied to the starting vectors (`L` = centring matrix). -/\n'
               'def convertStart (L : M3 Int) (a b : IV) : IV × IV :=\n' + '\n'.join(lets) + '\n  (a, b)\n')

    # -- default maxindex
    mi = _one(body, lambda s: isinstance(s, ast.If) and _u(s.test) == 'maxindex is None', 'default maxindex')
    order.append((mi.lineno, 'maxindex'))
    if len(mi.body) != 1 or mi.orelse or not _is_assign(mi.body[0], 'maxindex'):
        _te('default maxindex block', mi)
    v = mi.body[0].value
    ok = (isinstance(v, ast.Call) and _u(v.func) == 'int' and len(v.args) == 1 and isinstance(v.args[0], ast.Call)
          and _u(v.args[0].func) == 'np.max' and len(v.args[0].args) == 1 and isinstance(v.args[0].args[0], ast.List))
    if not ok:
        _te('default maxindex', v)
    names = []
    for e in v.args[0].args[0].elts:
        if not (isinstance(e, ast.Call) and _u(e.func) == 'np.abs' and len(e.args) == 1 and _u(e.args[0]) in _VNAME):
            _te('default maxindex entry', e)
        names.append(_VNAME[_u(e.args[0])])
    expr = f'absMax {names[0]}'
    for nm in names[1:]:
        expr = f'max ({expr}) (absMax {nm})'
    out.append(f'/-- `int(np.max([...]))` over the absolute entries. -/\ndef defaultMaxIndex (a b hkl : IV) : Int := {expr}\n')

    # -- plane normal
    pn = _one(body, lambda s: _is_assign(s, 'planenormal'), 'planenormal')
    order.append((pn.lineno, 'normal'))
    want = 's * np.cross(vector_crystal_to_cartesian(a_uvw, box), vector_crystal_to_cartesian(b_uvw, box))'
    v = pn.value
    if not (isinstance(v, ast.BinOp) and isinstance(v.op, ast.Mult) and _u(v.left) == 's'
            and isinstance(v.right, ast.Call) and _u(v.right.func) == 'np.cross' and len(v.right.args) == 2):
        _te(f'planenormal is not {want}', v)
    cs = []
    for a in v.right.args:
        if not (isinstance(a, ast.Call) and _u(a.func) == 'vector_crystal_to_cartesian' and len(a.args) == 2
                and _u(a.args[0]) in ('a_uvw', 'b_uvw') and _u(a.args[1]) == 'box'):
            _te('planenormal factor', a)
        cs.append(f'(cart vects {_VNAME[_u(a.args[0])]})')
    out.append('section\nvariable {K : Type} [Add K] [Sub K] [Mul K] [Zero K] [IntCast K] [LT K] [DecidableLT K] [DecidableEq K]\n')
    out.append(f'def planeNormal (vects : M3 K) (s : Int) (a b : IV) : V3 K :=\n  V3.smul (s : K) (V3.cross {cs[0]} {cs[1]})\n')

    # -- gen_vector
    gvs = [s for s in body if isinstance(s, ast.FunctionDef) and s.name == 'gen_vector']
    if len(gvs) != 1 or [a.arg for a in gvs[0].args.args] != ['n']:
        _te('gen_vector(n) not found exactly once')
    order.append((gvs[0].lineno, 'gen_vector'))
    node = gvs[0].body
    loops = []
    for _ in range(3):
        if not (len(node) == 1 and isinstance(node[0], ast.For) and _u(node[0].iter) == 'range(0, n + 1)'
                and not node[0].orelse):
            _te('gen_vector: expected `for xx in range(0, n+1)`', node[0] if node else None)
        big = _u(node[0].target)
        inner = node[0].body
        if not (len(inner) == 1 and isinstance(inner[0], ast.For) and isinstance(inner[0].iter, ast.List)
                and not inner[0].orelse):
            _te('gen_vector: expected the sign loop', inner[0] if inner else None)
        signs = [_u(e) for e in inner[0].iter.elts]
        sg = _u(inner[0].target)
        b2 = inner[0].body
        if not (b2 and isinstance(b2[0], ast.Assign) and len(b2[0].targets) == 1
                and _u(b2[0].value) == f'{sg} * {big}'):
            _te('gen_vector: expected x = sx * xx', b2[0] if b2 else None)
        loops.append((big, sg, signs, _u(b2[0].targets[0])))
        node = b2[1:]
    small = [l[3] for l in loops]
    if not (len(node) == 2 and isinstance(node[0], ast.If) and len(node[0].body) == 1
            and isinstance(node[0].body[0], ast.Continue) and not node[0].orelse
            and isinstance(node[1], ast.Expr) and isinstance(node[1].value, ast.Yield)):
        _te('gen_vector: innermost block')
    skip = node[0].test
    if not (isinstance(skip, ast.BoolOp) and isinstance(skip.op, ast.And)
            and sorted(_u(v) for v in skip.values) == sorted(f'{x} == 0' for x in small)):
        _te('gen_vector: skip condition', skip)
    y = node[1].value.value
    if not (isinstance(y, ast.Call) and _u(y.func) == 'np.array' and isinstance(y.args[0], ast.List)
            and all(_u(e) in small for e in y.args[0].elts) and len(y.args[0].elts) == 3):
        _te('gen_vector: yield', y)
    ycomp = [_u(e) for e in y.args[0].elts]
    skipc = ' ∧ '.join(f'{_u(v.left)} = 0' for v in skip.values)
    txt = 'def genVectors (n : Int) : List IV :=\n'
    for big, sg, signs, sm in loops:
        txt += (f'  (List.range (n + 1).toNat).flatMap fun ({big} : Nat) => '
                f'([{", ".join(signs)}] : List Int).flatMap fun {sg} =>\n  let {sm} : Int := {sg} * ({big} : Int)\n')
    txt += f'  if {skipc} then [] else [(⟨{", ".join(ycomp)}⟩ : IV)]\n'
    out.append('/-- `gen_vector(n)`: loop nesting, sign order, skipped vector and component order as coded. -/\n' + txt)

    # -- the two searches
    fors = [s for s in body if isinstance(s, ast.For) and _u(s.iter) == 'gen_vector(maxindex)' and _u(s.target) == 'uvw']
    if len(fors) != 2:
        _te(f'expected two loops over gen_vector(maxindex), found {len(fors)}')
    norm_nnn = 'np.linalg.norm(vector_crystal_to_cartesian([maxindex, maxindex, maxindex], box))'

    def pre(lo, hi, want):
        got = {}
        for s in body:
            if lo < s.lineno < hi and isinstance(s, ast.Assign) and len(s.targets) == 1:
                got[_u(s.targets[0])] = _u(s.value)
        for k, v in want.items():
            if got.get(k) not in (v if isinstance(v, tuple) else (v,)):
                _te(f'initial value of {k} before the search is {got.get(k)!r}, expected {v!r}')
    pre(gvs[0].lineno, fors[0].lineno, {'a_mag': norm_nnn, 'c_angle': ('90', '90.0'), 'a_uvw': 'None', 'c_uvw': 'None'})
    pre(fors[0].lineno, fors[1].lineno, {'b_mag': norm_nnn, 'min_angle': ('180.0', '180'), 'b_uvw': 'None',
                                         'a_cart': 'vector_crystal_to_cartesian(a_uvw, box)'})
    defs1 = {'cart = vector_crystal_to_cartesian(uvw, box)', 'mag = np.linalg.norm(cart)',
             'angle = vect_angle(cart, planenormal)'}
    defs2 = {'cart = vector_crystal_to_cartesian(uvw, box)', 'mag = np.linalg.norm(cart)',
             'angle = vect_angle(a_cart, cart)'}
    for f, dd in ((fors[0], defs1), (fors[1], defs2)):
        have = {_u(s) for s in ast.walk(f) if isinstance(s, ast.Assign)}
        if not dd <= have:
            _te(f'search loop: the definitions of cart / mag / angle changed: missing {sorted(dd - have)}')
    leaves1 = {'np.isclose(np.dot(cart, planenormal), 0.0)': 'd = 0', 'mag < a_mag': 'm2 < st.aMag2',
               'angle < c_angle': 'angleLt st.c d m2'}
    assigns1 = {frozenset({'a_uvw = uvw', 'a_mag = mag'}): '{ st with a := some v, aMag2 := m2 }',
                frozenset({'c_angle = angle', 'c_uvw = uvw'}): '{ st with c := some ⟨v, d, m2⟩ }'}
    order.append((fors[0].lineno, 'search1'))
    out.append('/-- initial state of the first search (`a_uvw = c_uvw = None`, `a_mag = |[n,n,n]|`, `c_angle = 90`). -/\n'
               'def init1 (vects : M3 K) (n : Int) : S1 K := ⟨none, V3.normSq (cart vects ⟨n, n, n⟩), none⟩\n')
    out.append('/-- body of the first loop: `d = cart·n`, `m2 = |cart|²`; `np.isclose(x, 0.0)` is `x = 0`, `mag < a_mag` the\n'
               '    comparison of squared lengths, `angle < c_angle` is `angleLt` (positive side, larger squared cosine). -/\n'
               'def step1 (vects : M3 K) (pn : V3 K) (st : S1 K) (v : IV) : S1 K :=\n'
               '  let ct := cart vects v\n  let m2 := V3.normSq ct\n  let d := V3.dot ct pn\n'
               + _if_tree(fors[0].body, leaves1, assigns1, defs1, 2) + '\n')
    out.append('def search1 (vects : M3 K) (pn : V3 K) (n : Int) : S1 K :=\n'
               '  (genVectors n).foldl (step1 vects pn) (init1 vects n)\n')
    leaves2 = {'np.isclose(np.dot(cart, planenormal), 0.0)': 'd = 0',
               'np.isclose(angle, 0.0)': 'Parallel aCart ct', 'np.isclose(angle, 180.0)': 'AntiParallel aCart ct',
               'np.any(np.cross(a_uvw, uvw) != 0)': 'V3.cross a v ≠ (⟨0, 0, 0⟩ : IV)',
               'np.dot(np.cross(a_cart, cart), planenormal) > 0': 'V3.dot (V3.cross aCart ct) pn > 0',
               'np.isclose(mag, b_mag)': 'm2 = st.bMag2', 'angle < min_angle': 'angleLess st.bDot ad = true',
               'mag < b_mag': 'm2 < st.bMag2'}
    assigns2 = {frozenset({'b_uvw = uvw', 'b_mag = mag', 'min_angle = angle'}): '⟨some v, m2, some ad⟩'}
    out.append('def init2 (vects : M3 K) (n : Int) : S2 K := ⟨none, V3.normSq (cart vects ⟨n, n, n⟩), none⟩\n')
    out.append('/-- body of the second loop (`a` = the integer `a_uvw`, `aCart` its Cartesian image, `ad = a_cart·cart`):\n'
               '    `np.isclose(angle, 0.0 / 180.0)` are `Parallel` / `AntiParallel`, equal angles between vectors of equal\n'
               '    length are compared through `a_cart·cart` (`angleLess`). -/\n'
               'def step2 (vects : M3 K) (pn : V3 K) (a : IV) (st : S2 K) (v : IV) : S2 K :=\n'
               '  let aCart := cart vects a\n  let ct := cart vects v\n  let m2 := V3.normSq ct\n  let d := V3.dot ct pn\n'
               '  let ad := V3.dot aCart ct\n'
               + _if_tree(fors[1].body, leaves2, assigns2, defs2, 2) + '\n')
    out.append('def search2 (vects : M3 K) (pn : V3 K) (a : IV) (n : Int) : S2 K :=\n'
               '  (genVectors n).foldl (step2 vects pn a) (init2 vects n)\n')
    out.append('end\n')

    # -- asserts
    asserts = [(s.lineno, _u(s.test)) for s in body if isinstance(s, ast.Assert)]
    want_a = ['a_uvw is not None', 'c_uvw is not None', 'b_uvw is not None']
    if [a for _, a in asserts] != want_a:
        _te(f'asserts after the searches are {[a for _, a in asserts]}')
    if not (fors[0].lineno < asserts[0][0] < asserts[1][0] < fors[1].lineno < asserts[2][0]):
        _te('asserts are not placed after their searches')
    out.append(f'/-- the searches that must succeed (AssertionError otherwise), in order. -/\ndef asserts : List String := {_lean_strs(want_a)}\n')

    # -- gcd reduction
    rd = _one(body, lambda s: _is_assign(s, 'c_uvw') and 'gcd' in _u(s.value), 'gcd reduction')
    order.append((rd.lineno, 'reduce'))
    order.append((fors[1].lineno, 'search2'))
    if _u(rd.value) != 'c_uvw / np.gcd.reduce(np.asarray(c_uvw, dtype=int))':
        _te('gcd reduction', rd.value)
    if not (asserts[1][0] < rd.lineno < fors[1].lineno):
        _te('gcd reduction is not between the two searches')
    out.append('/-- `c_uvw / np.gcd.reduce(c_uvw)`. -/\ndef reduceC (v : IV) : IV := let g := gcd3 v; ⟨v.x / g, v.y / g, v.z / g⟩\n')

    # -- row order
    od = _one(body, lambda s: isinstance(s, ast.If) and _u(s.test).startswith('cutboxvector =='), 'row order')
    order.append((od.lineno, 'order'))
    txt = 'def orderRows? (cut : String) (a b c : IV) : Option (M3 Int) :=\n'
    node = od
    while True:
        t = node.test
        if not (isinstance(t, ast.Compare) and _u(t.left) == 'cutboxvector' and len(t.ops) == 1
                and isinstance(t.ops[0], ast.Eq) and isinstance(t.comparators[0], ast.Constant)
                and isinstance(t.comparators[0].value, str)):
            _te('row order test', t)
        if not (len(node.body) == 1 and _is_assign(node.body[0], 'uvws')):
            _te('row order body', node.body[0])
        v = node.body[0].value
        if not (isinstance(v, ast.Call) and _u(v.func) == 'np.array' and len(v.args) == 1 and not v.keywords
                and isinstance(v.args[0], ast.List) and len(v.args[0].elts) == 3
                and all(_u(e) in ('a_uvw', 'b_uvw', 'c_uvw') for e in v.args[0].elts)):
            _te('row order value', v)
        rows = ', '.join(_VNAME[_u(e)] for e in v.args[0].elts)
        txt += f'  if cut = "{t.comparators[0].value}" then some ⟨{rows}⟩ else\n'
        if len(node.orelse) == 1 and isinstance(node.orelse[0], ast.If):
            node = node.orelse[0]
        elif not node.orelse:
            break
        else:
            _te('row order: unexpected else', node.orelse[0])
    out.append('/-- the `cutboxvector` chain (`none`: no branch taken). -/\n' + txt + '  none\n')

    ls = [l for l, _ in order]
    stages = ['form', 'start', 'convert', 'maxindex', 'normal', 'gen_vector', 'search1', 'reduce', 'search2', 'order']
    if ls != sorted(ls) or [w for _, w in order] != stages:
        _te(f'stages of free_surface_basis are out of order: {order}')
    out.append('section\nvariable {K : Type} [Add K] [Sub K] [Mul K] [Zero K] [IntCast K] [LT K] [DecidableLT K] [DecidableEq K]\n')
    out.append('/-- the routine up to the row order: the generated stages composed in the source order checked above\n'
               '    (`fsbStages`); `value` = all-zero plane, `assert` = a search found nothing. -/\n'
               'def basisABC (vects : M3 K) (hkl : IV) (L : M3 Int) (nOpt : Option Int) : Except String (ABC K) :=\n'
               '  match initVectors hkl with\n  | none => .error "value"\n  | some ini =>\n'
               '    let ab := convertStart L ini.a0 ini.b0\n'
               '    let n := match nOpt with | some n => n | none => defaultMaxIndex ab.1 ab.2 hkl\n'
               '    let pn := planeNormal vects ini.s ab.1 ab.2\n    let st1 := search1 vects pn n\n'
               '    match st1.a, st1.c with\n    | some a, some cb =>\n      let c := reduceC cb.v\n'
               '      let st2 := search2 vects pn a n\n      match st2.b with\n      | some b => .ok ⟨a, b, c, n, pn⟩\n'
               '      | none => .error "assert"\n    | _, _ => .error "assert"\nend\n')
    out.append(f'/-- the stages in source order. -/\ndef fsbStages : List String := {_lean_strs([w for _, w in order])}\n')
    return out


def _gen_hkl_form(body, order):
    """hkl.shape / box.ishexagonal() / return_hexagonal handling -> (return 4 indices?, input converted from 4?)."""
    top = _one(body, lambda s: isinstance(s, ast.If) and _u(s.test) == 'hkl.shape == (4,)', 'hkl form')
    order.append((top.lineno, 'form'))
    ic = [s for s in body if isinstance(s, ast.If) and _u(s.test) == 'np.allclose(hkl, np.asarray(hkl, dtype=int))']
    if len(ic) != 1 or not (len(ic[0].orelse) == 1 and isinstance(ic[0].orelse[0], ast.Raise)
                            and _u(ic[0].orelse[0].exc).startswith('ValueError(')):
        _te('integer test of hkl (ValueError otherwise) not found')
    leaves = {'hkl.shape == (4,)': 'len = 4', 'hkl.shape == (3,)': 'len = 3', 'box.ishexagonal()': 'hex = true',
              'return_hexagonal is None': lambda env: f'{env["rh"]} = none',
              'return_hexagonal': lambda env: f'{env["rh"]} = some true'}

    def run(stmts, env, ind):
        pad = ' ' * ind
        if not stmts:
            return f'{pad}.ok (decide ({env["rh"]} = some true), {env["conv"]})'
        s, rest = stmts[0], stmts[1:]
        if isinstance(s, ast.If):
            return (f'{pad}if {_cond(s.test, leaves, env)} then\n{run(s.body + rest, env, ind + 2)}\n{pad}else\n'
                    f'{run(s.orelse + rest, env, ind + 2)}')
        if isinstance(s, ast.Raise):
            if not _u(s.exc).startswith('ValueError('):
                _te('hkl form: refusal is not a ValueError', s)
            return f'{pad}.error "value"'
        if _is_assign(s, 'return_hexagonal') and _u(s.value) in ('True', 'False'):
            return run(rest, {**env, 'rh': f'(some {_u(s.value).lower()})'}, ind)
        if _u(s) == 'hkl = miller.plane4to3(hkl)':
            return run(rest, {**env, 'conv': 'true'}, ind)
        _te('hkl form: unrecognised statement', s)
    return ('/-- the head of `free_surface_basis`: `len` = number of indices given, `hex` = `box.ishexagonal()`, `rh` = the\n'
            '    `return_hexagonal` argument.  Result: (return Miller-Bravais vectors?, plane converted with plane4to3?). -/\n'
            'def hklForm (len : Nat) (hex : Bool) (rh : Option Bool) : Except String (Bool × Bool) :=\n'
            + run([top], {'rh': 'rh', 'conv': 'false'}, 2) + '\n')


# ---- FreeSurface / StackingFault ----------------------------------------------------------

class _Ex:
    """scalar / vector expressions over a field `K` (atoms: source text -> (lean, 'K' | 'V'))."""

    def __init__(self, atoms):
        self.atoms = atoms

    def num(self, v):
        fr_ = F(v)
        if fr_ == 0:
            return '0'
        s = f'(({abs(fr_.numerator)} : Int) : K)'
        if fr_.denominator != 1:
            s = f'({s} / (({fr_.denominator} : Int) : K))'
        return s if fr_ > 0 else f'(-{s})'

    def tr(self, n):
        k = _u(n)
        if k in self.atoms:
            return self.atoms[k]
        if isinstance(n, ast.Constant) and isinstance(n.value, (int, float)) and not isinstance(n.value, bool):
            return self.num(n.value), 'K'
        if isinstance(n, ast.UnaryOp) and isinstance(n.op, ast.USub):
            a, t = self.tr(n.operand)
            return f'(-{a})', t
        if isinstance(n, ast.BinOp):
            a, ta = self.tr(n.left)
            b, tb = self.tr(n.right)
            if isinstance(n.op, (ast.Add, ast.Sub)) and ta == tb:
                return f'({a} {"+" if isinstance(n.op, ast.Add) else "-"} {b})', ta
            if isinstance(n.op, ast.Mult):
                if ta == tb == 'K':
                    return f'({a} * {b})', 'K'
                if (ta, tb) == ('K', 'V'):
                    return f'(V3.smul {a} {b})', 'V'
                if (ta, tb) == ('V', 'K'):
                    return f'(V3.smul {b} {a})', 'V'
            if isinstance(n.op, ast.Div) and tb == 'K':
                return (f'({a} / {b})', 'K') if ta == 'K' else (f'(vdiv {a} {b})', 'V')
            if isinstance(n.op, ast.Pow) and ta == 'K' and _u(n.right) == '2':
                return f'({a} * {a})', 'K'
        _te('unrecognised expression', n)

    def cmp(self, n):
        if isinstance(n, ast.BoolOp):
            return '(' + (' ∧ ' if isinstance(n.op, ast.And) else ' ∨ ').join(self.cmp(v) for v in n.values) + ')'
        if isinstance(n, ast.Compare) and len(n.ops) == 1:
            a, ta = self.tr(n.left)
            b, tb = self.tr(n.comparators[0])
            op = {ast.Lt: '<', ast.Gt: '>', ast.LtE: '≤', ast.GtE: '≥'}.get(type(n.ops[0]))
            if op and ta == tb == 'K':
                return f'{a} {op} {b}'
        _te('unrecognised comparison', n)


def _chain_by_cut(stmts, what):
    """`if <x>cutboxvector == 'a': ... elif ... 'b' ... elif ... 'c'` -> {'a': body, ...}."""
    s0 = [s for s in stmts if isinstance(s, ast.If) and _u(s.test) in ("cutboxvector == 'a'", "self.cutboxvector == 'a'")]
    if len(s0) != 1:
        _te(f'{what}: chain over cutboxvector not found exactly once')
    node, res, var = s0[0], {}, _u(s0[0].test).split(' ==')[0]
    while True:
        t = _u(node.test)
        if not (t.startswith(var + " == '") and t[-2] in 'abc' and len(t) == len(var) + 7):
            _te(f'{what}: chain test', node.test)
        res[t[-2]] = node.body
        if len(node.orelse) == 1 and isinstance(node.orelse[0], ast.If):
            node = node.orelse[0]
        elif not node.orelse:
            break
        else:
            _te(f'{what}: unexpected else', node.orelse[0])
    if sorted(res) != ['a', 'b', 'c']:
        _te(f'{what}: branches {sorted(res)}')
    return s0[0], res


def _cut_match(name, typ, rows, doc):
    return (f'/-- {doc} -/\ndef {name} : Cut → {typ}\n' + ''.join(f'  | .{c} => {rows[c]}\n' for c in 'abc'))


def _gen_fs(src):
    tree = _parse(src)
    out = []
    init = _find_fn(tree, '__init__', 'FreeSurface')
    ib = _nodoc(init.body)
    out.append(_sig_def('freeSurfaceInitSignature', init))
    # cut-vector compatibility test and cutindex
    top, br = _chain_by_cut(ib, 'FreeSurface.__init__')
    vec = {'avect': 'r0', 'bvect': 'r1', 'cvect': 'r2'}
    comp = {'0': 'x', '1': 'y', '2': 'z'}
    ci, chk = {}, {}
    for c, bd in br.items():
        if not (len(bd) == 2 and isinstance(bd[0], ast.If) and len(bd[0].body) == 1 and isinstance(bd[0].body[0], ast.Raise)
                and _u(bd[0].body[0].exc).startswith('ValueError(') and not bd[0].orelse and _is_assign(bd[1], 'cutindex')
                and _u(bd[1].value) in comp):
            _te('FreeSurface.__init__: cut branch', bd[0])
        ci[c] = _u(bd[1].value)
        t = bd[0].test
        if not (isinstance(t, ast.BoolOp) and isinstance(t.op, ast.Or)):
            _te('cut compatibility test', t)
        parts = []
        for v in t.values:
            if not (isinstance(v, ast.Compare) and len(v.ops) == 1 and isinstance(v.ops[0], ast.NotEq)
                    and _u(v.comparators[0]) in ('0.0', '0') and isinstance(v.left, ast.Subscript)
                    and _u(v.left.value).startswith('rcell.box.') and _u(v.left.value)[10:] in vec
                    and _u(v.left.slice) in comp):
                _te('cut compatibility term', v)
            parts.append(f'n.{vec[_u(v.left.value)[10:]]}.{comp[_u(v.left.slice)]} ≠ 0')
        chk[c] = ' ∨ '.join(parts)
    out.append(_cut_match('cutIndex', 'Nat', ci, '`cutindex` for each `cutboxvector`.'))
    out.append('/-- refusal test of `FreeSurface.__init__` on the (LAMMPS-normal) vectors `n` of the rotated cell. -/\n'
               'def cutRefuses {K : Type} [Zero K] (cut : Cut) (n : M3 K) : Prop :=\n  match cut with\n'
               + ''.join(f'  | .{c} => {chk[c]}\n' for c in 'abc'))
    # width, layers, replica, shifts
    def need(target, text, what):
        s = _one(ib, lambda s: _is_assign(s, target) and _u(s.value) == text, what)
        return s.lineno
    l_w = need('rcellwidth', 'rcell.box.vects[cutindex, cutindex]', 'rcellwidth')
    l_nd = need('numdec', '-int(np.floor(np.log10(tol)))', 'numdec')
    l_un = _one(ib, lambda s: _u(s) == '_, unique_indices = np.unique(pos[:, cutindex].round(numdec), return_index=True)',
                'np.unique of the rounded coordinates').lineno
    l_co = need('coords', 'pos[unique_indices, cutindex]', 'layer representatives')
    rp = _one(ib, lambda s: isinstance(s, ast.If) and 'np.isclose' in _u(s.test), 'replica test')
    if _u(rp.test) != 'not np.isclose(coords[-1] - coords[0], rcellwidth, rtol=0.0, atol=tol)' or rp.orelse \
            or [_u(s) for s in rp.body] != ['coords = np.append(coords, coords[0] + rcellwidth)']:
        _te('replica test / append', rp)
    ex = _Ex({'coords[-1]': ('l', 'K'), 'coords[0]': ('f', 'K'), 'rcellwidth': ('W', 'K'), 'tol': ('tol', 'K'),
              'coords[1:]': ('pq.2', 'K'), 'coords[:-1]': ('pq.1', 'K'), 'relshifts': ('r', 'K')})
    t = rp.test.operand
    diff = ex.tr(ast.BinOp(left=t.args[0], op=ast.Sub(), right=t.args[1]))[0]
    out.append('section\nvariable {K : Type} [Add K] [Sub K] [Mul K] [Div K] [Neg K] [Zero K] [IntCast K] [LT K] [DecidableLT K]\n')
    out.append('def vdiv (v : V3 K) (k : K) : V3 K := ⟨v.x / k, v.y / k, v.z / k⟩\n')
    out.append('/-- append the periodic replica unless `np.isclose(last - first, W, rtol=0.0, atol=tol)` (`|x| ≤ tol`). -/\n'
               'def withReplica (coords : List K) (W tol : K) : List K :=\n  match coords.head?, coords.getLast? with\n'
               f'  | some f, some l => if absLe {diff} tol then coords else coords ++ [{ex.tr(rp.body[0].value.args[1])[0]}]\n'
               '  | _, _ => coords\n')
    rs = _one(ib, lambda s: _is_assign(s, 'relshifts'), 'relshifts')
    out.append(f'/-- `relshifts` before folding, for one pair of neighbouring layers `pq = (coords[i], coords[i+1])`. -/\n'
               f'def rawRel (W : K) (pq : K × K) : K := {ex.tr(rs.value)[0]}\n')
    folds = [s for s in ib if isinstance(s, ast.AugAssign) and _u(s.target).startswith('relshifts[')]
    txt = 'def foldRel (W r : K) : K :=\n'
    for s in folds:
        if not (isinstance(s.target, ast.Subscript) and _u(s.target.value) == 'relshifts'
                and isinstance(s.op, (ast.Add, ast.Sub))):
            _te('fold of relshifts', s)
        op = '+' if isinstance(s.op, ast.Add) else '-'
        txt += f'  let r := if {ex.cmp(s.target.slice)} then r {op} {ex.tr(s.value)[0]} else r\n'
    if len(folds) != 2 or not (rs.lineno < folds[0].lineno < folds[1].lineno):
        _te('expected two masked updates of relshifts after its definition')
    out.append('/-- the two masked updates `relshifts[mask] -= / += rcellwidth`, applied one after the other. -/\n' + txt + '  r\n')
    sh = _one(ib, lambda s: _is_assign(s, 'shifts'), 'shifts')
    if _u(sh.value) != 'np.outer(np.sort(relshifts), ovect)':
        _te('shifts', sh.value)
    out.append('/-- `np.sort(relshifts)` along the cut. -/\ndef shifts (coords : List K) (W tol : K) : List K :=\n'
               '  sortAsc ((consec (withReplica coords W tol)).map fun pq => foldRel W (rawRel W pq))\n')
    if not (top.lineno < l_w < l_nd < l_un < l_co < rp.lineno < rs.lineno and folds[1].lineno < sh.lineno):
        _te('FreeSurface.__init__: statements out of order')

    # surface()
    sf = _find_fn(tree, 'surface', 'FreeSurface')
    sb = _nodoc(sf.body)
    out.append('end\n')
    out.append(_sig_def('freeSurfaceSurfaceSignature', sf))
    sm = _one(sb, lambda s: isinstance(s, ast.If) and _u(s.test) == 'sizemults is None', 'default sizemults')
    if [_u(s) for s in sm.body] != ['sizemults = [1, 1, 1]'] or sm.orelse:
        _te('default sizemults', sm)
    mw = _one(sb, lambda s: isinstance(s, ast.If) and _u(s.test) == 'minwidth is not None', 'minwidth')
    ev = _one(sb, lambda s: isinstance(s, ast.If) and _u(s.test).startswith('even and'), 'even')
    if not (mw.body and _u(mw.body[0]) == 'mult = int(np.ceil(minwidth / self.rcellwidth))') or mw.orelse:
        _te('minwidth: mult = int(np.ceil(minwidth / self.rcellwidth))', mw)
    CUR = 'sizemults[self.cutindex]'

    def iex(n, env):
        k = _u(n)
        if k in env:
            return env[k]
        if isinstance(n, ast.Constant) and isinstance(n.value, int) and not isinstance(n.value, bool):
            return str(n.value)
        if isinstance(n, ast.Call) and _u(n.func) == 'np.abs' and len(n.args) == 1:
            return f'(({iex(n.args[0], env)}).natAbs : Int)'
        if isinstance(n, ast.Call) and _u(n.func) == 'np.sign' and len(n.args) == 1:
            return f'Int.sign ({iex(n.args[0], env)})'
        if isinstance(n, ast.BinOp) and type(n.op) in (ast.Mult, ast.Add, ast.Sub, ast.Mod):
            o = {ast.Mult: '*', ast.Add: '+', ast.Sub: '-', ast.Mod: '%'}[type(n.op)]
            return f'({iex(n.left, env)} {o} {iex(n.right, env)})'
        _te('multiplier expression', n)

    def icond(n, env):
        if isinstance(n, ast.BoolOp) and isinstance(n.op, ast.And):
            return '(' + ' ∧ '.join(icond(v, env) for v in n.values) + ')'
        if _u(n) == 'even':
            return 'even = true'
        if isinstance(n, ast.Compare) and len(n.ops) == 1 and type(n.ops[0]) in (ast.Gt, ast.Lt, ast.Eq):
            o = {ast.Gt: '>', ast.Lt: '<', ast.Eq: '='}[type(n.ops[0])]
            return f'{iex(n.left, env)} {o} {iex(n.comparators[0], env)}'
        _te('multiplier condition', n)

    def run(stmts, env, ind):
        pad = ' ' * ind
        if not stmts:
            return pad + env[CUR]
        s, rest = stmts[0], stmts[1:]
        if isinstance(s, ast.If):
            return (f'{pad}if {icond(s.test, env)} then\n{run(s.body + rest, env, ind + 2)}\n{pad}else\n'
                    f'{run(s.orelse + rest, env, ind + 2)}')
        if isinstance(s, ast.Assign) and len(s.targets) == 1 and _u(s.targets[0]) in ('sizemult', CUR):
            return run(rest, {**env, _u(s.targets[0]): iex(s.value, env)}, ind)
        if isinstance(s, ast.AugAssign) and _u(s.target) == CUR and isinstance(s.op, (ast.Add, ast.Sub)):
            o = '+' if isinstance(s.op, ast.Add) else '-'
            return run(rest, {**env, CUR: f'({env[CUR]} {o} {iex(s.value, env)})'}, ind)
        _te('multiplier statement', s)
    if not (sm.lineno < mw.lineno < ev.lineno):
        _te('surface(): default sizemults / minwidth / even out of order')
    out.append('/-- the multiplier along the cut after the `minwidth` and `even` blocks (`ceilq` = `int(np.ceil(minwidth /\n'
               '    rcellwidth))`, `none` when `minwidth` is not given; `m` = `sizemults[cutindex]` handed in). -/\n'
               'def cutMult (m : Int) (ceilq : Option Int) (even : Bool) : Int :=\n  match ceilq with\n'
               '  | some mult =>\n' + run(mw.body[1:] + [ev], {CUR: 'm', 'mult': 'mult'}, 4) + '\n'
               '  | none =>\n' + run([ev], {CUR: 'm'}, 4) + '\n')
    # build order, pbc, vacuum
    def line(text, what):
        return _one(sb, lambda s: _u(s) == text, what).lineno
    l1 = line('system = self.rcell.supersize(*sizemults)', 'supersize')
    l2 = line('system.atoms.pos += shift', 'shift of the atoms')
    l3 = line('system.wrap()', 'wrap')
    l4 = line('system.pbc = [True, True, True]', 'pbc on')
    l5 = line('system.pbc[self.cutindex] = False', 'pbc off across the cut')
    vc = _one(sb, lambda s: isinstance(s, ast.If) and _u(s.test) == 'vacuumwidth is not None', 'vacuum')
    l7 = line('self.__system = system', 'store system')
    if not (ev.lineno < l1 < l2 < l3 < l4 < l5 < vc.lineno < l7):
        _te('surface(): supersize / shift / wrap / pbc / vacuum / store out of order')
    out.append('/-- pbc of the built system. -/\ndef surfacePbc (cut : Cut) : List Bool := ([true, true, true] : List Bool).set (cutIndex cut) false\n')
    ov = [_u(s) for s in sb if 'ovect' in _u(s) and isinstance(s, ast.Assign)]
    if ov[:2] != ['ovect = np.zeros(3)', 'ovect[self.cutindex] = 1.0']:
        _te(f'ovect: {ov}')
    vb = vc.body
    if not (len(vb) == 5 and isinstance(vb[0], ast.If) and len(vb[0].body) == 1 and isinstance(vb[0].body[0], ast.Raise)
            and _u(vb[0].body[0].exc).startswith('ValueError(') and not vb[0].orelse
            and _u(vb[1]) == 'newvects = system.box.vects' and isinstance(vb[2], ast.AugAssign)
            and _u(vb[2].target) == 'newvects[self.cutindex, self.cutindex]' and isinstance(vb[2].op, (ast.Add, ast.Sub))
            and _is_assign(vb[3], 'neworigin') and _u(vb[4]) == 'system.box_set(vects=newvects, origin=neworigin)'):
        _te('vacuum block', vc)
    ex = _Ex({'vacuumwidth': ('vac', 'K'), 'system.box.origin': ('box.origin', 'V'), 'ovect': ('(unitV (cutIndex cut))', 'V')})
    out.append('section\nvariable {K : Type} [Add K] [Sub K] [Mul K] [Div K] [Neg K] [Zero K] [IntCast K] [LT K] [DecidableLT K]\n')
    out.append(f'/-- refusal of the vacuum width. -/\ndef vacuumRefuses (vac : K) : Prop := {ex.cmp(vb[0].test)}\n')
    o = '+' if isinstance(vb[2].op, ast.Add) else '-'
    out.append('/-- box after the vacuum insertion. -/\ndef vacuumBox (cut : Cut) (box : Box K) (vac : K) : Box K :=\n'
               f'  ⟨setDiag box.vects (cutIndex cut) (fun x => x {o} {ex.tr(vb[2].value)[0]}), {ex.tr(vb[3].value)[0]}⟩\n')
    out.append('end\n')
    # set_shift
    ss = _find_fn(tree, 'set_shift', 'FreeSurface')
    out.append(_sig_def('setShiftSignature', ss))
    b = _nodoc(ss.body)
    okk = (len(b) == 1 and isinstance(b[0], ast.If) and _u(b[0].test) == 'shift is not None'
           and len(b[0].body) == 2 and _u(b[0].body[0].test) == 'shiftindex is not None'
           and isinstance(b[0].body[0].body[0], ast.Raise) and _u(b[0].body[0].body[0].exc).startswith('ValueError(')
           and _u(b[0].body[1].test) == 'shiftscale is True'
           and _u(b[0].body[1].body[0]) == 'self.__shift = miller.vector_crystal_to_cartesian(shift, self.rcell.box)'
           and _u(b[0].body[1].orelse[0]) == 'self.__shift = np.asarray(shift)'
           and len(b[0].orelse) == 1 and _u(b[0].orelse[0].test) == 'shiftindex is not None'
           and _u(b[0].orelse[0].body[0]) == 'self.__shift = self.shifts[shiftindex]'
           and _u(b[0].orelse[0].orelse[0]) == 'self.__shift = self.shifts[0]')
    if not okk:
        _te('set_shift: branch structure changed')
    out.append('/-- `set_shift`: the branch taken for (shift given?, shiftindex given?, `shiftscale is True`). -/\n'
               'def setShiftBranch (shift idx : Bool) (scale : Bool) : String :=\n'
               '  if shift then (if idx then "ValueError" else if scale then "crystal_to_cartesian(shift, rcell.box)" else "shift")\n'
               '  else if idx then "shifts[shiftindex]" else "shifts[0]"\n')
    return out


def _gen_sf(src):
    tree = _parse(src)
    out = []
    init = _find_fn(tree, '__init__', 'StackingFault')
    out.append(_sig_def('stackingFaultInitSignature', init))
    # a1index, a2index
    _, br = _chain_by_cut(list(ast.walk(init)), 'StackingFault.__init__')
    rows = {}
    for c, bd in br.items():
        if not (len(bd) == 1 and isinstance(bd[0], ast.Assign) and isinstance(bd[0].targets[0], ast.Tuple)
                and [_u(e) for e in bd[0].targets[0].elts] == ['a1index', 'a2index']
                and isinstance(bd[0].value, ast.Tuple) and all(_u(e) in '012' for e in bd[0].value.elts)):
            _te('a1index, a2index', bd[0])
        rows[c] = '(' + ', '.join(_u(e) for e in bd[0].value.elts) + ')'
    out.append(_cut_match('aIndex', 'Nat × Nat', rows, 'rows of the rotated cell used as `a1vect`, `a2vect`.'))
    # setters
    atoms = {'value': ('v', 'K'), 'faultpos_rel': ('r', 'K'), 'self.faultpos_rel': ('r', 'K'),
             'self.faultpos_cart': ('fp', 'K'), 'self.system.box.origin[self.cutindex]': ('org', 'K'),
             'self.system.box.vects[self.cutindex, self.cutindex]': ('w', 'K'),
             'self.system.atoms.pos[:, self.cutindex]': ('x', 'K')}
    ex = _Ex(atoms)
    rel = _nodoc(_find_fn(tree, 'faultpos_rel', 'StackingFault', setter=True).body)
    car = _nodoc(_find_fn(tree, 'faultpos_cart', 'StackingFault', setter=True).body)

    def refusal(s):
        return (isinstance(s, ast.If) and len(s.body) == 1 and isinstance(s.body[0], ast.Raise)
                and _u(s.body[0].exc).startswith('ValueError(') and not s.orelse)
    if not (len(rel) == 4 and refusal(rel[0]) and _u(rel[1]) == 'self.__faultpos_rel = value'
            and _is_assign(rel[2], 'self.__faultpos_cart') and _is_assign(rel[3], 'self.__abovefault')):
        _te('faultpos_rel setter: statements / order changed')
    if not (len(car) == 5 and _is_assign(car[0], 'faultpos_rel') and refusal(car[1])
            and _u(car[2]) == 'self.__faultpos_rel = faultpos_rel' and _u(car[3]) == 'self.__faultpos_cart = value'
            and _is_assign(car[4], 'self.__abovefault')):
        _te('faultpos_cart setter: statements / order changed')
    out.append('section\nvariable {K : Type} [Add K] [Sub K] [Mul K] [Div K] [Neg K] [Zero K] [IntCast K] [LT K] [DecidableLT K]\n')
    out.append(f'/-- refusal test of the `faultpos_rel` setter. -/\ndef relOutside (v : K) : Prop := {ex.cmp(rel[0].test)}\n')
    out.append(f'/-- refusal test of the `faultpos_cart` setter (on the relative position it computed). -/\ndef cartOutside (r : K) : Prop := {ex.cmp(car[1].test)}\n')
    out.append(f'/-- `faultpos_cart` from `faultpos_rel` (`org`, `w`: origin and width of the system along the cut). -/\ndef cartOfRel (org w r : K) : K := {ex.tr(rel[2].value)[0]}\n')
    out.append(f'/-- `faultpos_rel` from `faultpos_cart`. -/\ndef relOfCart (org w v : K) : K := {ex.tr(car[0].value)[0]}\n')
    m1, m2 = ex.cmp(rel[3].value), ex.cmp(car[4].value)
    if m1 != m2:
        _te(f'the two setters compute different masks: {m1} / {m2}')
    out.append(f'/-- `abovefault` of one atom with coordinate `x` along the cut. -/\ndef above (fp x : K) : Prop := {m1}\n')
    # surface(): the fault-position block
    sf = _nodoc(_find_fn(tree, 'surface', 'StackingFault').body)
    texts = [_u(s) for s in sf]
    want = ['self.__faultpos_cart = None', 'self.__faultpos_rel = None', 'self.__abovefault = None']
    if not (isinstance(sf[0], ast.Expr) and _u(sf[0]).startswith('super().surface(') and texts[1:4] == want
            and len(sf) == 6 and isinstance(sf[4], ast.If) and _u(sf[5]) == 'return self.system'):
        _te('StackingFault.surface: base call / forgetting the old plane / position block changed')
    blk = sf[4]
    okk = (_u(blk.test) == 'faultpos_cart is not None' and len(blk.body) == 2
           and _u(blk.body[0].test) == 'faultpos_rel is not None' and isinstance(blk.body[0].body[0], ast.Raise)
           and _u(blk.body[1]) == 'self.faultpos_cart = faultpos_cart' and len(blk.orelse) == 1
           and _u(blk.orelse[0].test) == 'faultpos_rel is not None'
           and _u(blk.orelse[0].body[0]) == 'self.faultpos_rel = faultpos_rel'
           and len(blk.orelse[0].orelse) == 1 and _is_assign(blk.orelse[0].orelse[0], 'self.faultpos_rel'))
    if not okk:
        _te('StackingFault.surface: fault-position block changed')
    out.append(f'/-- default `faultpos_rel` of `surface()`. -/\ndef defaultFaultposRel : K := {ex.tr(blk.orelse[0].orelse[0].value)[0]}\n')
    # fault()
    ft = _find_fn(tree, 'fault', 'StackingFault')
    out.append('end\n')
    out.append(_sig_def('faultSignature', ft))
    fb = _nodoc(ft.body)
    pre = [_u(s.test) for s in fb[:3] if isinstance(s, ast.If)]
    if pre != ['a1vect_uvw is not None', 'a2vect_uvw is not None', 'faultpos_cart is not None']:
        _te(f'fault(): overrides at the head are {pre}')
    out.append(f'/-- the overrides at the head of `fault()` in coded order. -/\ndef faultPreludeOrder : List String := {_lean_strs(pre)}\n')
    cs = _one(fb, lambda s: isinstance(s, ast.If) and 'outofplane is not None' in _u(s.test), 'fault shift')
    if _u(cs.test) != 'a1 is not None or a2 is not None or outofplane is not None':
        _te('fault(): test for coefficients', cs.test)
    bd = cs.body
    dfl = {}
    okk = (len(bd) == 5 and _u(bd[0].test) == 'faultshift is not None' and isinstance(bd[0].body[0], ast.Raise)
           and _u(bd[0].body[0].exc).startswith('ValueError('))
    for s, nm in zip(bd[1:4], ('a1', 'a2', 'outofplane')):
        okk = okk and isinstance(s, ast.If) and _u(s.test) == f'{nm} is None' and len(s.body) == 1 \
            and _is_assign(s.body[0], nm) and isinstance(s.body[0].value, ast.Constant) and not s.orelse
        if okk:
            dfl[nm] = s.body[0].value.value
    okk = okk and _is_assign(bd[4], 'faultshift') and len(cs.orelse) == 1 \
        and _u(cs.orelse[0].test) == 'faultshift is None' \
        and _u(cs.orelse[0].body[0]) == 'faultshift = np.array([0.0, 0.0, 0.0])' and not cs.orelse[0].orelse
    if not okk:
        _te('fault(): shift resolution changed')
    ex = _Ex({'a1': (f'(a1.getD {_Ex({}).num(dfl["a1"])})', 'K'), 'a2': (f'(a2.getD {_Ex({}).num(dfl["a2"])})', 'K'),
              'outofplane': (f'(oop.getD {_Ex({}).num(dfl["outofplane"])})', 'K'),
              'self.a1vect_cart': ('a1c', 'V'), 'self.a2vect_cart': ('a2c', 'V'), 'ovect': ('(unitV (cutIndex cut))', 'V')})
    out.append('section\nvariable {K : Type} [Add K] [Sub K] [Mul K] [Div K] [Neg K] [Zero K] [IntCast K] [LT K] [DecidableLT K]\n')
    out.append('/-- the shift `fault()` applies: coefficients (missing ones default to the coded constants) or `faultshift`,\n'
               '    both -> ValueError, neither -> zero. -/\n'
               'def resolveFShift (a1 a2 oop : Option K) (fs : Option (V3 K)) (a1c a2c : V3 K) (cut : Cut) : Except String (V3 K) :=\n'
               '  if a1.isSome ∨ a2.isSome ∨ oop.isSome then\n    match fs with\n    | some _ => .error "value"\n'
               f'    | none => .ok {ex.tr(bd[4].value)[0]}\n  else\n    match fs with\n    | none => .ok ⟨0, 0, 0⟩\n    | some v => .ok v\n')
    seq = ['sfsystem = deepcopy(self.system)', 'sfsystem.atoms.pos[self.abovefault] += faultshift', 'sfsystem.wrap()']
    ls = [_one(fb, lambda s, t=t: _u(s) == t, t).lineno for t in seq]
    if not (cs.lineno < ls[0] < ls[1] < ls[2]):
        _te('fault(): deepcopy / shift of the cached mask / wrap out of order')
    out.append(f'/-- the body of `fault()` after the shift is known. -/\ndef faultCoreSteps : List String := {_lean_strs(seq)}\n')
    # inindex and the push
    lp = _one(fb, lambda s: isinstance(s, ast.For) and _u(s.iter) == 'range(3)', 'inindex loop')
    if [_u(s) for s in lp.body] != ['if i != self.cutindex:\n    inindex.append(i)']:
        _te('inindex loop', lp)
    out.append('/-- the two in-plane Cartesian indices, ascending. -/\ndef inIndex (cut : Cut) : List Nat := (List.range 3).filter (fun i => i ≠ cutIndex cut)\n')
    allst = list(ast.walk(ft))
    nw = _one(allst, lambda s: _is_assign(s, 'new'), 'push: new')
    oo = _one(allst, lambda s: _is_assign(s, 'outofplane') and 'new' in _u(s.value), 'push: outofplane')
    if not (isinstance(nw.value, ast.BinOp) and isinstance(nw.value.op, ast.Pow) and _u(nw.value.right) == '0.5'):
        _te('push: new is not a square root', nw.value)
    ex = _Ex({'minimum_r': ('r', 'K'), 'dvect_min[inindex[0]]': ('(d.get ((inIndex cut).getD 0 0))', 'K'),
              'dvect_min[inindex[1]]': ('(d.get ((inIndex cut).getD 1 0))', 'K'), 'new': ('sq', 'K'),
              'dvect_min[self.cutindex]': ('(d.get (cutIndex cut))', 'K')})
    out.append(f'/-- radicand of the `minimum_r` push. -/\ndef pushRadicand (cut : Cut) (r : K) (d : V3 K) : K := {ex.tr(nw.value.left)[0]}\n')
    out.append(f'/-- extra out-of-plane shift (`sq` = the square root). -/\ndef pushAmount (cut : Cut) (sq : K) (d : V3 K) : K := {ex.tr(oo.value)[0]}\n')
    out.append('end\n')
    # iterfaultmap
    im = _find_fn(tree, 'iterfaultmap', 'StackingFault')
    out.append(_sig_def('iterfaultmapSignature', im))
    mb = _nodoc(im.body)
    dd = {}
    for s in mb:
        if isinstance(s, ast.If) and _u(s.test) in ('num_a1 is None', 'num_a2 is None'):
            dd[_u(s.test)[:6]] = _u(s.body[0])
    if dd != {'num_a1': 'num_a1 = 1', 'num_a2': 'num_a2 = 1'}:
        _te(f'iterfaultmap defaults: {dd}')
    mg = _one(mb, lambda s: isinstance(s, ast.Assign) and isinstance(s.targets[0], ast.Tuple)
              and [_u(e) for e in s.targets[0].elts] == ['a1s', 'a2s'], 'meshgrid')
    if _u(mg.value) != 'np.meshgrid(np.linspace(0, 1, num_a1, endpoint=False), np.linspace(0, 1, num_a2, endpoint=False))':
        _te('iterfaultmap mesh', mg.value)
    lp = _one(mb, lambda s: isinstance(s, ast.For), 'iterfaultmap loop')
    if [_u(e) for e in getattr(lp.target, 'elts', [])] != ['a1', 'a2'] or _u(lp.iter) != 'zip(a1s.flat, a2s.flat)' or len(lp.body) != 1 \
            or _u(lp.body[0]) != 'yield (a1, a2, self.fault(a1=a1, a2=a2, outofplane=outofplane, minimum_r=minimum_r))':
        _te('iterfaultmap loop', lp)
    out.append('/-- `iterfaultmap`: default counts and the point `(i / num_a1, j / num_a2)` of `np.meshgrid(linspace(0, 1, num_a1,\n'
               '    endpoint=False), linspace(0, 1, num_a2, endpoint=False))` flattened row-major (`a2` outer, `a1` inner). -/\n'
               'def mapDefaults : Nat × Nat := (1, 1)\n')
    return out


def translate():
    head = ['/- GENERATED by harness/props/c14.py (translate) from atomman/defect/free_surface_basis.py, FreeSurface.py,',
            '   StackingFault.py — do not edit.  Proofs/C14_Source.lean proves these definitions equal to the hand model. -/',
            'import Atomman.C14', 'set_option linter.unusedVariables false', 'namespace Atomman.Gen.C14',
            'open Atomman Atomman.C14', '',
            'section', 'variable {K : Type} [Add K] [Sub K] [Mul K] [Zero K] [LT K] [DecidableLT K] [DecidableEq K]',
            '/-- `angle < c_angle` of the first search for a candidate with `d = cart·n`, `m2 = |cart|²` against the best so far',
            '    (`none`: `c_angle` still at its initial 90 degrees): positive side, and a larger squared cosine. -/',
            'def angleLt (c : Option (CBest K)) (d m2 : K) : Prop :=',
            '  0 < d ∧ match c with | none => True | some cb => cb.d * cb.d * m2 < d * d * cb.m2',
            'instance (c : Option (CBest K)) (d m2 : K) : Decidable (angleLt c d m2) := by',
            '  unfold angleLt; cases c <;> infer_instance',
            '/-- `np.isclose(angle, 0.0)` / `np.isclose(angle, 180.0)` for exact reals. -/',
            'def Parallel (a b : V3 K) : Prop := V3.cross a b = ⟨0, 0, 0⟩ ∧ 0 < V3.dot a b',
            'def AntiParallel (a b : V3 K) : Prop := V3.cross a b = ⟨0, 0, 0⟩ ∧ V3.dot a b < 0',
            'instance (a b : V3 K) : Decidable (Parallel a b) := by unfold Parallel; infer_instance',
            'instance (a b : V3 K) : Decidable (AntiParallel a b) := by unfold AntiParallel; infer_instance',
            'end', '']
    parts = head + _gen_fsb(cm.source(_FSB)) + _gen_fs(cm.source(_FS)) + _gen_sf(cm.source(_SF)) + ['end Atomman.Gen.C14', '']
    return {'SurfaceSource': '\n'.join(parts)}


# ----------------------------------------------------------------------------------------
# small exact helpers
# ----------------------------------------------------------------------------------------
def _matmul(A, B):
    return [[sum(A[i][k] * B[k][j] for k in range(3)) for j in range(3)] for i in range(3)]


def _det(m):
    return (m[0][0] * (m[1][1] * m[2][2] - m[1][2] * m[2][1])
            - m[0][1] * (m[1][0] * m[2][2] - m[1][2] * m[2][0])
            + m[0][2] * (m[1][0] * m[2][1] - m[1][1] * m[2][0]))


def _cross(a, b):
    return [a[1] * b[2] - a[2] * b[1], a[2] * b[0] - a[0] * b[2], a[0] * b[1] - a[1] * b[0]]


def _dot(a, b):
    return sum(x * y for x, y in zip(a, b))


def _inv(m):
    d = _det(m)
    c = [_cross(m[1], m[2]), _cross(m[2], m[0]), _cross(m[0], m[1])]
    return [[c[j][i] / d for j in range(3)] for i in range(3)]


def _is_dyadic(x: F, bits=12):
    return (x.denominator & (x.denominator - 1)) == 0 and x.denominator <= (1 << bits)


def default_maxindex(hkl, setting):
    """default `maxindex` of free_surface_basis (independent re-computation, integers only)."""
    h, k, l = hkl
    nz = [x for x in hkl if x != 0]
    m = 1
    for x in nz:
        m = m * abs(x) // math.gcd(m, abs(x))
    if h and k and l:
        a, b = [-m // h, m // k, 0], [-m // h, 0, m // l]
    elif h and k:
        a, b = [-m // h, m // k, 0], [0, 0, 1]
    elif h and l:
        a, b = [m // h, 0, -m // l], [0, 1, 0]
    elif h:
        a, b = [0, 1, 0], [0, 0, 1]
    elif k and l:
        a, b = [0, -m // k, m // l], [1, 0, 0]
    elif k:
        a, b = [0, 0, 1], [1, 0, 0]
    elif l:
        a, b = [1, 0, 0], [0, 1, 0]
    else:
        return 0
    if setting not in (None, 'p'):
        L = _inv([[F(x) for x in r] for r in P2C[setting]])
        a = [sum(a[i] * L[i][j] for i in range(3)) for j in range(3)]
        b = [sum(b[i] * L[i][j] for i in range(3)) for j in range(3)]
    return int(max(max(abs(x) for x in a), max(abs(x) for x in b), max(abs(x) for x in hkl)))


# ----------------------------------------------------------------------------------------
# cells
# ----------------------------------------------------------------------------------------
def exact_cells(rng):
    """conventional cells of every crystal family whose Cartesian components are small dyadic numbers
    (all dot/cross products of the routine are exact in double precision)."""
    d = lambda lo, hi: cm.dyadic(rng, lo, hi, 2)
    out = []
    a = rng.choice([1.0, 2.0, 4.0, 3.5, 0.5])
    out.append(('cubic', [[a, 0, 0], [0, a, 0], [0, 0, a]]))
    a, c = rng.choice([(2.0, 3.0), (3.0, 2.0), (2.5, 4.0), (1.0, 1.75), (4.0, 6.5)])
    out.append(('tetragonal', [[a, 0, 0], [0, a, 0], [0, 0, c]]))
    a, b, c = rng.choice([(2.0, 3.0, 5.0), (3.0, 2.5, 4.0), (1.0, 1.5, 2.75), (4.0, 3.0, 2.0)])
    out.append(('orthorhombic', [[a, 0, 0], [0, b, 0], [0, 0, c]]))
    # hexagonal lattice in a rational orientation: a1 = al(1,-1,0), a2 = al(0,1,-1), c = ga(1,1,1)
    al, ga = rng.choice([(1.0, 1.0), (2.0, 1.5), (1.5, 2.0), (3.0, 1.25), (1.0, 0.75)])
    out.append(('hexagonal', [[al, -al, 0], [0, al, -al], [ga, ga, ga]]))
    al = rng.choice([0.5, 1.0, 1.5])
    rh = rng.choice([[[2, 1, 1], [1, 2, 1], [1, 1, 2]], [[0, 1, 1], [1, 0, 1], [1, 1, 0]],
                     [[3, 1, 1], [1, 3, 1], [1, 1, 3]], [[1, 2, 2], [2, 1, 2], [2, 2, 1]]])
    m = [[al * x for x in r] for r in rh]
    if _det(m) < 0:
        m = [m[1], m[0], m[2]]
    out.append(('rhombohedral', m))
    a, b, cz = d(1, 4) or 1.0, d(1, 4) or 1.0, d(1, 5) or 2.0
    cx = rng.choice([-1.5, -0.75, -0.5, 0.5, 1.25])
    out.append(('monoclinic', [[abs(a), 0, 0], [0, abs(b), 0], [cx, 0, abs(cz)]]))
    lx, ly, lz = [abs(d(1, 5)) or 1.0 for _ in range(3)]
    xy, xz, yz = d(-2, 2), d(-2, 2), d(-2, 2)
    if xy == 0 and xz == 0 and yz == 0:
        xy = 0.75
    out.append(('triclinic', [[lx, 0, 0], [xy, ly, 0], [xz, yz, lz]]))
    return out


def float_cells(rng):
    """cells from the family constructors with generic (non-dyadic) parameters."""
    import atomman as am
    u = rng.uniform
    return [
        ('cubic', am.Box.cubic(u(2.5, 5.5))),
        ('hexagonal', am.Box.hexagonal(u(2.5, 3.5), u(4.0, 6.0))),
        ('tetragonal', am.Box.tetragonal(u(2.5, 4.0), u(4.5, 6.5))),
        ('rhombohedral', am.Box.trigonal(u(2.5, 4.5), u(50.0, 100.0))),
        ('orthorhombic', am.Box.orthorhombic(u(2.5, 3.5), u(3.7, 4.6), u(4.8, 6.0))),
        ('monoclinic', am.Box.monoclinic(u(2.5, 3.5), u(3.7, 4.6), u(4.8, 6.0), u(95.0, 125.0))),
        ('triclinic', am.Box.triclinic(u(2.5, 3.5), u(3.7, 4.6), u(4.8, 6.0), u(70.0, 85.0), u(95.0, 110.0),
                                       u(65.0, 115.0))),
    ]


def primitive_of(conv, setting):
    """primitive cell vectors = P2C[setting] . conv (exact), or None when not exactly representable."""
    P = [[F(x) for x in r] for r in P2C[setting]]
    A = [[F(x) for x in r] for r in conv]
    prim = _matmul(P, A)
    if not all(_is_dyadic(x) for r in prim for x in r):
        return None
    return [[float(x) for x in r] for r in prim]


def planes(N):
    return [(h, k, l) for h in range(-N, N + 1) for k in range(-N, N + 1) for l in range(-N, N + 1)
            if (h, k, l) != (0, 0, 0)]


# ----------------------------------------------------------------------------------------
# implementation calls (run in a fork pool: the pure-python search loops dominate the cost)
# ----------------------------------------------------------------------------------------
def _err_class(e):
    if isinstance(e, AssertionError):
        return 'assert'
    if isinstance(e, ValueError):
        return 'value'
    return type(e).__name__


def _impl_fsb(job):
    vects, hkl, cut, n, setting, rh = job
    import numpy as np
    import atomman as am
    from atomman.defect import free_surface_basis
    try:
        box = am.Box(vects=vects)
        kw = {}
        if rh is not None:
            kw['return_hexagonal'] = rh
        uv, pn = free_surface_basis(list(hkl), box=box, cutboxvector=cut, maxindex=n,
                                    conventional_setting=setting, return_planenormal=True, **kw)
        return ('ok', np.asarray(uv, dtype=float).tolist(), np.asarray(pn, dtype=float).tolist())
    except Exception as e:  # noqa
        return ('err', _err_class(e), str(e)[:120])


_POOL = None


def _pool():
    global _POOL
    if _POOL is None:
        import multiprocessing as mp
        n = max(1, min(8, (os.cpu_count() or 2) - 2))
        _POOL = mp.get_context('fork').Pool(n)
    return _POOL


def _close_pool():
    global _POOL
    if _POOL is not None:
        _POOL.terminate()
        _POOL = None


def _pmap(fn, jobs):
    jobs = list(jobs)
    if len(jobs) < 8:
        return [fn(j) for j in jobs]
    return _pool().map(fn, jobs, chunksize=max(1, len(jobs) // 64))


def _drivers(ctx, k=4):
    """extra driver processes (the model's candidate loops are sequential per process)."""
    ds = [ctx.driver]
    for _ in range(k - 1):
        ds.append(cm.Driver('drv_c14'))
    return ds


def _ask_parallel(ctx, lines):
    lines = list(lines)
    if len(lines) < 64:
        return ctx.driver.ask_many(lines)
    import threading
    ds = _drivers(ctx, 4)
    outs = [None] * len(lines)
    parts = [list(range(i, len(lines), len(ds))) for i in range(len(ds))]

    def run(d, idx):
        res = d.ask_many([lines[i] for i in idx])
        for i, r in zip(idx, res):
            outs[i] = r
    ts = [threading.Thread(target=run, args=(d, idx)) for d, idx in zip(ds, parts)]
    for t in ts:
        t.start()
    for t in ts:
        t.join()
    for d in ds[1:]:
        ctx.driver.n += d.n
        d.close()
    if any(o is None for o in outs):
        raise cm.InfraError('driver died in parallel batch')
    return outs


# ----------------------------------------------------------------------------------------
# free_surface_basis: line building and comparison
# ----------------------------------------------------------------------------------------
def fsb_line(vects, hkl, cut, n, setting, rh):
    import numpy as np
    return ('fsb %s %s %s %s %d %s %s' % (cut, setting or 'p', '-' if n is None else n,
                                         '-' if rh is None else int(bool(rh)), len(hkl),
                                         ' '.join(str(int(x)) for x in hkl), cm.frs(np.asarray(vects, dtype=float))))


def parse_fsb(out):
    """-> dict(kind, shown (list of Fractions), uv3 (9 ints), pn, n, flags) or {'err': cls}."""
    if out.startswith('err:'):
        return {'err': out[4:]}
    parts = [p.split() for p in out[3:].split(';')]
    return {'kind': int(parts[0][0]), 'shown': [F(t) for t in parts[0][1:]], 'uv3': [int(t) for t in parts[1]],
            'pn': [F(t) for t in parts[2]], 'n': int(parts[3][0]), 'flags': [t == '1' for t in parts[4]]}


def to_uv3(impl_uv):
    """implementation output (3x3 or 3x4 floats) -> 9 integers (3-index form), or None if not integral."""
    rows = []
    for r in impl_uv:
        if len(r) == 4:
            r = [2 * r[0] + r[1], 2 * r[1] + r[0], r[3]]
        rows.extend(r)
    ints = [int(round(x)) for x in rows]
    if any(abs(x - i) > 1e-9 for x, i in zip(rows, ints)):
        return None
    return ints


def compare_fsb(ctx, job, impl, out, exact_regime, kindname):
    """one free_surface_basis case: implementation result vs model reply.  Returns a pending `valid` line
    (with context) when the relational model has to decide, else None."""
    vects, hkl, cut, n, setting, rh = job
    info = {'op': 'fsb', 'vects': vects, 'hkl': list(hkl), 'cut': cut, 'maxindex': n, 'setting': setting,
            'return_hexagonal': rh, 'impl': impl, 'model': out}
    m = parse_fsb(out)
    hkl3 = (hkl[0], hkl[1], hkl[3]) if len(hkl) == 4 else hkl
    if impl[0] == 'err':
        if 'err' not in m:
            # a search that fails only because its best candidate ties with the initial bound |[n,n,n]| (the model
            # flags it: first / third flag include "within 1e-3 of the bound") is a float tie, not a disagreement
            if impl[1] == 'assert' and not exact_regime and (m['flags'][0] or m['flags'][2]):
                ctx.extra['fsb_refusals_on_bound_tie'] = ctx.extra.get('fsb_refusals_on_bound_tie', 0) + 1
                return None
            ctx.disagree('fsb:refusal', f'free_surface_basis{tuple(hkl)} cut={cut} setting={setting} raised '
                         f'{impl[1]} ({impl[2]}) but the model returns {m["uv3"]}', info)
        elif m['err'] != impl[1]:
            ctx.disagree('fsb:refusal-class', f'free_surface_basis{tuple(hkl)}: implementation {impl[1]}, model {m["err"]}',
                         info)
        return None
    if 'err' in m:
        uv3 = to_uv3(impl[1])
        if m['err'] == 'assert' and not exact_regime and uv3 is not None:
            # the model's search failed, the float search did not: the relational model decides whether the coded
            # answer is a possible outcome (a candidate tying with the initial bound)
            import numpy as np
            line = 'valid %s %s %s %s %s %s 1 1000000000' % (
                cut, setting or 'p', '-' if n is None else n, ' '.join(str(int(x)) for x in hkl3),
                cm.frs(np.asarray(vects, dtype=float)), ' '.join(map(str, uv3)))
            return (line, info, uv3)
        ctx.disagree('fsb:refusal', f'free_surface_basis{tuple(hkl)} cut={cut} setting={setting} maxindex={n} '
                     f'returned {impl[1]} but the model refuses ({m["err"]})', info)
        return None
    # plane normal: exact in the exact regime, 1e-9 relative otherwise
    pn_i, pn_m = impl[2], m['pn']
    scale = max(abs(float(x)) for x in pn_m) or 1.0
    if exact_regime:
        okn = all(F(x) == y for x, y in zip(pn_i, pn_m))
    else:
        okn = all(abs(x - float(y)) <= 1e-9 * scale for x, y in zip(pn_i, pn_m))
    if not okn:
        ctx.disagree('fsb:planenormal', f'planenormal for {tuple(hkl)} setting={setting}: implementation {pn_i}, '
                     f'model {[float(y) for y in pn_m]}', info)
        return None
    uv3 = to_uv3(impl[1])
    if uv3 is None:
        ctx.disagree('fsb:integer', f'free_surface_basis{tuple(hkl)} returned non-integer vectors {impl[1]}', info)
        return None
    # 4-index output: compare the printed form too
    if len(impl[1][0]) != (4 if m['kind'] == 4 else 3):
        ctx.disagree('fsb:format', f'free_surface_basis{tuple(hkl)}: {len(impl[1][0])}-index output, model {m["kind"]}', info)
        return None
    aNear, aExact, bNear, bExact, cTie = m['flags']
    if exact_regime:
        decided = not (aNear or bNear or cTie)
    else:
        decided = not (aNear or aExact or bNear or bExact or cTie)
    if decided:
        if uv3 != m['uv3']:
            ctx.disagree('fsb:uvws', f'free_surface_basis{tuple(hkl)} box={kindname} cut={cut} setting={setting} '
                         f'maxindex={n}: implementation {uv3}, model {m["uv3"]}', info)
        elif m['kind'] == 4:
            flat = [x for r in impl[1] for x in r]
            if not all(abs(x - float(y)) <= 1e-12 for x, y in zip(flat, m['shown'])):
                ctx.disagree('fsb:uvtw', f'Miller-Bravais output for {tuple(hkl)}: {flat} vs model {m["shown"]}', info)
        return None
    # float ties decide: the relational model must accept the coded answer
    import numpy as np
    line = 'valid %s %s %s %s %s %s 1 1000000000' % (
        cut, setting or 'p', '-' if n is None else n,
        ' '.join(str(int(x)) for x in (hkl if len(hkl) == 3 else (hkl[0], hkl[1], hkl[3]))),
        cm.frs(np.asarray(vects, dtype=float)), ' '.join(map(str, uv3)))
    return (line, info, uv3)


# ----------------------------------------------------------------------------------------
# correspondence part 1: free_surface_basis
# ----------------------------------------------------------------------------------------
def _capped(hkl3, setting, cap):
    d = default_maxindex(hkl3, setting)
    return None if d <= cap else cap


def _fsb_jobs(ctx):
    """(job, exact_regime, family) for the sweep."""
    import numpy as np
    rng = ctx.rng
    N = ctx.n(4, 7)
    cap = ctx.n(4, 5)
    ex = exact_cells(rng)
    fl = [(nm, b.vects.tolist()) for nm, b in float_cells(rng)]
    jobs = []
    pl = planes(N)
    if ctx.thorough:
        # thorough: every plane x every family (exact regime) x 3 cuts would be ~10^5 python searches;
        # keep all planes, rotate families per plane, all three cuts
        pass
    off = rng.randrange(1000)
    centred = []
    for st in ('f', 'i', 'a', 'b', 'c', 't1', 't2'):
        for nm, conv in ex:
            if st in ('t1', 't2') and nm != 'hexagonal':
                continue
            if st in ('f',) and nm not in ('cubic', 'orthorhombic'):
                continue
            if st in ('i',) and nm not in ('cubic', 'orthorhombic', 'tetragonal'):
                continue
            if st in ('a', 'b', 'c') and nm not in ('orthorhombic', 'monoclinic', 'triclinic'):
                continue
            conv2 = [[x * (3 if st in ('t1', 't2') else 2) for x in r] for r in conv]
            prim = primitive_of(conv2, st)
            if prim is not None and _det(prim) > 0:
                centred.append((st, nm, prim))
    for i, hkl in enumerate(pl):
        r = (i + off)
        # (1) exact regime, setting p (alternating None / 'p'); thorough: all three cuts
        nm, vects = ex[r % len(ex)]
        st = None if r % 2 else 'p'
        for cut in (CUTS if ctx.thorough else (CUTS[r % 3],)):
            jobs.append(((vects, hkl, cut, _capped(hkl, st, cap), st, None), True, nm))
        # (2) exact regime, centred settings
        st, nm, prim = centred[r % len(centred)]
        cut = CUTS[(r + 1) % 3]
        if ctx.thorough or r % 2 == 0:
            jobs.append(((prim, hkl, cut, _capped(hkl, st, cap), st, None), True, nm + ':' + st))
        # (3) float regime (family constructors)
        nm, vects = fl[r % len(fl)]
        cut = CUTS[(r + 2) % 3]
        if ctx.thorough or r % 2 == 1:
            jobs.append(((vects, hkl, cut, _capped(hkl, None, cap), None, None), False, nm + ':float'))
    # (4) Miller-Bravais input/output on hexagonal cells (exact orientation and the standard float one)
    hexE = [v for nm, v in ex if nm == 'hexagonal'][0]
    hexF = [v for nm, v in fl if nm == 'hexagonal'][0]
    for i, (h, k, l) in enumerate(planes(ctx.n(3, 5))):
        hkil = (h, k, -(h + k), l)
        cut = CUTS[(i + off) % 3]
        rh = [None, None, False, True][(i + off) % 4]
        jobs.append(((hexE, hkil, cut, _capped((h, k, l), None, cap), None, rh), True, 'hexagonal:hkil'))
        if i % 3 == 0:
            jobs.append(((hexF, hkil, cut, _capped((h, k, l), None, cap), None, rh), False, 'hexagonal:hkil:float'))
        if i % 5 == 0:
            jobs.append(((hexE, (h, k, l), cut, _capped((h, k, l), None, cap), None, True), True, 'hexagonal:rh'))
    # (5) refusals and explicit small maxindex (searches that fail), uncapped default maxindex on a few planes
    cub = [v for nm, v in ex if nm == 'cubic'][0]
    tri = [v for nm, v in ex if nm == 'triclinic'][0]
    for hkl in [(0, 0, 0)]:
        jobs.append(((cub, hkl, 'c', None, None, None), True, 'refusal'))
    jobs.append(((cub, (1, 0, -1, 0), 'c', None, None, None), True, 'refusal'))        # hkil with cubic box
    jobs.append(((cub, (1, 0, 0), 'c', None, None, True), True, 'refusal'))             # return_hexagonal, cubic
    jobs.append(((hexE, (1, 1, 1, 0), 'c', None, None, None), True, 'refusal'))         # h+k+i != 0
    jobs.append(((hexE, (0, 0, 0, 0), 'c', None, None, None), True, 'refusal'))
    # the whole form matrix of the entry point (model `hklForm` / `planeOf`): number of indices 2..5 x hexagonal or not x
    # return_hexagonal None / True / False, an unknown centring key, four indices with h + k + i != 0 and an explicit form
    for bx, tag in ((hexE, 'hex'), (cub, 'cub'), (tri, 'tri')):
        for idx in ((1, 1), (1, 0, 2), (2, -1, -1, 1), (1, 0, -1, 0, 2)):
            for rh in (None, True, False):
                jobs.append(((bx, idx, CUTS[(len(idx) + (rh is None)) % 3], 3, None, rh), True, 'form:' + tag))
    jobs.append(((cub, (1, 1, 0), 'c', None, 'q', None), True, 'form:setting'))
    jobs.append(((hexE, (1, 1, 0), 'b', None, 'P', None), True, 'form:setting'))
    jobs.append(((hexE, (1, 1, -1, 0), 'a', None, None, False), True, 'form:sum'))
    for hkl in [(3, 1, 0), (2, 3, 1), (4, 1, -3), (1, 2, 3), (0, 3, 2), (5, 0, 1)]:
        for n in (0, 1, 2):
            jobs.append(((tri, hkl, CUTS[n], n, None, None), True, 'small-maxindex'))
            jobs.append(((cub, hkl, CUTS[n], n, 'p', None), True, 'small-maxindex'))
    big = [(3, 4, 1), (2, -3, 4), (4, 3, 2), (-3, 2, 4), (4, 1, 3), (1, 4, -2), (3, -4, 2), (2, 3, -4)]
    rng.shuffle(big)
    for hkl in big[:ctx.n(2, 8)]:
        nm, vects = ex[rng.randrange(len(ex))]
        jobs.append(((vects, hkl, rng.choice(CUTS), None, None, None), True, nm + ':default-maxindex'))
    return jobs


def _correspond_fsb(ctx):
    jobs = _fsb_jobs(ctx)
    impls = _pmap(_impl_fsb, [j for j, _, _ in jobs])
    outs = _ask_parallel(ctx, [fsb_line(*j) for j, _, _ in jobs])
    pending = []
    nvalid = ndecided = nref = 0
    for (job, exact, nm), impl, out in zip(jobs, impls, outs):
        vects, hkl, cut, n, st, rh = job
        canon = (tuple(map(tuple, vects)), tuple(hkl), cut, n, st, rh)
        nontrivial = impl[0] == 'ok'
        ctx.stats.case('fsb:' + nm.split(':')[0] + (':exact' if exact else ':float'), canon, nontrivial=nontrivial,
                       sample={'hkl': list(hkl), 'cut': cut, 'setting': st, 'maxindex': n, 'vects': vects,
                               'impl': impl[1] if impl[0] == 'ok' else impl[1:]})
        if impl[0] == 'err':
            nref += 1
        if impl[0] == 'err' and impl[1] not in ('value', 'assert'):
            ctx.disagree('fsb:exception', f'free_surface_basis{tuple(hkl)} raised {impl[1]}: {impl[2]}',
                         {'op': 'fsb', 'vects': vects, 'hkl': list(hkl), 'cut': cut, 'maxindex': n, 'setting': st,
                          'return_hexagonal': rh})
            continue
        p = compare_fsb(ctx, job, impl, out, exact, nm)
        if p is not None:
            pending.append(p)
            nvalid += 1
        else:
            ndecided += 1
    if pending:
        vouts = _ask_parallel(ctx, [p[0] for p in pending])
        for (line, info, uv3), vo in zip(pending, vouts):
            if vo != '1':
                info = dict(info, valid_reply=vo)
                ctx.disagree('fsb:valid', f'free_surface_basis{tuple(info["hkl"])} cut={info["cut"]} '
                             f'setting={info["setting"]}: coded answer {uv3} is not a possible outcome of the '
                             f'searches ({vo})', info)
    # the driver runs the model at K := Int on the cell scaled to integers; cross-check against K := Rat
    idx = sorted(ctx.rng.sample(range(len(jobs)), min(len(jobs), ctx.n(40, 400))))
    qouts = _ask_parallel(ctx, ['fsbq' + fsb_line(*jobs[i][0])[3:] for i in idx])
    for i, q in zip(idx, qouts):
        a, b = parse_fsb(outs[i]), parse_fsb(q)
        ctx.stats.case('fsb:int-vs-rat', i, nontrivial=False)
        if a.get('err') != b.get('err') or a.get('uv3') != b.get('uv3') or a.get('pn') != b.get('pn'):
            ctx.disagree('fsb:int-vs-rat', f'model at Int and at Rat differ on {jobs[i][0][1]}: {outs[i]} / {q}',
                         {'op': 'fsbq', 'line': fsb_line(*jobs[i][0])})
    ctx.extra['fsb_cases'] = len(jobs)
    ctx.extra['fsb_compared_exactly'] = ndecided
    ctx.extra['fsb_decided_by_relational_model'] = nvalid
    ctx.extra['fsb_refusals'] = nref


def _correspond_tables(ctx):
    """centring matrices of the model vs miller.vector_conventional_to_primitive / _primitive_to_conventional."""
    import numpy as np
    from atomman.tools import miller
    for st in SETTINGS:
        c2p = miller.vector_conventional_to_primitive(np.identity(3), setting=st)
        out = ctx.driver.ask(f'c2p {st}')
        ctx.stats.case('table:c2p', st)
        got = [int(t) for t in out.split(';')[0].split()] if not out.startswith('err') else None
        if got != [int(round(x)) for x in c2p.ravel()] or not np.allclose(c2p, np.rint(c2p)):
            ctx.disagree('table:c2p', f'vector_conventional_to_primitive[{st}] = {c2p.tolist()}, model {out}',
                         {'op': 'c2p', 'setting': st})
        for v in ([1, 0, 0], [0, 1, 0], [0, 0, 1], [1, -2, 3]):
            p2c = miller.vector_primitive_to_conventional(np.array(v), setting=st)
            out = ctx.driver.ask(f'p2c {st} ' + ' '.join(map(str, v)))
            ctx.stats.case('table:p2c', (st, tuple(v)))
            if out.startswith('err') or not cm.allclose(p2c, cm.unfrs(out), 1e-12, 1e-12):
                ctx.disagree('table:p2c', f'vector_primitive_to_conventional[{st}]({v}) = {p2c.tolist()}, model {out}',
                             {'op': 'p2c', 'setting': st, 'v': v})
    for bad in ('x', 'P', ''):
        try:
            miller.vector_conventional_to_primitive(np.identity(3), setting=bad)
            impl = 'ok'
        except ValueError:
            impl = 'value'
        out = ctx.driver.ask(f'c2p {bad}') if bad else 'err:value'
        if (impl == 'value') != out.startswith('err'):
            ctx.disagree('table:c2p', f'unknown setting {bad!r}: implementation {impl}, model {out}', {'op': 'c2p'})


# ----------------------------------------------------------------------------------------
# crystals (literal fractional coordinates; am.load('prototype') needs the network)
# ----------------------------------------------------------------------------------------
def _system(box, frac, atype=None, symbols=None):
    import numpy as np
    import atomman as am
    frac = np.array(frac, dtype=float)
    atype = [1] * len(frac) if atype is None else atype
    atoms = am.Atoms(atype=atype, pos=frac)
    return am.System(atoms=atoms, box=box, scale=True, symbols=symbols)


FCC = [[0, 0, 0], [.5, .5, 0], [.5, 0, .5], [0, .5, .5]]
BCC = [[0, 0, 0], [.5, .5, .5]]
DIA = FCC + [[.25, .25, .25], [.75, .75, .25], [.75, .25, .75], [.25, .75, .75]]
HCP = [[0, 0, 0], [1 / 3, 2 / 3, .5]]


def crystal_params(rng, exact):
    a = rng.choice([2.0, 4.0, 3.5]) if exact else rng.uniform(2.8, 4.2)
    c = rng.choice([3.0, 5.0, 6.5]) if exact else a * rng.uniform(1.5, 1.7)
    return a, c


def crystal_list(a, c, exact):
    """(name, ucell, conventional_setting) — small cells of fcc/bcc/diamond/hcp/L1_2/B2/bct, centred primitives."""
    import atomman as am
    out = [
        ('fcc', _system(am.Box.cubic(a), FCC, symbols=['Al']), 'p'),
        ('bcc', _system(am.Box.cubic(a), BCC, symbols=['Fe']), 'p'),
        ('diamond', _system(am.Box.cubic(a), DIA, symbols=['Si']), 'p'),
        ('L12', _system(am.Box.cubic(a), FCC, atype=[1, 2, 2, 2], symbols=['Au', 'Cu']), 'p'),
        ('B2', _system(am.Box.cubic(a), BCC, atype=[1, 2], symbols=['Ni', 'Al']), 'p'),
        ('bct', _system(am.Box.tetragonal(a, c), BCC, symbols=['In']), 'p'),
        ('hcp', _system(am.Box.hexagonal(a, c), HCP, symbols=['Mg']), 'p'),
        ('fcc-prim', _system(am.Box(vects=[[a / 2, a / 2, 0], [0, a / 2, a / 2], [a / 2, 0, a / 2]]), [[0, 0, 0]],
                             symbols=['Al']), 'f'),
        ('bcc-prim', _system(am.Box(vects=[[a / 2, a / 2, a / 2], [-a / 2, a / 2, -a / 2], [-a / 2, -a / 2, a / 2]]),
                             [[0, 0, 0]], symbols=['Fe']), 'i'),
        ('ortho2', _system(am.Box.orthorhombic(a, a * 1.25 if exact else a * 1.21, c), [[0, 0, 0], [.5, .5, .25]],
                           atype=[1, 2], symbols=['A', 'B']), 'p'),
        # three layers with unequal spacings along c (gaps 1/2, 1/4, 1/4)
        ('tet3', _system(am.Box.tetragonal(a, c), [[0, 0, 0], [.5, .5, .5], [0, 0, .75]], atype=[1, 2, 3],
                         symbols=['A', 'B', 'C']), 'p'),
    ]
    return out


# generated one- and two-atom cells: the atoms sit at ARBITRARY fractional positions (not at the origin), in cells of
# several families incl. equal lattice constants in unusual slots (orthorhombic box with b == c).  The whole cell is
# encoded in the name, 'g<natoms>:<family>:<x,y,z,type>;<x,y,z,type>', so that (name, a, c, exact) rebuilds it.
GEN_FAMILIES = ('cub', 'tet', 'ort', 'obc', 'hex', 'mon', 'tri')
_FRACS = [0.0, 0.125, 0.25, 0.375, 0.5, 0.625, 0.75, 0.875, 1 / 3, 2 / 3, 1 / 6, 5 / 6, 0.1, 0.3, 0.7]


def gen_box(fam, a, c, exact):
    import atomman as am
    b = a * 1.25 if exact else a * 1.21
    if fam == 'cub':
        return am.Box.cubic(a)
    if fam == 'tet':
        return am.Box.tetragonal(a, c)
    if fam == 'ort':
        return am.Box.orthorhombic(a, b, c)
    if fam == 'obc':
        return am.Box.orthorhombic(a, c, c)            # b == c
    if fam == 'hex':
        return am.Box.hexagonal(a, c)
    if fam == 'mon':
        return am.Box(vects=[[a, 0, 0], [0, b, 0], [-a / 4, 0, c]])
    if fam == 'tri':
        return am.Box(vects=[[a, 0, 0], [a / 4, b, 0], [-a / 4, b / 8, c]])
    raise KeyError(fam)


def gen_crystal_name(rng, natoms, fam=None, share=None):
    """name of a generated cell; `share`: the two atoms of a two-atom cell have the same coordinate along one axis
    (None: in 40% of the cells)."""
    fam = fam or rng.choice(GEN_FAMILIES)

    def coord():
        r = rng.random()
        if r < 0.3:
            return 0.5
        if r < 0.8:
            return rng.choice(_FRACS)
        return round(rng.uniform(0.02, 0.98), 4)
    pts = [[coord(), coord(), coord()] for _ in range(natoms)]
    if natoms == 2:
        if share or (share is None and rng.random() < 0.4):   # both atoms in one layer of a low-index plane
            k = rng.randrange(3)
            pts[1][k] = pts[0][k]
        if pts[0] == pts[1]:
            pts[1][rng.randrange(3)] = (pts[0][0] + 0.5) % 1.0
    types = [1] * natoms if rng.random() < 0.5 else list(range(1, natoms + 1))
    return 'g%d:%s:%s' % (natoms, fam, ';'.join(','.join(repr(float(x)) for x in p) + ',%d' % t for p, t in zip(pts, types)))


def _is_hex(nm):
    return nm == 'hcp' or nm.split(':')[1:2] == ['hex']


def shared_axis(nm):
    """axis along which all atoms of a generated cell have the same fractional coordinate (one layer of that
    low-index plane), else None."""
    if not nm.startswith('g'):
        return None
    rows = [[float(x) for x in p.split(',')[:3]] for p in nm.split(':')[2].split(';')]
    ks = [k for k in range(3) if len({r[k] for r in rows}) == 1]
    return ks[0] if ks else None


def layer_plane(rng, nm, hkl):
    """for a generated cell whose atoms share a coordinate: mostly the plane in which they all lie."""
    k = shared_axis(nm)
    if k is None or rng.random() >= 0.6:
        return hkl
    h = [0, 0, 0]
    h[k] = rng.choice([1, 1, -1, 2])
    return tuple(h)


def _kind(nm):
    """crystal name -> statistics bucket."""
    return ':'.join(nm.split(':')[:2])


def crystal_get(nm, a, c, exact):
    """(ucell, conventional_setting) for a crystal name."""
    if nm.startswith('g'):
        _, fam, motif = nm.split(':')
        rows = [[float(x) for x in p.split(',')] for p in motif.split(';')]
        atype = [int(r[3]) for r in rows]
        return _system(gen_box(fam, a, c, exact), [r[:3] for r in rows], atype=atype,
                       symbols=['A', 'B'][:max(atype)]), 'p'
    return [(u, s_) for k, u, s_ in crystal_list(a, c, exact) if k == nm][0]


TRAP_COUNTS = [49, 98, 103, 107, 196, 197, 161, 187, 206, 214]
NAMES = ['fcc', 'bcc', 'diamond', 'L12', 'B2', 'bct', 'hcp', 'fcc-prim', 'bcc-prim', 'ortho2', 'tet3']
# lattice constants with few decimals (layer heights are then exact multiples of the rounding step `tol`, up to the
# 1e-16 noise of the rotation) and the high-index planes on which many atoms share a layer
DECIMAL_A = [4.05, 4.0, 3.52, 3.615, 2.8665, 5.43, 3.3, 2.95, 3.0, 4.08]
HIGH_PLANES = [(2, 2, 1), (3, 1, 1), (3, 3, 1), (2, 1, 1), (2, 1, 0), (3, 2, 1), (3, 1, 0), (3, 2, 2)]
# h^2 + k^2 + l^2 a perfect square: in a cubic cell the interplanar spacing is a RATIONAL multiple of a, so with a
# decimal lattice constant the layer heights are exact multiples of the rounding step while the rotation (rows like
# (2/3, 2/3, 1/3)) leaves 1e-16 noise on the atoms of one layer: grouping by floor instead of round splits layers
SQUARE_PLANES = [(2, 2, 1), (2, 2, 1), (2, 2, 1), (3, 4, 0), (3, 4, 0), (2, 3, 6), (1, 4, 8), (4, 4, 7)]


def _permuted(rng, hkl):
    h = list(hkl)
    rng.shuffle(h)
    return tuple(x * rng.choice([1, 1, -1]) for x in h)


def high_plane(rng, square=0.4, big=False):
    """a high-index plane; with probability `square` one whose squared norm is a perfect square (`big`: also those
    needing maxindex 6..8)."""
    if rng.random() < square:
        return _permuted(rng, rng.choice(SQUARE_PLANES if big else SQUARE_PLANES[:5]))
    return _permuted(rng, rng.choice(HIGH_PLANES))


def plane_cap(hkl3):
    """largest explicit maxindex used for a plane: 3 (searches may then fail: a documented outcome), 8 for the
    planes of SQUARE_PLANES so that their FreeSurface exists."""
    return 8 if tuple(sorted(abs(x) for x in hkl3)) in {tuple(sorted(p)) for p in SQUARE_PLANES} else 3


def pick_crystal(rng, i, off=0):
    """crystal name for the i-th case: the literal prototypes in rotation, every third case a generated one- or
    two-atom cell."""
    if i % 3 == 2:
        return gen_crystal_name(rng, 1 if rng.random() < 0.55 else 2)
    return NAMES[(i + off) % len(NAMES)]


def crystals(rng, exact):
    a, c = crystal_params(rng, exact)
    out = crystal_list(a, c, exact)
    for n in (1, 1, 2, 2):
        nm = gen_crystal_name(rng, n)
        u, st = crystal_get(nm, a, c, exact)
        out.append((nm, u, st))
    return out


def _numdec(tol):
    import numpy as np
    return - int(np.floor(np.log10(tol)))


def _layer_margin_ok(xs, W, tol, numdec):
    """the model's exact rounding / isclose steps are away from their float-sensitive boundaries."""
    sc = 10 ** numdec
    for x in xs:
        fr = (x * sc) % 1.0
        if abs(fr - 0.5) < 1e-3:
            return False
    s = sorted(xs)
    gaps = [b - a for a, b in zip(s, s[1:])]
    if any(tol / 50 < g < 50 * tol for g in gaps):
        return False
    d = abs((s[-1] - s[0]) - W)
    return not (tol / 50 < d < 50 * tol)


def _c2p_int(setting):
    L = _inv([[F(x) for x in r] for r in P2C[setting]])
    return [[int(x) for x in r] for r in L]


def _conv_to_prim(uv_conv, setting):
    """FreeSurface.uvws (conventional, 3x3 or 3x4 floats) -> primitive 3-index rows as floats."""
    rows = []
    L = _c2p_int(setting)
    for r in uv_conv:
        if len(r) == 4:
            r = [2 * r[0] + r[1], 2 * r[1] + r[0], r[3]]
        rows.append([sum(r[i] * L[i][j] for i in range(3)) for j in range(3)])
    return rows


def _fs_cases(ctx, exact):
    rng = ctx.rng
    cr = crystals(rng, exact)
    small = planes(2)
    cases = []
    per = ctx.n(5, 40)
    for nm, ucell, st in cr:
        pls = rng.sample(small, per)
        if _is_hex(nm):
            pls = [(h, k, -(h + k), l) if i % 2 else (h, k, l) for i, (h, k, l) in enumerate(pls)]
        for hkl in pls:
            cases.append((nm, ucell, st, hkl, rng.choice(CUTS)))
        # planes that admit every cut vector in the cubic/tetragonal/orthorhombic cells
        for hkl in rng.sample([(1, 0, 0), (0, 1, 0), (0, 0, 1), (0, 0, -1), (1, 1, 0), (1, 1, 1), (0, 1, 1), (1, -1, 0)], 2):
            if _is_hex(nm):
                hkl = (0, 0, 0, 1) if hkl[2] else (1, 0, -1, 0)
            cases.append((nm, ucell, st, hkl, rng.choice(('a', 'b'))))
    if not exact:
        # decimal lattice constants x high-index planes: many atoms per layer, layer heights on multiples of tol
        a = rng.choice(DECIMAL_A)
        c = round(a * rng.choice([1.6, 1.633, 1.5]), 3)
        crd = crystal_list(a, c, False)
        nm, ucell, st = rng.choice(crd[:1] + crd[2:4])            # fcc / diamond / L12
        cases.append((nm, ucell, st, _permuted(rng, (2, 2, 1)), rng.choice(CUTS)))
        for nm, ucell, st in rng.sample(crd, ctx.n(4, 8)):
            for _ in range(ctx.n(1, 3)):
                hkl = high_plane(rng)
                if _is_hex(nm) and rng.random() < 0.5:
                    hkl = (hkl[0], hkl[1], -(hkl[0] + hkl[1]), hkl[2])
                cases.append((nm, ucell, st, hkl, rng.choice(('c', 'c', 'a', 'b'))))
    return cases


def _correspond_fs(ctx, exact):
    import numpy as np
    import atomman as am
    from atomman.defect import StackingFault
    rng = ctx.rng
    nshift = nfault = nref = nsurf = nund = 0
    for nm, ucell, st, hkl, cut in _fs_cases(ctx, exact):
        tol = rng.choice([1e-7, 1e-8, 1e-6])
        hkl3 = hkl if len(hkl) == 3 else (hkl[0], hkl[1], hkl[3])
        n = _capped(hkl3, st, plane_cap(hkl3))
        info = {'op': 'FreeSurface', 'crystal': nm, 'a': float(ucell.box.a), 'c': float(ucell.box.c), 'exact': exact,
                'hkl': list(hkl), 'cut': cut, 'setting': st, 'maxindex': n, 'tol': tol}
        vects = ucell.box.vects.tolist()
        try:
            sf = StackingFault(list(hkl), ucell, cutboxvector=cut, maxindex=n, conventional_setting=st, tol=tol)
            impl_err = None
        except (ValueError, AssertionError) as e:
            sf, impl_err = None, (_err_class(e), str(e))
        m = parse_fsb(ctx.driver.ask(fsb_line(vects, hkl, cut, n, st, None)))
        ctx.stats.case('FreeSurface:' + _kind(nm), (nm, tuple(hkl), cut, st, exact, float(ucell.box.a)), nontrivial=sf is not None,
                       sample=dict(info, refused=impl_err))
        if 'err' in m:
            if m['err'] == 'assert' and impl_err is None and not exact:
                nund += 1           # float search succeeded on a candidate tying with the initial bound
                continue
            if impl_err is None or impl_err[0] != m['err']:
                ctx.disagree('FreeSurface:refusal', f'FreeSurface({hkl}, {nm}) {impl_err or "succeeded"} but '
                             f'free_surface_basis model refuses ({m["err"]})', info)
            continue
        aNear, aExact, bNear, bExact, cTie = m['flags']
        decided = not (aNear or bNear or cTie) if exact else not any(m['flags'])
        if sf is None:
            # a refusal must be the documented one: the rotated cell is incompatible with the cut vector
            if not decided:
                nund += 1
                continue
            nref += 1
            out = ctx.driver.ask('compat %s %s %s' % (cut, ' '.join(map(str, m['uv3'])), cm.frs(np.array(vects))))
            flag, *dat = out.split()
            ab, ac, yzn, aa, bb, cc = [float(F(t)) for t in dat]
            rel = [abs(ab) / math.sqrt(aa * bb), abs(ac) / math.sqrt(aa * cc)] if cut == 'a' else \
                [abs(yzn) / (aa * math.sqrt(bb * cc))] if cut == 'b' else [0.0]
            if any(1e-9 <= r <= 1e-6 for r in rel):
                continue
            compat = all(r < 1e-9 for r in rel)
            if compat or 'box' not in impl_err[1]:
                ctx.disagree('FreeSurface:refusal', f'FreeSurface({hkl}, {nm}, cut={cut}) raised {impl_err} but the '
                             f'model accepts the cut vector (uvws {m["uv3"]})', dict(info, model=m['uv3']))
            continue
        # ---- uvws -------------------------------------------------------------------------
        uv_conv = np.asarray(sf.uvws, dtype=float).tolist()
        prim = _conv_to_prim(uv_conv, st)
        uv3 = [int(round(x)) for r in prim for x in r]
        if any(abs(x - i) > 1e-9 for x, i in zip([x for r in prim for x in r], uv3)):
            ctx.disagree('FreeSurface:uvws', f'FreeSurface({hkl}, {nm}).uvws {uv_conv} are not lattice vectors', info)
            continue
        if decided:
            if uv3 != m['uv3']:
                ctx.disagree('FreeSurface:uvws', f'FreeSurface({hkl}, {nm}, cut={cut}, setting={st}).uvws -> primitive '
                             f'{uv3}, model {m["uv3"]}', dict(info, impl=uv3, model=m['uv3']))
                continue
            # conventional representation
            L = _c2p_int(st)
            want = []
            for r in range(3):
                o = ctx.driver.ask('p2c %s %s' % (st, ' '.join(map(str, m['uv3'][3 * r:3 * r + 3]))))
                want.append(cm.unfrs(o))
            got3 = [[2 * r[0] + r[1], 2 * r[1] + r[0], r[3]] if len(r) == 4 else r for r in uv_conv]
            if not all(cm.allclose(g, w, 1e-12, 1e-12) for g, w in zip(got3, want)):
                ctx.disagree('FreeSurface:uvws-conventional', f'FreeSurface.uvws {uv_conv} vs model {want}', info)
        else:
            vo = ctx.driver.ask('valid %s %s %s %s %s %s 1 1000000000' % (
                cut, st, '-' if n is None else n, ' '.join(map(str, hkl3)), cm.frs(np.array(vects)),
                ' '.join(map(str, uv3))))
            if vo != '1':
                ctx.disagree('FreeSurface:valid', f'FreeSurface({hkl}, {nm}).uvws {uv3} is not a possible outcome ({vo})',
                             dict(info, impl=uv3))
                continue
        # the accepted cell must be compatible with the cut vector in the model too
        out = ctx.driver.ask('compat %s %s %s' % (cut, ' '.join(map(str, uv3)), cm.frs(np.array(vects))))
        flag, *dat = out.split()
        ab, ac, yzn, aa, bb, cc = [float(F(t)) for t in dat]
        rel = [abs(ab) / math.sqrt(aa * bb), abs(ac) / math.sqrt(aa * cc)] if cut == 'a' else \
            [abs(yzn) / (aa * math.sqrt(bb * cc))] if cut == 'b' else [0.0]
        if any(r > 1e-6 for r in rel):
            ctx.disagree('FreeSurface:refusal', f'FreeSurface({hkl}, {nm}, cut={cut}) accepted a cell the model refuses '
                         f'(uvws {uv3})', dict(info, impl=uv3))
            continue
        # ---- shifts -----------------------------------------------------------------------
        ci = 'abc'.index(cut)
        if sf.cutindex != ci:
            ctx.disagree('FreeSurface:cutindex', f'cutindex {sf.cutindex} for cutboxvector {cut}', info)
        rpos = sf.rcell.atoms.pos
        W = float(sf.rcell.box.vects[ci, ci])
        xs = [float(x) for x in rpos[:, ci]]
        nd = _numdec(tol)
        if _layer_margin_ok(xs, W, tol, nd):
            out = ctx.driver.ask('shifts %d %s %s %s' % (nd, cm.fr(tol), cm.fr(W), cm.frs(xs)))
            want = cm.unfrs(out.split(';')[0])
            got = np.asarray(sf.shifts, dtype=float)
            nshift += 1
            ctx.stats.case('shifts', (nm, tuple(hkl), cut, st, exact, W), sample={'W': W, 'coords': xs[:12], 'shifts': got[:, ci].tolist()})
            other = [j for j in range(3) if j != ci]

            def fold(v):
                # a shift of a whole cell width is the shift 0 (the fold of `relshift` into [0, W] is decided by the
                # last bit when a mid-layer point falls on the cell face): compare modulo W
                return sorted(0.0 if min(abs(float(x)), abs(float(x) - W)) <= 1e-9 * W else float(x) for x in v)
            if got.ndim != 2 or got.shape[1] != 3 or len(want) != got.shape[0] or np.abs(got[:, other]).max() != 0.0 \
                    or not (cm.allclose(got[:, ci], want, 1e-12, 1e-9 * W)
                            or cm.allclose(fold(got[:, ci]), fold(want), 1e-12, 1e-9 * W)):
                ctx.disagree('FreeSurface:shifts', f'FreeSurface({hkl}, {nm}, cut={cut}).shifts {got.tolist()} vs model '
                             f'{[float(w) for w in want]} along the cut', dict(info, coords=xs, W=W))
                continue
        # ---- surface() ---------------------------------------------------------------------
        try:
            _correspond_surface(ctx, sf, info, ci, cut, W)
            nsurf += 1
            nfault += _correspond_fault(ctx, sf, info, ci, cut, exact)
        except cm.InfraError:
            raise
        except Exception as e:  # noqa  (whatever the implementation raises is an observation, not a harness failure)
            ctx.disagree('FreeSurface:exception', f'FreeSurface/StackingFault({hkl}, {nm}, cut={cut}): '
                         f'{type(e).__name__}: {e}', info)
    k = 'exact' if exact else 'float'
    ctx.extra[f'fs_{k}'] = {'shift_lists': nshift, 'refusals_checked': nref, 'undecided_refusals': nund,
                           'surface_systems': nsurf, 'fault_systems': nfault}


def _correspond_surface(ctx, sf, info, ci, cut, W):
    import numpy as np
    rng = ctx.rng
    big = sf.rcell.natoms > 40
    inpl = lambda: rng.choice([1, 1, 1, 2, -1, (0, 1)] if big else [1, 1, 2, 3, -2, (-1, 1), (0, 2)])
    sizemults = [inpl(), inpl(), inpl()]
    sizemults[ci] = rng.choice([1, 1, 2, -1, -2] if big else [1, 1, 2, 3, -1, -2, 4])
    minwidth = rng.choice([None, None, rng.uniform(0.3, 4.5) * W, 2.0 * W])
    even = rng.random() < 0.4
    vac = rng.choice([None, None, 0.0, rng.uniform(0.5, 12.0), 8.0, -1.0 if rng.random() < 0.3 else 2.5])
    nsh = len(sf.shifts)
    si = rng.randrange(nsh)
    kw = dict(shiftindex=si, vacuumwidth=vac, minwidth=minwidth, sizemults=list(sizemults), even=even)
    sinfo = dict(info, surface={k: (list(v) if isinstance(v, list) else v) for k, v in kw.items()})
    try:
        system = sf.surface(**kw)
        err = None
    except ValueError as e:
        system, err = None, str(e)
    except Exception as e:  # noqa
        ctx.disagree('surface:exception', f'surface({kw}) raised {type(e).__name__}: {e}', sinfo)
        sf.surface(shiftindex=si)
        return
    ctx.stats.case('surface', (info['crystal'], tuple(info['hkl']), cut, str(kw)), nontrivial=system is not None,
                   sample={k: str(v) for k, v in kw.items()})
    q = '-' if minwidth is None else str(int(np.ceil(minwidth / W)))
    mult = int(ctx.driver.ask('mult %d %s %d' % (sizemults[ci], q, int(even))))
    rbox = sf.rcell.box
    vects = rbox.vects.copy()
    origin = rbox.origin.copy()
    mults = []
    for i in range(3):
        s = mult if i == ci else sizemults[i]
        lo, hi = (s if isinstance(s, tuple) else ((0, s) if s > 0 else (s, 0)))
        origin = origin + vects[i] * lo
        vects[i] = vects[i] * (hi - lo)
        mults.append(hi - lo)
    if vac is not None:
        out = ctx.driver.ask('vac %s %s %s %s' % (cut, cm.fr(vac), cm.frs(vects), cm.frs(origin)))
    else:
        out = cm.frs(vects) + ' ' + cm.frs(origin)
    if system is None:
        if not out.startswith('err:value'):
            ctx.disagree('surface:refusal', f'surface({kw}) raised ValueError({err}) but the model accepts', sinfo)
        sf.surface(shiftindex=si)   # leave a system behind for the fault part
        return
    if out.startswith('err'):
        ctx.disagree('surface:refusal', f'surface({kw}) succeeded, model says {out}', sinfo)
        return
    want = cm.unfrs(out)
    got = list(system.box.vects.ravel()) + list(system.box.origin)
    scale = float(np.abs(system.box.vects).max())
    if not cm.allclose(got, want, 1e-12, 1e-10 * scale):
        ctx.disagree('surface:box', f'surface({kw}) box {got} vs model {[float(w) for w in want]} '
                     f'(cut multiplier {mult})', sinfo)
    pbc = [t == '1' for t in ctx.driver.ask('pbc ' + cut).split()]
    if [bool(x) for x in system.pbc] != pbc:
        ctx.disagree('surface:pbc', f'surface() pbc {list(system.pbc)} vs model {pbc} for cut {cut}', sinfo)
    want_n = sf.rcell.natoms * mults[0] * mults[1] * mults[2]
    if system.natoms != want_n:
        ctx.disagree('surface:natoms', f'surface({kw}) has {system.natoms} atoms, model {want_n}', sinfo)
        return
    # positions: supersize (C04's model) + shift + wrap, atom by atom (same replica-major order)
    lohi = []
    for i in range(3):
        s_ = mult if i == ci else sizemults[i]
        lo, hi = (s_ if isinstance(s_, tuple) else ((0, s_) if s_ > 0 else (s_, 0)))
        lohi += [lo, hi]
    out = ctx.driver.ask('surf %s %s %s %s %s' % (' '.join(map(str, lohi)), cm.frs(np.asarray(sf.shift, dtype=float)),
                                                cm.frs(rbox.vects), cm.frs(rbox.origin), cm.frs(sf.rcell.atoms.pos)))
    if out.startswith('err'):
        ctx.disagree('surface:driver', f'model refused surf: {out}', sinfo)
        return
    b_s, p_s, _ = out.split(';')
    sb = np.array([float(x) for x in cm.unfrs(b_s)])
    svects, sorigin = sb[:9].reshape(3, 3), sb[9:]
    M = np.array([float(x) for x in cm.unfrs(p_s)]).reshape(-1, 3)
    P = np.asarray(system.atoms.pos, dtype=float)
    inv = np.linalg.inv(svects)
    drel = (P - M) @ inv
    srel = (M - sorigin) @ inv
    nint = np.rint(drel)
    nearface = np.minimum(srel - np.floor(srel), np.ceil(srel) - srel) < 1e-9
    bad = (np.abs(drel - nint) > 1e-9) | ((nint != 0) & ~nearface)
    if bad.any():
        i = int(np.argmax(bad.any(axis=1)))
        ctx.disagree('surface:positions', f'surface({kw}) atom {i} at {P[i].tolist()}, model {M[i].tolist()} '
                     f'(difference {drel[i].tolist()} cell vectors)', dict(sinfo, atom=i))


def _correspond_fault(ctx, sf, info, ci, cut, exact):
    import numpy as np
    rng = ctx.rng
    system = sf.system
    pos = system.atoms.pos.copy()
    box = system.box
    width = float(box.vects[ci, ci])
    o = float(box.origin[ci])
    done = 0
    xs = np.unique(pos[:, ci])
    for rep in range(2):
        mode = rng.choice(['rel', 'rel', 'mid', 'onplane', 'default'])
        kw = {}
        if mode == 'rel':
            kw['faultpos_rel'] = rng.randrange(0, 17) / 16
        elif mode == 'mid' and len(xs) > 1:
            i = rng.randrange(len(xs) - 1)
            kw['faultpos_cart'] = float((xs[i] + xs[i + 1]) / 2)
        elif mode == 'onplane':
            kw['faultpos_cart'] = float(rng.choice(list(xs)))
        if 'faultpos_cart' in kw and not (0.0 <= (kw['faultpos_cart'] - o) / width <= 1.0):
            kw = {}
        a1 = rng.choice([0.0, 0.5, 1 / 3, 0.25, 1.0, -1.0, 2.0, 0.125])
        a2 = rng.choice([0.0, 0.5, 2 / 3, 0.75, 1.0, -0.5])
        oop = rng.choice([None, None, 0.0, 0.3, -0.2])
        a1c, a2c = np.asarray(sf.a1vect_cart, dtype=float), np.asarray(sf.a2vect_cart, dtype=float)
        sh = cm.unfrs(ctx.driver.ask('fshift %s %s %s %s %s %s' % (cut, cm.fr(a1), cm.fr(a2), cm.fr(oop or 0.0),
                                                                 cm.frs(a1c), cm.frs(a2c))))
        direct = rng.random() < 0.3
        finfo = dict(info, fault=dict(kw, a1=a1, a2=a2, outofplane=oop, direct=direct))
        try:
            if direct:
                new = sf.fault(faultshift=np.array([float(x) for x in sh]), **kw)
            else:
                new = sf.fault(a1=a1, a2=a2, outofplane=oop, **kw)
        except ValueError as e:
            ctx.disagree('fault:raises', f'fault({kw}) raised {e}', finfo)
            continue
        fp = float(sf.faultpos_cart)
        if 'faultpos_rel' in kw and abs(fp - (o + kw['faultpos_rel'] * width)) > 1e-12 * max(1.0, abs(width)):
            ctx.disagree('fault:faultpos', f'faultpos_cart {fp} for faultpos_rel {kw["faultpos_rel"]}', finfo)
        if not kw and rep == 0 and abs(sf.faultpos_rel - 0.5) > 0:
            pass
        line = 'fault %s %s %s %s %s %s' % (cut, ' '.join(str(int(bool(p))) for p in system.pbc), cm.fr(fp),
                                            ' '.join(cm.fr(x) for x in sh),
                                            cm.frs(box.vects) + ' ' + cm.frs(box.origin), cm.frs(pos))
        out = ctx.driver.ask(line)
        if out.startswith('err'):
            ctx.disagree('fault:driver', f'model refused fault: {out}', finfo)
            continue
        p_s, a_s, m_s = out.split(';')
        want = cm.unfrs(p_s)
        above = [t == '1' for t in a_s.split()]
        mw, mf = [float(x) for x in cm.unfrs(m_s)]
        done += 1
        ctx.stats.case('fault', (info['crystal'], tuple(info['hkl']), cut, str(kw), a1, a2, oop, direct),
                       sample={'natoms': int(system.natoms), 'faultpos_cart': fp, 'on_plane': mf == 0.0,
                               'shift': [float(x) for x in sh], **{k: float(v) for k, v in kw.items()}})
        if [bool(x) for x in sf.abovefault] != above:
            bad = [i for i, (x, y) in enumerate(zip(sf.abovefault, above)) if bool(x) != y]
            ctx.disagree('fault:above', f'abovefault differs from the model for atoms {bad[:6]} (coordinates '
                         f'{[float(pos[i, ci]) for i in bad[:6]]}, fault plane at {fp})',
                         dict(finfo, faultpos_cart=fp, atoms=bad[:6]))
            continue
        if mw > 1e-9:
            got = new.atoms.pos.ravel()
            scale = float(np.abs(box.vects).max())
            if not cm.allclose(got, want, 1e-12, 1e-9 * scale):
                d = np.abs(got - np.array([float(w) for w in want])).reshape(-1, 3).max(axis=1)
                i = int(np.argmax(d))
                ctx.disagree('fault:positions', f'fault({kw}, a1={a1}, a2={a2}, outofplane={oop}) moved atom {i} '
                             f'({pos[i].tolist()}) to {new.atoms.pos[i].tolist()}, model '
                             f'{[float(w) for w in want[3 * i:3 * i + 3]]}', dict(finfo, atom=i, faultpos_cart=fp))
    return done


# ----------------------------------------------------------------------------------------
# object histories: sequences of calls on ONE FreeSurface / StackingFault object
#   surface(shift / shiftindex / sizemults / minwidth / even / vacuumwidth / faultpos_*) -> faultpos setters ->
#   fault(a1, a2, ...) / iterfaultmap -> surface() again -> fault() ...
# The same runner serves the correspondence (every call mirrored on the Lean object `sf ...`, every attribute
# compared after every call) and the search (specification-level shadow, a fresh object given the same final
# arguments, and the exact clause oracle on every fault() result).
# ----------------------------------------------------------------------------------------
_ERR = ((AssertionError, 'assert'), (IndexError, 'index'), (AttributeError, 'attr'), (TypeError, 'type'),
        (ValueError, 'value'))


def _ecls(e):
    for k, v in _ERR:
        if isinstance(e, k):
            return v
    return type(e).__name__


def _hist_new(spec):
    import numpy as np
    from atomman.defect import StackingFault, FreeSurface
    ucell, st = crystal_get(spec['crystal'], spec['a'], spec['c'], spec['exact'])
    kw = dict(spec.get('ctor') or {})
    if kw.get('shift') is not None:
        kw['shift'] = np.array(kw['shift'], dtype=float)
    cls = StackingFault if spec['cls'] == 'SF' else FreeSurface
    sf = cls(list(spec['hkl']), ucell, cutboxvector=spec['cut'], maxindex=spec['maxindex'], conventional_setting=st,
             tol=spec['tol'], **kw)
    return sf, ucell, st


def _kw_real(kw):
    """JSON form of keyword arguments -> what the real call receives (fresh lists / arrays on every call:
    surface() edits the sizemults list it is given)."""
    import numpy as np
    out = {}
    for k, v in kw.items():
        if k == 'sizemults' and v is not None:
            out[k] = [tuple(m) if isinstance(m, (list, tuple)) else int(m) for m in v]
        elif k in ('shift', 'faultshift', 'a1vect_uvw', 'a2vect_uvw') and v is not None:
            out[k] = np.array(v, dtype=float)
        elif v == 'np.True_' and isinstance(v, str):
            out[k] = np.True_
        else:
            out[k] = v
    return out


def _apply(sf, op):
    """one call on a real object -> ('ok', value) | ('err', class, message); an exception raised by the
    implementation is an observation."""
    k = op['op']
    try:
        if k == 'surface':
            sf.surface(**_kw_real(op['kw']))
            return ('ok', None)
        if k == 'set_shift':
            sf.set_shift(**_kw_real(op['kw']))
            return ('ok', None)
        if k == 'fprel':
            sf.faultpos_rel = op['value']
            return ('ok', None)
        if k == 'fpcart':
            sf.faultpos_cart = op['value']
            return ('ok', None)
        if k == 'fault':
            return ('ok', sf.fault(**_kw_real(op['kw'])))
        if k == 'map':
            return ('ok', [(float(a1), float(a2), s) for a1, a2, s in sf.iterfaultmap(**_kw_real(op['kw']))])
    except Exception as e:  # noqa
        return ('err', _ecls(e), str(e)[:120])
    raise cm.InfraError('unknown history op ' + str(k))


def _priv(sf, cls, name):
    return getattr(sf, f'_{cls}__{name}', None)


def _state(sf):
    """attributes of a real object, read without the AttributeError the public properties raise."""
    return {'shift': sf.shift, 'system': _priv(sf, 'FreeSurface', 'system'),
            'area': _priv(sf, 'FreeSurface', 'surfacearea'),
            'fprel': _priv(sf, 'StackingFault', 'faultpos_rel'), 'fpcart': _priv(sf, 'StackingFault', 'faultpos_cart'),
            'above': _priv(sf, 'StackingFault', 'abovefault'),
            'a1c': _priv(sf, 'StackingFault', 'a1vect_cart'), 'a2c': _priv(sf, 'StackingFault', 'a2vect_cart')}


def _to3(v):
    """3-index form of a crystal vector given with 3 or 4 indices."""
    v = [float(x) for x in v]
    return [2 * v[0] + v[1], 2 * v[1] + v[0], v[3]] if len(v) == 4 else v


# ---- requests to the Lean object ---------------------------------------------------------
def _tok_shift(kw):
    s, i = kw.get('shift'), kw.get('shiftindex')
    if s is not None and i is not None:
        return 'b'
    if s is not None:
        return ('r ' if kw.get('shiftscale') is True else 'v ') + cm.frs([float(x) for x in s])
    if i is not None:
        return 'i %d' % int(i)
    return 'k'


def _tok_fpos(kw):
    r, c = kw.get('faultpos_rel'), kw.get('faultpos_cart')
    if r is not None and c is not None:
        return 'b'
    if c is not None:
        return 'c ' + cm.fr(c)
    if r is not None:
        return 'r ' + cm.fr(r)
    return 'n'


def _tok_mult(m):
    return 'p %d %d' % (m[0], m[1]) if isinstance(m, (list, tuple)) else 'i %d' % m


def _tok_uvw(v):
    return '-' if v is None else cm.frs(_to3(v))


def _opt(x):
    return '-' if x is None else cm.fr(x)


def _model_line(op, W, cls):
    k = op['op']
    kw = op.get('kw') or {}
    if k == 'surface':
        sm = kw.get('sizemults') or [1, 1, 1]
        mw = kw.get('minwidth')
        q = '-' if mw is None else str(int(math.ceil(mw / W)))
        return ' '.join(['sf', 'surface' if cls == 'SF' else 'fsurface', _tok_shift(kw)] + [_tok_mult(m) for m in sm]
                        + [q, str(int(bool(kw.get('even')))), _opt(kw.get('vacuumwidth')), _tok_fpos(kw)])
    if k == 'set_shift':
        return 'sf shift ' + _tok_shift(kw)
    if k == 'fprel':
        return 'sf fprel ' + cm.fr(op['value'])
    if k == 'fpcart':
        return 'sf fpcart ' + cm.fr(op['value'])
    coef = [kw.get('a1'), kw.get('a2'), kw.get('outofplane')]
    if k == 'fault':
        if kw.get('faultshift') is not None:
            fs = 'b' if any(x is not None for x in coef) else 'd ' + cm.frs([float(x) for x in kw['faultshift']])
        elif any(x is not None for x in coef):
            fs = 'c ' + ' '.join(_opt(x) for x in coef)
        else:
            fs = 'n'
        return ' '.join(['sf fault', _tok_uvw(kw.get('a1vect_uvw')), _tok_uvw(kw.get('a2vect_uvw')), _tok_fpos(kw), fs])
    if k == 'map':
        n1 = 1 if kw.get('num_a1') is None else kw['num_a1']
        n2 = 1 if kw.get('num_a2') is None else kw['num_a2']
        return ' '.join(['sf map', _tok_uvw(kw.get('a1vect_uvw')), _tok_uvw(kw.get('a2vect_uvw')), _tok_fpos(kw),
                         str(n1), str(n2), _opt(kw.get('outofplane'))])
    raise cm.InfraError('unknown history op ' + str(k))


def _prim_uvws(sf, st):
    import numpy as np
    prim = _conv_to_prim(np.asarray(sf.uvws, dtype=float).tolist(), st)
    U = [[int(round(x)) for x in r] for r in prim]
    if any(abs(x - i) > 1e-9 for r, ri in zip(prim, U) for x, i in zip(r, ri)) or _det(U) == 0:
        return None
    return U


def _model_new(ctx, sf, spec, st):
    """create the Lean object from what __init__ fixed: rotated cell, offered shifts, centring matrix and the
    exact map primitive indices -> Cartesian vectors of the rotated frame, inv(U) . rcell.box.vects."""
    import numpy as np
    U = _prim_uvws(sf, st)
    if U is None:
        return 'err:uvws'
    rv = [[F(float(x)) for x in r] for r in sf.rcell.box.vects]
    mcart = _matmul(_inv([[F(x) for x in r] for r in U]), rv)
    L = _c2p_int(st)
    line = ' '.join(['sf new', spec['cut'], _tok_shift(spec.get('ctor') or {}), cm.fr(1e-8), str(len(sf.shifts)),
                     cm.frs(np.asarray(sf.shifts, dtype=float)), ' '.join(str(x) for r in L for x in r),
                     ' '.join(cm.fr(x) for r in mcart for x in r), cm.frs(sf.rcell.box.vects),
                     cm.frs(sf.rcell.box.origin), cm.frs(sf.rcell.atoms.pos)])
    return ctx.driver.ask(line)


def _parse_mstate(out):
    """reply of `sf state` -> dict."""
    sh, fr_, fc, ab, av, sy = [p.strip() for p in out.split(';')]
    d = {'shift': [float(x) for x in cm.unfrs(sh)], 'fprel': None if fr_ == '-' else float(F(fr_)),
         'fpcart': None if fc == '-' else float(F(fc)),
         'above': None if ab == '-' else ([] if ab == 'e' else [t == '1' for t in ab.split()])}
    a = [float(x) for x in cm.unfrs(av)]
    d['a1c'], d['a2c'] = a[:3], a[3:]
    if sy == '-':
        d['system'] = None
    else:
        t = sy.split()
        d['system'] = {'vects': [float(F(x)) for x in t[:9]], 'origin': [float(F(x)) for x in t[9:12]],
                       'pbc': [x == '1' for x in t[12:15]], 'area2': float(F(t[15])), 'natoms': int(t[16])}
    return d


def _pos_mismatch(P, M, vects, origin, pbc, skip=None):
    """first atom whose real position differs from the model's by more than rounding; a whole periodic cell
    vector is allowed for atoms the model places on a cell face (the floor of wrap() is discontinuous there)."""
    import numpy as np
    P, M = np.asarray(P, dtype=float), np.asarray(M, dtype=float)
    if P.shape != M.shape:
        return -1
    if len(P) == 0:
        return None
    inv = np.linalg.inv(np.asarray(vects, dtype=float))
    drel = (P - M) @ inv
    srel = (M - np.asarray(origin, dtype=float)) @ inv
    nint = np.rint(drel)
    nearface = (np.minimum(srel - np.floor(srel), np.ceil(srel) - srel) < 1e-9) & np.asarray(pbc, dtype=bool)[None, :]
    bad = ((np.abs(drel - nint) > 1e-9) | ((nint != 0) & ~nearface)).any(axis=1)
    if skip is not None:
        bad &= ~np.asarray(skip, dtype=bool)
    return int(np.argmax(bad)) if bad.any() else None


def _near_plane(P, ci, fp, W):
    import numpy as np
    if fp is None:
        return np.zeros(len(P), dtype=bool)
    return np.abs(np.asarray(P, dtype=float)[:, ci] - fp) <= 1e-9 * max(1.0, abs(W))


def _cmp_model_state(ctx, sf, cls, W, tag, info, vac=None):
    """every attribute of the real object against the Lean object after a call.  Returns False on a disagreement."""
    import numpy as np
    real = _state(sf)
    m = _parse_mstate(ctx.driver.ask('sf state'))
    ci = sf.cutindex

    def dis(key, what):
        ctx.disagree('hist:' + key, f'{tag}: {what}', info)
        return False
    if not np.allclose(np.asarray(real['shift'], dtype=float), m['shift'], rtol=1e-12, atol=1e-12 * max(1.0, abs(W))):
        return dis('shift', f'shift {np.asarray(real["shift"]).tolist()}, model {m["shift"]}')
    rs, ms = real['system'], m['system']
    if (rs is None) != (ms is None):
        return dis('system', f'system {"built" if rs is not None else "not built"}, model '
                   f'{"built" if ms is not None else "not built"}')
    P = None
    if rs is not None:
        scale = float(np.abs(rs.box.vects).max())
        if not np.allclose(list(rs.box.vects.ravel()) + list(rs.box.origin), ms['vects'] + ms['origin'], rtol=0,
                           atol=1e-10 * scale):
            return dis('box', f'box {rs.box.vects.tolist()} origin {rs.box.origin.tolist()}, model {ms["vects"]} '
                       f'origin {ms["origin"]}')
        if [bool(x) for x in rs.pbc] != ms['pbc']:
            return dis('pbc', f'pbc {list(rs.pbc)}, model {ms["pbc"]}')
        if rs.natoms != ms['natoms']:
            return dis('natoms', f'{rs.natoms} atoms, model {ms["natoms"]}')
        if real['area'] is None or abs(float(real['area']) ** 2 - ms['area2']) > 1e-9 * max(1.0, ms['area2']):
            return dis('surfacearea', f'surfacearea {real["area"]}, model sqrt({ms["area2"]})')
        out = ctx.driver.ask('sf pos')
        M = np.array([float(x) for x in cm.unfrs(out)]).reshape(-1, 3) if not out.startswith('err') else np.zeros((0, 3))
        P = np.asarray(rs.atoms.pos, dtype=float)
        # wrap() ran in the box BEFORE the vacuum was inserted: its faces are where the floor is discontinuous
        v0, o0 = np.array(rs.box.vects, dtype=float), np.array(rs.box.origin, dtype=float)
        if vac:
            v0[ci, ci] -= vac
            o0[ci] += vac / 2
        i = _pos_mismatch(P, M, v0, o0, [True, True, True])
        if i is not None:
            return dis('positions', f'atom {i} of the stored system at {P[i].tolist() if i >= 0 else "?"}, model '
                       f'{M[i].tolist() if 0 <= i < len(M) else "?"}')
    if cls != 'SF':
        return True
    for k in ('fprel', 'fpcart'):
        if (real[k] is None) != (m[k] is None) or (real[k] is not None and
                                                    abs(float(real[k]) - m[k]) > 1e-10 * max(1.0, abs(W), abs(m[k]))):
            return dis(k, f'{k} {real[k]}, model {m[k]}')
    for k in ('a1c', 'a2c'):
        if not np.allclose(np.asarray(real[k], dtype=float), m[k], rtol=0, atol=1e-9 * max(1.0, float(np.abs(m[k]).max()))):
            return dis(k, f'{k} {np.asarray(real[k]).tolist()}, model {m[k]}')
    ra, ma = real['above'], m['above']
    if (ra is None) != (ma is None):
        return dis('above', f'abovefault {"set" if ra is not None else "unset"}, model {"set" if ma is not None else "unset"}')
    if ra is not None:
        ra = [bool(x) for x in ra]
        if len(ra) != len(ma):
            return dis('above', f'abovefault has {len(ra)} entries, model {len(ma)}')
        if P is not None and len(P) == len(ra):
            near = _near_plane(P, ci, m['fpcart'], W)
            bad = [i for i in range(len(ra)) if ra[i] != ma[i] and not near[i]]
            if bad:
                return dis('above', f'cached abovefault differs from the model for atoms {bad[:6]} (cut coordinates '
                           f'{[float(P[i, ci]) for i in bad[:6]]}, fault plane {m["fpcart"]})')
    return True


def _cmp_model_result(ctx, sf, op, res, out, W, tag, info):
    """value returned by fault() / iterfaultmap() against the Lean object's."""
    import numpy as np
    s = _priv(sf, 'FreeSurface', 'system')
    ci = sf.cutindex
    fp = _priv(sf, 'StackingFault', 'faultpos_cart')

    def one(new, mpos, what):
        P0 = np.asarray(s.atoms.pos, dtype=float)
        Q = np.asarray(new.atoms.pos, dtype=float)
        M = np.array([float(x) for x in cm.unfrs(mpos)]).reshape(-1, 3)
        i = _pos_mismatch(Q, M, s.box.vects, s.box.origin, [bool(x) for x in s.pbc], skip=_near_plane(P0, ci, fp, W))
        if i is not None:
            ctx.disagree('hist:fault-positions', f'{tag}: {what} moved atom {i} ({P0[i].tolist() if i >= 0 else "?"}) to '
                         f'{Q[i].tolist() if i >= 0 else "?"}, model {M[i].tolist() if 0 <= i < len(M) else "?"}', info)
            return False
        return True
    body = out[3:] if out.startswith('ok') else ''
    if op['op'] == 'fault':
        return one(res, body, 'fault()')
    items = [p for p in body.split('|')] if body.strip() else []
    if len(items) != len(res):
        ctx.disagree('hist:map', f'{tag}: iterfaultmap yielded {len(res)} systems, model {len(items)}', info)
        return False
    for (a1, a2, new), it in zip(res, items):
        ab, mpos = it.split(';')
        ma1, ma2 = [float(x) for x in cm.unfrs(ab)]
        if abs(a1 - ma1) > 1e-12 or abs(a2 - ma2) > 1e-12:
            ctx.disagree('hist:map', f'{tag}: iterfaultmap yielded (a1, a2) = ({a1}, {a2}), model ({ma1}, {ma2})', info)
            return False
        if not one(new, mpos, f'iterfaultmap at ({a1}, {a2})'):
            return False
    return True


# ---- generation (online: every call is chosen after looking at the real object) ---------------
def _eff_extent(sf, kw):
    """(origin, width) across the cut of the system surface(**kw) builds (minwidth / even / vacuum rules)."""
    ci = sf.cutindex
    W = float(sf.rcellwidth)
    sm = kw.get('sizemults') or [1, 1, 1]
    m = sm[ci]
    if isinstance(m, (list, tuple)):
        lo, n = m[0], m[1] - m[0]
    else:
        if kw.get('minwidth') is not None:
            q = int(math.ceil(kw['minwidth'] / W))
            if q > abs(m):
                m = (1 if m > 0 else -1 if m < 0 else 0) * q
        if kw.get('even') and m % 2 == 1:
            m = m + 1 if m > 0 else m - 1
        lo, n = (m, -m) if m < 0 else (0, m)
    vac = kw.get('vacuumwidth') or 0.0
    return float(sf.rcell.box.origin[ci]) + lo * W - vac / 2, n * W + vac


def _gaps(system, ci):
    import numpy as np
    xs = np.unique(np.round(np.asarray(system.atoms.pos, dtype=float)[:, ci], 6))
    return [(float(xs[i]), float(xs[i + 1])) for i in range(len(xs) - 1) if xs[i + 1] - xs[i] > 1e-3]


def _gen_surface_kw(rng, sf, cls):
    import numpy as np
    ci = sf.cutindex
    W = float(sf.rcellwidth)
    nsh = len(sf.shifts)
    kw = {}
    r = rng.random()
    if r < 0.45:
        kw['shiftindex'] = rng.randrange(-nsh, nsh)
    elif r < 0.70:
        pass
    elif r < 0.82:
        s = np.array(sf.shifts[rng.randrange(nsh)], dtype=float)
        for i in range(3):
            if i != ci and rng.random() < 0.5:
                s[i] += rng.choice([0.25, -0.5, 1.0, 0.125])
        kw['shift'] = s.tolist()
        if rng.random() < 0.3:
            kw['shiftscale'] = False
    elif r < 0.90:
        s = [0.0, 0.0, 0.0]
        s[ci] = float(sf.shifts[rng.randrange(nsh)][ci]) / W
        kw['shift'], kw['shiftscale'] = s, True
    elif r < 0.95:
        kw['shiftindex'] = rng.choice([nsh, nsh + 2, -nsh - 1])
    else:
        kw['shift'], kw['shiftindex'] = [float(x) for x in sf.shifts[0]], 0
    if rng.random() < 0.8:
        sm = [rng.choice([1, 1, 2, -2, [-1, 1], [0, 2]]) for _ in range(3)]
        sm[ci] = rng.choice([1, 1, 2, 3, -1, -2, 4])
        if sf.rcell.natoms > 30:
            sm = [1 if i != ci else min(abs(sm[ci]), 2) * (1 if sm[ci] > 0 else -1) for i in range(3)]
        if rng.random() < 0.03:
            sm[(ci + rng.choice([1, 2])) % 3] = [0, 0]      # (an int 0 is refused with C04's error classes)
        kw['sizemults'] = sm
    if rng.random() < 0.3:
        r = rng.random()
        if r < 0.45:
            kw['minwidth'] = rng.uniform(0.3, 3.5) * W
        elif r < 0.92 or sf.rcell.natoms > 4:
            kw['minwidth'] = float(rng.randrange(1, 7)) * W          # exactly k cells
        else:
            # k cells for the k at which k (1/k) != 1 in double precision
            kw['minwidth'] = float(rng.choice(TRAP_COUNTS[:4])) * W
            kw['sizemults'] = [1 if i != ci else (kw.get('sizemults') or [1, 1, 1])[ci] for i in range(3)]
    r = rng.random()
    if r < 0.3:
        kw['even'] = rng.choice([True, True, 1, 'np.True_'])         # (truthy non-bool flags count as True)
    elif r < 0.36:
        kw['even'] = rng.choice([False, 0])
    r = rng.random()
    if r < 0.3:
        kw['vacuumwidth'] = rng.choice([0.0, 4.0, rng.uniform(0.5, 9.0)])
    elif r < 0.34:
        kw['vacuumwidth'] = -1.0
    if cls == 'SF':
        o, w = _eff_extent(sf, kw)
        r = rng.random()
        if r < 0.55:
            pass
        elif r < 0.72:
            kw['faultpos_rel'] = rng.choice([rng.randrange(0, 17) / 16, rng.uniform(0.05, 0.95), 0.0, 1.0])
        elif r < 0.90:
            kw['faultpos_cart'] = o + rng.choice([rng.randrange(1, 32) / 32, rng.uniform(0.05, 0.95)]) * w
        elif r < 0.94:
            kw['faultpos_rel'] = rng.choice([1.5, -0.25])
        elif r < 0.97:
            kw['faultpos_cart'] = o + rng.choice([-0.5, 1.75]) * (abs(w) + 1.0)
        else:
            kw['faultpos_rel'], kw['faultpos_cart'] = 0.5, o + 0.5 * w
    return kw


def _gen_fpos(rng, sf, kw, p):
    """with probability p add a fault-plane position to kw: mostly midway between two atomic layers of the
    stored system (Cartesian or relative), sometimes on a grid, rarely outside."""
    s = _priv(sf, 'FreeSurface', 'system')
    if s is None or rng.random() >= p:
        return
    ci = sf.cutindex
    o, w = float(s.box.origin[ci]), float(s.box.vects[ci, ci])
    gaps = _gaps(s, ci)
    r = rng.random()
    if r < 0.06:
        kw['faultpos_rel'] = rng.choice([1.25, -0.5])
    elif r < 0.10:
        kw['faultpos_cart'] = o + 2.0 * abs(w) + 1.0
    elif r < 0.13:
        kw['faultpos_rel'], kw['faultpos_cart'] = 0.5, o + 0.5 * w
    elif gaps and r < 0.75:
        p_, q_ = rng.choice(gaps)
        fp = (p_ + q_) / 2
        if rng.random() < 0.5:
            kw['faultpos_cart'] = fp
        else:
            kw['faultpos_rel'] = (fp - o) / w
    else:
        kw['faultpos_rel'] = rng.randrange(0, 17) / 16


def _gen_avect(rng, sf, kw, p):
    import numpy as np
    if rng.random() >= p:
        return
    uv = np.asarray(sf.uvws, dtype=float)
    ci = sf.cutindex
    i1, i2 = (ci + 1) % 3, (ci + 2) % 3
    cands = [uv[i1] + uv[i2], uv[i2], -uv[i1], 2 * uv[i1], uv[i1] - uv[i2], uv[i1], uv[ci], uv[i1] + uv[ci]]
    for key in ('a1vect_uvw', 'a2vect_uvw'):
        if rng.random() < 0.6:
            v = cands[rng.randrange(len(cands))]
            if len(v) == 4 and rng.random() < 0.4:
                v = np.array(_to3(v))
            kw[key] = [float(x) for x in v]


def _gen_fault_kw(rng, sf):
    import numpy as np
    kw = {}
    grid1 = [0.0, 0.5, 1 / 3, 0.25, 1.0, -1.0, 2.0, 0.125]
    grid2 = [0.0, 0.5, 2 / 3, 0.75, 1.0, -0.5]
    r = rng.random()
    if r < 0.68:
        if rng.random() < 0.85:
            kw['a1'] = rng.choice(grid1)
        if rng.random() < 0.7:
            kw['a2'] = rng.choice(grid2)
        if rng.random() < 0.3:
            kw['outofplane'] = rng.choice([0.0, 0.3, -0.2])
    elif r < 0.84:
        a1c, a2c = np.asarray(sf.a1vect_cart, dtype=float), np.asarray(sf.a2vect_cart, dtype=float)
        v = rng.choice(grid1) * a1c + rng.choice(grid2) * a2c
        v[sf.cutindex] += rng.choice([0.0, 0.0, 0.25])
        kw['faultshift'] = [float(x) for x in v]
    elif r < 0.95:
        pass
    else:
        # (refused whatever the values: 0.0 is a coefficient that was given)
        kw['faultshift'] = [0.5, 0.0, 0.0]
        kw[rng.choice(['a1', 'a1', 'a2', 'outofplane'])] = rng.choice([0.5, 0.0, 0.0])
    _gen_fpos(rng, sf, kw, 0.3)
    _gen_avect(rng, sf, kw, 0.12)
    if rng.random() < 0.12 and not ('faultshift' in kw and any(x in kw for x in ('a1', 'a2', 'outofplane'))):
        kw['minimum_r'] = rng.uniform(0.5, 3.2)      # (search only: the pair selection of the push is not in the model)
    return kw


def _gen_op(rng, sf, cls, k, done=()):
    built = _priv(sf, 'FreeSurface', 'system') is not None
    # the same request again, after whatever happened in between (a result memoised by its arguments would be stale
    # after a moved plane / a rebuild, or scribbled over by the caller)
    earlier = [o for o in done if o['op'] in ('fault', 'map') and 'minimum_r' not in (o.get('kw') or {})]
    if cls == 'SF' and earlier and rng.random() < 0.12:
        o = rng.choice(earlier)
        return {'op': o['op'], 'kw': {kk: v for kk, v in o['kw'].items() if not kk.startswith('faultpos')}}
    if cls != 'SF':
        if rng.random() < 0.15:
            return {'op': 'set_shift', 'kw': {kk: v for kk, v in _gen_surface_kw(rng, sf, 'FS').items()
                                               if kk in ('shift', 'shiftindex', 'shiftscale')}}
        return {'op': 'surface', 'kw': _gen_surface_kw(rng, sf, cls)}
    r = rng.random()
    if (k == 0 and r < 0.9) or (built and r < 0.40) or (not built and r < 0.7):
        return {'op': 'surface', 'kw': _gen_surface_kw(rng, sf, cls)}
    r = rng.random()
    if r < 0.55:
        return {'op': 'fault', 'kw': _gen_fault_kw(rng, sf)}
    if r < 0.72:
        kw = {}
        _gen_fpos(rng, sf, kw, 1.0)
        if 'faultpos_cart' in kw and 'faultpos_rel' not in kw:
            return {'op': 'fpcart', 'value': kw['faultpos_cart']}
        return {'op': 'fprel', 'value': kw.get('faultpos_rel', rng.randrange(0, 9) / 8)}
    if r < 0.87:
        kw = {}
        s_ = _priv(sf, 'FreeSurface', 'system')
        nat = 10 ** 9 if s_ is None else int(s_.natoms)

        def count(lo):
            # mostly tiny meshes; every count up to 12 incl. 0 (an empty map); on small systems any count up to 60 and
            # the counts at which np.arange(0, 1, 1/k) is one element too long
            r_ = rng.random()
            if r_ < 0.55:
                return rng.choice(lo)
            if r_ < 0.85 or nat > 40:
                return rng.randrange(0, 13) if nat <= 400 else rng.choice(lo)
            return rng.choice(TRAP_COUNTS[:6]) if rng.random() < 0.4 else rng.randrange(13, 61)
        if rng.random() < 0.8:
            kw['num_a1'] = count([1, 2, 3])
        if rng.random() < 0.6:
            kw['num_a2'] = count([1, 2]) if kw.get('num_a1', 1) <= 12 else rng.choice([1, 1, 2])
        if rng.random() < 0.25:
            kw['outofplane'] = 0.2
        _gen_fpos(rng, sf, kw, 0.25)
        _gen_avect(rng, sf, kw, 0.08)
        return {'op': 'map', 'kw': kw}
    return {'op': 'set_shift', 'kw': {kk: v for kk, v in _gen_surface_kw(rng, sf, 'FS').items()
                                       if kk in ('shift', 'shiftindex', 'shiftscale')}}


def _hist_specs(ctx, rng, count):
    specs = []
    small = planes(2)
    off = rng.randrange(len(NAMES))
    for i in range(count):
        exact = i % 4 == 0
        a, c = crystal_params(rng, exact)
        nm = pick_crystal(rng, i, off)
        if rng.random() < (0.7 if nm.startswith('g') else 0.5):
            hkl = rng.choice([(1, 0, 0), (0, 0, 1), (1, 1, 0), (1, 1, 1), (0, 1, 1), (1, -1, 0), (0, 0, -1), (2, 1, 0)])
        else:
            hkl = rng.choice(small)
        cut = rng.choice(('c', 'c', 'a', 'b'))
        hkl = layer_plane(rng, nm, hkl)
        if i % 8 == 5 and not nm.startswith('g') and nm != 'diamond':
            exact, a = False, rng.choice(DECIMAL_A)
            c = round(a * rng.choice([1.6, 1.633, 1.5]), 3)
            hkl = high_plane(rng)
        if _is_hex(nm) and rng.random() < 0.6:
            hkl = (hkl[0], hkl[1], -(hkl[0] + hkl[1]), hkl[2])
        st = {'fcc-prim': 'f', 'bcc-prim': 'i'}.get(nm, 'p')
        hkl3 = hkl if len(hkl) == 3 else (hkl[0], hkl[1], hkl[3])
        ctor = {}
        r = rng.random()
        if r < 0.25:
            ctor['shiftindex'] = rng.choice([0, 1, -1])
        specs.append({'op': 'hist', 'crystal': nm, 'a': a, 'c': c, 'exact': exact, 'hkl': list(hkl), 'cut': cut,
                      'tol': rng.choice([1e-7, 1e-8, 1e-6]), 'maxindex': _capped(hkl3, st, plane_cap(hkl3)),
                      'cls': 'SF' if rng.random() < 0.8 else 'FS', 'ctor': ctor, 'hseed': rng.randrange(1 << 30),
                      'nops': rng.randrange(5, 10)})
    return specs


# ---- specification-level shadow (independent of the object under test) -------------------------
def _zone(hkl, v):
    """h u + k v (+ i t) + l w for a plane and a crystal vector of the conventional cell, both with 3 or 4 indices:
    zero iff the vector lies in the plane."""
    h = [float(x) for x in hkl]
    h3 = h if len(h) == 3 else [h[0], h[1], h[3]]
    v3 = _to3(v)
    # [uvw] 3-index form of a hexagonal vector pairs with the 3-index plane (hkl) directly
    return sum(x * y for x, y in zip(h3, v3))


class _Shadow:
    """what the calls so far *mean*: the shift in force, the arguments of the build that produced the stored
    system, the fault-plane settings since, the shift-vector overrides.  Derived from the arguments alone."""

    def __init__(self, spec, nshifts, hkl):
        self.nsh = nshifts
        self.hkl = hkl
        self.shift_kw = {k: v for k, v in (spec.get('ctor') or {}).items() if k in ('shift', 'shiftindex', 'shiftscale')}
        self.build = None          # kwargs (with the shift in force made explicit) of the last accepted surface()
        self.since = []            # fault-plane settings after it: {'faultpos_rel': r} / {'faultpos_cart': c}
        self.avect = {}

    def _shift_part(self, kw):
        s, i = kw.get('shift'), kw.get('shiftindex')
        if s is not None and i is not None:
            return 'value'
        if i is not None and not (-self.nsh <= i < self.nsh):
            return 'index'
        return None

    @staticmethod
    def _plane(kw, o, w, default):
        r, c = kw.get('faultpos_rel'), kw.get('faultpos_cart')
        if r is not None and c is not None:
            return 'refused'
        if c is not None:
            return c if 0.0 <= (c - o) / w <= 1.0 else 'refused'
        if r is not None:
            return o + r * w if 0.0 <= r <= 1.0 else 'refused'
        return default

    def plane(self, sf):
        """fault plane in force (Cartesian), None if there is none."""
        if self.build is None:
            return None
        o, w = _eff_extent(sf, self.build)
        fp = self._plane(self.build, o, w, o + 0.5 * w)
        fp = None if fp == 'refused' else fp
        for kw in self.since:
            p = self._plane(kw, o, w, 'keep')
            if p not in ('refused', 'keep'):
                fp = p
        return fp

    def _prelude(self, sf, kw):
        """overrides at the head of fault() / iterfaultmap(): expected refusal class or None; records what sticks."""
        for key in ('a1vect_uvw', 'a2vect_uvw'):
            v = kw.get(key)
            if v is not None:
                if abs(_zone(self.hkl, v)) > 1e-9:
                    return 'value'
                self.avect[key] = v
        r, c = kw.get('faultpos_rel'), kw.get('faultpos_cart')
        if r is None and c is None:
            return None
        if r is not None and c is not None:
            return 'value'
        if c is not None and self.build is None:
            return 'attr'
        if r is not None and not (0.0 <= r <= 1.0):
            return 'value'
        if self.build is None:
            return 'attr'
        o, w = _eff_extent(sf, self.build)
        one = {'faultpos_rel': r} if r is not None else {'faultpos_cart': c}
        if self._plane(one, o, w, None) == 'refused':
            return 'value'
        self.since.append(one)
        return None

    def expect(self, sf, op):
        """expected outcome class ('ok' or the refusal) of a call, updating the bookkeeping."""
        k, kw = op['op'], op.get('kw') or {}
        if k == 'set_shift':
            e = self._shift_part(kw)
            if e:
                return e
            self.shift_kw = {kk: v for kk, v in kw.items() if kk in ('shift', 'shiftindex', 'shiftscale')} or {'shiftindex': 0}
            return 'ok'
        if k == 'surface':
            e = self._shift_part(kw)
            if e:
                return e
            if kw.get('shift') is not None or kw.get('shiftindex') is not None:
                self.shift_kw = {kk: v for kk, v in kw.items() if kk in ('shift', 'shiftindex', 'shiftscale')}
            sm = kw.get('sizemults') or [1, 1, 1]
            if any((m[1] - m[0] if isinstance(m, (list, tuple)) else m) == 0 for m in sm):
                return 'value'
            if kw.get('vacuumwidth') is not None and kw['vacuumwidth'] < 0:
                return 'value'
            b = {kk: v for kk, v in kw.items() if kk not in ('shift', 'shiftindex', 'shiftscale')}
            b.update(self.shift_kw or {'shiftindex': 0})
            self.build, self.since = b, []
            if 'faultpos_rel' in kw or 'faultpos_cart' in kw:
                o, w = _eff_extent(sf, b)
                if self._plane(kw, o, w, None) == 'refused':
                    return 'value'
            return 'ok'
        if k in ('fprel', 'fpcart'):
            return self._prelude(sf, {'faultpos_rel' if k == 'fprel' else 'faultpos_cart': op['value']}) or 'ok'
        e = self._prelude(sf, kw)
        if e:
            return e
        if k == 'fault':
            if kw.get('faultshift') is not None and any(kw.get(x) is not None for x in ('a1', 'a2', 'outofplane')):
                return 'value'
            return 'ok' if self.plane(sf) is not None else 'attr'
        n = (1 if kw.get('num_a1') is None else kw['num_a1']) * (1 if kw.get('num_a2') is None else kw['num_a2'])
        return 'ok' if (n == 0 or self.plane(sf) is not None) else 'attr'

    def fresh(self, pristine):
        """a new object brought to the same final arguments: overrides, the accepted build, the settings since."""
        import copy
        f = copy.deepcopy(pristine)
        for key, v in self.avect.items():
            _apply_attr(f, key, v)
        if self.build is not None:
            _apply(f, {'op': 'surface', 'kw': self.build})
            for kw in self.since:
                if 'faultpos_rel' in kw:
                    _apply(f, {'op': 'fprel', 'value': kw['faultpos_rel']})
                else:
                    _apply(f, {'op': 'fpcart', 'value': kw['faultpos_cart']})
        return f


def _apply_attr(f, key, v):
    import numpy as np
    try:
        setattr(f, key, np.array(v, dtype=float))
    except Exception:  # noqa
        pass


def _expected_shift(sf, kw):
    import numpy as np
    if kw.get('shift') is not None:
        s = np.array(kw['shift'], dtype=float)
        return s @ np.asarray(sf.rcell.box.vects, dtype=float) if kw.get('shiftscale') is True else s
    return np.asarray(sf.shifts[kw.get('shiftindex', 0) if kw.get('shiftindex') is not None else 0], dtype=float)


def _same_system(a, b):
    """None if the two systems are the same (bitwise: same float operations on the same inputs), else what differs."""
    import numpy as np
    if (a is None) != (b is None):
        return 'one is built, the other is not'
    if a is None:
        return None
    if a.natoms != b.natoms:
        return f'{a.natoms} vs {b.natoms} atoms'
    if not np.array_equal(a.box.vects, b.box.vects) or not np.array_equal(a.box.origin, b.box.origin):
        return f'box {a.box.vects.tolist()} origin {a.box.origin.tolist()} vs {b.box.vects.tolist()} origin {b.box.origin.tolist()}'
    if [bool(x) for x in a.pbc] != [bool(x) for x in b.pbc]:
        return f'pbc {list(a.pbc)} vs {list(b.pbc)}'
    if not np.array_equal(a.atoms.atype, b.atoms.atype):
        return 'atom types differ'
    P, Q = np.asarray(a.atoms.pos), np.asarray(b.atoms.pos)
    if not np.array_equal(P, Q):
        i = int(np.argmax((P != Q).any(axis=1)))
        return f'atom {i} at {P[i].tolist()} vs {Q[i].tolist()}'
    return None


def _fault_clause(P, Q, above, near, req, system, ci):
    """atoms below the plane fixed, atoms above moved by exactly `req`, modulo the periodic in-plane cell vectors;
    -> (index, side) of the first offender or None."""
    import numpy as np
    inv = np.linalg.inv(np.asarray(system.box.vects, dtype=float))
    d = Q - P - np.outer(above, req)
    drel = d @ inv
    nint = np.rint(drel)
    nint[:, ci] = 0
    scale = float(np.abs(system.box.vects).max())
    wrong = ((np.abs(drel - nint) > 1e-7).any(axis=1) | (np.abs(d[:, ci]) > 1e-7 * scale)) & ~near
    if wrong.any():
        i = int(np.argmax(wrong))
        return i, ('above' if above[i] else 'below')
    return None


def _push_clause(P, Q, above, near, req, system, ci, i1, i2, r):
    """the `minimum_r` push of fault(): -> (message or None, t)."""
    import numpy as np
    up = above & ~near
    if not up.any() or (~above & ~near).sum() == 0:
        return None, 0.0
    ts = (Q - P)[up, ci] - req[ci]
    t = float(np.median(ts))
    if np.abs(ts - t).max() > 1e-7 or t < -1e-9:
        return f'the atoms above the plane are pushed by different / negative amounts across the cut ({ts.min()}..{ts.max()})', t
    if near.any():
        return None, t
    A = Q[above].copy()
    A[:, ci] -= t                                   # before the push
    B = Q[~above]
    v1, v2 = np.asarray(system.box.vects[i1], dtype=float), np.asarray(system.box.vects[i2], dtype=float)
    best = None
    for n1 in (-1, 0, 1):
        for n2 in (-1, 0, 1):
            d = A[:, None, :] - B[None, :, :] + n1 * v1 + n2 * v2
            m = np.sqrt((d ** 2).sum(axis=2))
            if best is None:
                best, bd = m, d
            else:
                take = m < best
                best = np.where(take, m, best)
                bd = np.where(take[:, :, None], d, bd)
    dmin = float(best.min())
    if dmin >= r - 1e-9:
        if t > 1e-7:
            return f'pushed by {t} although the closest pair across the plane is {dmin} apart', t
        return None, t
    tied = np.argwhere(best <= dmin + 1e-9)
    for i, j in tied:
        d = bd[i, j].copy()
        d[ci] += t
        if abs(float(np.sqrt((d ** 2).sum())) - r) <= 1e-6 * max(1.0, r):
            return None, t
    return f'the closest pair across the plane ({dmin} apart before the push) is not {r} apart after the push of {t}', t


def run_history(ctx, spec, mode, ops=None, report=True):
    """one history on one object.  mode 'model': mirror on the Lean object (correspondence);
    mode 'oracle': specification shadow + fresh object + clause oracle (search).  Returns (failed, ops)."""
    import numpy as np
    failed = []
    rng = random.Random(spec['hseed'])
    try:
        sf, ucell, st = _hist_new(spec)
    except (ValueError, AssertionError):
        return failed, []               # documented refusal of the orientation (checked elsewhere)
    except IndexError:
        if (spec.get('ctor') or {}).get('shiftindex') is None:
            raise
        spec = dict(spec, ctor={})      # fewer shifts than the constructor's shiftindex: go on without it
        try:
            sf, ucell, st = _hist_new(spec)
        except (ValueError, AssertionError):
            return failed, []
    cls = spec['cls']
    ci = sf.cutindex
    W = float(sf.rcellwidth)
    done = []
    base = dict(spec)

    def info():
        return dict(base, ops=done)

    def bad(clause, what):
        failed.append(clause)
        if report:
            head = f'{spec["crystal"]} (a={spec["a"]}, c={spec["c"]}) hkl={spec["hkl"]} cutboxvector={spec["cut"]!r} ' \
                   f'{"StackingFault" if cls == "SF" else "FreeSurface"} object, after {_show_ops(done)}: '
            if mode == 'model':
                ctx.disagree('hist:' + clause, head + what, info())
            else:
                _viol(ctx, 'hist:' + clause, head + what, info())
    if mode == 'model':
        out = _model_new(ctx, sf, spec, st)
        if out != 'ok':
            if report:
                ctx.disagree('hist:new', f'model refused the object: {out}', info())
            return ['new'], done
        if not _cmp_model_state(ctx, sf, cls, W, 'new object', info()):
            return ['state'], done
    else:
        import copy
        pristine = copy.deepcopy(sf)
        sh = _Shadow(spec, len(sf.shifts), spec['hkl'])
    nops = len(ops) if ops is not None else spec['nops']
    built_vac = None
    for k in range(nops):
        op = ops[k] if ops is not None else _gen_op(rng, sf, cls, k, done)
        if mode == 'model' and 'minimum_r' in (op.get('kw') or {}):
            op = dict(op, kw={kk: v for kk, v in op['kw'].items() if kk != 'minimum_r'})
        done.append(op)
        sys_before = _priv(sf, 'FreeSurface', 'system')
        res = _apply(sf, op)
        tag = f'call {k + 1}'
        ctx.stats.case('hist:' + mode + ':' + op['op'], (spec['crystal'], tuple(spec['hkl']), spec['cut'], spec['hseed'], k),
                       nontrivial=res[0] == 'ok', sample={'op': op, 'outcome': res[0] if res[0] == 'ok' else res[1]})
        if res[0] == 'err' and res[1] not in ('value', 'index', 'attr'):
            bad('exception', f'{_show_op(op)} raised {res[1]}: {res[2]}')
            break
        if mode == 'model':
            out = ctx.driver.ask(_model_line(op, W, cls))
            mcls = out[4:] if out.startswith('err:') else 'ok'
            if mcls in ('format', 'op', 'assert'):
                raise cm.InfraError(f'driver refused {_model_line(op, W, cls)[:200]}: {out}')
            rcls = 'ok' if res[0] == 'ok' else res[1]
            if rcls != mcls:
                bad('outcome', f'{_show_op(op)} -> {rcls if res[0] == "ok" else res[1] + " (" + res[2] + ")"}, model {mcls}')
                break
            if op['op'] == 'surface' and _priv(sf, 'FreeSurface', 'system') is not sys_before:
                built_vac = op['kw'].get('vacuumwidth')      # (a build refused at the fault-position stage counts)
            if not _cmp_model_state(ctx, sf, cls, W, f'after {_show_ops(done)}', info(), built_vac):
                failed.append('state')
                break
            if res[0] == 'ok' and op['op'] in ('fault', 'map'):
                if not _cmp_model_result(ctx, sf, op, res[1], out, W, f'after {_show_ops(done)}', info()):
                    failed.append('result')
                    break
            continue
        # ---- oracle ------------------------------------------------------------------------------
        want = sh.expect(sf, op)
        rcls = 'ok' if res[0] == 'ok' else res[1]
        if rcls != want:
            bad('refusal', f'{_show_op(op)} -> {"returned" if res[0] == "ok" else res[1] + " (" + res[2] + ")"}, expected '
                f'{"a result" if want == "ok" else want}')
            break
        # the shift in force
        if not np.allclose(np.asarray(sf.shift, dtype=float), _expected_shift(sf, sh.shift_kw), rtol=1e-12, atol=1e-12 * W):
            bad('shift', f'shift is {np.asarray(sf.shift).tolist()}, the last one given is '
                f'{_expected_shift(sf, sh.shift_kw).tolist()}')
            break
        # a fresh object given the same final arguments
        f = sh.fresh(pristine)
        rs, fs = _state(sf), _state(f)
        d = _same_system(rs['system'], fs['system'])
        if d:
            bad('system', f'stored system differs from the one a new object builds from the same final arguments: {d}')
            break
        if rs['system'] is not None and (rs['area'] is None or fs['area'] is None or float(rs['area']) != float(fs['area'])):
            bad('surfacearea', f'surfacearea {rs["area"]}, a new object gives {fs["area"]}')
            break
        if cls == 'SF' and rs['system'] is not None:     # (before the first build there is nothing fault() could use)
            stale = None
            for key in ('fprel', 'fpcart'):
                if (rs[key] is None) != (fs[key] is None) or (rs[key] is not None and float(rs[key]) != float(fs[key])):
                    stale = f'{key} {rs[key]} vs {fs[key]}'
            for key in ('a1c', 'a2c'):
                if not np.array_equal(np.asarray(rs[key]), np.asarray(fs[key])):
                    stale = f'{key} {np.asarray(rs[key]).tolist()} vs {np.asarray(fs[key]).tolist()}'
            if (rs['above'] is None) != (fs['above'] is None) or \
                    (rs['above'] is not None and not np.array_equal(np.asarray(rs['above']), np.asarray(fs['above']))):
                stale = 'abovefault mask differs' if rs['above'] is not None and fs['above'] is not None else \
                    f'abovefault {"set" if rs["above"] is not None else "unset"} vs {"set" if fs["above"] is not None else "unset"}'
            if stale and 'stale-state' not in failed:
                # (reported once; the history goes on so that the clause oracle shows what fault() then does)
                bad('stale-state', f'object state differs from a new object given the same final arguments: {stale}')
            # the plane in force, from the arguments
            fp = sh.plane(sf)
            if fp is not None and (rs['fpcart'] is None or abs(float(rs['fpcart']) - fp) > 1e-9 * max(1.0, W)) \
                    and 'faultpos' not in failed:
                bad('faultpos', f'faultpos_cart {rs["fpcart"]}, the arguments put the plane at {fp}')
        if res[0] != 'ok' or op['op'] not in ('fault', 'map') or rs['system'] is None:
            continue
        # ---- clause oracle on what fault() / iterfaultmap() returned ----------------------------------
        system = fs['system']
        P = np.asarray(system.atoms.pos, dtype=float)
        fp = sh.plane(sf)
        if fp is None:
            continue                      # (an empty iterfaultmap on an object without a fault plane: nothing returned)
        above = P[:, ci] > fp
        near = _near_plane(P, ci, fp, W)
        U = _prim_uvws(sf, st)
        rv = np.asarray(sf.rcell.box.vects, dtype=float)
        i1, i2 = (ci + 1) % 3, (ci + 2) % 3
        L = np.array(_c2p_int(st), dtype=float)

        def cartv(key, dflt):
            v = sh.avect.get(key)
            if v is None:
                return rv[dflt]
            prim = np.array(_to3(v)) @ L
            return np.linalg.solve(np.array(U, dtype=float).T, prim) @ rv
        a1c, a2c = cartv('a1vect_uvw', i1), cartv('a2vect_uvw', i2)
        ovect = np.zeros(3)
        ovect[ci] = 1.0
        kw = op['kw']
        items = [(kw.get('a1'), kw.get('a2'), res[1])] if op['op'] == 'fault' else res[1]
        if op['op'] == 'map':
            n1 = 1 if kw.get('num_a1') is None else kw['num_a1']
            n2 = 1 if kw.get('num_a2') is None else kw['num_a2']
            wantmesh = [(i / n1, j / n2) for j in range(n2) for i in range(n1)]
            got = [(x, y) for x, y, _ in items]
            if len(got) != len(wantmesh) or any(abs(x - p) > 1e-12 or abs(y - q) > 1e-12 for (x, y), (p, q) in zip(got, wantmesh)):
                bad('map', f'iterfaultmap yielded {got}, expected the mesh {wantmesh}')
                break
        stop = False
        for a1, a2, new in items:
            if op['op'] == 'fault' and kw.get('faultshift') is not None:
                req = np.array(kw['faultshift'], dtype=float)
            else:
                req = (a1 or 0.0) * a1c + (a2 or 0.0) * a2c + (kw.get('outofplane') or 0.0) * ovect
            Q = np.asarray(new.atoms.pos, dtype=float)
            what = f'fault plane at {fp} (cut coordinate), requested shift {req.tolist()}'
            # (wrap() may stretch the box across the non-periodic cut when atoms are pushed out of it)
            if Q.shape != P.shape or not np.array_equal(new.box.vects[[i1, i2]], system.box.vects[[i1, i2]]) or \
                    [bool(x) for x in new.pbc] != [bool(x) for x in system.pbc] or \
                    not np.array_equal(new.atoms.atype, system.atoms.atype):
                bad('fault-system', f'{what}: the faulted system is not the stored system with moved atoms')
                stop = True
                break
            if op['op'] == 'fault' and kw.get('minimum_r') is not None:
                # optional push: one extra out-of-plane shift t >= 0, common to all atoms above the plane, which
                # brings the closest pair across the plane to exactly minimum_r (nothing if no pair is closer)
                msg, t = _push_clause(P, Q, above, near, req, system, ci, i1, i2, kw['minimum_r'])
                if msg:
                    bad('fault-push', f'{what}, minimum_r={kw["minimum_r"]}: {msg}')
                    stop = True
                    break
                req = req + t * ovect
                pc = ctx.extra.setdefault('minimum_r_pushes', {'calls': 0, 'pushed': 0})
                pc['calls'] += 1
                pc['pushed'] += int(t > 1e-7)
            w = _fault_clause(P, Q, above, near, req, system, ci)
            if w is not None:
                i, side = w
                bad('fault-' + side, f'{what}: atom {i} ({side} the plane, at {P[i].tolist()}) moved by '
                    f'{(Q[i] - P[i]).tolist()}, must move by {req.tolist() if side == "above" else [0, 0, 0]} modulo the '
                    f'in-plane cell vectors')
                stop = True
                break
        if stop:
            break
        # the same call on the new object returns the same thing
        fres = _apply(f, op)
        if fres[0] != 'ok':
            bad('fresh', f'{_show_op(op)} on a new object given the same final arguments raised {fres[1]}')
            break
        fitems = [(None, None, fres[1])] if op['op'] == 'fault' else fres[1]
        if len(fitems) != len(items) or any(not np.array_equal(np.asarray(x[2].atoms.pos), np.asarray(y[2].atoms.pos))
                                            for x, y in zip(items, fitems)):
            bad('fresh', f'{_show_op(op)} returns different positions on a new object given the same final arguments')
            break
        # what fault() returns is the caller's: no memory shared with the stored system or with another result, and
        # scribbling over it changes neither the object nor later results
        stored = _priv(sf, 'FreeSurface', 'system')
        arrs = [np.asarray(x[2].atoms.pos) for x in items[:8]]
        if any(np.shares_memory(a_, stored.atoms.pos) for a_ in arrs) or \
                any(np.shares_memory(arrs[i], arrs[j]) for i in range(len(arrs)) for j in range(i)):
            bad('alias', f'{_show_op(op)}: a returned configuration shares memory with the stored system / another result')
            break
        for a_ in arrs:
            if a_.flags.writeable:
                a_ += 7.25
        d = _same_system(stored, fs['system'])
        if d:
            bad('alias', f'{_show_op(op)}: writing into the returned configuration changed the stored system: {d}')
            break
    return failed, done


def _show_op(op):
    if op['op'] in ('fprel', 'fpcart'):
        return f'faultpos_{"rel" if op["op"] == "fprel" else "cart"} = {op["value"]}'
    name = {'map': 'iterfaultmap'}.get(op['op'], op['op'])
    return name + '(' + ', '.join(f'{k}={v}' for k, v in (op.get('kw') or {}).items()) + ')'


def _show_ops(ops):
    return ' -> '.join(_show_op(o) for o in ops) if ops else 'construction'


def _viol(ctx, key, what, rep, cap=3):
    """at most `cap` reports per clause."""
    c = ctx.extra.setdefault('_reported', {})
    c[key] = c.get(key, 0) + 1
    if c[key] <= cap:
        ctx.violate(key, what, rep)


# ---- directed histories: counts, thresholds, smallest and large sizes -----------------------------------------
# natoms = 2^k - 1, 2^k, 2^k + 1 exactly, as (in-plane, in-plane, cut) multipliers of a ONE-atom rotated cell
BIG_SIZES = [(1023, [3, 11, 31]), (1024, [8, 8, 16]), (1025, [5, 5, 41]), (2047, [23, 1, 89]), (2048, [8, 16, 16]),
             (2049, [3, 1, 683]), (4095, [39, 35, 3]), (4096, [16, 16, 16]), (4097, [17, 1, 241]),
             (8191, [1, 1, 8191]), (8193, [3, 1, 2731]), (65535, [15, 17, 257]), (65536, [16, 16, 256]),
             (65537, [1, 1, 65537])]


def _map_counts(ctx):
    """iterfaultmap counts of this run: thorough every count 0..60 and every trap count (k with np.arange(0, 1, 1/k)
    one element too long / k (1/k) != 1); quick a fifth of 0..60 and two trap counts, rotating with the seed."""
    if ctx.thorough:
        return list(range(0, 61)) + TRAP_COUNTS
    k = ctx.seed % 5
    t = (2 * ctx.seed) % len(TRAP_COUNTS)
    return [n for n in range(0, 61) if n % 5 == k] + [TRAP_COUNTS[t], TRAP_COUNTS[t + 1]]


def _directed(ctx, mode):
    """[(spec, ops)]: (1) iterfaultmap with every count of `_map_counts` on tiny systems, along a1 / a2 / both;
    (2) systems of exactly 2^k - 1, 2^k, 2^k + 1 atoms (one-atom cell at an arbitrary position) with fault() twice,
    iterfaultmap and a moved plane (model mode: the sizes up to 4097 only; quick: a rotating choice); (3) the smallest systems: one atom, one
    layer, two atoms."""
    rng = random.Random(ctx.seed * 6151 + (17 if mode == 'model' else 18))
    out = []

    def spec(nm, hkl, cut, exact=False, cls='SF', a=None, c=None):
        a_, c_ = crystal_params(rng, exact)
        st = {'fcc-prim': 'f', 'bcc-prim': 'i'}.get(nm, 'p')
        hkl3 = hkl if len(hkl) == 3 else (hkl[0], hkl[1], hkl[3])
        return {'op': 'hist', 'crystal': nm, 'a': a or a_, 'c': c or c_, 'exact': exact, 'hkl': list(hkl), 'cut': cut,
                'tol': rng.choice([1e-7, 1e-8, 1e-6]), 'maxindex': _capped(hkl3, st, plane_cap(hkl3)), 'cls': cls, 'ctor': {},
                'hseed': rng.randrange(1 << 30), 'nops': 0}
    # (1) map counts
    tiny = [('fcc-prim', (1, 1, 1), 'c'), ('bcc', (1, 1, 0), 'b'), ('hcp', (0, 0, 0, 1), 'c'), ('B2', (1, 0, 0), 'a'),
            ('g1:ort:0.25,0.5,0.5,1', (0, 0, 1), 'c'), ('g2:tet:0.5,0.5,0.5,1;0.125,0.5,0.75,2', (0, 1, 0), 'b')]
    counts = _map_counts(ctx)
    rng.shuffle(counts)
    for j in range(0, len(counts), 4):
        nm, hkl, cut = tiny[(j // 4 + ctx.seed) % len(tiny)]
        ci = 'abc'.index(cut)
        sm = [1, 1, 1]
        sm[ci] = 2
        ops = [{'op': 'surface', 'kw': {'sizemults': sm}}]
        for n in counts[j:j + 4]:
            r = rng.random()
            if n > 60 or r < 0.4:
                kw = {'num_a1': n} if rng.random() < 0.5 else {'num_a2': n}
            elif r < 0.8:
                kw = {'num_a1': n, 'num_a2': rng.choice([1, 2, 3])} if rng.random() < 0.5 else \
                    {'num_a1': rng.choice([1, 2, 3]), 'num_a2': n}
            else:
                kw = {'num_a1': n, 'num_a2': n} if n <= 12 else {'num_a2': n, 'outofplane': 0.25}
            ops.append({'op': 'map', 'kw': kw})
        out.append((spec(nm, hkl, cut, exact=(j // 4) % 2 == 0), ops))
    # (2) large systems
    small_sizes = [b for b in BIG_SIZES if b[0] <= 4097]
    large_sizes = [b for b in BIG_SIZES if b[0] > 8193]
    if mode == 'model':
        pick = small_sizes if ctx.thorough else [small_sizes[ctx.seed % 9], small_sizes[(ctx.seed + 4) % 9]]
    elif ctx.thorough:
        pick = list(BIG_SIZES)
    else:
        pick = [b for b in BIG_SIZES if b[0] <= 8193] + [large_sizes[ctx.seed % len(large_sizes)]]
    for n, (m1, m2, mc) in pick:
        fam = rng.choice(['cub', 'tet', 'ort', 'obc'])
        pos = rng.choice([[0.5, 0.5, 0.5], [0.25, 0.5, 0.125], [0.0, 0.0, 0.0], [round(rng.uniform(0.05, 0.95), 3) for _ in range(3)]])
        nm = 'g1:%s:%s,1' % (fam, ','.join(repr(float(x)) for x in pos))
        hkl, cut = rng.choice([((0, 0, 1), 'c'), ((1, 0, 0), 'a'), ((0, 1, 0), 'b'), ((0, 0, -1), 'c')])
        ci = 'abc'.index(cut)
        sm = [0, 0, 0]
        sm[ci], sm[(ci + 1) % 3], sm[(ci + 2) % 3] = mc, m1, m2
        if rng.random() < 0.3:
            sm[(ci + 1) % 3] = [-(m1 // 2), m1 - m1 // 2]
        j1, j2 = mc // 2, max(1, mc // 3)
        ops = [{'op': 'surface', 'kw': {'sizemults': sm, 'faultpos_rel': j1 / mc}},
               {'op': 'fault', 'kw': {'a1': 0.5, 'a2': 0.25}},
               {'op': 'fault', 'kw': {'a1': 1.0, 'outofplane': 0.125}},
               {'op': 'map', 'kw': {'num_a1': 2}},
               {'op': 'fprel', 'value': j2 / mc},
               {'op': 'fault', 'kw': {'a2': -0.5}}]
        out.append((spec(nm, hkl, cut, exact=rng.random() < 0.5), ops))
    # (3) smallest systems: one atom in all; one layer; two atoms
    for nm, hkl, cut, sm in [('g1:cub:0.5,0.5,0.5,1', (0, 0, 1), 'c', [1, 1, 1]), ('g1:ort:0.3,0.5,0.625,1', (1, 0, 0), 'a', [1, 1, 1]),
                             ('g1:tet:0.5,0.5,0.5,1', (0, 1, 0), 'b', [1, 2, 1]), ('g2:obc:0.5,0.25,0.5,1;0.0,0.25,0.875,2', (0, 1, 0), 'b', [1, 1, 1]),
                             ('g1:hex:0.5,0.5,0.5,1', (0, 0, 0, 1), 'c', [1, 1, 2])][ctx.seed % 2::(1 if ctx.thorough else 2)]:
        ops = [{'op': 'surface', 'kw': {'sizemults': list(sm)}},
               {'op': 'fault', 'kw': {'a1': 0.5}},
               {'op': 'fprel', 'value': 0.0},
               {'op': 'fault', 'kw': {'a1': 0.25, 'a2': 0.5}},
               {'op': 'map', 'kw': {'num_a1': 3, 'num_a2': 1}},
               {'op': 'surface', 'kw': {'shiftindex': 0, 'minwidth': 1.0, 'even': 1}},
               {'op': 'fault', 'kw': {'a2': 1.0, 'outofplane': 0.0}},
               {'op': 'surface', 'kw': {'sizemults': list(sm), 'faultpos_rel': 0.0}},
               {'op': 'fault', 'kw': {'a1': 0.5, 'a2': 0.0}}]
        out.append((spec(nm, hkl, cut, exact=True), ops))
    return out


def _run_directed(ctx, mode):
    nf = nops = 0
    cases = _directed(ctx, mode)
    for spec, ops in cases:
        try:
            f, done = run_history(ctx, spec, mode, ops=ops)
        except cm.InfraError:
            raise
        except Exception as e:  # noqa
            (ctx.disagree if mode == 'model' else ctx.violate)('hist:exception', f'{spec}: {type(e).__name__}: {e}',
                                                                dict(spec, ops=ops))
            f, done = ['exception'], []
        nf += bool(f)
        nops += len(done)
    ctx.extra['histories_directed_' + mode] = {'objects': len(cases), 'calls': nops, 'failed': nf,
                                               'map_counts': sorted(_map_counts(ctx))}


def _correspond_histories(ctx):
    _run_directed(ctx, 'model')
    rng = random.Random(ctx.seed * 104729 + 1414)
    specs = _hist_specs(ctx, rng, ctx.n(160, 680))
    nf = nops = 0
    for spec in specs:
        try:
            f, done = run_history(ctx, spec, 'model')
        except cm.InfraError:
            raise
        except Exception as e:  # noqa  (an exception of the implementation outside the mirrored calls)
            ctx.disagree('hist:exception', f'{spec}: {type(e).__name__}: {e}', dict(spec))
            f, done = ['exception'], []
        nf += bool(f)
        nops += len(done)
    ctx.extra['histories_model'] = {'objects': len(specs), 'calls': nops, 'failed': nf}


def _search_histories(ctx, broken):
    _run_directed(ctx, 'oracle')
    rng = random.Random(ctx.seed * 15485863 + 1415)
    specs = _hist_specs(ctx, rng, ctx.n(240, 1000) * (2 if broken else 1))
    nf = nops = 0
    for spec in specs:
        try:
            f, done = run_history(ctx, spec, 'oracle')
        except cm.InfraError:
            raise
        except Exception as e:  # noqa  (an exception in the oracle's own reads of the object is a finding of its own)
            _viol(ctx, 'hist:exception', f'{spec}: {type(e).__name__}: {e}', dict(spec))
            f, done = ['exception'], []
        nf += bool(f)
        nops += len(done)
    ctx.extra['histories_oracle'] = {'objects': len(specs), 'calls': nops, 'failed': nf}


def correspond(ctx):
    try:
        _correspond_tables(ctx)
        _correspond_fsb(ctx)
        _correspond_fs(ctx, True)
        _correspond_fs(ctx, False)
        _correspond_histories(ctx)
    finally:
        _close_pool()


# ----------------------------------------------------------------------------------------
# search: the clauses of the property on the REAL code, with an independent exact oracle
# ----------------------------------------------------------------------------------------
def _adj_int(L):
    """adjugate of an integer 3x3 (rows): L . adj(L) = det(L) . 1"""
    c = [_cross(L[1], L[2]), _cross(L[2], L[0]), _cross(L[0], L[1])]
    return [[c[j][i] for j in range(3)] for i in range(3)]


def _vm(v, M):
    return [sum(v[i] * M[i][j] for i in range(3)) for j in range(3)]


def _hex_like(vects):
    import numpy as np
    v = np.asarray(vects, dtype=float)
    a, b, c = (np.linalg.norm(v[i]) for i in range(3))
    cos = lambda x, y: float(np.dot(x, y) / (np.linalg.norm(x) * np.linalg.norm(y)))
    return abs(a - b) < 1e-9 * a and abs(cos(v[0], v[1]) + 0.5) < 1e-9 and abs(cos(v[0], v[2])) < 1e-9 \
        and abs(cos(v[1], v[2])) < 1e-9


def o_fsb(ctx, job, exact, impl=None, report=True):
    """clauses of free_surface_basis on one input: integer, right-handed, zone law for the two in-plane rows,
    third row out of plane on the normal's side, normal = reciprocal-lattice direction; in the exact regime also
    the minimality claims of the docstring (shortest in-plane vector, closest to the normal, shortest second
    in-plane vector) inside the index cube.  Returns the list of failed clause names."""
    vects, hkl, cut, n, setting, rh = job
    if impl is None:
        impl = _impl_fsb(job)
    rep = {'op': 'o_fsb', 'job': [vects, list(hkl), cut, n, setting, rh], 'exact': exact}
    failed = []

    def bad(clause, what):
        failed.append(clause)
        if report:
            ctx.violate('fsb:' + clause, f'free_surface_basis({list(hkl)}, cutboxvector={cut!r}, maxindex={n}, '
                        f'conventional_setting={setting!r}) on box {vects}: {what}', rep)
    hexbox = _hex_like(vects)
    if len(hkl) not in (3, 4):
        # documented: 'Invalid hkl indices: must be 3 values or 4'
        if impl[0] != 'err' or impl[1] != 'value':
            bad('refusal', f'{len(hkl)} plane indices were not refused with a ValueError: {impl[:2]}')
        return failed
    hkl3 = list(hkl) if len(hkl) == 3 else [hkl[0], hkl[1], hkl[3]]
    # documented refusals of the entry point that do not depend on the searches: Miller-Bravais indices with a
    # non-hexagonal box / with h + k + i != 0, Miller-Bravais output requested for a non-hexagonal box
    must_refuse = ((len(hkl) == 4 and (not hexbox or hkl[0] + hkl[1] + hkl[2] != 0)) or (rh is True and not hexbox))
    if must_refuse and impl[0] != 'err':
        bad('refusal', f'return_hexagonal={rh}: a documented refusal (Miller-Bravais indices / output with a '
            f'non-hexagonal box, or h + k + i != 0) did not happen; returned {impl[1]}')
        return failed
    if impl[0] == 'err':
        want_value = (all(x == 0 for x in hkl3) or (len(hkl) == 4 and (not hexbox or hkl[0] + hkl[1] + hkl[2] != 0))
                      or (bool(rh) and not hexbox))
        if impl[1] == 'value' and not want_value:
            bad('refusal', f'raised ValueError({impl[2]}) for a valid plane')
        elif impl[1] not in ('value', 'assert'):
            bad('refusal', f'raised {impl[1]}: {impl[2]}')
        return failed
    if all(x == 0 for x in hkl3):
        bad('refusal', f'accepted the all-zero plane and returned {impl[1]}')
        return failed
    uv3 = to_uv3(impl[1])
    if uv3 is None:
        bad('integer', f'returned non-integer vectors {impl[1]}')
        return failed
    if len(impl[1][0]) == 4 and any(abs(r[0] + r[1] + r[2]) > 1e-12 for r in impl[1]):
        bad('integer', f'Miller-Bravais rows do not satisfy u+v+t=0: {impl[1]}')
    U = [uv3[0:3], uv3[3:6], uv3[6:9]]
    ci = 'abc'.index(cut)
    L = _c2p_int(setting or 'p')
    A = _adj_int(L)
    W = [_vm(r, A) for r in U]              # det(L) x indices relative to the conventional cell
    za, zb, zc = _dot(hkl3, W[(ci + 1) % 3]), _dot(hkl3, W[(ci + 2) % 3]), _dot(hkl3, W[ci])
    if za != 0 or zb != 0:
        bad('in-plane', f'returned {U}: zone law h u + k v + l w = {za}, {zb} (x det L) for the two in-plane vectors')
    if zc == 0:
        bad('out-of-plane', f'returned {U}: the cutboxvector row {U[ci]} lies in the plane')
    V = [[F(x) for x in r] for r in vects]
    dV = _det(V)
    if _det(U) * dV <= 0:
        bad('right-handed', f'returned {U} with determinant {_det(U)} (box determinant {float(dV)})')
    if zc * dV < 0:
        bad('out-of-plane', f'returned {U}: the cutboxvector row points against the plane normal')
    # reported normal = positive multiple of det(Vc) (h a* + k b* + l c*) of the conventional cell Vc = L V
    Vc = _matmul([[F(x) for x in r] for r in L], V)
    g = [sum(hkl3[i] * c[j] for i, c in enumerate([_cross(Vc[1], Vc[2]), _cross(Vc[2], Vc[0]), _cross(Vc[0], Vc[1])]))
         for j in range(3)]
    pn = [F(x) for x in impl[2]]
    cr = _cross(pn, g)
    if exact:
        okn = all(x == 0 for x in cr) and _dot(pn, g) > 0
    else:
        sc = math.sqrt(float(_dot(pn, pn)) * float(_dot(g, g)))
        okn = all(abs(float(x)) <= 1e-9 * sc for x in cr) and _dot(pn, g) > 0
    if not okn:
        bad('normal', f'planenormal {impl[2]} is not along h a* + k b* + l c* = {[float(x) for x in g]} (x det)')
    # minimality inside the index cube (exact regime, small cubes)
    nn = n if n is not None else default_maxindex(hkl3, setting)
    if exact and not failed and nn <= 5:
        G = _matmul(V, [[V[j][i] for j in range(3)] for i in range(3)])
        m2 = lambda v: sum(v[i] * G[i][j] * v[j] for i in range(3) for j in range(3))
        rng_ = range(-nn, nn + 1)
        a, b, c = U[(ci + 1) % 3], U[(ci + 2) % 3], U[ci]
        ma, mb, mc, dc = m2(a), m2(b), m2(c), zc * (1 if dV > 0 else -1)
        for x in rng_:
            for y in rng_:
                for z in rng_:
                    v = [x, y, z]
                    if x == 0 and y == 0 and z == 0:
                        continue
                    d = _dot(hkl3, _vm(v, A)) * (1 if dV > 0 else -1)
                    if d == 0:
                        mv = m2(v)
                        if mv < ma:
                            bad('shortest', f'returned a={a} (|a|^2={float(ma)}) but the in-plane vector {v} is shorter '
                                f'({float(mv)})')
                            return failed
                        if mv < mb and any(_cross(a, v)):
                            bad('shortest', f'returned b={b} (|b|^2={float(mb)}) but the in-plane vector {v}, not '
                                f'parallel to a={a}, is shorter ({float(mv)})')
                            return failed
                    elif d > 0:
                        mv = m2(v)
                        if d * d * mc * (1 - F(1, 10 ** 9)) > dc * dc * mv:
                            bad('closest', f'returned c={c} but {v} is closer to the plane normal '
                                f'(cos^2 {float(d * d / mv)} vs {float(dc * dc / mc)}, common factor dropped)')
                            return failed
    return failed


def _lattice_match(fr, fr_sites, tol=1e-6):
    """index j of the site with fr - fr_sites[j] integer (within tol), else -1."""
    import numpy as np
    d = fr[None, :] - fr_sites
    ok = (np.abs(d - np.rint(d)) < tol).all(axis=1)
    idx = np.nonzero(ok)[0]
    return int(idx[0]) if len(idx) else -1


def _crystal_census(P, atype, T, ucell, what):
    """every position of P (Cartesian, frame rotated by T w.r.t. ucell) is a site of the infinite crystal of
    ucell with the same atom type; returns (message or None, counts per ucell atom)."""
    import numpy as np
    Vu = np.asarray(ucell.box.vects, dtype=float)
    fu = (np.asarray(ucell.atoms.pos, dtype=float) - ucell.box.origin) @ np.linalg.inv(Vu)
    tu = np.asarray(ucell.atoms.atype)
    counts = [0] * len(fu)
    f = (P @ T - ucell.box.origin) @ np.linalg.inv(Vu)       # row p_r -> p_u = T^T p_r  ==  p_r @ T
    for i in range(len(P)):
        j = _lattice_match(f[i], fu)
        if j < 0:
            return f'{what}: atom {i} at {P[i].tolist()} is not on a site of the crystal (fractional ' \
                   f'{np.round(f[i], 6).tolist()} in the unit cell)', counts
        if int(atype[i]) != int(tu[j]):
            return f'{what}: atom {i} has type {int(atype[i])} on a site of type {int(tu[j])}', counts
        counts[j] += 1
    return None, counts


def o_free_surface(ctx, spec, report=True):
    """clauses of FreeSurface / StackingFault on one crystal, plane and cut vector."""
    import numpy as np
    from atomman.defect import StackingFault
    nm, a, c, exact = spec['crystal'], spec['a'], spec['c'], spec['exact']
    hkl, cut, tol, n = spec['hkl'], spec['cut'], spec['tol'], spec['maxindex']
    ucell, st = crystal_get(nm, a, c, exact)
    rng = random.Random(spec['seed'])
    failed = []
    rep = dict(spec, op='o_fs')

    def bad(clause, what):
        failed.append(clause)
        if report:
            ctx.violate('fs:' + clause, f'{nm} (a={a}, c={c}) hkl={hkl} cutboxvector={cut!r} setting={st!r}: {what}',
                        dict(rep, clause=clause))
    try:
        sf = StackingFault(list(hkl), ucell, cutboxvector=cut, maxindex=n, conventional_setting=st, tol=tol)
    except AssertionError:
        return failed
    except ValueError as e:
        if 'cutboxvector' not in str(e):
            bad('refusal', f'raised ValueError({e})')
        return failed
    ci = 'abc'.index(cut)
    if sf.cutindex != ci:
        bad('cutindex', f'cutindex {sf.cutindex}')
        return failed
    rbox = sf.rcell.box
    Vu = np.asarray(ucell.box.vects, dtype=float)
    prim = _conv_to_prim(np.asarray(sf.uvws, dtype=float).tolist(), st)
    U = np.rint(np.array(prim))
    if np.abs(U - np.array(prim)).max() > 1e-9:
        bad('integer', f'uvws {np.asarray(sf.uvws).tolist()} are not lattice vectors of the unit cell')
        return failed
    detU = int(round(np.linalg.det(U)))
    if detU <= 0:
        bad('right-handed', f'uvws {U.tolist()} have determinant {detU}')
        return failed
    # rotation between the frames from the two boxes alone: rvects = U Vu T^T
    Tt = np.linalg.solve(U @ Vu, np.asarray(rbox.vects, dtype=float))
    T = Tt.T
    if np.abs(T @ T.T - np.identity(3)).max() > 1e-9 or abs(np.linalg.det(T) - 1) > 1e-9:
        bad('rotation', f'the rotated cell {rbox.vects.tolist()} is not a proper rotation of uvws.vects')
        return failed
    W = float(rbox.vects[ci, ci])
    inpl = [(ci + 1) % 3, (ci + 2) % 3]
    if any(abs(rbox.vects[i, ci]) > 1e-9 * W for i in inpl):
        bad('in-plane', f'in-plane cell vectors of the rotated cell have a component along the cut: {rbox.vects.tolist()}')
    msg, counts = _crystal_census(np.asarray(sf.rcell.atoms.pos, dtype=float) - rbox.origin * 0, sf.rcell.atoms.atype, T,
                                  ucell, 'rotated cell')
    if msg is None and any(k != detU for k in counts):
        msg = f'rotated cell holds {counts} copies of the unit-cell atoms, expected {detU} each'
    if msg:
        bad('same-crystal', msg)
        return failed
    nsh = len(sf.shifts)
    if nsh == 0:
        bad('shifts', 'no termination shift offered')
        return failed
    # ---- EVERY offered shift, judged on the rotated cell alone: after the shift the cut (the cell face, 0 = W modulo
    # the cell width) lies strictly between two atomic planes, midway between them
    xr = np.asarray(sf.rcell.atoms.pos, dtype=float)[:, ci] - float(rbox.origin[ci])
    for si in range(nsh):
        sh_ = np.asarray(sf.shifts[si], dtype=float)
        y = np.mod(xr + float(sh_[ci]), W)
        y = np.where(W - y < 1e-12 * W, 0.0, y)       # (an atom a rounding error below the cut is ON it)
        up, dn = float(y.min()), float(W - y.max())
        if up <= 10 * tol or dn <= 10 * tol:
            bad('between-planes', f'offered shift #{si} of {nsh} ({sh_.tolist()}): an atom of the rotated cell lies '
                f'{min(up, dn):.3e} from the cut (atomic planes at {np.unique(np.round(np.mod(xr, W), 6))[:8].tolist()}..., '
                f'cell width {W})')
            return failed
        if abs(up - dn) > 1e-6 * W:
            bad('between-planes', f'offered shift #{si} of {nsh} ({sh_.tolist()}): the cut is not midway between the planes '
                f'it separates ({up} above, {dn} below)')
            return failed
    # ---- offered shifts (up to 6) built, random multipliers / minwidth / even / vacuum ---------------------------
    idxs = list(range(nsh)) if nsh <= 6 else sorted(rng.sample(range(nsh), 6))
    system = None
    small = int(sf.rcell.natoms) <= 4
    for si in idxs:
        sizemults = [rng.choice([1, 1, 2, -2, (-1, 1)]) for _ in range(3)]
        sizemults[ci] = rng.choice([1, 2, 3, -1, -2, 5, -3])
        minwidth = rng.choice([None, None, rng.uniform(0.5, 3.5) * W, rng.randrange(1, 7) * W])
        if small and rng.random() < 0.12:
            # counts at which k (1/k) != 1 / np.arange(0, 1, 1/k) is one element too long, as a multiple of the cell width
            minwidth = rng.choice(TRAP_COUNTS[:6]) * W
            sizemults = [1 if i != ci else sizemults[ci] for i in range(3)]
        even = rng.choice([True, True, 1, np.True_]) if rng.random() < 0.4 else rng.choice([False, False, 0])
        vac = rng.choice([None, None, rng.uniform(0.5, 9.0), 4.0])
        kw = dict(shiftindex=si, sizemults=list(sizemults), minwidth=minwidth, even=even, vacuumwidth=vac)
        system = sf.surface(**kw)
        tag = f'surface({kw})'
        P = np.asarray(system.atoms.pos, dtype=float)
        if [bool(x) for x in system.pbc] != [i != ci for i in range(3)]:
            bad('pbc', f'{tag}: pbc {list(system.pbc)}')
        mabs = []
        for i in range(3):
            m = sizemults[i]
            mabs.append(m[1] - m[0] if isinstance(m, tuple) else abs(m))
        mcut = int(round((float(system.box.vects[ci, ci]) - (vac or 0.0)) / W))
        if mcut < mabs[ci] or (minwidth is not None and mcut * W < minwidth * (1 - 1e-12)) or (even and mcut % 2):
            bad('multiplier', f'{tag}: {mcut} cells along the cut (requested {sizemults[ci]}, minwidth {minwidth}, '
                f'even {even}, cell width {W})')
        # (exact: a correctly rounded minwidth / W never exceeds the integer the exact quotient stays below)
        target = max(mabs[ci], 1 if minwidth is None else int(math.ceil(F(float(minwidth)) / F(W))))
        if even and target % 2:
            target += 1
        if mcut > target:
            bad('multiplier', f'{tag}: {mcut} cells along the cut is more than asked for ({target})')
        want = int(sf.rcell.natoms) * mabs[(ci + 1) % 3] * mabs[(ci + 2) % 3] * mcut
        if system.natoms != want:
            bad('same-crystal', f'{tag}: {system.natoms} atoms, expected {want}')
            continue
        shift = np.asarray(sf.shifts[si], dtype=float)
        if any(abs(shift[i]) > 0 for i in inpl):
            bad('shifts', f'shift {shift.tolist()} is not along the cut direction')
        msg, counts = _crystal_census(P - shift, system.atoms.atype, T, ucell, tag)
        if msg is None and len(set(counts)) != 1:
            msg = f'{tag}: unit-cell atoms are represented {counts} times'
        if msg is None:
            # no two atoms on one site: relative coordinates of the supercell are pairwise distinct
            rel = (P - system.box.origin) @ np.linalg.inv(system.box.vects)
            key = {tuple(np.round(r, 6)) for r in rel}
            if len(key) != len(P):
                msg = f'{tag}: {len(P) - len(key)} atoms share a site with another atom'
        if msg:
            bad('same-crystal', msg)
            continue
        # the cut (cell faces across the non-periodic direction) is strictly between two atomic planes, midway
        xs = P[:, ci]
        lo = float(system.box.origin[ci])
        hi = lo + float(system.box.vects[ci, ci])
        glo, ghi = float(xs.min()) - lo, hi - float(xs.max())
        mlo, mhi = glo - (vac or 0.0) / 2, ghi - (vac or 0.0) / 2
        if glo <= 10 * tol or ghi <= 10 * tol:
            bad('between-planes', f'{tag}: an atomic plane lies on the cut ({glo} / {ghi} between the outermost planes and '
                f'the two faces)')
        elif vac and abs(glo - ghi) > 1e-6 * W:
            bad('vacuum', f'{tag}: the vacuum is not split evenly ({glo} below the slab, {ghi} above)')
        elif mlo <= 10 * tol or mhi <= 10 * tol:
            bad('between-planes', f'{tag}: an atomic plane lies on the cut (distances {mlo}, {mhi} to the two faces '
                f'after removing the vacuum)')
        elif abs(mlo - mhi) > 1e-6 * W:
            bad('between-planes', f'{tag}: the cut is not midway between the planes it separates '
                f'({mlo} below the first plane, {mhi} above the last)')
        srel = (P - system.box.origin) @ np.linalg.inv(system.box.vects)
        if vac is None:
            if srel.min() < -1e-9 or srel.max() > 1 + 1e-9:
                bad('inside', f'{tag}: atoms outside the box (relative coordinates {srel.min()}..{srel.max()})')
        else:
            # "contains the same crystal" with vacuum: the same atoms at the same Cartesian positions as the build
            # without vacuum, the same periodic in-plane cell vectors (so the same positions modulo them), only the
            # extent across the non-periodic cut grows by vac, split evenly; atoms strictly inside across the cut.
            # The property does NOT say that the in-plane *relative* coordinates stay in [0, 1): when the cut vector is
            # tilted off the normal, stretching only its cut component moves them by (s_c - s_c') x (the tilt in units
            # of the in-plane vectors); those atoms are periodic images of atoms inside (counted, not a failure).
            ref = sf.surface(**dict(kw, vacuumwidth=None, sizemults=list(sizemults)))
            Pr = np.asarray(ref.atoms.pos, dtype=float)
            dv = np.asarray(system.box.vects, dtype=float) - np.asarray(ref.box.vects, dtype=float)
            do = np.asarray(system.box.origin, dtype=float) - np.asarray(ref.box.origin, dtype=float)
            wantdv = np.zeros((3, 3))
            wantdv[ci, ci] = vac
            wantdo = np.zeros(3)
            wantdo[ci] = -vac / 2
            if Pr.shape != P.shape or not np.array_equal(Pr, P) or not np.array_equal(ref.atoms.atype, system.atoms.atype):
                bad('vacuum', f'{tag}: the atoms are not those of the same build without vacuum')
            elif np.abs(dv - wantdv).max() > 1e-12 * max(1.0, W) or np.abs(do - wantdo).max() > 1e-12 * max(1.0, W):
                bad('vacuum', f'{tag}: box changed by {dv.tolist()} / origin by {do.tolist()}, expected +{vac} on the cut '
                    f'component of the cut vector and -{vac / 2} on the origin only')
            elif srel[:, ci].min() <= 0 or srel[:, ci].max() >= 1:
                bad('inside', f'{tag}: atoms outside the box across the non-periodic cut (relative coordinate '
                    f'{srel[:, ci].min()}..{srel[:, ci].max()})')
            ve = ctx.extra.setdefault('vacuum_builds', {'systems': 0, 'tilted_cut_vector': 0, 'inplane_relative_outside_0_1': 0})
            ve['systems'] += 1
            ve['tilted_cut_vector'] += int(any(abs(float(system.box.vects[ci, j])) > 1e-9 * W for j in inpl))
            ve['inplane_relative_outside_0_1'] += int(srel[:, inpl].min() < -1e-9 or srel[:, inpl].max() > 1 + 1e-9)
            system = sf.surface(**dict(kw, sizemults=list(sizemults)))       # leave the vacuum build stored
    if failed or system is None:
        return failed
    # ---- stacking fault on the last surface system ---------------------------------------------------------
    P = np.asarray(system.atoms.pos, dtype=float).copy()
    xs = np.unique(np.round(P[:, ci], 6))
    gaps = [(xs[i], xs[i + 1]) for i in range(len(xs) - 1) if xs[i + 1] - xs[i] > 1e-3]
    if not gaps:
        return failed
    a1c = np.asarray(rbox.vects[inpl[0]], dtype=float)      # Cartesian images of the two in-plane lattice vectors
    a2c = np.asarray(rbox.vects[inpl[1]], dtype=float)
    ovect = np.zeros(3)
    ovect[ci] = 1.0
    inv = np.linalg.inv(np.asarray(system.box.vects, dtype=float))
    trials = [(rng.choice([0.5, 1 / 3, 0.25, 0.125, 0.7]), rng.choice([0.0, 0.5, 2 / 3, 0.3]), rng.choice([None, 0.0, 0.3])),
              (1.0, 0.0, None), (0.0, 1.0, None), (-1.0, 1.0, None), (2.0, -1.0, 0.0)]
    o_c, w_c = float(system.box.origin[ci]), float(system.box.vects[ci, ci])
    for it, (a1, a2, oop) in enumerate(trials):
        p, q = rng.choice(gaps)
        fp = float((p + q) / 2)
        fkw = dict(a1=a1, a2=a2, faultpos_cart=fp)
        if it % 2 == 1:
            # the same plane given as a fraction of the extent of the box across the cut
            fkw = dict(a1=a1, a2=a2, faultpos_rel=(fp - o_c) / w_c)
            fp = o_c + fkw['faultpos_rel'] * w_c
        if oop is not None:
            fkw['outofplane'] = oop
        tag = f'fault({fkw}) after surface({kw})'
        frep_full = dict(rep, surface=kw, fault=fkw)
        try:
            new = sf.fault(**fkw)
        except ValueError as e:
            bad('fault', f'{tag} raised ValueError({e})')
            continue
        Q = np.asarray(new.atoms.pos, dtype=float)
        req = a1 * a1c + a2 * a2c + (oop or 0.0) * ovect
        above = P[:, ci] > fp
        if [bool(x) for x in sf.abovefault] != [bool(x) for x in above]:
            bad('fault-mask', f'{tag}: abovefault is not (cut coordinate > {fp})')
            continue
        d = Q - P - np.outer(above, req)
        drel = d @ inv
        nint = np.rint(drel)
        wrong = (np.abs(drel - nint) > 1e-7).any(axis=1) | (np.abs(d[:, ci]) > 1e-7)
        if wrong.any():
            i = int(np.argmax(wrong))
            side = 'above' if above[i] else 'below'
            bad('fault-' + side, f'{tag}: atom {i} ({side} the fault plane, at {P[i].tolist()}) moved by '
                f'{(Q[i] - P[i]).tolist()}, requested {req.tolist() if above[i] else [0, 0, 0]} modulo the in-plane '
                f'cell vectors')
            continue
        lattice = float(a1).is_integer() and float(a2).is_integer() and not oop
        if lattice:
            # a full in-plane lattice vector restores the perfect crystal: same set of sites, same types
            rP = (P - system.box.origin) @ inv
            rQ = (Q - system.box.origin) @ inv
            dd = rQ[:, None, :] - rP[None, :, :]
            dd[:, :, inpl] -= np.rint(dd[:, :, inpl])
            same = (np.abs(dd) < 1e-6).all(axis=2) & (np.asarray(new.atoms.atype)[:, None]
                                                      == np.asarray(system.atoms.atype)[None, :])
            if not ((same.sum(axis=0) == 1).all() and (same.sum(axis=1) == 1).all()):
                bad('fault-restores', f'{tag}: shifting by the lattice vector {a1} a1 + {a2} a2 does not restore the crystal')
    return failed


def _fs_specs(ctx, rng, count):
    specs = []
    small = planes(2)
    for i in range(count):
        exact = i % 3 == 0
        a, c = crystal_params(rng, exact)
        nm = pick_crystal(rng, i, rng.randrange(3))
        hkl = rng.choice(small)
        if rng.random() < (0.6 if nm.startswith('g') else 0.35):
            hkl = rng.choice([(1, 0, 0), (0, 1, 0), (0, 0, 1), (0, 0, -1), (1, 1, 0), (1, 1, 1), (0, 1, 1), (1, -1, 0)])
            cut = rng.choice(CUTS)
        else:
            cut = rng.choice(('c', 'c', 'a', 'b'))
        if i % 4 == 1 and not nm.startswith('g'):
            # decimal lattice constants x high-index planes (layer heights on multiples of the rounding step)
            exact, a = False, rng.choice(DECIMAL_A)
            c = round(a * rng.choice([1.6, 1.633, 1.5]), 3)
            hkl = high_plane(rng, big=nm in ('fcc', 'L12', 'bcc', 'B2'))
        hkl = layer_plane(rng, nm, hkl)
        if i < 4:
            # every run: face-centred cubic family x decimal a x a plane with rational interplanar spacing
            nm = ['fcc', 'L12', 'diamond', 'fcc'][i]
            exact, a = False, rng.choice(DECIMAL_A)
            c = round(a * 1.6, 3)
            hkl = _permuted(rng, [(2, 2, 1), (2, 2, 1), (2, 2, 1), (3, 4, 0)][i])
            cut = rng.choice(CUTS)
        elif i == 7 or (i == 8 and ctx.thorough):
            # every run: a rotated cell of more than 256 (thorough: 512) atoms, hundreds of layers
            nm, hkl = [('fcc', (1, 4, 8)), ('L12', (4, 4, 7)), ('diamond', (2, 3, 6))][rng.randrange(3)] if i == 7 else \
                ('diamond', (1, 4, 8))
            exact, a = False, rng.choice(DECIMAL_A + [3.6149, 4.0495])
            c = round(a * 1.6, 3)
            hkl = _permuted(rng, hkl)
            cut = rng.choice(CUTS)
        elif i < 7:
            # every run: the smallest rotated cells - two atoms in ONE layer, one atom anywhere in the cell
            nm = gen_crystal_name(rng, 2 if i < 6 else 1, fam=rng.choice(['cub', 'tet', 'ort', 'obc']), share=True)
            k = shared_axis(nm)
            hkl = tuple(rng.choice([1, -1]) if j == k else 0 for j in range(3))
            cut = rng.choice(CUTS)
        if _is_hex(nm) and rng.random() < 0.5:
            hkl = (hkl[0], hkl[1], -(hkl[0] + hkl[1]), hkl[2])
        st = {'fcc-prim': 'f', 'bcc-prim': 'i'}.get(nm, 'p')
        hkl3 = hkl if len(hkl) == 3 else (hkl[0], hkl[1], hkl[3])
        specs.append({'crystal': nm, 'a': a, 'c': c, 'exact': exact, 'hkl': list(hkl), 'cut': cut,
                      'tol': rng.choice([1e-7, 1e-8, 1e-6]), 'maxindex': _capped(hkl3, st, plane_cap(hkl3)),
                      'seed': rng.randrange(1 << 30)})
    return specs


def _impl_fsb_checked(arg):
    job, exact = arg
    return _impl_fsb(job)


def search(ctx, broken):
    rng = random.Random(ctx.seed * 7919 + 14)
    try:
        # (A) free_surface_basis: random planes x cells of every family x cuts x settings, both regimes
        N = ctx.n(5, 9)
        cap = ctx.n(4, 5)
        count = ctx.n(260, 3000) * (3 if broken else 1)
        ex = exact_cells(rng)
        fl = [(nm, b.vects.tolist()) for nm, b in float_cells(rng)]
        centred = []
        for st in ('f', 'i', 'a', 'b', 'c', 't1', 't2'):
            for nm, conv in ex:
                ok = {'t1': ('hexagonal',), 't2': ('hexagonal',), 'f': ('cubic', 'orthorhombic'),
                      'i': ('cubic', 'orthorhombic', 'tetragonal')}.get(st, ('orthorhombic', 'monoclinic', 'triclinic'))
                if nm not in ok:
                    continue
                prim = primitive_of([[x * (3 if st in ('t1', 't2') else 2) for x in r] for r in conv], st)
                if prim is not None and _det(prim) > 0:
                    centred.append((st, nm, prim))
        jobs = []
        for i in range(count):
            hkl = tuple(rng.randint(-N, N) for _ in range(3))
            if rng.random() < 0.3:
                hkl = tuple(x if rng.random() < 0.6 else 0 for x in hkl)
            if hkl == (0, 0, 0) and rng.random() < 0.8:
                hkl = (0, 0, rng.choice([-2, -1, 1, 3]))
            cut = rng.choice(CUTS)
            k = rng.random()
            if k < 0.4:
                nm, vects = rng.choice(ex)
                st = rng.choice([None, 'p'])
                jobs.append(((vects, hkl, cut, _capped(hkl, st, cap), st, None), True))
            elif k < 0.65:
                st, nm, prim = rng.choice(centred)
                jobs.append(((prim, hkl, cut, _capped(hkl, st, cap), st, None), True))
            elif k < 0.9:
                nm, vects = rng.choice(fl)
                jobs.append(((vects, hkl, cut, _capped(hkl, None, cap), None, None), False))
            else:
                hexE = [v for nm, v in ex if nm == 'hexagonal'][0]
                hkil = (hkl[0], hkl[1], -(hkl[0] + hkl[1]), hkl[2])
                jobs.append(((hexE, hkil, cut, _capped(hkl, None, cap), None, rng.choice([None, True, False])), True))
        # the form matrix of the entry point: 2..5 indices x hexagonal or not x return_hexagonal
        hexE = [v for nm, v in ex if nm == 'hexagonal'][0]
        for nm, bx in (('hexagonal', hexE), rng.choice([e for e in ex if e[0] != 'hexagonal']), rng.choice(fl)):
            if nm == 'hexagonal' and bx is not hexE:
                continue
            for idx in ((1, 1), (1, 0, 2), (2, -1, -1, 1), (1, 2, -2, 1), (1, 0, -1, 0, 2)):
                for rh in (None, True, False):
                    jobs.append(((bx, idx, rng.choice(CUTS), 3, None, rh), bx is hexE or any(bx is e[1] for e in ex)))
        impls = _pmap(_impl_fsb, [j for j, _ in jobs])
        nf = 0
        for (job, exact), impl in zip(jobs, impls):
            ctx.stats.case('oracle:fsb' + (':exact' if exact else ':float'),
                           (tuple(map(tuple, job[0])), tuple(job[1]), job[2], job[3], job[4], job[5]),
                           nontrivial=impl[0] == 'ok')
            if o_fsb(ctx, job, exact, impl=impl):
                nf += 1
        ctx.extra['oracle_fsb'] = {'cases': len(jobs), 'failed': nf}
    finally:
        _close_pool()
    # (B)+(C) FreeSurface / StackingFault systems
    specs = _fs_specs(ctx, rng, ctx.n(36, 320) * (2 if broken else 1))
    nf = nsys = 0
    for spec in specs:
        ctx.stats.case('oracle:FreeSurface:' + _kind(spec['crystal']),
                       (spec['crystal'], spec['a'], spec['c'], tuple(spec['hkl']), spec['cut'], spec['seed']))
        try:
            f = o_free_surface(ctx, spec)
        except Exception as e:  # noqa  (an unexpected exception class is a finding of its own)
            ctx.violate('fs:exception', f'{spec}: {type(e).__name__}: {e}', dict(spec, op='o_fs'))
            f = ['exception']
        nf += bool(f)
        nsys += 1
    ctx.extra['oracle_free_surface'] = {'cases': nsys, 'failed': nf}
    # (D) histories on one object
    _search_histories(ctx, broken)
    ctx.extra.pop('_reported', None)


def replay(ctx, payload):
    r = payload.get('replay') or {}
    op = r.get('op')
    if op == 'o_fsb':
        vects, hkl, cut, n, setting, rh = r['job']
        f = o_fsb(ctx, (vects, tuple(hkl), cut, n, setting, rh), r.get('exact', False))
        print('replay free_surface_basis oracle:', f or 'all clauses hold')
    elif op == 'o_fs':
        spec = {k: r[k] for k in ('crystal', 'a', 'c', 'exact', 'hkl', 'cut', 'tol', 'maxindex', 'seed')}
        f = o_free_surface(ctx, spec)
        print('replay FreeSurface/StackingFault oracle:', f or 'all clauses hold')
    elif op == 'hist':
        spec = {k: v for k, v in r.items() if k != 'ops'}
        f, _ = run_history(ctx, spec, 'oracle', ops=r.get('ops'))
        print('replay history oracle:', f or 'all clauses hold')
        if ctx.driver is not None:
            f, _ = run_history(ctx, spec, 'model', ops=r.get('ops'))
            print('replay history against the model:', f or 'agrees')
    else:
        if ctx.driver is not None:
            correspond(ctx)
            for d in ctx.disagreements[:10]:
                print('replay: model/implementation disagree:', d.what)
        search(ctx, True)
        print('replay:', 'still fails' if (ctx.violations or ctx.disagreements) else 'passes now')


MANIFEST = {
    'text': 'Lean 4 theorems over an executable model of free_surface_basis / FreeSurface / StackingFault.fault, for ALL '
            'integer planes, cells over every ordered field, maxindex and centring matrices: a successful run returns '
            'non-zero integer vectors inside the index cube, the out-of-plane one an exact gcd reduction (primitive); the '
            'two in-plane vectors satisfy the zone law h u + k v + l w = 0 in the indices of the conventional cell the '
            'plane refers to, the third does not and lies on the side of the normal; (a x b).c > 0 for the Cartesian '
            'images, hence det(uvws) > 0 for a right-handed cell under all three cutboxvector orderings; the reported '
            'normal is the one miller.plane_crystal_to_cartesian computes and a positive multiple of '
            'det.(h a*+k b*+l c*); a is a shortest in-plane candidate, c has the largest cosine to the normal, b is a '
            'shortest second in-plane candidate with the smallest angle to a; ValueError exactly for the zero plane. '
            'Every offered termination shift is minus the midpoint of two neighbouring layers modulo the cell width, so '
            'every image of every layer stays half the interlayer gap away from the cut; surface() holds m_a m_b m_c '
            'copies of each rotated-cell atom at original + shift + lattice vector, inside the supercell, pbc off '
            'across the cut only, multiplier rules, vacuum split evenly; fault() leaves atoms at or below the plane '
            'where they are and moves those above by the requested vector modulo the periodic cell vectors; a shift by '
            'a periodic cell vector (or any translation symmetry of the upper half) restores the crystal. On the object '
            'level (state kept between calls) the cached abovefault mask is, after ANY history of calls including refused '
            'ones, the mask of the stored system at the stored plane, so fault() always satisfies the two clauses for the '
            'current system and plane; an accepted surface() call forgets the past (same results as a new object with the '
            'same final arguments), its default plane is the middle of the new system; inserting vacuum keeps atoms, pbc '
            'and in-plane cell vectors, the relative coordinate across the cut becomes (s w + vac/2)/(w + vac). '
            'iterfaultmap(n1, n2) visits exactly the n1 n2 points (i/n1, j/n2), all in [0,1)x[0,1), pairwise distinct, one '
            'configuration each, for every pair of counts; a rotated cell with a single layer at any height gets exactly '
            'one shift, which puts the layer half a cell width from the cut. The model is '
            'tied to the code by an exhaustive differential run over planes x families x cuts x settings and over '
            'built surface / fault systems and over histories of calls on single objects.',
    'note': 'Trusted: Lean kernel + propext/Classical.choice/Quot.sound; numpy; isclose/arccos comparisons modelled as '
            'exact comparisons (float ties handled relationally in the correspondence); floor and sqrt are parameters with '
            'their defining inequalities; rotate/normalize of the unit cell are C04/C05 (here checked on the real objects '
            'by a site census). See docs/C14.md.',
    'technique': 'Lean 4 theorems over a model whose branches, orders, defaults and formulas are regenerated from the '
                 'source with ast on every run and proved equal to it (gen_..._eq_model) + differential correspondence '
                 '+ exact clause oracle',
}
